(** C10 -- copying, pickling and eliminating 1:1 forks never change the Boolean function observed at the circuit's ports
    and state elements, nor the names (and, for copy / pickle, the order) of those ports and state elements.  Statements only.
    (substitute / resolve_tlib_cells: see the second half of the property, handled separately.)

    Model: Model/Circuit.v (transcription of circuit.py with stable object ids), [view c] = the netlist the simulators
    read off a Circuit (Model/CircuitView.v), [s_names c] = [n.name for n in c.s_nodes];
    semantics: NetlistSem.solution (gate-by-gate, any value domain) on the view, and its id-based form [csol]
    (Model/CircuitSem.v: valuation of line IDS, stimulus keyed by node ID), proved equivalent below. *)
From Coq Require Import List NArith Bool Arith String Permutation.
From KV Require Model.Netlist Model.NetlistWf Model.SimOps Model.NetlistSem.
From KV Require Import Model.Circuit Model.CircuitInv Model.CircuitView Model.CircuitSem
     Proofs.CircuitHistory Proofs.CircuitViewProofs Proofs.CircuitElimSem.
Import ListNotations.
Local Open Scope list_scope.

(** * 1. Bridge: every consistent circuit state IS a well-formed netlist, so every theorem that assumes [wf_netlist]
    (C01 / C07 / C17) applies to every circuit reachable by an edit history *)
Theorem C10_view_wf : forall c, CInv c -> IoLive c -> NetlistWf.wf_netlist (view c).
Proof. exact view_wf. Qed.
Theorem C10_history_view_wf : forall ops, forallb supported ops = true -> hist_pre empty ops = true ->
  exists c, run_hist ops = Some c /\ CInv c /\ IoLive c /\ NetlistWf.wf_netlist (view c).
Proof. exact history_view_wf. Qed.

(** * 2. copy() and the pickle round trip: same netlist up to trailing unconnected pins, same names and order of
    s_nodes, same node names by position, same set of gate-by-gate solutions in every value domain *)
Theorem C10_copy_view : forall c c', CInv c -> io_ok_b c = true -> copy c = Some c' ->
  CInv c' /\ IoLive c' /\ pin_equiv (view c') (view c) /\ s_names c' = s_names c /\
  map (name_of c') (nodes c') = map (name_of c) (nodes c).
Proof. exact copy_view. Qed.
Theorem C10_pickle_view : forall c c', CInv c -> io_ok_b c = true -> pickle_roundtrip c = Some c' ->
  CInv c' /\ IoLive c' /\ pin_equiv (view c') (view c) /\ s_names c' = s_names c /\
  map (name_of c') (nodes c') = map (name_of c) (nodes c).
Proof. exact pickle_view. Qed.
Theorem C10_pin_equiv_solution : forall V (sem : N -> V -> V -> V -> V -> V) (zero : V) a b stim v, pin_equiv a b ->
  (NetlistSem.solution sem zero a stim v <-> NetlistSem.solution sem zero b stim v).
Proof. exact pin_equiv_solution. Qed.
Theorem C10_copy_solution : forall V (sem : N -> V -> V -> V -> V -> V) (zero : V) c c' stim v,
  CInv c -> io_ok_b c = true -> copy c = Some c' ->
  (NetlistSem.solution sem zero (view c') stim v <-> NetlistSem.solution sem zero (view c) stim v).
Proof. exact copy_solution. Qed.
Theorem C10_pickle_solution : forall V (sem : N -> V -> V -> V -> V -> V) (zero : V) c c' stim v,
  CInv c -> io_ok_b c = true -> pickle_roundtrip c = Some c' ->
  (NetlistSem.solution sem zero (view c') stim v <-> NetlistSem.solution sem zero (view c) stim v).
Proof. exact pickle_solution. Qed.
(* [view c' = view c] is NOT a theorem: Line.remove leaves a trailing None in the pin list of a cell, copy() does not
   recreate it (hypotheses of the theorems above hold for this instance) *)
Theorem C10_copy_view_not_equal :
  run_hist trailing_none_history = Some tn_c /\ hist_pre empty trailing_none_history = true /\
  copy tn_c = Some tn_c' /\ view tn_c' <> view tn_c /\
  Netlist.n_outs (Netlist.get_node (view tn_c) 0) = [Some 0; None] /\
  Netlist.n_outs (Netlist.get_node (view tn_c') 0) = [Some 0].
Proof. exact copy_view_not_equal. Qed.

(** * 3. eliminate_1to1_forks *)
(* (a) the id-based semantics is the netlist semantics of the view *)
Theorem C10_csol_iff_solution : forall V (sem : N -> V -> V -> V -> V -> V) (zero : V) c, CInv c -> IoLive c ->
  forall stim v, csol sem zero c stim v <-> NetlistSem.solution sem zero (view c) (stim_by_pos c stim) (val_by_idx c v).
Proof. exact @csol_iff_solution. Qed.
Theorem C10_solution_iff_csol : forall V (sem : N -> V -> V -> V -> V -> V) (zero : V) c, CInv c -> IoLive c ->
  forall stim w, NetlistSem.solution sem zero (view c) stim w <-> csol sem zero c (stim_by_id zero c stim) (val_by_id c w).
Proof. exact @solution_iff_csol. Qed.

(* (b)+(c) in every value domain in which a buffer copies its operand: the call does not raise (C09_eliminate), io_nodes,
   all names and kinds are unchanged, only forks that are not interface nodes disappear, the set of interface nodes is
   unchanged, every solution of the circuit is (restricted to the surviving lines) a solution of the result, every solution of
   the result extends to one of the original, and both read the same value at every input pin of every surviving node --
   in particular at the inputs of the ports and state elements *)
Theorem C10_eliminate_function : forall V (sem : N -> V -> V -> V -> V -> V) (zero : V),
  (forall x a b d, sem (SimOps.lutv "BUF1") x a b d = x) ->
  forall c c', CInv c -> IoLive c -> elim_ok_b c = true -> eliminate_1to1 c = Some c' ->
  CInv c' /\ IoLive c' /\
  io c' = io c /\ (forall x, name_of c' x = name_of c x /\ kind_of c' x = kind_of c x) /\
  (forall m, In m (nodes c') -> In m (nodes c)) /\ (forall l, In l (lines c') -> In l (lines c)) /\
  (forall m, In m (nodes c) -> In m (nodes c') \/ (is_fork (kind_of c m) = true /\ ciface c m = false)) /\
  (forall m, (In m (nodes c') /\ ciface c' m = true) <-> (In m (nodes c) /\ ciface c m = true)) /\
  (forall stim v, csol sem zero c stim v ->
     csol sem zero c' stim v /\ forall m k, In m (nodes c') -> obs zero c v m k = obs zero c' v m k) /\
  (forall stim v', csol sem zero c' stim v' ->
     exists v, csol sem zero c stim v /\ (forall l, In l (lines c') -> v l = v' l) /\
               forall m k, In m (nodes c') -> obs zero c v m k = obs zero c' v' m k).
Proof. exact eliminate_function. Qed.
Theorem C10_eliminate_solution_view : forall V (sem : N -> V -> V -> V -> V -> V) (zero : V),
  (forall x a b d, sem (SimOps.lutv "BUF1") x a b d = x) ->
  forall c c', CInv c -> IoLive c -> elim_ok_b c = true -> eliminate_1to1 c = Some c' ->
  (forall stim v, NetlistSem.solution sem zero (view c) (stim_by_pos c stim) (val_by_idx c v) ->
                  NetlistSem.solution sem zero (view c') (stim_by_pos c' stim) (val_by_idx c' v)) /\
  (forall stim v', NetlistSem.solution sem zero (view c') (stim_by_pos c' stim) (val_by_idx c' v') ->
     exists v, NetlistSem.solution sem zero (view c) (stim_by_pos c stim) (val_by_idx c v) /\
               forall l, In l (lines c') -> v l = v' l).
Proof. exact eliminate_solution_view. Qed.
(* the hypothesis on the value domain holds for the 2-valued LUT interpretation of C01 *)
Theorem C10_sem_lut_buf : forall x a b d, NetlistSem.sem_lut (SimOps.lutv "BUF1") x a b d = x.
Proof. exact sem_lut_buf. Qed.

(** * 4. names and order of s_nodes under eliminate_1to1_forks: the ports keep their positions and names, the state
    elements keep their names but only as a multiset ... *)
Theorem C10_eliminate_s_names : forall c c', CInv c -> IoLive c -> elim_ok_b c = true -> eliminate_1to1 c = Some c' ->
  exists ports st st', s_names c = ports ++ st /\ s_names c' = ports ++ st' /\ Permutation st' st /\
                       List.length ports = List.length (io c) /\ ports = map (name_of c) (io_ids c).
Proof. exact eliminate_s_names. Qed.
Theorem C10_eliminate_s_names_perm : forall c c', CInv c -> IoLive c -> elim_ok_b c = true -> eliminate_1to1 c = Some c' ->
  Permutation (s_names c') (s_names c).
Proof. exact eliminate_s_names_perm. Qed.
(* ... and "nor the order of the state elements" is FALSE for the code (known finding D29): Node.remove moves the LAST node
   into the hole.  Wanted, refuted:  forall c c', CInv c -> elim_ok_b c = true -> eliminate_1to1 c = Some c' -> s_names c' = s_names c.
   Witness: nodes [i, f, d1, o, f2, d2], i -> f -> d1 -> f2 -> d2 -> o, io_nodes [i, o] (a well-formed 13-step history) *)
Theorem C10_eliminate_state_order_refuted :
  exists c c', run_hist order_history = Some c /\ hist_pre empty order_history = true /\
               CInv c /\ IoLive c /\ elim_ok_b c = true /\ eliminate_1to1 c = Some c' /\
               s_names c = ["i"; "o"; "d1"; "d2"]%string /\ s_names c' = ["i"; "o"; "d2"; "d1"]%string /\
               s_names c' <> s_names c /\ Permutation (s_names c') (s_names c).
Proof. exact eliminate_state_order_refuted. Qed.

(* a sufficient condition under which the ORDER is kept as well: every flip-flop / latch precedes, in Circuit.nodes, every fork
   that the loop removes (1:1 forks outside the interface) -- then s_nodes is unchanged as a list of node ids and of names *)
From KV Require Proofs.CircuitElimOrder.
Theorem C10_eliminate_order_kept : forall c c', CInv c -> IoLive c -> elim_ok_b c = true -> state_first c ->
  eliminate_1to1 c = Some c' -> s_node_ids c' = s_node_ids c /\ s_names c' = s_names c.
Proof. exact CircuitElimOrder.eliminate_order_kept. Qed.
Theorem C10_state_first_b_sound : forall c, state_first_b c = true -> state_first c.
Proof. exact CircuitElimOrder.state_first_b_sound. Qed.
(* ... satisfiable with forks that are removed: nodes [i, d1, o, f, f2], i -> f -> d1 -> f2 -> o *)
Theorem C10_order_kept_example :
  run_hist CircuitElimOrder.kept_history = Some CircuitElimOrder.kept_c /\ hist_pre empty CircuitElimOrder.kept_history = true /\
  CInv CircuitElimOrder.kept_c /\ IoLive CircuitElimOrder.kept_c /\ elim_ok_b CircuitElimOrder.kept_c = true /\
  state_first CircuitElimOrder.kept_c /\ eliminate_1to1 CircuitElimOrder.kept_c = Some CircuitElimOrder.kept_c' /\
  List.length (nodes CircuitElimOrder.kept_c) = 5 /\ List.length (nodes CircuitElimOrder.kept_c') = 3 /\
  s_names CircuitElimOrder.kept_c' = ["i"; "o"; "d1"]%string.
Proof. exact CircuitElimOrder.kept_example. Qed.

(** * 5. the hypotheses are satisfiable, and the bridge in action: for the witness circuit (input, two 1:1 forks, two flip-flops,
    output; given as an edit history) and EVERY stimulus, the op list SimOps schedules for its view computes a solution
    (C01_build_ops_solution applies through C10_view_wf); read by ids it is a solution of the circuit state and -- same
    valuation, same stimulus by id -- of the state after eliminate_1to1_forks *)
From KV Require Model.AllocCheck Proofs.CircuitC10Example.
Theorem C10_example_solution : forall stim : nat -> bool,
  let w := AllocCheck.iexec NetlistSem.sem_lut (fun x => x) (SimOps.build_ops (view order_c) false)
                            (NetlistSem.init_env false (view order_c) stim) in
  NetlistSem.solution NetlistSem.sem_lut false (view order_c) stim w /\
  csol NetlistSem.sem_lut false order_c (stim_by_id false order_c stim) (val_by_id order_c w) /\
  csol NetlistSem.sem_lut false order_c' (stim_by_id false order_c stim) (val_by_id order_c w).
Proof. exact CircuitC10Example.example_solution. Qed.

(** * 6. substitute on ARBITRARY implementation circuits (resolve_tlib_cells is a loop of substitute calls).
    Vocabulary (Model/CircuitSubstSem.v): [substitute_pre c u impl = Some (c4, dl, m)] is Circuit.substitute cut before the final
    clean-up loop: [c4] = the state after every instance pin is re-attached, [dl] = the nodes collected below unconnected instance
    outputs, [m] = node_map (implementation node -> its copy; the designated cell -> the instance node [u]).
    [inst_sol sem zero c u impl m stim v]: the valuation [v] of the HOST's lines satisfies the equation of every host node except the
    instance, and some solution [w] of the implementation -- input port number k fed with the value of the host line at instance
    input pin k (an unconnected pin reads [zero]), its state elements fed with the stimulus of their copies -- delivers at output
    port number k the value of the host line at instance output pin k: "the instance is read as the implementation's function of
    its input pins".  [SubstSem] / [SubstFull] (Proofs/CircuitSubstMain.v) package the conclusions.
    Hypotheses, each with a boolean checker that the check evaluates on every compared substitute case: the host is consistent
    (cinv_b, io_ok_b), the instance is a listed cell that is no port, the implementation is consistent and has the shape that
    C09_substitute assumes (subst_shape_b: ports are distinct forks, the designated cell is no port, no fork drives a pure output
    port) plus [pure_ports_b] (a port that is not read inside the implementation has its input line at pin 0), and the known
    finding D22 is excluded ([d22_free_b]: no unconnected instance input pin leads to pin 2 or 3 of the single reader of its
    port; trivially true when all input pins are connected).  D22 / D21 / D29 are refuted companions below. *)
From KV Require Import Model.CircuitSubstSem Model.CircuitSubstSem2.
From KV Require Proofs.CircuitSubstCheck Proofs.CircuitDanglingSem Proofs.CircuitSubstGlue Proofs.CircuitSubstSemGen
     Proofs.CircuitSubstMain Proofs.CircuitSubstExample Proofs.CircuitSubstWitness.
Import Proofs.CircuitDangling Proofs.CircuitDanglingSem Proofs.CircuitSubstGlue Proofs.CircuitSubstMain
       Proofs.CircuitSubstExample Proofs.CircuitSubstWitness.

(* (a) substitute = substitute_pre followed by the clean-up loop *)
Theorem C10_substitute_split : forall c u impl,
  substitute c u impl = match substitute_pre c u impl with Some (c4, dl, m) => cleanup dl c4 | None => None end.
Proof. exact CircuitSubstCheck.substitute_split. Qed.

(* (b) STRUCTURE, for all inputs: the state before the clean-up is consistent and is described pin by pin by SubstGlue -- every
   host node but the instance keeps kind, name and pins; the copy of an implementation node carries its kind (a port: a fork),
   the name instance~node, and at every pin the copy of the implementation line, or the host line of the instance pin the line
   leads to, or nothing *)
Theorem C10_substitute_pre_glue : forall c u impl c4 dl m,
  CInv c -> In u (nodes c) -> is_fork (kind_of c u) = false -> io_mem c u = false ->
  CInv impl -> IoLive impl -> subst_shape_b impl = true -> pure_ports impl ->
  substitute_pre c u impl = Some (c4, dl, m) ->
  CInv c4 /\ (IoLive c -> IoLive c4) /\ SubstGlue c u impl m c4 /\ (forall d, In d dl -> In d (nodes c4)).
Proof. exact substitute_pre_glue. Qed.
Theorem C10_pure_ports_b_sound : forall impl, pure_ports_b impl = true -> pure_ports impl.
Proof. exact pure_ports_b_sound. Qed.
(* the per-case decision procedure for the same relation is sound (a second, independent route: C10_substitute_pre_function_checked) *)
Theorem C10_subst_glue_b_sound : forall c u impl m c4, CInv impl ->
  subst_glue_b c u impl m c4 = true -> SubstGlue c u impl m c4.
Proof. exact CircuitSubstCheck.subst_glue_b_sound_cinv. Qed.

(* (c) SEMANTICS from the structure, in every value domain in which a buffer copies its operand: the solutions of the result and
   the valuations of the host in which the instance is read as the implementation's function are the same on the host's lines *)
Theorem C10_glue_function : forall V (sem : BinNums.N -> V -> V -> V -> V -> V) (zero : V),
  (forall x a b d, sem (SimOps.lutv "BUF1") x a b d = x) ->
  forall c u impl m c4,
  CInv c -> IoLive c -> In u (nodes c) -> io_mem c u = false ->
  CInv impl -> IoLive impl -> io_forks_b impl = true ->
  CInv c4 -> IoLive c4 -> SubstGlue c u impl m c4 ->
  d22_free_b c u impl = true ->
  (forall stim v, inst_sol sem zero c u impl m stim v ->
     exists v', csol sem zero c4 stim v' /\ (forall l, In l (lines c) -> v' l = v l)) /\
  (forall stim v', csol sem zero c4 stim v' -> inst_sol sem zero c u impl m stim v').
Proof. exact CircuitSubstSemGen.glue_function_gen. Qed.

(* (d) the theorem for the state before the clean-up: ANY subset of connected instance input and output pins.  SubstSem = the
   result is consistent, io_nodes is unchanged, every host node but the instance survives with its name and kind, the instance
   keeps its name, host lines survive, every node of the result is such a host node or the copy of an implementation node (kind
   of the implementation node / fork for a port, name instance~node), every [inst_sol] valuation extends to a solution of the
   result that agrees on all host lines and reads the same value at every input pin of every host node (ports and state elements
   in particular), and every solution of the result IS such a valuation *)
Theorem C10_substitute_pre_function : forall V (sem : BinNums.N -> V -> V -> V -> V -> V) (zero : V),
  (forall x a b d, sem (SimOps.lutv "BUF1") x a b d = x) ->
  forall c u impl c4 dl m,
  CInv c -> IoLive c -> In u (nodes c) -> is_fork (kind_of c u) = false -> io_mem c u = false ->
  CInv impl -> IoLive impl -> subst_shape_b impl = true -> pure_ports_b impl = true ->
  substitute_pre c u impl = Some (c4, dl, m) -> d22_free_b c u impl = true ->
  SubstSem sem zero c u impl m c4 /\ (forall d, In d dl -> In d (nodes c4)).
Proof. exact @substitute_pre_function. Qed.

(* (e) all instance output pins connected: nothing is cleaned up, the result of substitute is that state *)
Theorem C10_substitute_function : forall V (sem : BinNums.N -> V -> V -> V -> V -> V) (zero : V),
  (forall x a b d, sem (SimOps.lutv "BUF1") x a b d = x) ->
  forall c u impl c4 dl m,
  CInv c -> IoLive c -> In u (nodes c) -> is_fork (kind_of c u) = false -> io_mem c u = false ->
  CInv impl -> IoLive impl -> subst_shape_b impl = true -> pure_ports_b impl = true ->
  substitute_pre c u impl = Some (c4, dl, m) ->
  d22_free_b c u impl = true -> all_outs_connected_b c u impl = true ->
  dl = [] /\ substitute c u impl = Some c4 /\ SubstSem sem zero c u impl m c4.
Proof. exact @substitute_function. Qed.

(* (f) remove_dangling_nodes and the clean-up loop preserve the function (no assumption on the value domain): io_nodes, names and
   kinds are unchanged, nodes and lines only disappear, no port disappears, surviving nodes keep their input pins and their
   interface role, every solution restricts to a solution of the result and every solution of the result extends to one of the
   circuit that agrees on the surviving lines *)
Theorem C10_remove_dangling_function : forall V (sem : BinNums.N -> V -> V -> V -> V -> V) (zero : V),
  forall fuel c root c', CInv c -> IoLive c -> Known c root -> List.length (lines c) < fuel ->
  remove_dangling fuel c root = Some c' ->
  CInv c' /\ IoLive c' /\ io c' = io c /\
  (forall x, name_of c' x = name_of c x /\ kind_of c' x = kind_of c x) /\
  (forall n, In n (nodes c') -> In n (nodes c)) /\ (forall l, In l (lines c') -> In l (lines c)) /\
  (forall n, In n (nodes c') -> ciface c' n = ciface c n /\ ins_of c' n = ins_of c n) /\
  (forall n, In n (nodes c) -> ~ In n (nodes c') -> ~ In (Some n) (io c)) /\
  (forall stim v, csol sem zero c stim v -> csol sem zero c' stim v) /\
  (forall stim v', csol sem zero c' stim v' -> exists v, csol sem zero c stim v /\ forall l, In l (lines c') -> v l = v' l).
Proof. exact remove_dangling_sem. Qed.
Theorem C10_cleanup_function : forall V (sem : BinNums.N -> V -> V -> V -> V -> V) (zero : V),
  forall dl c4 c', CInv c4 -> IoLive c4 -> (forall d, In d dl -> In d (nodes c4)) -> cleanup dl c4 = Some c' ->
  DangSemStmt sem zero c4 c'.
Proof. exact cleanup_sem. Qed.

(* (g) THE GENERAL THEOREM: any successful call, any subset of connected pins (D22 excluded), clean-up included.  SubstFull: the
   result is consistent, io_nodes is unchanged (names and order of the ports), every node of the result is a host node with its
   name and kind or the copy of an implementation node, no host port disappears; every valuation of the host in which the instance
   is read as the implementation's function yields a solution of the result that agrees on all SURVIVING host lines and reads the
   same values at the input pins of the surviving host nodes, and every solution of the result comes from such a valuation.
   (Which nodes survive, and in which order the state elements are listed afterwards: D21 / D29 below.) *)
Theorem C10_substitute_function_full : forall V (sem : BinNums.N -> V -> V -> V -> V -> V) (zero : V),
  (forall x a b d, sem (SimOps.lutv "BUF1") x a b d = x) ->
  forall c u impl c',
  CInv c -> IoLive c -> In u (nodes c) -> is_fork (kind_of c u) = false -> io_mem c u = false ->
  CInv impl -> IoLive impl -> subst_shape_b impl = true -> pure_ports_b impl = true ->
  substitute c u impl = Some c' -> d22_free_b c u impl = true ->
  exists c4 dl m, substitute_pre c u impl = Some (c4, dl, m) /\ cleanup dl c4 = Some c' /\
                  SubstSem sem zero c u impl m c4 /\ DangSemStmt sem zero c4 c' /\ SubstFull sem zero c u impl m c'.
Proof. exact @substitute_function_full. Qed.
(* what SubstFull says, spelled out (so that the statement above can be read without the definition) *)
Theorem C10_subst_full_unfold : forall V (sem : BinNums.N -> V -> V -> V -> V -> V) (zero : V) c u impl m c',
  SubstFull sem zero c u impl m c' ->
  CInv c' /\ IoLive c' /\ io c' = io c /\
  (forall n, In n (nodes c') ->
     (In n (nodes c) /\ n <> u /\ name_of c' n = name_of c n /\ kind_of c' n = kind_of c n) \/
     (exists x, mget x m = Some n /\ In x (nodes impl) /\ kind_of c' n = (if in_ios impl x then FORK else kind_of impl x) /\
                (n <> u -> name_of c' n = tilde (name_of c u) (name_of impl x)) /\ (n = u -> name_of c' n = name_of c u))) /\
  (forall n, In n (nodes c) -> n <> u -> ~ In n (nodes c') -> ~ In (Some n) (io c)) /\
  (forall stim v, inst_sol sem zero c u impl m stim v ->
     exists v', csol sem zero c' stim v' /\ (forall l, In l (lines c) -> In l (lines c') -> v' l = v l) /\
                forall n k, In n (nodes c) -> n <> u -> In n (nodes c') -> obs zero c' v' n k = obs zero c v n k) /\
  (forall stim v', csol sem zero c' stim v' ->
     exists v, inst_sol sem zero c u impl m stim v /\ (forall l, In l (lines c) -> In l (lines c') -> v l = v' l) /\
               forall n k, In n (nodes c) -> n <> u -> In n (nodes c') -> obs zero c' v' n k = obs zero c v n k).
Proof. intros V sem zero c u impl m c' H. exact H. Qed.

(* (h) the same conclusion as (d) with the structure DECIDED on the case at hand instead of proved for all inputs *)
Theorem C10_substitute_pre_function_checked : forall V (sem : BinNums.N -> V -> V -> V -> V -> V) (zero : V),
  (forall x a b d, sem (SimOps.lutv "BUF1") x a b d = x) ->
  forall c u impl c4 dl m,
  CInv c -> IoLive c -> In u (nodes c) -> io_mem c u = false ->
  CInv impl -> IoLive impl -> io_forks_b impl = true -> CInv c4 -> IoLive c4 ->
  substitute_pre c u impl = Some (c4, dl, m) -> subst_glue_b c u impl m c4 = true -> d22_free_b c u impl = true ->
  SubstSem sem zero c u impl m c4.
Proof. exact @substitute_pre_function_checked. Qed.

(* (i) the hypotheses are satisfiable on a non-trivial instance: inputs with fan-out, an output that is read inside the
   implementation, a state element and a reader-less fork inside; 6 host nodes + 11 implementation nodes -> 14 nodes, 15 lines *)
Theorem C10_substitute_example :
  CInv ex_host /\ IoLive ex_host /\ In 0 (nodes ex_host) /\ is_fork (kind_of ex_host 0) = false /\ io_mem ex_host 0 = false /\
  CInv ex_impl /\ IoLive ex_impl /\ subst_shape_b ex_impl = true /\
  substitute_pre ex_host 0 ex_impl = Some (ex_c4, [], ex_m) /\
  d22_free_b ex_host 0 ex_impl = true /\ all_outs_connected_b ex_host 0 ex_impl = true /\
  subst_glue_b ex_host 0 ex_impl ex_m ex_c4 = true /\
  List.length (nodes ex_host) = 6 /\ List.length (nodes ex_impl) = 11 /\ List.length (nodes ex_c4) = 14 /\
  List.length (lines ex_c4) = 15 /\ List.length ex_m = 9 /\
  s_names ex_c4 = ["pi0"; "pi1"; "pi2"; "po0"; "po1"; "u1~q"]%string.
Proof. exact substitute_example. Qed.
Theorem C10_substitute_example_pure : pure_ports_b ex_impl = true.
Proof. vm_compute. reflexivity. Qed.

(* (j) known finding D22, refuted companion: WITHOUT d22_free_b the clause "every solution of the result is an inst_sol valuation"
   is false -- AND3 with its highest pin on an unconnected instance pin is scheduled as AND2 *)
Theorem C10_substitute_d22_refuted :
  CInv d22_host /\ IoLive d22_host /\ In 0 (nodes d22_host) /\ is_fork (kind_of d22_host 0) = false /\ io_mem d22_host 0 = false /\
  CInv d22_impl /\ IoLive d22_impl /\ subst_shape_b d22_impl = true /\
  substitute_pre d22_host 0 d22_impl = Some (d22_c4, [], d22_m) /\ substitute d22_host 0 d22_impl = Some d22_c4 /\
  all_outs_connected_b d22_host 0 d22_impl = true /\ subst_glue_b d22_host 0 d22_impl d22_m d22_c4 = true /\
  d22_free_b d22_host 0 d22_impl = false /\
  csol NetlistSem.sem_lut false d22_c4 d22_stim d22_v /\
  ~ inst_sol NetlistSem.sem_lut false d22_host 0 d22_impl d22_m d22_stim d22_v.
Proof. exact substitute_d22_refuted. Qed.
(* (k) known findings D21 and D29, refuted companions of "the state elements and their order are unchanged": the clean-up below an
   unconnected output removes the implementation's flip-flop (and host nodes that fed only removed logic), and Node.remove's
   swap-with-last permutes the surviving host state elements *)
Theorem C10_substitute_d21_refuted :
  CInv d21_host /\ IoLive d21_host /\ In 0 (nodes d21_host) /\ is_fork (kind_of d21_host 0) = false /\ io_mem d21_host 0 = false /\
  CInv d21_impl /\ IoLive d21_impl /\ subst_shape_b d21_impl = true /\ d22_free_b d21_host 0 d21_impl = true /\
  all_outs_connected_b d21_host 0 d21_impl = false /\
  substitute d21_host 0 d21_impl = Some d21_c' /\
  s_names d21_host = ["pi0"; "pi1"; "u1"]%string /\ s_names d21_c4 = ["pi0"; "pi1"; "u1"]%string /\
  s_names d21_c' = ["pi0"; "pi1"]%string /\ ~ In 0 (nodes d21_c').
Proof. exact substitute_d21_refuted. Qed.
Theorem C10_substitute_state_order_refuted :
  CInv d29_host /\ IoLive d29_host /\ In 5 (nodes d29_host) /\ is_fork (kind_of d29_host 5) = false /\ io_mem d29_host 5 = false /\
  CInv d29_impl /\ IoLive d29_impl /\ subst_shape_b d29_impl = true /\ d22_free_b d29_host 5 d29_impl = true /\
  substitute d29_host 5 d29_impl = Some d29_c' /\
  s_names d29_host = ["pi0"; "pi1"; "po0"; "po1"; "po2"; "d1"; "d2"; "d3"]%string /\
  s_names d29_c' = ["pi0"; "pi1"; "po0"; "po1"; "po2"; "d3"; "d2"]%string.
Proof. exact substitute_state_order_refuted. Qed.
(* (l) the additional shape hypothesis pure_ports cannot be dropped: an output port with TWO input pins (the code only looks at pin 0)
   passes every other hypothesis, the call succeeds, and the description SubstGlue of the result is false *)
Theorem C10_substitute_pure_ports_needed :
  CInv cx_host /\ IoLive cx_host /\ In 0 (nodes cx_host) /\ is_fork (kind_of cx_host 0) = false /\ io_mem cx_host 0 = false /\
  CInv cx_impl /\ IoLive cx_impl /\ subst_shape_b cx_impl = true /\ ~ pure_ports cx_impl /\
  exists c4 dl m, substitute_pre cx_host 0 cx_impl = Some (c4, dl, m) /\ ~ SubstGlue cx_host 0 cx_impl m c4.
Proof. exact pure_ports_needed. Qed.

(** * 7. resolve_tlib_cells as ONE theorem over its loop (Model/CircuitResolveSem.v, Proofs/CircuitResolveDang.v / CircuitResolveGlue.v /
    CircuitResolveSem.v).
    Vocabulary: [inst_ok sem zero c n impl m stim v] = the second half of [inst_sol] -- the lines at the output pins of node [n] carry the
    outputs of some solution of [impl] whose input port number k is fed with the line at input pin k of [n] (unconnected: zero) and
    whose state elements are fed with the stimulus of their copies ([m]: implementation node -> id of its copy).
    [rsol sem zero lib M c stim v]: [v] solves [c] with EVERY node whose kind is a key of the library table [lib] read through its
    implementation ([inst_ok] with the node map [M n]) and every other node through its own gate equation; without library kinds
    [rsol] is [csol] (C10_rsol_no_lib).  [Keep lib c c' n]: [n] is a node of both circuits and no library instance of [c].
    Hypotheses, all with boolean checkers that the check evaluates on every compared resolve case:
    [lib_ok_sem_b lib]: FORK is no key, no implementation contains a node of a library kind, every implementation is consistent
    (cinv_b, io_ok_b) and has the shapes subst_shape_b / pure_ports_b of section 6;
    [lib_total sem zero lib] (checker [lib_total_b], sound by the scheduler theorem of C01): every implementation HAS a solution for
    every stimulus -- needed because the clean-up below an unconnected output may delete a library instance that is never
    substituted (the case of fix 11c77ac), and "read through its implementation" must be satisfiable for it;
    [resolve_host_ok_b c lib]: no library instance is a port, and known finding D22 is excluded at every instance ([d22_free_b];
    refuted companion: C10_substitute_d22_refuted).
    NOT claimed (known findings, refuted companions above and in C10Lib): which state elements exist afterwards and in which order
    s_nodes lists them (D21 C10_substitute_d21_refuted, D29 C10_substitute_state_order_refuted, D15 C10_lib_*_all_connected_refuted):
    the stimulus of the state element [x] inside instance [u] is the stimulus of the node [M u x] of the result, by id. *)
From KV Require Import Model.CircuitResolveSem.
From KV Require Proofs.CircuitResolveDang Proofs.CircuitResolveGlue Proofs.CircuitResolveSem.
Import Proofs.CircuitResolveSem.

(* (a) THE LOOP THEOREM: for every consistent circuit and every successful call, the result is consistent, io_nodes (names and order of
   the ports) is unchanged, no node of a library kind remains, every node of the result is a node of [c] with its name (and its kind,
   unless it was a library instance) or a new node; and for ONE assignment [M] of node maps to the instances, the solutions of the
   result are exactly the valuations of [c] in which every library instance is read through its implementation: each yields the
   other with the same values at every input pin of every node that both circuits share (the ports in particular: (c)) *)
Theorem C10_resolve_function : forall V (sem : BinNums.N -> V -> V -> V -> V -> V) (zero : V),
  (forall x a b d, sem (SimOps.lutv "BUF1") x a b d = x) ->
  forall lib, lib_ok_sem_b lib = true -> lib_total sem zero lib ->
  forall c c', CInv c -> IoLive c -> resolve_host_ok_b c lib = true -> resolve_tlib c lib = Some c' ->
  CInv c' /\ IoLive c' /\ io c' = io c /\
  (forall n, In n (nodes c') -> tlib_get (kind_of c' n) lib = None) /\
  (forall n, In n (nodes c') ->
     (In n (nodes c) /\ name_of c' n = name_of c n /\ (tlib_get (kind_of c n) lib = None -> kind_of c' n = kind_of c n)) \/
     nnext c <= n) /\
  exists M,
    (forall stim v, rsol sem zero lib M c stim v ->
       exists v', csol sem zero c' stim v' /\ forall n k, Keep lib c c' n -> obs zero c' v' n k = obs zero c v n k) /\
    (forall stim v', csol sem zero c' stim v' ->
       exists v, rsol sem zero lib M c stim v /\ forall n k, Keep lib c c' n -> obs zero c' v' n k = obs zero c v n k).
Proof. exact @resolve_function. Qed.
(* (b) the same with every hypothesis a boolean (what the check evaluates per case) *)
Theorem C10_resolve_function_checked : forall V (sem : BinNums.N -> V -> V -> V -> V -> V) (zero : V),
  (forall x a b d, sem (SimOps.lutv "BUF1") x a b d = x) ->
  forall lib c c', lib_ok_sem_b lib = true -> lib_total_b lib = true ->
  cinv_b c = true -> io_ok_b c = true -> resolve_host_ok_b c lib = true -> resolve_tlib c lib = Some c' ->
  CInv c' /\ IoLive c' /\ io c' = io c /\
  (forall n, In n (nodes c') -> tlib_get (kind_of c' n) lib = None) /\
  (forall n, In n (nodes c') ->
     (In n (nodes c) /\ name_of c' n = name_of c n /\ (tlib_get (kind_of c n) lib = None -> kind_of c' n = kind_of c n)) \/
     nnext c <= n) /\
  exists M,
    (forall stim v, rsol sem zero lib M c stim v ->
       exists v', csol sem zero c' stim v' /\ forall n k, Keep lib c c' n -> obs zero c' v' n k = obs zero c v n k) /\
    (forall stim v', csol sem zero c' stim v' ->
       exists v, rsol sem zero lib M c stim v /\ forall n k, Keep lib c c' n -> obs zero c' v' n k = obs zero c v n k).
Proof. exact resolve_function_checked. Qed.
Theorem C10_lib_total_b_sound : forall V (sem : BinNums.N -> V -> V -> V -> V -> V) (zero : V) lib,
  lib_ok_sem_b lib = true -> lib_total_b lib = true -> lib_total sem zero lib.
Proof. exact lib_total_b_sound. Qed.
(* (c) every port is a shared node: both sides observe the same value at every pin of every port *)
Theorem C10_resolve_ports_kept : forall lib c c', IoLive c -> IoLive c' -> io c' = io c -> resolve_host_ok_b c lib = true ->
  forall n, In (Some n) (io c) -> Keep lib c c' n.
Proof. exact resolve_ports_kept. Qed.
(* (d) without library kinds [rsol] is the gate-by-gate semantics *)
Theorem C10_rsol_no_lib : forall V (sem : BinNums.N -> V -> V -> V -> V -> V) (zero : V) lib M c stim v,
  (forall n, In n (nodes c) -> tlib_get (kind_of c n) lib = None) ->
  (rsol sem zero lib M c stim v <-> csol sem zero c stim v).
Proof. intros V sem zero lib. exact (rsol_csol sem zero lib). Qed.
(* (e) ONE ITERATION, any state of the loop: the live instance [u] moves from "read through its implementation" into the netlist, all
   other library instances stay read through theirs; the clean-up below unconnected outputs is included *)
Theorem C10_resolve_step : forall V (sem : BinNums.N -> V -> V -> V -> V -> V) (zero : V),
  (forall x a b d, sem (SimOps.lutv "BUF1") x a b d = x) ->
  forall lib, lib_ok_sem_b lib = true -> lib_total sem zero lib ->
  forall c u impl c4 dl m c' M,
  CInv c -> IoLive c -> In u (nodes c) -> tlib_get (kind_of c u) lib = Some impl ->
  io_mem c u = false -> d22_free_b c u impl = true ->
  substitute_pre c u impl = Some (c4, dl, m) -> cleanup dl c4 = Some c' -> M u = m ->
  CInv c' /\ IoLive c' /\ io c' = io c /\ nnext c <= nnext c' /\ name_of c' u = name_of c u /\
  (forall n, In n (nodes c') ->
     (In n (nodes c) /\ n <> u /\ name_of c' n = name_of c n /\ kind_of c' n = kind_of c n /\ ins_of c' n = ins_of c n) \/
     (tlib_get (kind_of c' n) lib = None /\ (n = u \/ nnext c <= n))) /\
  (forall stim v, rsol sem zero lib M c stim v ->
     exists v', rsol sem zero lib M c' stim v' /\
                forall n k, In n (nodes c) -> n <> u -> In n (nodes c') -> obs zero c' v' n k = obs zero c v n k) /\
  (forall stim v', rsol sem zero lib M c' stim v' ->
     exists v, rsol sem zero lib M c stim v /\
               forall n k, In n (nodes c) -> n <> u -> In n (nodes c') -> obs zero c' v' n k = obs zero c v n k).
Proof. exact @resolve_step. Qed.
(* (f) the loop with its trace (visited instance, implementation, node map) -- what the check runs -- is the loop *)
Theorem C10_resolve_trace_is_loop : forall t c, option_map fst (resolve_trace t (nodes c) c) = resolve_tlib c t.
Proof. intros t c. exact (resolve_trace_fold t (nodes c) c). Qed.
(* (g) node ids are never reused by substitute (so "a node of both circuits" is a node of every intermediate state) *)
Theorem C10_substitute_ids_fresh : forall c u impl c', substitute c u impl = Some c' -> nnext c <= nnext c'.
Proof. exact substitute_nn. Qed.
(* (h) the hypotheses are satisfiable with TWO different library cells in one host, one of them with an unconnected output: u2 (a
   buffer cell) drives input A of u1 (Y = AND2(A,B), Z = INV1(Y)) whose output Z is open; both are visited, the inverter is cleaned up *)
Theorem C10_resolve_example :
  cinv_b rex_host = true /\ io_ok_b rex_host = true /\ lib_ok_sem_b rex_lib = true /\ lib_total_b rex_lib = true /\
  resolve_host_ok_b rex_host rex_lib = true /\
  all_outs_connected_b rex_host 0 Proofs.CircuitResolve.impl_two = false /\
  option_map (fun c' => (map (fun n => (name_of c' n, kind_of c' n)) (nodes c'), List.length (lines c'), io c')) rex_result
  = Some ([("u1", "AND2"); ("u2", "BUF1"); ("i0", FORK); ("i1", FORK); ("o0", FORK); ("u1~Y", FORK)]%string, 5, io rex_host) /\
  option_map (fun r => List.length (snd r)) (resolve_trace rex_lib (nodes rex_host) rex_host) = Some 2.
Proof. exact resolve_example_sem. Qed.

(** * 8. eliminate_1to1_forks and forks WITHOUT driver (D38, fixed in circuit.py by
    `if len(n.ins) < 1 or n.ins[0] is None: continue`).  substitute / resolve_tlib_cells leave, for an unconnected instance input
    whose implementation input has several readers, a stub fork without input line; once the clean-up below an unconnected output
    has removed all but one of its readers it is a fork outside the interface with exactly one reader and no driver.  The loop
    read `n.ins[0]` of such a fork and raised IndexError (AttributeError for ins[0] = None, after the node and its output line had
    already been removed), so the composition "resolve, then eliminate forks" failed.  Since the fix such forks are inside
    well-formed use ([elim_ok_b] no longer excludes them: C09_eliminate, C10_eliminate_function, C10_eliminate_solution_view,
    C10_eliminate_s_names[_perm], C10_eliminate_order_kept and [pre _ Eliminate1to1] in the history theorems of C09 hold for them)
    and the loop leaves them alone.  Witness (an 18-step well-formed history, followed by two eliminate calls): nodes
    [i, f, s, t, g, w, o, j], i -> f -> g -> w -> o, the forks s (ins = []) and t (ins = [None]: its input line was removed) drive
    pins 1 and 2 of g.  The call succeeds, removes f and w, keeps s and t with their pins, keeps s_names, is idempotent in canonical
    form -- and the loop before the fix ([eliminate_1to1_old]) raised on this circuit. *)
Theorem C10_eliminate_driverless_fork_kept :
  run_hist CircuitElimOrder.stub_history = Some CircuitElimOrder.stub_c /\
  hist_pre empty (CircuitElimOrder.stub_history ++ [Eliminate1to1; Eliminate1to1]) = true /\
  CInv CircuitElimOrder.stub_c /\ IoLive CircuitElimOrder.stub_c /\ elim_ok_b CircuitElimOrder.stub_c = true /\
  ins_of CircuitElimOrder.stub_c 2 = [] /\ ins_of CircuitElimOrder.stub_c 3 = [None] /\
  CircuitElimOrder.driverless_1to1 CircuitElimOrder.stub_c 2 = true /\ CircuitElimOrder.driverless_1to1 CircuitElimOrder.stub_c 3 = true /\
  eliminate_1to1 CircuitElimOrder.stub_c = Some CircuitElimOrder.stub_c' /\ CInv CircuitElimOrder.stub_c' /\ IoLive CircuitElimOrder.stub_c' /\
  map (name_of CircuitElimOrder.stub_c) (nodes CircuitElimOrder.stub_c) = ["i"; "f"; "s"; "t"; "g"; "w"; "o"; "j"]%string /\
  map (name_of CircuitElimOrder.stub_c') (nodes CircuitElimOrder.stub_c') = ["i"; "j"; "s"; "t"; "g"; "o"]%string /\
  CircuitElimOrder.driverless_1to1 CircuitElimOrder.stub_c' 2 = true /\ CircuitElimOrder.driverless_1to1 CircuitElimOrder.stub_c' 3 = true /\
  ins_of CircuitElimOrder.stub_c' 2 = ins_of CircuitElimOrder.stub_c 2 /\ outs_of CircuitElimOrder.stub_c' 2 = outs_of CircuitElimOrder.stub_c 2 /\
  ins_of CircuitElimOrder.stub_c' 3 = ins_of CircuitElimOrder.stub_c 3 /\ outs_of CircuitElimOrder.stub_c' 3 = outs_of CircuitElimOrder.stub_c 3 /\
  List.length (lines CircuitElimOrder.stub_c) = 6 /\ List.length (lines CircuitElimOrder.stub_c') = 4 /\
  s_names CircuitElimOrder.stub_c' = s_names CircuitElimOrder.stub_c /\
  option_map canon (eliminate_1to1 CircuitElimOrder.stub_c') = Some (canon CircuitElimOrder.stub_c') /\
  eliminate_1to1_old CircuitElimOrder.stub_c = None.
Proof. exact CircuitElimOrder.driverless_fork_kept. Qed.

(** * 9. SOURCE tie of eliminate_1to1_forks.  Gen/CircuitElimSrc.v is the method translated statement by statement from the current
    text of circuit.py by translate/gen_circuit_elim.py (fail-closed; vocabulary Model/CircuitElimSrcLib.v on top of
    Model/CircuitPrimsSrcLib.v): `ios = set(self.io_nodes)` (membership by Node.__hash__ / __eq__, pinned to name + kind),
    `for n in list(self.forks.values())` (a structural scan over the snapshot taken before the loop), the three `continue` guards, the
    reads of in_line / out_line / out_reader / out_reader_pin, and the calls n.remove() / out_line.remove() to the primitives that
    are themselves translated from the source (C09_prims_source_is_model).  The translated function is the hand model
    [eliminate_1to1] on EVERY state -- no invariant is needed, the raising cases (None) included -- up to [ceq] (equal fields, object
    stores pointwise equal; no functional extensionality is assumed).  The proof carries the facts the translation cannot see: the
    io list is the same in every iteration (so the set taken before the loop is the port test of the model in the current state), and
    the two attribute writes `in_line.reader = ..; in_line.reader_pin = ..` are one record update. *)
From KV Require Import Model.CircuitPrimsSrcLib Model.CircuitElimSrcLib Gen.CircuitElimSrc Proofs.CircuitElimSrcProofs
     Proofs.CircuitElimSrcExample.
Theorem C10_eliminate_source_is_model : forall c, oceq (Circuit_eliminate_1to1_forks_src c) (eliminate_1to1 c).
Proof. exact eliminate_source_is_model. Qed.
(* ... also from a state that is only pointwise equal to the model's (e.g. after a history run on the translated primitives) *)
Theorem C10_eliminate_source_is_model_ceq : forall a b, ceq a b -> oceq (Circuit_eliminate_1to1_forks_src a) (eliminate_1to1 b).
Proof. exact eliminate_source_is_model_ceq. Qed.
(* the loop BODY on one fork = elim_one *)
Theorem C10_eliminate_body_source_is_model : forall c n,
  oceq (Circuit_eliminate_1to1_forks_src_loop1 c (py_set_of (io c)) [n]) (elim_one c n).
Proof. exact eliminate_body_source_is_model. Qed.
(* concrete instance: nodes [a, f, s, g, z, r], a -> f -> g.0, s -> g.1, g -> z -> r; z (node 4) is a PORT fork with one driver and one
   reader, f (node 1) an internal 1:1 fork, s (node 2) a fork with one reader and no driver.  The translated source removes f only. *)
Theorem C10_eliminate_source_example :
  run_hist CircuitElimSrcExample.ex_history = Some CircuitElimSrcExample.ex_c /\ CInv CircuitElimSrcExample.ex_c /\
  elim_ok_b CircuitElimSrcExample.ex_c = true /\
  in_ios CircuitElimSrcExample.ex_c 4 = true /\ List.length (outs_of CircuitElimSrcExample.ex_c 4) = 1 /\
  ins_of CircuitElimSrcExample.ex_c 4 = [Some 3] /\
  in_ios CircuitElimSrcExample.ex_c 1 = false /\ List.length (outs_of CircuitElimSrcExample.ex_c 1) = 1 /\
  ins_of CircuitElimSrcExample.ex_c 1 = [Some 0] /\
  in_ios CircuitElimSrcExample.ex_c 2 = false /\ List.length (outs_of CircuitElimSrcExample.ex_c 2) = 1 /\
  ins_of CircuitElimSrcExample.ex_c 2 = [] /\
  option_map CircuitElimSrcExample.summary (Circuit_eliminate_1to1_forks_src CircuitElimSrcExample.ex_c) =
    option_map CircuitElimSrcExample.summary (eliminate_1to1 CircuitElimSrcExample.ex_c) /\
  option_map CircuitElimSrcExample.summary (Circuit_eliminate_1to1_forks_src CircuitElimSrcExample.ex_c) =
    Some (["a"; "r"; "s"; "g"; "z"]%string,
          [(Some 0, 0, Some 3, 0); (Some 4, 0, Some 5, 0); (Some 2, 0, Some 3, 1); (Some 3, 0, Some 4, 0)],
          ["a"; "s"; "z"]%string, [Some 0; Some 4]) /\
  (exists c', Circuit_eliminate_1to1_forks_src CircuitElimSrcExample.ex_c = Some c' /\ CInv c').
Proof. exact CircuitElimSrcExample.eliminate_source_example. Qed.

(** * 10. SOURCE tie of the pickle pair Circuit.__getstate__ / Circuit.__setstate__.  Gen/CircuitPickleSrc.v holds the two methods
    translated statement by statement from the current text of circuit.py by translate/gen_circuit_pickle.py (fail-closed; vocabulary
    Model/CircuitPickleSrcLib.v on top of Model/CircuitPrimsSrcLib.v): the state dict is a Python VALUE ([pyval]: the three list
    comprehensions over self.nodes / self.lines / self.io_nodes, tuples of str / int, a dict display with the circuit's name as an
    opaque value); __setstate__ runs on a NEW object whose graph state starts as [empty] (the state dict shares no object with the
    pickled circuit), records the class each list attribute is created with ([cmeta]) and rebuilds nodes and lines through the
    constructors that are themselves translated from the source (C09_prims_source_is_model: Node_init_src, Line_init_src).
    The translated pair is the hand model on EVERY state: no invariant is needed, the only precondition is the representation
    (indices and pin positions of a [circ] are naturals); raising cases (None) included; the rebuilt circuit is compared with [ceq]
    and the container classes are those Circuit.__init__ creates ([init_meta]: nodes / lines IndexList, io_nodes GrowingList). *)
From Coq Require Import ZArith.
From KV Require Import Model.CircuitPickleSrcLib Gen.CircuitPrimsSrc Gen.CircuitPickleSrc Proofs.CircuitPickleSrcProofs.
Theorem C10_getstate_source_is_model : forall c nm, Circuit_getstate_src c nm = option_map (enc_pstate nm) (getstate c).
Proof. exact getstate_src_eq. Qed.
Theorem C10_setstate_source_is_model : forall nm s,
  omceq (Circuit_setstate_src (enc_pstate nm s)) (option_map (pair (init_meta nm)) (setstate s)).
Proof. exact setstate_src_eq. Qed.
Theorem C10_pickle_source_is_model : forall c nm,
  omceq (match Circuit_getstate_src c nm with Some v => Circuit_setstate_src v | None => None end)
        (option_map (pair (init_meta nm)) (pickle_roundtrip c)).
Proof. exact pickle_source_is_model. Qed.
(* concrete instance (six nodes, five lines, two ports): the state dict, the rebuilt circuit with its container classes, a line removal
   on the rebuilt circuit, and two state dicts on which __setstate__ raises *)
Theorem C10_pickle_source_example :
  CInv CircuitElimSrcExample.ex_c /\ io_ok_b CircuitElimSrcExample.ex_c = true /\
  Circuit_getstate_src CircuitElimSrcExample.ex_c (PStr "top") =
    Some (PDict [("name", PStr "top");
                 ("nodes", PList [PTuple [PStr "a"; PStr "__fork__"]; PTuple [PStr "f"; PStr "__fork__"];
                                  PTuple [PStr "s"; PStr "__fork__"]; PTuple [PStr "g"; PStr "AND2"];
                                  PTuple [PStr "z"; PStr "__fork__"]; PTuple [PStr "r"; PStr "BUF1"]]);
                 ("lines", PList [PTuple [PInt 0; PInt 0; PInt 1; PInt 0]; PTuple [PInt 1; PInt 0; PInt 3; PInt 0];
                                  PTuple [PInt 2; PInt 0; PInt 3; PInt 1]; PTuple [PInt 3; PInt 0; PInt 4; PInt 0];
                                  PTuple [PInt 4; PInt 0; PInt 5; PInt 0]]);
                 ("io_nodes", PList [PInt 0; PInt 4])]%string) /\
  option_map (fun p => (fst p, pk_summary (snd p))) (pickle_roundtrip_src CircuitElimSrcExample.ex_c (PStr "top")) =
    Some (init_meta (PStr "top"),
          ([("a", "__fork__", 0); ("f", "__fork__", 1); ("s", "__fork__", 2); ("g", "AND2", 3); ("z", "__fork__", 4);
            ("r", "BUF1", 5)],
           [(0, Some 0, 0, Some 1, 0); (1, Some 1, 0, Some 3, 0); (2, Some 2, 0, Some 3, 1); (3, Some 3, 0, Some 4, 0);
            (4, Some 4, 0, Some 5, 0)],
           [Some 0; Some 4], ["g"; "r"], ["a"; "f"; "s"; "z"]))%string /\
  match pickle_roundtrip_src CircuitElimSrcExample.ex_c (PStr "top") with
  | Some (_, c') => option_map (fun c => map (fun l => (l, l_index (lst c l))) (lines c)) (Line_remove_src c' 0)
  | None => None
  end = Some [(4, 0); (1, 1); (2, 2); (3, 3)] /\
  Circuit_setstate_src (enc_pstate PNone ([("a", "__fork__")], [(0, 0, 1, 0)], []))%string = None /\
  Circuit_setstate_src (enc_pstate PNone ([("a", "__fork__"); ("a", "__fork__")], [], []))%string = None.
Proof. exact pickle_source_example. Qed.
