(** C15 -- logic-value encodings convert losslessly and follow the axis convention.  Statements only.
    Model: Model/Encodings.v (transcription of logic.py / popcount; numpy primitives as small functions).
    Tables: Gen/LogicTables.v is regenerated on every run by evaluating the real interpret / mv_str / _pop_count_lut. *)
From Coq Require Import List ZArith NArith Bool Arith Ascii.
From KV Require Import Model.Encodings Gen.LogicTables Proofs.EncodingsBits Proofs.EncodingsBp Proofs.EncodingsDtype Proofs.EncodingsStr.
Import ListNotations.
Local Open Scope list_scope.

(** ** mv <-> bp *)
(* every (signals x patterns) matrix of codes < 8, ANY number of signals and patterns (rows may even differ in length):
   converting to bit-parallel and back gives the matrix with the pattern axis padded to a multiple of 8 by ZERO *)
Theorem C15_bp_roundtrip : forall m : list (list nat),
  Forall (Forall (fun x => x < 8)) m -> bp_to_mv_mat (mv_to_bp_mat m) = map pad8 m.
Proof. exact bp_roundtrip. Qed.

(* ... with any number n of leading axes (shape (d1,...,dn, signals, patterns)) *)
Theorem C15_bp_roundtrip_nd : forall n (t : tens mat n),
  tall n codes_ok t -> bp_to_mv_nd n (mv_to_bp_nd n t) = tmap n (map pad8) t.
Proof. exact bp_roundtrip_nd. Qed.

(* 1-D arrays are one pattern per signal *)
Theorem C15_bp_roundtrip_vec : forall v,
  Forall (fun x => x < 8) v -> bp_to_mv_mat (mv_to_bp_vec v) = map (fun x => x :: repeat ZERO 7) v.
Proof. exact bp_roundtrip_vec. Qed.

(* the other direction: any bit-parallel array (three planes of nb bytes per signal) survives bp -> mv -> bp *)
Theorem C15_mv_roundtrip : forall nb (b : bpmat),
  Forall (planes_ok nb) b -> mv_to_bp_mat (bp_to_mv_mat b) = b.
Proof. exact mv_roundtrip. Qed.

(* layout: plane k holds bit k of each value, pattern j is bit (j mod 8) of byte (j / 8) (little-endian), padding lanes are 0 *)
Theorem C15_bit_planes : forall row k j,
  Forall (fun x => x < 256) row -> k < 3 ->
  Nat.testbit (nth (j / 8) (nth k (mv_to_bp_row row) []) 0) (j mod 8) =
  if j <? List.length row then Nat.testbit (nth j row 0) k else false.
Proof. exact bit_planes. Qed.

(** ** mvarray: axis convention *)
(* p >= 2 pattern strings of s signals each (s <> 1): shape (s, p), entry [i][j] = interpret(pattern_j[i]) *)
Theorem C15_axis_convention : forall ss s,
  2 <= List.length ss -> uniform s ss -> s <> 1 ->
  mvarray (map PStr ss) =
  Some ([s; List.length ss], Nd (map (fun i => Nd (map (fun str => Lf (interp_cp (nth i str 0%N))) ss)) (seq 0 s))).
Proof. exact axis_convention. Qed.

(* a single pattern string (any length) gives a 1-D array *)
Theorem C15_single_pattern : forall str, mvarray [PStr str] = Some ([List.length str], row_tr str).
Proof. exact single_pattern. Qed.

(* one-character strings are scalars ("characters"): as separate arguments they form one vector, like mvarray(1, 0, 1) *)
Theorem C15_characters_one_vector : forall cs,
  mvarray (map (fun c => PStr [c]) cs) = Some ([List.length cs], row_tr cs).
Proof. exact characters_one_vector. Qed.

(** ** the eight values, their characters and aliases (finite; tables regenerated from the code on every run) *)
Theorem C15_render_parse :
  (forall v, v < 8 -> interp_cp (render v) = v /\ render v = N.of_nat (nth v render_table 0)) /\
  render_chars = map N_of_ascii ["0"; "X"; "-"; "1"; "P"; "R"; "F"; "N"]%char /\
  value_consts = [ZERO; UNKNOWN; UNASSIGNED; ONE; PPULSE; RISE; FALL; NPULSE] /\
  (forall v cs, In (v, cs) doc_aliases -> render v = N.of_nat (hd 0 cs)).
Proof. exact render_parse. Qed.

Theorem C15_alias_table :
  (* the transcription agrees with the real interpret on every one-character string 0..255 and on the scalars *)
  (forall c, c < 256 -> interp_cp (N.of_nat c) = nth c interp_table 1) /\
  (interp_atom (ABool true) = interp_true /\ interp_atom (ABool false) = interp_false /\ interp_atom ANone = interp_none /\
   interp_atom (AInt 0) = interp_int0 /\ interp_atom (AInt 1) = interp_int1 /\ interp_atom (AInt 2) = interp_int2 /\
   interp_atom (AInt (-1)) = interp_intm1) /\
  (* every documented alias parses to its value; there is one docstring per value *)
  map fst doc_aliases = seq 0 8 /\
  (forall v cs c, In (v, cs) doc_aliases -> In c cs -> interp_cp (N.of_nat c) = v) /\
  (forall v r, In (v, r) doc_scalar_aliases -> r = v) /\ documented_scalars = 5 /\
  (* every other character -- any code point whatsoever -- is UNKNOWN *)
  (forall c : N, ~ In c doc_chars -> interp_cp c = UNKNOWN).
Proof. exact alias_table. Qed.

(** ** strings <-> arrays *)
(* strings -> mvarray -> mv_str: canonical spelling of every pattern, joined by the delimiter; canonical input comes back unchanged *)
Theorem C15_str_roundtrip : forall ss s d,
  2 <= List.length ss -> uniform s ss -> s <> 1 ->
  exists sh t, mvarray (map PStr ss) = Some (sh, t) /\ mv_str sh t d = Some (join d (map canon ss)) /\
               (Forall (Forall (fun c => In c render_chars)) ss -> mv_str sh t d = Some (join d ss)).
Proof. exact str_roundtrip. Qed.

(* array -> mv_str -> mvarray: the pattern strings of an (s x p) array parse back to it; 1-D likewise *)
Theorem C15_mv_str_roundtrip :
  (forall m p, 2 <= p -> List.length m <> 1 -> Forall (fun r => List.length r = p /\ Forall (fun v => v < 8) r) m ->
     mvarray (map PStr (mv_str_lines p (tr_of_mat m))) = Some ([List.length m; p], tr_of_mat m)) /\
  (forall v, Forall (fun x => x < 8) v -> mvarray [PStr (map render v)] = Some ([List.length v], Nd (map Lf v))) /\
  (forall str d, exists sh t, mvarray [PStr str] = Some (sh, t) /\ mv_str sh t d = Some (canon str) /\
     (Forall (fun c => In c render_chars) str -> mv_str sh t d = Some str)).
Proof. split; [exact mv_str_roundtrip | split; [exact mv_str_roundtrip_1 | exact str_roundtrip_1]]. Qed.

(** ** generic bit helpers, all eight integer dtypes *)
(* unpackbits = the two's complement bits, least significant first *)
Theorem C15_unpackbits_testbit : forall dt x,
  unpackbits dt x = map (fun i => Z.testbit x (Z.of_nat i)) (seq 0 (dt_bits dt)).
Proof. exact unpackbits_testbit. Qed.

Theorem C15_pack_unpack : forall dt x, In dt dtypes -> in_range dt x -> packbits dt (unpackbits dt x) = Some x.
Proof. exact pack_unpack. Qed.

Theorem C15_unpack_pack : forall dt l, In dt dtypes -> List.length l = dt_bits dt ->
  exists x, packbits dt l = Some x /\ in_range dt x /\ unpackbits dt x = l.
Proof. exact unpack_pack. Qed.

(* shorter non-empty bit axes: signed dtypes sign-extend (the list is read as a two's complement number of its own length),
   unsigned dtypes zero-extend; longer ones are truncated *)
Theorem C15_pack_extend :
  (forall dt l, In dt dtypes -> l <> [] -> List.length l <= dt_bits dt -> packbits dt l = Some (twos_value (dt_signed dt) l)) /\
  (forall dt l, packbits dt l = packbits dt (firstn (dt_bits dt) l)).
Proof. split; [exact pack_extend | exact packbits_truncate]. Qed.

(** ** popcount *)
Theorem C15_popcount_table : forall b, b < 256 -> nth b pop_count_lut 0 = count_ones (nbits 8 b).
Proof. exact popcount_table. Qed.

Theorem C15_popcount_spec :
  (forall a, Forall (fun b => b < 256) a -> popcount pop_count_lut a = count_ones (np_unpackbits_le a)) /\
  (forall a b, popcount pop_count_lut (a ++ b) = popcount pop_count_lut a + popcount pop_count_lut b).
Proof. split; [exact popcount_spec | exact popcount_app]. Qed.

(** ** mv <-> bp at ANY rank, on the shape-polymorphic array model (Model/NdArray.v: shape + row-major data; swapaxes,
    packbits / unpackbits along the last axis and axis -2 as small functions, compared with numpy on ranks 0..5) with
    mv_to_bp / bp_to_mv transcribed call by call (Model/MvWrappers.v).  [L] = any number of leading axes of any lengths (0 included). *)
From KV Require Import Model.NdArray Model.MvWrappers Proofs.NdConvProofs.

(* lossless: shape (L.., s, p) -> (L.., s, 3, ceil(p/8)) -> (L.., s, 8*ceil(p/8)); every row comes back padded with ZERO *)
Theorem C15_roundtrip_any_rank : forall L s p D,
  List.length D = size (L ++ [s; p]) -> codes_lt 8 D ->
  obind (mv_to_bp (NdA (L ++ [s; p]) D)) bp_to_mv =
  Some (NdA (L ++ [s; 8 * cdiv8 p]) (flat_map pad8 (rows p (size L * s) D))).
Proof. exact roundtrip_any_rank. Qed.

(* a 1-D array is one pattern per signal *)
Theorem C15_roundtrip_rank1 : forall s D, List.length D = s -> codes_lt 8 D ->
  obind (mv_to_bp (NdA [s] D)) bp_to_mv = Some (NdA [s; 8] (flat_map (fun v => v :: repeat 0 7) D)).
Proof. exact roundtrip_rank1. Qed.

(* the same by multi-index: element (l.., i, j) comes back; padding lanes read 0 *)
Theorem C15_roundtrip_get : forall L s p D l i j,
  List.length D = size (L ++ [s; p]) -> codes_lt 8 D -> in_bounds L l -> i < s -> j < 8 * cdiv8 p ->
  exists r, obind (mv_to_bp (NdA (L ++ [s; p]) D)) bp_to_mv = Some r /\ nd_shape r = L ++ [s; 8 * cdiv8 p] /\
    nd_get r (l ++ [i; j]) = if j <? p then nd_get (NdA (L ++ [s; p]) D) (l ++ [i; j]) else 0.
Proof. exact roundtrip_get. Qed.

(* axis convention at any rank: patterns on the last axis, signals on the second-to-last; plane k of signal i holds bit k,
   pattern j is bit (j mod 8) of byte (j / 8); lanes beyond the last pattern are 0 *)
Theorem C15_axis_convention_any_rank : forall L s p D l i k j,
  List.length D = size (L ++ [s; p]) -> codes_lt 256 D -> in_bounds L l -> i < s -> k < 3 -> j < 8 * cdiv8 p ->
  exists b, mv_to_bp (NdA (L ++ [s; p]) D) = Some b /\ nd_shape b = L ++ [s; 3; cdiv8 p] /\
    Nat.testbit (nd_get b (l ++ [i; k; j / 8])) (j mod 8) =
    (if j <? p then Nat.testbit (nd_get (NdA (L ++ [s; p]) D) (l ++ [i; j])) k else false).
Proof. exact axis_convention_any_rank. Qed.

Theorem C15_axis_convention_rank1 : forall s D i k, List.length D = s -> codes_lt 256 D -> i < s -> k < 3 ->
  exists b, mv_to_bp (NdA [s] D) = Some b /\ nd_shape b = [s; 3; 1] /\
    forall t, t < 8 -> Nat.testbit (nd_get b [i; k; 0]) t = (if t =? 0 then Nat.testbit (nth i D 0) k else false).
Proof. exact axis_convention_rank1. Qed.

(* the block-structured swapaxes(-1,-2) of the model is the multi-index one: out[l.., j, i] = in[l.., i, j] *)
Theorem C15_swapaxes_index : forall L a b D l i j,
  List.length D = size (L ++ [a; b]) -> in_bounds L l -> i < a -> j < b ->
  exists r, swap_last2 (NdA (L ++ [a; b]) D) = Some r /\ nd_shape r = L ++ [b; a] /\
    nd_get r (l ++ [j; i]) = nd_get (NdA (L ++ [a; b]) D) (l ++ [i; j]).
Proof. exact swap_last2_get. Qed.

(* ranks the functions reject: mv_to_bp of a 0-d array, bp_to_mv below 2-D (AxisError) *)
Theorem C15_conv_low_rank : (forall v, mv_to_bp (NdA [] [v]) = None) /\ (forall sh D, List.length sh < 2 -> bp_to_mv (NdA sh D) = None).
Proof. exact conv_low_rank. Qed.

Theorem C15_any_rank_example :
  let L := [2; 1] in let s := 2 in let p := 10 in
  let D := map (fun k => (3 * k + k / 10) mod 8) (seq 0 40) in
  List.length D = size (L ++ [s; p]) /\ codes_lt 8 D /\ codes_lt 256 D /\ in_bounds L [1; 0] /\
  obind (mv_to_bp (NdA (L ++ [s; p]) D)) bp_to_mv = Some (NdA [2; 1; 2; 16] (flat_map pad8 (rows 10 4 D))) /\
  exists b, mv_to_bp (NdA (L ++ [s; p]) D) = Some b /\ nd_shape b = [2; 1; 2; 3; 2] /\
    nd_get b [1; 0; 1; 2; 1] = 1 /\ nd_get (NdA (L ++ [s; p]) D) [1; 0; 1; 8] = 5.
Proof. exact conv_instance. Qed.
