(** C10, library clause -- resolving any cell of the five built-in libraries preserves names, order and Boolean function.
    Statements only.  Quantifies over the libraries as regenerated from techlib.py on every run (Gen/TechLibs.v).

    [resolve_ok_name names name cell ci co = true] (Model/CellCircuit.v; unfolded by [C10_lib_check_meaning]) says: for the
    one-instance host circuit of kind [name] whose input / output pins are wired to ports as [ci] / [co] say,
    resolve_tlib_cells with the cell's implementation circuit (built as TechLib.__init__ does: bench elaboration +
    eliminate_1to1_forks) succeeds; implementation, host and result satisfy the C09 consistency invariant; the ports are the
    same objects in the same order; s_names (names and order of ports and state elements) is unchanged; no node of the result
    carries a library name; and for ALL rows over (connected inputs x state bits) every connected output port and every
    next-state value, evaluated with the simulator's own schedule (SimOps.build_ops on the view, 2-valued), equals that of the
    implementation circuit evaluated on its own with unconnected inputs reading 0 and -- for combinational cells -- the direct
    evaluation of the cell's gates (TechCell.eval_out, the subject of C19_cell_function).

    Scope per library: all pins connected -- every cell definition x EVERY expanded name; every single pin unconnected -- every
    definition x every pin, instances carrying the first name of the definition (the dependence on the kind name is what the
    all-connected and no-output theorems cover for every name; the *_refuted theorems range over every name); no output connected -- every definition x
    every name.

    The exceptions are exactly the known findings D15 (explicit name lists [d15_*]), D22 ([is_d22]: AND3/AND4/NAND3/NAND4 with the
    highest input pin unconnected) and D21 ([is_d21]: sequential cell without any connected output); every *_refuted theorem
    shows that EVERY excepted instance really fails the check, so the exceptions are tight. *)
From Coq Require Import List Arith Bool String.
From KV Require Model.Netlist.
From KV Require Import Model.TechCell Model.Circuit Model.CircuitInv Model.CircuitView Model.CellCircuit Gen.TechLibs.
From KV Require Import Proofs.CellCircuitProofs.
From KV Require Import Proofs.CellLib_GSC180 Proofs.CellLib_NANGATE Proofs.CellLib_NANGATE_ZN Proofs.CellLib_SAED32 Proofs.CellLib_SAED90.
Import ListNotations.

(* what the Boolean check says *)
Theorem C10_lib_check_meaning : forall libnames name cell ci co,
  resolve_ok_name libnames name cell ci co = true ->
  exists impl host u r,
    impl_of_tcell cell = Some impl /\
    host_of_pins name (t_ins cell) (t_outs cell) ci co = Some (host, u) /\
    resolve_tlib host [(name, impl)] = Some r /\
    cinv_b impl = true /\ cinv_b host = true /\ cinv_b r = true /\
    pin_names impl = (t_ins cell, t_outs cell) /\
    io r = io host /\
    s_names r = s_names host /\
    no_lib_kind libnames r = true /\
    fn_ok_v cell (view impl) (view r) ci co = true.
Proof. exact resolve_ok_name_spec. Qed.

(** *** GSC180 *)
Theorem C10_lib_GSC180_all_connected : forall cell name, In cell lib_GSC180 -> In name (t_names cell) ->
  is_d15 d15_GSC180 name = false ->
  resolve_ok_name (lib_names lib_GSC180) name cell (fst (conn_all cell)) (snd (conn_all cell)) = true.
Proof. exact (all_lift lib_GSC180 d15_GSC180 GSC180_all). Qed.
Theorem C10_lib_GSC180_one_unconnected : forall cell name k, In cell lib_GSC180 -> In name (t_names cell) -> name = first_name cell ->
  k < n_pins cell ->
  is_d15 d15_GSC180 name = false -> is_d22 name cell k = false ->
  resolve_ok_name (lib_names lib_GSC180) name cell (fst (conn_but cell k)) (snd (conn_but cell k)) = true.
Proof. exact (one_lift lib_GSC180 d15_GSC180 GSC180_one). Qed.
Theorem C10_lib_GSC180_no_output : forall cell name, In cell lib_GSC180 -> In name (t_names cell) -> is_d21 cell = false ->
  resolve_ok_name (lib_names lib_GSC180) name cell (fst (conn_no_out cell)) (snd (conn_no_out cell)) = true.
Proof. exact (noout_lift lib_GSC180 GSC180_noout). Qed.
Theorem C10_lib_GSC180_all_connected_refuted : forall cell name, In cell lib_GSC180 -> In name (t_names cell) ->
  is_d15 d15_GSC180 name = true ->
  resolve_ok_name (lib_names lib_GSC180) name cell (fst (conn_all cell)) (snd (conn_all cell)) = false.
Proof. exact (all_refuted_lift lib_GSC180 d15_GSC180 GSC180_all_refuted). Qed.
Theorem C10_lib_GSC180_one_unconnected_refuted : forall cell name k, In cell lib_GSC180 -> In name (t_names cell) -> k < n_pins cell ->
  is_d15 d15_GSC180 name || is_d22 name cell k = true ->
  resolve_ok_name (lib_names lib_GSC180) name cell (fst (conn_but cell k)) (snd (conn_but cell k)) = false.
Proof. exact (one_refuted_lift lib_GSC180 d15_GSC180 GSC180_one_refuted). Qed.
Theorem C10_lib_GSC180_no_output_refuted : forall cell name, In cell lib_GSC180 -> In name (t_names cell) -> is_d21 cell = true ->
  resolve_ok_name (lib_names lib_GSC180) name cell (fst (conn_no_out cell)) (snd (conn_no_out cell)) = false.
Proof. exact (noout_refuted_lift lib_GSC180 GSC180_noout_refuted). Qed.

(** *** NANGATE *)
Theorem C10_lib_NANGATE_all_connected : forall cell name, In cell lib_NANGATE -> In name (t_names cell) ->
  is_d15 d15_NANGATE name = false ->
  resolve_ok_name (lib_names lib_NANGATE) name cell (fst (conn_all cell)) (snd (conn_all cell)) = true.
Proof. exact (all_lift lib_NANGATE d15_NANGATE NANGATE_all). Qed.
Theorem C10_lib_NANGATE_one_unconnected : forall cell name k, In cell lib_NANGATE -> In name (t_names cell) -> name = first_name cell ->
  k < n_pins cell ->
  is_d15 d15_NANGATE name = false -> is_d22 name cell k = false ->
  resolve_ok_name (lib_names lib_NANGATE) name cell (fst (conn_but cell k)) (snd (conn_but cell k)) = true.
Proof. exact (one_lift lib_NANGATE d15_NANGATE NANGATE_one). Qed.
Theorem C10_lib_NANGATE_no_output : forall cell name, In cell lib_NANGATE -> In name (t_names cell) -> is_d21 cell = false ->
  resolve_ok_name (lib_names lib_NANGATE) name cell (fst (conn_no_out cell)) (snd (conn_no_out cell)) = true.
Proof. exact (noout_lift lib_NANGATE NANGATE_noout). Qed.
Theorem C10_lib_NANGATE_all_connected_refuted : forall cell name, In cell lib_NANGATE -> In name (t_names cell) ->
  is_d15 d15_NANGATE name = true ->
  resolve_ok_name (lib_names lib_NANGATE) name cell (fst (conn_all cell)) (snd (conn_all cell)) = false.
Proof. exact (all_refuted_lift lib_NANGATE d15_NANGATE NANGATE_all_refuted). Qed.
Theorem C10_lib_NANGATE_one_unconnected_refuted : forall cell name k, In cell lib_NANGATE -> In name (t_names cell) -> k < n_pins cell ->
  is_d15 d15_NANGATE name || is_d22 name cell k = true ->
  resolve_ok_name (lib_names lib_NANGATE) name cell (fst (conn_but cell k)) (snd (conn_but cell k)) = false.
Proof. exact (one_refuted_lift lib_NANGATE d15_NANGATE NANGATE_one_refuted). Qed.
Theorem C10_lib_NANGATE_no_output_refuted : forall cell name, In cell lib_NANGATE -> In name (t_names cell) -> is_d21 cell = true ->
  resolve_ok_name (lib_names lib_NANGATE) name cell (fst (conn_no_out cell)) (snd (conn_no_out cell)) = false.
Proof. exact (noout_refuted_lift lib_NANGATE NANGATE_noout_refuted). Qed.

(** *** NANGATE_ZN *)
Theorem C10_lib_NANGATE_ZN_all_connected : forall cell name, In cell lib_NANGATE_ZN -> In name (t_names cell) ->
  is_d15 d15_NANGATE name = false ->
  resolve_ok_name (lib_names lib_NANGATE_ZN) name cell (fst (conn_all cell)) (snd (conn_all cell)) = true.
Proof. exact (all_lift lib_NANGATE_ZN d15_NANGATE NANGATE_ZN_all). Qed.
Theorem C10_lib_NANGATE_ZN_one_unconnected : forall cell name k, In cell lib_NANGATE_ZN -> In name (t_names cell) -> name = first_name cell ->
  k < n_pins cell ->
  is_d15 d15_NANGATE name = false -> is_d22 name cell k = false ->
  resolve_ok_name (lib_names lib_NANGATE_ZN) name cell (fst (conn_but cell k)) (snd (conn_but cell k)) = true.
Proof. exact (one_lift lib_NANGATE_ZN d15_NANGATE NANGATE_ZN_one). Qed.
Theorem C10_lib_NANGATE_ZN_no_output : forall cell name, In cell lib_NANGATE_ZN -> In name (t_names cell) -> is_d21 cell = false ->
  resolve_ok_name (lib_names lib_NANGATE_ZN) name cell (fst (conn_no_out cell)) (snd (conn_no_out cell)) = true.
Proof. exact (noout_lift lib_NANGATE_ZN NANGATE_ZN_noout). Qed.
Theorem C10_lib_NANGATE_ZN_all_connected_refuted : forall cell name, In cell lib_NANGATE_ZN -> In name (t_names cell) ->
  is_d15 d15_NANGATE name = true ->
  resolve_ok_name (lib_names lib_NANGATE_ZN) name cell (fst (conn_all cell)) (snd (conn_all cell)) = false.
Proof. exact (all_refuted_lift lib_NANGATE_ZN d15_NANGATE NANGATE_ZN_all_refuted). Qed.
Theorem C10_lib_NANGATE_ZN_one_unconnected_refuted : forall cell name k, In cell lib_NANGATE_ZN -> In name (t_names cell) -> k < n_pins cell ->
  is_d15 d15_NANGATE name || is_d22 name cell k = true ->
  resolve_ok_name (lib_names lib_NANGATE_ZN) name cell (fst (conn_but cell k)) (snd (conn_but cell k)) = false.
Proof. exact (one_refuted_lift lib_NANGATE_ZN d15_NANGATE NANGATE_ZN_one_refuted). Qed.
Theorem C10_lib_NANGATE_ZN_no_output_refuted : forall cell name, In cell lib_NANGATE_ZN -> In name (t_names cell) -> is_d21 cell = true ->
  resolve_ok_name (lib_names lib_NANGATE_ZN) name cell (fst (conn_no_out cell)) (snd (conn_no_out cell)) = false.
Proof. exact (noout_refuted_lift lib_NANGATE_ZN NANGATE_ZN_noout_refuted). Qed.

(** *** SAED32 *)
Theorem C10_lib_SAED32_all_connected : forall cell name, In cell lib_SAED32 -> In name (t_names cell) ->
  is_d15 d15_none name = false ->
  resolve_ok_name (lib_names lib_SAED32) name cell (fst (conn_all cell)) (snd (conn_all cell)) = true.
Proof. exact (all_lift lib_SAED32 d15_none SAED32_all). Qed.
Theorem C10_lib_SAED32_one_unconnected : forall cell name k, In cell lib_SAED32 -> In name (t_names cell) -> name = first_name cell ->
  k < n_pins cell ->
  is_d15 d15_none name = false -> is_d22 name cell k = false ->
  resolve_ok_name (lib_names lib_SAED32) name cell (fst (conn_but cell k)) (snd (conn_but cell k)) = true.
Proof. exact (one_lift lib_SAED32 d15_none SAED32_one). Qed.
Theorem C10_lib_SAED32_no_output : forall cell name, In cell lib_SAED32 -> In name (t_names cell) -> is_d21 cell = false ->
  resolve_ok_name (lib_names lib_SAED32) name cell (fst (conn_no_out cell)) (snd (conn_no_out cell)) = true.
Proof. exact (noout_lift lib_SAED32 SAED32_noout). Qed.
Theorem C10_lib_SAED32_all_connected_refuted : forall cell name, In cell lib_SAED32 -> In name (t_names cell) ->
  is_d15 d15_none name = true ->
  resolve_ok_name (lib_names lib_SAED32) name cell (fst (conn_all cell)) (snd (conn_all cell)) = false.
Proof. exact (all_refuted_lift lib_SAED32 d15_none SAED32_all_refuted). Qed.
Theorem C10_lib_SAED32_one_unconnected_refuted : forall cell name k, In cell lib_SAED32 -> In name (t_names cell) -> k < n_pins cell ->
  is_d15 d15_none name || is_d22 name cell k = true ->
  resolve_ok_name (lib_names lib_SAED32) name cell (fst (conn_but cell k)) (snd (conn_but cell k)) = false.
Proof. exact (one_refuted_lift lib_SAED32 d15_none SAED32_one_refuted). Qed.
Theorem C10_lib_SAED32_no_output_refuted : forall cell name, In cell lib_SAED32 -> In name (t_names cell) -> is_d21 cell = true ->
  resolve_ok_name (lib_names lib_SAED32) name cell (fst (conn_no_out cell)) (snd (conn_no_out cell)) = false.
Proof. exact (noout_refuted_lift lib_SAED32 SAED32_noout_refuted). Qed.

(** *** SAED90 *)
Theorem C10_lib_SAED90_all_connected : forall cell name, In cell lib_SAED90 -> In name (t_names cell) ->
  is_d15 d15_none name = false ->
  resolve_ok_name (lib_names lib_SAED90) name cell (fst (conn_all cell)) (snd (conn_all cell)) = true.
Proof. exact (all_lift lib_SAED90 d15_none SAED90_all). Qed.
Theorem C10_lib_SAED90_one_unconnected : forall cell name k, In cell lib_SAED90 -> In name (t_names cell) -> name = first_name cell ->
  k < n_pins cell ->
  is_d15 d15_none name = false -> is_d22 name cell k = false ->
  resolve_ok_name (lib_names lib_SAED90) name cell (fst (conn_but cell k)) (snd (conn_but cell k)) = true.
Proof. exact (one_lift lib_SAED90 d15_none SAED90_one). Qed.
Theorem C10_lib_SAED90_no_output : forall cell name, In cell lib_SAED90 -> In name (t_names cell) -> is_d21 cell = false ->
  resolve_ok_name (lib_names lib_SAED90) name cell (fst (conn_no_out cell)) (snd (conn_no_out cell)) = true.
Proof. exact (noout_lift lib_SAED90 SAED90_noout). Qed.
Theorem C10_lib_SAED90_all_connected_refuted : forall cell name, In cell lib_SAED90 -> In name (t_names cell) ->
  is_d15 d15_none name = true ->
  resolve_ok_name (lib_names lib_SAED90) name cell (fst (conn_all cell)) (snd (conn_all cell)) = false.
Proof. exact (all_refuted_lift lib_SAED90 d15_none SAED90_all_refuted). Qed.
Theorem C10_lib_SAED90_one_unconnected_refuted : forall cell name k, In cell lib_SAED90 -> In name (t_names cell) -> k < n_pins cell ->
  is_d15 d15_none name || is_d22 name cell k = true ->
  resolve_ok_name (lib_names lib_SAED90) name cell (fst (conn_but cell k)) (snd (conn_but cell k)) = false.
Proof. exact (one_refuted_lift lib_SAED90 d15_none SAED90_one_refuted). Qed.
Theorem C10_lib_SAED90_no_output_refuted : forall cell name, In cell lib_SAED90 -> In name (t_names cell) -> is_d21 cell = true ->
  resolve_ok_name (lib_names lib_SAED90) name cell (fst (conn_no_out cell)) (snd (conn_no_out cell)) = false.
Proof. exact (noout_refuted_lift lib_SAED90 SAED90_noout_refuted). Qed.

(** *** the hypotheses of the theorems above are satisfiable in every library: a non-excepted sequential cell (>= 4 input pins,
    2 output pins), a non-excepted multi-gate combinational cell (>= 5 input pins), an instance of D22, and (where the list is
    not empty) of D15 *)
Theorem C10_lib_GSC180_nonvacuous :
  (exists cell name, In cell lib_GSC180 /\ In name (t_names cell) /\ wit_seq d15_GSC180 cell name = true) /\
  (exists cell name, In cell lib_GSC180 /\ In name (t_names cell) /\ wit_comb d15_GSC180 cell name = true) /\
  (exists cell name, In cell lib_GSC180 /\ In name (t_names cell) /\ wit_d22 cell name = true) /\
  (exists cell name, In cell lib_GSC180 /\ In name (t_names cell) /\ is_d15 d15_GSC180 name = true).
Proof. exact (conj (lib_has_ex _ _ GSC180_has_seq) (conj (lib_has_ex _ _ GSC180_has_comb) (conj (lib_has_ex _ _ GSC180_has_d22) (lib_has_ex _ _ GSC180_has_d15)))). Qed.
Theorem C10_lib_NANGATE_nonvacuous :
  (exists cell name, In cell lib_NANGATE /\ In name (t_names cell) /\ wit_seq d15_NANGATE cell name = true) /\
  (exists cell name, In cell lib_NANGATE /\ In name (t_names cell) /\ wit_comb d15_NANGATE cell name = true) /\
  (exists cell name, In cell lib_NANGATE /\ In name (t_names cell) /\ wit_d22 cell name = true) /\
  (exists cell name, In cell lib_NANGATE /\ In name (t_names cell) /\ is_d15 d15_NANGATE name = true).
Proof. exact (conj (lib_has_ex _ _ NANGATE_has_seq) (conj (lib_has_ex _ _ NANGATE_has_comb) (conj (lib_has_ex _ _ NANGATE_has_d22) (lib_has_ex _ _ NANGATE_has_d15)))). Qed.
Theorem C10_lib_NANGATE_ZN_nonvacuous :
  (exists cell name, In cell lib_NANGATE_ZN /\ In name (t_names cell) /\ wit_seq d15_NANGATE cell name = true) /\
  (exists cell name, In cell lib_NANGATE_ZN /\ In name (t_names cell) /\ wit_comb d15_NANGATE cell name = true) /\
  (exists cell name, In cell lib_NANGATE_ZN /\ In name (t_names cell) /\ wit_d22 cell name = true) /\
  (exists cell name, In cell lib_NANGATE_ZN /\ In name (t_names cell) /\ is_d15 d15_NANGATE name = true).
Proof. exact (conj (lib_has_ex _ _ NANGATE_ZN_has_seq) (conj (lib_has_ex _ _ NANGATE_ZN_has_comb) (conj (lib_has_ex _ _ NANGATE_ZN_has_d22) (lib_has_ex _ _ NANGATE_ZN_has_d15)))). Qed.
Theorem C10_lib_SAED32_nonvacuous :
  (exists cell name, In cell lib_SAED32 /\ In name (t_names cell) /\ wit_seq d15_none cell name = true) /\
  (exists cell name, In cell lib_SAED32 /\ In name (t_names cell) /\ wit_comb d15_none cell name = true) /\
  (exists cell name, In cell lib_SAED32 /\ In name (t_names cell) /\ wit_d22 cell name = true).
Proof. exact (conj (lib_has_ex _ _ SAED32_has_seq) (conj (lib_has_ex _ _ SAED32_has_comb) (lib_has_ex _ _ SAED32_has_d22))). Qed.
Theorem C10_lib_SAED90_nonvacuous :
  (exists cell name, In cell lib_SAED90 /\ In name (t_names cell) /\ wit_seq d15_none cell name = true) /\
  (exists cell name, In cell lib_SAED90 /\ In name (t_names cell) /\ wit_comb d15_none cell name = true) /\
  (exists cell name, In cell lib_SAED90 /\ In name (t_names cell) /\ wit_d22 cell name = true).
Proof. exact (conj (lib_has_ex _ _ SAED90_has_seq) (conj (lib_has_ex _ _ SAED90_has_comb) (lib_has_ex _ _ SAED90_has_d22))). Qed.

(** *** the function part of the check, for every row (not only the enumerated ones): for ALL values of the connected input
    pins and ALL state bits, the resolved host [vr] shows at its output ports and next-state pins what the implementation
    circuit [vi] shows with unconnected inputs at 0, and (combinational cells) what the cell's gates evaluate to *)
Theorem C10_lib_function_meaning : forall cell vi vr ci co, fn_ok_v cell vi vr ci co = true ->
  List.length (state_idx vr) = List.length (state_idx vi) /\
  forall in_vals sv, List.length in_vals = count_true ci -> List.length sv = List.length (state_idx vi) ->
    let outs_r := skipn (count_true ci) (Netlist.c_io vr) in
    let outs_i := pick co (filter (fun i => negb (v_is_in vi i)) (Netlist.c_io vi)) in
    let full := spread ci in_vals in
    let ei := sim_env vi (impl_io_stim (map (v_is_in vi) (Netlist.c_io vi)) full ++ sv) in
    let er := sim_env vr (in_vals ++ repeat false (List.length outs_r) ++ sv) in
    map (obs vr er) outs_r = map (obs vi ei) outs_i /\
    map (obs vr er) (state_idx vr) = map (obs vi ei) (state_idx vi) /\
    (cell_is_seq cell = false ->
     map (fun n => Some (obs vr er n)) outs_r = map (eval_out cell full) (pick co (t_outs cell))).
Proof. exact fn_ok_v_spec. Qed.

(** *** per definition (all expanded names at once), in the form [resolve_ok_all_connected cell] *)
Theorem C10_lib_GSC180_all_connected_cell : forall cell, In cell lib_GSC180 ->
  (forall name, In name (t_names cell) -> is_d15 d15_GSC180 name = false) ->
  resolve_ok_all_connected (lib_names lib_GSC180) cell = true.
Proof. exact (all_cell_lift lib_GSC180 d15_GSC180 GSC180_all). Qed.
Theorem C10_lib_NANGATE_all_connected_cell : forall cell, In cell lib_NANGATE ->
  (forall name, In name (t_names cell) -> is_d15 d15_NANGATE name = false) ->
  resolve_ok_all_connected (lib_names lib_NANGATE) cell = true.
Proof. exact (all_cell_lift lib_NANGATE d15_NANGATE NANGATE_all). Qed.
Theorem C10_lib_NANGATE_ZN_all_connected_cell : forall cell, In cell lib_NANGATE_ZN ->
  (forall name, In name (t_names cell) -> is_d15 d15_NANGATE name = false) ->
  resolve_ok_all_connected (lib_names lib_NANGATE_ZN) cell = true.
Proof. exact (all_cell_lift lib_NANGATE_ZN d15_NANGATE NANGATE_ZN_all). Qed.
Theorem C10_lib_SAED32_all_connected_cell : forall cell, In cell lib_SAED32 ->
  (forall name, In name (t_names cell) -> is_d15 d15_none name = false) ->
  resolve_ok_all_connected (lib_names lib_SAED32) cell = true.
Proof. exact (all_cell_lift lib_SAED32 d15_none SAED32_all). Qed.
Theorem C10_lib_SAED90_all_connected_cell : forall cell, In cell lib_SAED90 ->
  (forall name, In name (t_names cell) -> is_d15 d15_none name = false) ->
  resolve_ok_all_connected (lib_names lib_SAED90) cell = true.
Proof. exact (all_cell_lift lib_SAED90 d15_none SAED90_all). Qed.

(** *** the COMPLETE library tables (one entry per expanded cell name, implementation as TechLib.__init__ builds it) satisfy the
    hypotheses of the loop theorem C10_resolve_function (Properties/C10.v section 7): every definition has an implementation, no
    implementation contains a library kind, FORK is no cell name, every implementation is consistent, has the shapes subst_shape_b /
    pure_ports_b and a combinationally acyclic view (so it has a solution for every stimulus) -- hence for ANY consistent host
    circuit over any of the five libraries whose library instances are no ports and outside D22, resolve_tlib_cells with the whole
    table has the conclusions of C10_resolve_function *)
From KV Require Import Model.CircuitResolveSem Proofs.CircuitResolveLibs.
Theorem C10_lib_tables_ok : forall lib, In lib [lib_GSC180; lib_NANGATE; lib_NANGATE_ZN; lib_SAED32; lib_SAED90] ->
  tlib_complete_b lib = true /\ lib_ok_sem_b (tlib_of lib) = true /\ lib_total_b (tlib_of lib) = true.
Proof. exact tlib_tables_ok. Qed.
Theorem C10_lib_tables_sizes :
  map (fun l => List.length (tlib_of l)) [lib_GSC180; lib_NANGATE; lib_NANGATE_ZN; lib_SAED32; lib_SAED90] =
  map (fun l => List.length (flat_map t_names l)) [lib_GSC180; lib_NANGATE; lib_NANGATE_ZN; lib_SAED32; lib_SAED90] /\
  forallb (fun l => Nat.ltb 20 (List.length (tlib_of l))) [lib_GSC180; lib_NANGATE; lib_NANGATE_ZN; lib_SAED32; lib_SAED90] = true.
Proof. exact tlib_sizes. Qed.
