(** C16 -- the fault-injection callback sees and controls every evaluated signal. Statements only. *)
From Coq Require Import List NArith Bool Arith String.
From KV Require Import Model.Bits Model.Logic Model.Prims Model.OpSem Gen.LogicSimDispatch
     Proofs.OpSemProofs Proofs.Dispatch.
Import ListNotations.

(* invoked exactly once per op, in op order, for that op's output -- in any value domain (2/4/8-valued) *)
Theorem C16_trace : forall V (sem : prim -> V -> V -> V -> V -> V) cb ops e,
  map fst (cb_trace sem cb ops e) = map o_out ops.
Proof. intros. apply cb_trace_outputs. Qed.

(* leaving the values untouched changes nothing *)
Theorem C16_identity : forall V (sem : prim -> V -> V -> V -> V -> V) ops e,
  exec_ops_cb sem (fun _ v => v) ops e = exec_ops sem ops e.
Proof. intros. apply cb_identity. Qed.

(* nothing upstream of the first altered signal changes *)
Theorem C16_upstream : forall V (sem : prim -> V -> V -> V -> V -> V) cb ops1 e,
  (forall o', In o' ops1 -> forall v, cb (o_out o') v = v) ->
  exec_ops_cb sem cb ops1 e = exec_ops sem ops1 e.
Proof. intros. apply cb_upstream. assumption. Qed.

(* overwriting one signal = simulating the rest of the circuit with that signal driven by the
   overwritten value *)
Theorem C16_override : forall V (sem : prim -> V -> V -> V -> V -> V) cb ops1 o ops2 e,
  (forall o', In o' ops1 -> forall v, cb (o_out o') v = v) ->
  (forall o', In o' ops2 -> forall v, cb (o_out o') v = v) ->
  exec_ops_cb sem cb (ops1 ++ o :: ops2) e
  = exec_ops sem ops2 (upd (exec_ops sem ops1 e) (o_out o)
       (cb (o_out o) (let e1 := exec_ops sem ops1 e in
                      sem (o_prim o) (e1 (o_i0 o)) (e1 (o_i1 o)) (e1 (o_i2 o)) (e1 (o_i3 o))))).
Proof. intros. apply cb_override_single; assumption. Qed.

(* the callback copies of the dispatch compute the same functions as the plain ones *)
Theorem C16_cb_paths_equal_plain :
  (forall p, exists g, assoc (prim_name p) disp2_cb = Some g /\ forall a b c d, run_bool g [a; b; c; d] = [prim_fn p a b c d]) /\
  (forall p, exists g, assoc (prim_name p) disp8_cb = Some g /\
     forall a b c d, run_bool g (encode_ins 3 [a; b; c; d]) = code_bits (spec_prim p a b c d)) /\
  (forall p, exists g, assoc (prim_name p) disp4_cb = Some g /\
     forall a b c d, is4 a = true -> is4 b = true -> is4 c = true -> is4 d = true ->
       run_bool g (encode_ins 2 [a; b; c; d]) = firstn 2 (code_bits (spec_prim p a b c d)) /\ is4 (spec_prim p a b c d) = true).
Proof.
  split; [|split].
  - apply dispatch2_correct. right. reflexivity.
  - apply dispatch8_spec. right. reflexivity.
  - apply dispatch4_spec. right. reflexivity.
Qed.

(** THE MODEL THAT IS COMPARED WITH LogicSim.c_prop(inject_cb=...) (Model/LogicSimModel.v [c_prop_cb] on a list memory laid out
    by SimOps.build, any c_reuse / strip_forks) refines the op-list callback semantics above.  [line_ops c so]: the scheduled op
    rows with the primitive from the opcode table and operands read through the stem table; [line_cb n cb]: the callback applied
    to outputs that are lines (index < n) only.  (Proofs/LogicSimGlue.v) *)
From KV Require Import Model.Netlist Model.NetlistWf Model.SimOps Model.AllocCheck Model.SimOpsCert Model.NetlistSem Model.CycleSem
     Model.LogicSimModel.
From KV Require Proofs.LogicSimGlue Proofs.ReuseStrip Proofs.EndToEnd.
Local Open Scope list_scope.

(* a memory that holds e at the stimulus slots: after c_prop with callback every observed slot holds the value that exec_ops_cb
   gives the signal the slot stands for *)
Theorem C16_model_callback_correct : forall V (dflt : V) (sem : prim -> V -> V -> V -> V -> V) cb c caps cmin reuse strip so m (e : env V),
  wf_netlist c -> comb_acyclic c -> (0 < cmin)%N -> KV.Proofs.EndToEnd.gates_known c -> (strip = true -> KV.Proofs.ReuseStrip.forks_ok c) ->
  build c caps cmin reuse strip = Some so ->
  List.length m = N.to_nat (so_len so) ->
  (forall x l, In x (so_init so) -> so_loc so x = Some l -> nth l m dflt = e x) ->
  forall p, In p (so_final so) ->
    KV.Model.LogicSimModel.rd dflt so (c_prop_cb dflt sem cb so m) p
    = exec_ops_cb sem (KV.Proofs.LogicSimGlue.line_cb (so_nlines so) cb) (KV.Proofs.LogicSimGlue.line_ops c so) e (so_alias c so p).
Proof. intros V dflt sem. exact (KV.Proofs.LogicSimGlue.model_callback_correct dflt sem). Qed.

(* C16_override / C16_upstream transferred: a callback that alters the output of one scheduled op only *)
Theorem C16_model_callback_override : forall V (dflt : V) (sem : prim -> V -> V -> V -> V -> V) cb c caps cmin reuse strip so m (e : env V) ops1 o ops2,
  wf_netlist c -> comb_acyclic c -> (0 < cmin)%N -> KV.Proofs.EndToEnd.gates_known c -> (strip = true -> KV.Proofs.ReuseStrip.forks_ok c) ->
  build c caps cmin reuse strip = Some so ->
  List.length m = N.to_nat (so_len so) ->
  (forall x l, In x (so_init so) -> so_loc so x = Some l -> nth l m dflt = e x) ->
  KV.Proofs.LogicSimGlue.line_ops c so = ops1 ++ o :: ops2 ->
  (forall o', In o' ops1 -> forall v, cb (o_out o') v = v) ->
  (forall o', In o' ops2 -> forall v, cb (o_out o') v = v) ->
  forall p, In p (so_final so) ->
    KV.Model.LogicSimModel.rd dflt so (c_prop_cb dflt sem cb so m) p
    = exec_ops sem ops2 (upd (exec_ops sem ops1 e) (o_out o)
        (KV.Proofs.LogicSimGlue.line_cb (so_nlines so) cb (o_out o)
           (let e1 := exec_ops sem ops1 e in sem (o_prim o) (e1 (o_i0 o)) (e1 (o_i1 o)) (e1 (o_i2 o)) (e1 (o_i3 o))))) (so_alias c so p).
Proof. intros V dflt sem. exact (KV.Proofs.LogicSimGlue.model_callback_override dflt sem). Qed.

(* C16_identity on the model itself *)
Theorem C16_model_identity : forall V (dflt : V) (sem : prim -> V -> V -> V -> V -> V) so m,
  c_prop_cb dflt sem (fun _ v => v) so m = c_prop dflt sem so m.
Proof. intros V dflt sem. exact (KV.Proofs.LogicSimGlue.c_prop_cb_identity dflt sem). Qed.

(* C16_trace: the model's call sequence is the trace's outputs that are lines, in op order *)
Theorem C16_model_trace : forall V (sem : prim -> V -> V -> V -> V -> V) cb' c so (e : env V),
  cb_lines so = filter (fun k => Nat.ltb k (so_nlines so)) (map fst (cb_trace sem cb' (KV.Proofs.LogicSimGlue.line_ops c so) e)).
Proof. intros V sem. exact (KV.Proofs.LogicSimGlue.cb_lines_trace sem). Qed.

(* the entry point of the correspondence check itself (8-valued, one line forced to a value): call sequence and captured vector *)
Theorem C16_sim_case8_cb_correct : forall c reuse strip s0 s1 il iv,
  wf_netlist c -> comb_acyclic c -> KV.Proofs.EndToEnd.gates_known c -> (strip = true -> KV.Proofs.ReuseStrip.forks_ok c) ->
  List.length s0 = List.length (s_nodes c) -> List.length s1 = List.length (s_nodes c) ->
  match sim_case8_cb c reuse strip s0 s1 il iv, build c (repeat 1%N (List.length (c_lines c) + 3)) 1%N reuse strip with
  | Some (calls, r), Some so =>
      let cb := fun k v => if Nat.eqb k il then iv else v in
      let ev := exec_ops_cb sem8 (KV.Proofs.LogicSimGlue.line_cb (so_nlines so) cb) (KV.Proofs.LogicSimGlue.line_ops c so)
                            (init_env Zero c (fun p => nth p s0 Zero)) in
      calls = filter (fun k => Nat.ltb k (so_nlines so))
                     (map fst (cb_trace sem8 (KV.Proofs.LogicSimGlue.line_cb (so_nlines so) cb) (KV.Proofs.LogicSimGlue.line_ops c so)
                                        (init_env Zero c (fun p => nth p s0 Zero)))) /\
      r = map (fun p => match snode_in c p with Some l0 => ev (stemmed (so_stems so) l0) | None => nth p s1 Zero end)
              (seq 0 (List.length (s_nodes c)))
  | None, None => build_stems c strip (List.length (c_lines c) + 3 + List.length (s_nodes c) + List.length (s_nodes c)) = None
  | _, _ => False
  end.
Proof. exact KV.Proofs.LogicSimGlue.sim_case8_cb_correct. Qed.

(** ---- source tie of the callback protocol (round 3): the callback statement of all three loop copies of LogicSim.c_prop that have one is
    translated from the CURRENT source (translate/gen_logicsim_drivers.py -> Gen/LogicSimDriversSrc.v): which name is compared with
    len(self.circuit.lines) (the op row's output FIELD, bound before the c_locs re-mapping), which Line object and which view are handed
    over, whether `inject_cb is not None` is tested.  For every op row, any chain, any memory and any callback: one iteration with a
    callback = the same iteration without, then -- iff the op's output index is a circuit line -- the callback is shown that line and the view of
    c[c_locs[o0]], and what it leaves there is stored; hence the call sequence is exactly the op outputs that are circuit lines, in op order. *)
From Coq Require Import ZArith.
From KV Require Import Gen.SimTables Model.LogicSimModel Model.SimOps.
From KV Require Import Model.WaveDrvPrelude Model.LogicSimDrvPrelude Gen.LogicSimDriversSrc.
From KV Require Proofs.LogicSimDriversProofs Proofs.LogicSimDriversCb.
Theorem C16_callback_loop_structure : forall L, (L = loop_cprop2_cb \/ L = loop_cprop4 \/ L = loop_cprop8) ->
  forall mdim locs nl t0 t1 f,
  (forall M tr o, iter_src mdim L locs nl t0 t1 (Some f) (M, tr) (KV.Proofs.LogicSimDriversProofs.row_of o) =
     let M1 := fst (iter_src mdim L locs nl t0 t1 None (M, tr) (KV.Proofs.LogicSimDriversProofs.row_of o)) in
     let lo := zrd (-1)%Z locs (Z.of_nat (s_out o)) in
     if Nat.ltb (s_out o) nl then (mwr M1 lo (f (s_out o) (mrd mdim M1 lo)), (tr ++ [(s_out o, mrd mdim M1 lo)])%list) else (M1, tr)) /\
  (forall ops M, map fst (snd (run_loop mdim L locs nl t0 t1 (Some f) (map KV.Proofs.LogicSimDriversProofs.row_of ops) M))
                 = filter (fun k => Nat.ltb k nl) (map s_out ops)).
Proof. exact KV.Proofs.LogicSimDriversCb.callback_loop_structure. Qed.

(* m == 2: memory and call sequence of the translated callback loop = c_prop_cb / cb_lines of the compared model, for every SimOps result
   with allocated, known ops and locations inside the memory (all three hold for every build() result: C01_model_build_conditions,
   KV.Proofs.LogicSimDriversProofs.build_ops_located) and every callback (f on planes, cb on values, related lane-wise) *)
Theorem C16_callback_loop_source_is_model : forall so m t0 t1 f cb,
  KV.Proofs.LogicSimDriversProofs.ops_located so -> KV.Proofs.LogicSimGlue.ops_known so -> KV.Proofs.LogicSimGlue.locs_ok so (List.length m) ->
  KV.Proofs.LogicSimDriversProofs.cb_rel2 f cb ->
  let r := run_loop 1 loop_cprop2_cb (so_locs so) (so_nlines so) t0 t1 (Some f) (map KV.Proofs.LogicSimDriversProofs.row_of (so_ops so))
                    (map KV.Proofs.LogicSimDriversProofs.emb2 m) in
  fst r = map KV.Proofs.LogicSimDriversProofs.emb2 (c_prop_cb false sem2 cb so m) /\ map fst (snd r) = cb_lines so.
Proof. exact KV.Proofs.LogicSimDriversProofs.cprop2_cb_source_is_model. Qed.

(** ---- the m == 8 (and m == 4) CALLBACK copy at memory level (Proofs/LogicSimLoopN.v, Proofs/LogicSimSepBuildX.v).
    [LSN.cb_rel8 f cb]: what the callback leaves in the three-plane view it is shown is the image of what the model's callback returns
    (forall k v, f k (code_bits v) = code_bits (cb k v)).  [LSN.ops_sepx_b so] (decidable; evaluated per generated circuit): c_locs[tmp_idx] <>
    c_locs[tmp2_idx], and every op row is separated as in C02_logicsim_loop_source_is_model OR writes one of the two scratch locations (a gate
    without output line: s_out = tmp_idx; all statements of every branch write c[o0] / c[t0] / c[t1] only).  Then memory (outside the two
    scratch locations) AND call sequence of the translated m == 8 loop with a callback, inside the pinned skeleton of c_prop (t0 / t1 read
    from c_locs), are c_prop_cb / cb_lines of the compared model with sem8.  The second theorem discharges every hypothesis for every
    build() result (all four option combinations, gates without output line included). *)
From KV Require Proofs.LogicSimLoop8 Proofs.LogicSimLoopN Proofs.LogicSimSepBuildX Proofs.LogicSimLoopNExample.
Module LS8 := KV.Proofs.LogicSimLoop8.
Module LSN := KV.Proofs.LogicSimLoopN.
Theorem C16_callback_loop8_source_is_model : forall so m M f cb,
  LSN.ops_sepx_b so = true -> KV.Proofs.LogicSimGlue.ops_known so -> KV.Proofs.LogicSimGlue.locs_ok so (List.length m) -> LSN.cb_rel8 f cb ->
  exists lt0 lt1, KV.Model.SimOpsCert.so_loc so (so_nlines so + 1) = Some lt0 /\ KV.Model.SimOpsCert.so_loc so (so_nlines so + 2) = Some lt1 /\ lt0 <> lt1 /\
    (LS8.agree8 lt0 lt1 M m ->
     let r := c_prop_src loop_prop_cpu loop_cprop2_cb loop_cprop4 loop_cprop8 8 (so_locs so) (so_nlines so)
                (Z.of_nat (so_nlines so + 1)) (Z.of_nat (so_nlines so + 2)) (Some f) (map KV.Proofs.LogicSimDriversProofs.row_of (so_ops so)) M in
     LS8.agree8 lt0 lt1 (fst r) (c_prop_cb Zero sem8 cb so m) /\ map fst (snd r) = cb_lines so).
Proof. exact LSN.cprop8_cb_source_is_model. Qed.

Theorem C16_callback_loop8_source_is_model_build : forall c caps cmin reuse strip so,
  wf_netlist c -> comb_acyclic c -> (0 < cmin)%N -> KV.Proofs.EndToEnd.gates_known c -> (strip = true -> KV.Proofs.ReuseStrip.forks_ok c) ->
  build c caps cmin reuse strip = Some so -> forall m, List.length m = N.to_nat (so_len so) -> forall M f cb, LSN.cb_rel8 f cb ->
  exists lt0 lt1, KV.Model.SimOpsCert.so_loc so (so_nlines so + 1) = Some lt0 /\ KV.Model.SimOpsCert.so_loc so (so_nlines so + 2) = Some lt1 /\ lt0 <> lt1 /\
    (LS8.agree8 lt0 lt1 M m ->
     let r := c_prop_src loop_prop_cpu loop_cprop2_cb loop_cprop4 loop_cprop8 8 (so_locs so) (so_nlines so)
                (Z.of_nat (so_nlines so + 1)) (Z.of_nat (so_nlines so + 2)) (Some f) (map KV.Proofs.LogicSimDriversProofs.row_of (so_ops so)) M in
     LS8.agree8 lt0 lt1 (fst r) (c_prop_cb Zero sem8 cb so m) /\ map fst (snd r) = cb_lines so).
Proof. exact KV.Proofs.LogicSimSepBuildX.build_cprop8_cb_source_is_model. Qed.

(* m == 4 callback copy: two planes per location; on the 4-valued sub-domain (every value of the model memory is is4, kept by every step and
   by the callback: LSN.cb_rel4) *)
Theorem C16_callback_loop4_source_is_model : forall so m M f cb,
  LSN.ops_sepx_b so = true -> KV.Proofs.LogicSimGlue.ops_known so -> KV.Proofs.LogicSimGlue.locs_ok so (List.length m) -> LSN.inv4 m -> LSN.cb_rel4 f cb ->
  exists lt0 lt1, KV.Model.SimOpsCert.so_loc so (so_nlines so + 1) = Some lt0 /\ KV.Model.SimOpsCert.so_loc so (so_nlines so + 2) = Some lt1 /\ lt0 <> lt1 /\
    (LSN.agree4 lt0 lt1 M m ->
     let r := c_prop_src loop_prop_cpu loop_cprop2_cb loop_cprop4 loop_cprop8 4 (so_locs so) (so_nlines so)
                (Z.of_nat (so_nlines so + 1)) (Z.of_nat (so_nlines so + 2)) (Some f) (map KV.Proofs.LogicSimDriversProofs.row_of (so_ops so)) M in
     LSN.agree4 lt0 lt1 (fst r) (c_prop_cb Zero sem8 cb so m) /\ map fst (snd r) = cb_lines so /\ LSN.inv4 (c_prop_cb Zero sem8 cb so m)).
Proof. exact LSN.cprop4_cb_source_is_model. Qed.

(* the hypotheses are satisfiable on a circuit WITH a gate without output line (exD: old separation check false, extended one true), the
   callback changes the result, and at least five calls are made *)
Theorem C16_callback_loop8_source_nonvacuous : exists so lt0 lt1,
  build KV.Proofs.LogicSimLoopNExample.exD (repeat 1%N 11) 1%N true false = Some so /\ LS8.ops_sep_b so = false /\ LSN.ops_sepx_b so = true /\
  (exists o, In o (so_ops so) /\ s_out o = so_nlines so + 1) /\
  KV.Model.SimOpsCert.so_loc so (so_nlines so + 1) = Some lt0 /\ KV.Model.SimOpsCert.so_loc so (so_nlines so + 2) = Some lt1 /\
  (let r := c_prop_src loop_prop_cpu loop_cprop2_cb loop_cprop4 loop_cprop8 8 (so_locs so) (so_nlines so)
              (Z.of_nat (so_nlines so + 1)) (Z.of_nat (so_nlines so + 2)) (Some KV.Proofs.LogicSimLoopNExample.ex_f)
              (map KV.Proofs.LogicSimDriversProofs.row_of (so_ops so)) (map LS8.emb8 KV.Proofs.LogicSimLoopNExample.exM8d) in
   LS8.agree8 lt0 lt1 (fst r) (c_prop_cb Zero sem8 KV.Proofs.LogicSimLoopNExample.ex_cb so KV.Proofs.LogicSimLoopNExample.exM8d) /\
   map fst (snd r) = cb_lines so) /\
  (5 <= List.length (cb_lines so)) /\
  c_prop_cb Zero sem8 KV.Proofs.LogicSimLoopNExample.ex_cb so KV.Proofs.LogicSimLoopNExample.exM8d
    <> c_prop Zero sem8 so KV.Proofs.LogicSimLoopNExample.exM8d.
Proof. exact KV.Proofs.LogicSimLoopNExample.cb8_nonvacuous. Qed.
