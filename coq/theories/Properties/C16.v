(** C16 -- the fault-injection callback sees and controls every evaluated signal. Statements only. *)
From Coq Require Import List NArith Bool Arith String.
From KV Require Import Model.Bits Model.Logic Model.Prims Model.OpSem Gen.LogicSimDispatch
     Proofs.OpSemProofs Proofs.Dispatch.
Import ListNotations.

(* invoked exactly once per op, in op order, for that op's output -- in any value domain (2/4/8-valued) *)
Theorem C16_trace : forall V (sem : prim -> V -> V -> V -> V -> V) cb ops e,
  map fst (cb_trace sem cb ops e) = map o_out ops.
Proof. intros. apply cb_trace_outputs. Qed.

(* leaving the values untouched changes nothing *)
Theorem C16_identity : forall V (sem : prim -> V -> V -> V -> V -> V) ops e,
  exec_ops_cb sem (fun _ v => v) ops e = exec_ops sem ops e.
Proof. intros. apply cb_identity. Qed.

(* nothing upstream of the first altered signal changes *)
Theorem C16_upstream : forall V (sem : prim -> V -> V -> V -> V -> V) cb ops1 e,
  (forall o', In o' ops1 -> forall v, cb (o_out o') v = v) ->
  exec_ops_cb sem cb ops1 e = exec_ops sem ops1 e.
Proof. intros. apply cb_upstream. assumption. Qed.

(* overwriting one signal = simulating the rest of the circuit with that signal driven by the
   overwritten value *)
Theorem C16_override : forall V (sem : prim -> V -> V -> V -> V -> V) cb ops1 o ops2 e,
  (forall o', In o' ops1 -> forall v, cb (o_out o') v = v) ->
  (forall o', In o' ops2 -> forall v, cb (o_out o') v = v) ->
  exec_ops_cb sem cb (ops1 ++ o :: ops2) e
  = exec_ops sem ops2 (upd (exec_ops sem ops1 e) (o_out o)
       (cb (o_out o) (let e1 := exec_ops sem ops1 e in
                      sem (o_prim o) (e1 (o_i0 o)) (e1 (o_i1 o)) (e1 (o_i2 o)) (e1 (o_i3 o))))).
Proof. intros. apply cb_override_single; assumption. Qed.

(* the callback copies of the dispatch compute the same functions as the plain ones *)
Theorem C16_cb_paths_equal_plain :
  (forall p, exists g, assoc (prim_name p) disp2_cb = Some g /\ forall a b c d, run_bool g [a; b; c; d] = [prim_fn p a b c d]) /\
  (forall p, exists g, assoc (prim_name p) disp8_cb = Some g /\
     forall a b c d, run_bool g (encode_ins 3 [a; b; c; d]) = code_bits (spec_prim p a b c d)) /\
  (forall p, exists g, assoc (prim_name p) disp4_cb = Some g /\
     forall a b c d, is4 a = true -> is4 b = true -> is4 c = true -> is4 d = true ->
       run_bool g (encode_ins 2 [a; b; c; d]) = firstn 2 (code_bits (spec_prim p a b c d)) /\ is4 (spec_prim p a b c d) = true).
Proof.
  split; [|split].
  - apply dispatch2_correct. right. reflexivity.
  - apply dispatch8_spec. right. reflexivity.
  - apply dispatch4_spec. right. reflexivity.
Qed.
