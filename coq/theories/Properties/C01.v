(** C01 -- 2-valued logic simulation computes the netlist's Boolean function.  Statements only.
    FULL STATEMENT (not yet proved as one theorem; see DESIGN.md C01):
      forall g wf, options, sims, stimulus, lane < sims, s_node i with an input:
        lane (LogicSim(g).s[1]) i = netlist_sem g (lane stimulus) (ins[0] of s_node i)
    Proved below: every link that is table- or straight-line code (LUTs, both 2-valued dispatch copies,
    primitive selection, lane independence); the scheduler/memory links are tied by correspondence. *)
From Coq Require Import List NArith Bool Arith String.
From KV Require Import Model.Bits Model.Logic Model.Prims Model.OpSem Gen.SimTables Gen.LogicSimDispatch
     Proofs.Dispatch Proofs.CircuitLevel Proofs.BitsLift.
Import ListNotations.

Theorem C01_lut_correct : forall p, exists l, lut_of p = Some l /\ forall a b c d, lut_bit l a b c d = prim_fn p a b c d.
Proof. exact lut_correct. Qed.

Theorem C01_dispatch2_correct : forall tbl, tbl = disp2_cpu \/ tbl = disp2_cb ->
  forall p, exists g, assoc (prim_name p) tbl = Some g /\ forall a b c d, run_bool g [a; b; c; d] = [prim_fn p a b c d].
Proof. exact dispatch2_correct. Qed.

Theorem C01_select_prim : forall p, exists l, lut_of p = Some l /\
    select_lut kind_prefixes (prim_name p) (Nat.ltb (arity p) 3) (Nat.ltb (arity p) 4) = Some l /\
    select_lut kind_prefixes (lower (prim_name p)) (Nat.ltb (arity p) 3) (Nat.ltb (arity p) 4) = Some l.
Proof. exact select_prim_correct. Qed.

Theorem C01_opcodes_injective : lut_inj_chk = true.
Proof. exact lut_inj_ok. Qed.

(* independently for each of the parallel patterns, any number of patterns *)
Theorem C01_lanes : forall w p ins lane, (lane < w)%N ->
  map (fun x => N.testbit x lane) (run_N w p ins) = run_bool p (map (fun x => N.testbit x lane) ins).
Proof. intros. apply run_lift. assumption. Qed.
