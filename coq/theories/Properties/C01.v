(** C01 -- 2-valued logic simulation computes the netlist's Boolean function.  Statements only.
    FULL STATEMENT (not yet proved as one theorem; see DESIGN.md C01):
      forall g wf, options, sims, stimulus, lane < sims, s_node i with an input:
        lane (LogicSim(g).s[1]) i = netlist_sem g (lane stimulus) (ins[0] of s_node i)
    Proved below: every link that is table- or straight-line code (LUTs, both 2-valued dispatch copies,
    primitive selection, lane independence); the scheduler/memory links are tied by correspondence. *)
From Coq Require Import List NArith Bool Arith String.
From KV Require Import Model.Bits Model.Logic Model.Prims Model.OpSem Gen.SimTables Gen.LogicSimDispatch
     Proofs.Dispatch Proofs.CircuitLevel Proofs.BitsLift.
Import ListNotations.

Theorem C01_lut_correct : forall p, exists l, lut_of p = Some l /\ forall a b c d, lut_bit l a b c d = prim_fn p a b c d.
Proof. exact lut_correct. Qed.

Theorem C01_dispatch2_correct : forall tbl, tbl = disp2_cpu \/ tbl = disp2_cb ->
  forall p, exists g, assoc (prim_name p) tbl = Some g /\ forall a b c d, run_bool g [a; b; c; d] = [prim_fn p a b c d].
Proof. exact dispatch2_correct. Qed.

Theorem C01_select_prim : forall p, exists l, lut_of p = Some l /\
    select_lut kind_prefixes (prim_name p) (Nat.ltb (arity p) 3) (Nat.ltb (arity p) 4) = Some l /\
    select_lut kind_prefixes (lower (prim_name p)) (Nat.ltb (arity p) 3) (Nat.ltb (arity p) 4) = Some l.
Proof. exact select_prim_correct. Qed.

Theorem C01_opcodes_injective : lut_inj_chk = true.
Proof. exact lut_inj_ok. Qed.

(* independently for each of the parallel patterns, any number of patterns *)
Theorem C01_lanes : forall w p ins lane, (lane < w)%N ->
  map (fun x => N.testbit x lane) (run_N w p ins) = run_bool p (map (fun x => N.testbit x lane) ins).
Proof. intros. apply run_lift. assumption. Qed.

(** MAIN THEOREM (scheduler level).  For EVERY well-formed, combinationally acyclic netlist and EVERY stimulus, executing
    the scheduler's op list gate by gate yields a valuation of the lines that satisfies every node's equation (interface
    nodes drive BUF/INV of their assigned value, forks copy, every gate's output is its selected LUT of its input lines,
    unconnected pins read the constant-zero slot) -- in any value domain, hence per lane for any batch size.  With the
    uniqueness theorem this IS "the value obtained by evaluating the netlist gate by gate". *)
From KV Require Import Model.Netlist Model.NetlistWf Model.SimOps Model.AllocCheck Model.NetlistSem.
From KV Require Proofs.SemProofs.
Theorem C01_build_ops_solution : forall V (sem : N -> V -> V -> V -> V -> V) (zero : V) c stim,
  wf_netlist c -> comb_acyclic c ->
  solution sem zero c stim (iexec sem (fun x => x) (build_ops c false) (init_env zero c stim)).
Proof. intros V sem zero. exact (KV.Proofs.SemProofs.build_ops_solution sem zero). Qed.

Theorem C01_solution_unique : forall V (sem : N -> V -> V -> V -> V -> V) (zero : V) c stim v1 v2,
  wf_netlist c -> comb_acyclic c ->
  (forall n, n < List.length (c_nodes c) -> iface_pos c n = None -> is_fork (get_node c n) = false ->
     select_lut kind_prefixes (n_kind (get_node c n)) (negb (is_some (pin (n_ins (get_node c n)) 2)))
                (negb (is_some (pin (n_ins (get_node c n)) 3))) <> None) ->
  (forall n, n < List.length (c_nodes c) -> is_dff (get_node c n) = true -> forall k o, 2 <= k -> pin (n_outs (get_node c n)) k = Some o -> False) ->
  (forall n, n < List.length (c_nodes c) -> iface_pos c n = None -> is_fork (get_node c n) = false ->
     forall k o, 1 <= k -> pin (n_outs (get_node c n)) k = Some o -> False) ->
  solution sem zero c stim v1 -> solution sem zero c stim v2 ->
  forall l, l < List.length (c_lines c) -> v1 l = v2 l.
Proof. intros V sem zero. exact (KV.Proofs.SemProofs.solution_unique sem zero). Qed.

(** 2-valued reading: at every interface line the stimulus (inverted at a flip-flop's second output), at every fork
    output the fork's input, at every gate output the PRIMITIVE'S BOOLEAN FUNCTION of its pin values (unconnected = 0) *)
From KV Require Proofs.SemCompose.
Theorem C01_logic2_gate_by_gate : forall c (stim : nat -> bool), wf_netlist c -> comb_acyclic c ->
  let v := iexec sem_lut (fun x => x) (build_ops c false) (init_env false c stim) in
  forall n, n < List.length (c_nodes c) ->
    let nd := get_node c n in
    match iface_pos c n with
    | Some p => (forall o, pin (n_outs nd) 0 = Some o -> v o = stim p) /\
                (is_dff nd = true -> forall o, pin (n_outs nd) 1 = Some o -> v o = negb (stim p)) /\
                (is_dff nd = false -> forall k o, 0 < k -> pin (n_outs nd) k = Some o -> v o = stim p)
    | None => if is_fork nd then forall k o, pin (n_outs nd) k = Some o -> v o = pinv false v (n_ins nd) 0
              else forall p sp, lut_of p = Some sp ->
                     select_lut kind_prefixes (n_kind nd) (negb (is_some (pin (n_ins nd) 2))) (negb (is_some (pin (n_ins nd) 3))) = Some sp ->
                     forall o, pin (n_outs nd) 0 = Some o ->
                       v o = prim_fn p (pinv false v (n_ins nd) 0) (pinv false v (n_ins nd) 1) (pinv false v (n_ins nd) 2) (pinv false v (n_ins nd) 3)
    end.
Proof. exact KV.Proofs.SemCompose.logic2_gate_by_gate. Qed.

(** End to end for the default options (c_reuse off, strip_forks off): the flat memory that SimOps.build lays out, after
    executing the op list it schedules, holds at every observed slot exactly the value of the line feeding that output /
    state element in THE gate-by-gate solution of the netlist -- schedule, allocator and memory map composed, no
    certificate evaluation involved. *)
From KV Require Import Model.SimOpsCert.
From KV Require Proofs.EndToEnd.
Theorem C01_end_to_end_default : forall V (sem : N -> V -> V -> V -> V -> V) (zero : V) c caps cmin so stim (m0 : fmem) v,
  wf_netlist c -> comb_acyclic c -> (0 < cmin)%N -> KV.Proofs.EndToEnd.gates_known c ->
  build c caps cmin false false = Some so ->
  (forall x l, In x (so_init so) -> so_loc so x = Some l -> m0 l = init_env zero c stim x) ->
  solution sem zero c stim v ->
  forall p, In p (so_final so) ->
    so_alias c so p < List.length (c_lines c) /\
    (exists t, n_ins (get_node c (nth (p - (List.length (c_lines c) + 3 + List.length (s_nodes c))) (s_nodes c) 0)) = Some (so_alias c so p) :: t) /\
    mread zero (so_loc so) (mexec sem zero (so_loc so) (so_ops so) m0) p = v (so_alias c so p).
Proof. intros V sem zero. exact (KV.Proofs.EndToEnd.end_to_end_solution sem zero). Qed.

Theorem C01_build_total : forall c caps cmin,
  wf_netlist c -> (0 < cmin)%N -> List.length (c_lines c) <= List.length caps ->
  exists so, build c caps cmin false false = Some so.
Proof. exact KV.Proofs.EndToEnd.build_total. Qed.

(** MULTI-CYCLE (LogicSim.cycle = s_to_c; c_prop; c_to_s; s_ppo_to_ppi, k times), at line level.  [line_cycles] (Model/CycleSem.v,
    the function evaluated against LogicSim.cycle in the correspondence check) iterates: execute the scheduler's op list from the
    assignment vector, capture the line at input pin 0 of every port / state element into the result vector, copy the result
    entries of all state elements (flip-flops and latches alike) into the assignment vector.  [iter_sem] is the netlist's
    synchronous semantics: the same iteration over ANY valuation that satisfies every node's equation. *)
From KV Require Import Model.CycleSem.
From KV Require Proofs.CycleProofs.
Theorem C01_cycles_iter_sem : forall V (sem : N -> V -> V -> V -> V -> V) (zero : V) c k s0 s1,
  wf_netlist c -> comb_acyclic c ->
  iter_sem sem zero c k s0 s1 (fst (line_cycles sem zero c k (s0, s1))) (snd (line_cycles sem zero c k (s0, s1))).
Proof. intros V sem zero. exact (KV.Proofs.CycleProofs.cycles_iter_sem sem zero). Qed.

(* ... and the semantics determines both vectors: after k cycles they EQUAL the scheduler-based iteration *)
Theorem C01_cycles_are_iter_sem : forall V (sem : N -> V -> V -> V -> V -> V) (zero : V) c k s0 s1 a b,
  wf_netlist c -> comb_acyclic c -> KV.Proofs.EndToEnd.gates_known c ->
  (iter_sem sem zero c k s0 s1 a b <-> (a, b) = line_cycles sem zero c k (s0, s1)).
Proof. intros V sem zero. exact (KV.Proofs.CycleProofs.cycles_are_iter_sem sem zero). Qed.

(* one step spelled out: result entry and next state of s_node p = the solution's value at the line on its input pin 0;
   ports keep their assigned value *)
Theorem C01_cycle_next_state : forall V (sem : N -> V -> V -> V -> V -> V) (zero : V) c s0 s1 v p l0,
  wf_netlist c -> comb_acyclic c -> KV.Proofs.EndToEnd.gates_known c -> solution sem zero c (stim_of zero s0) v ->
  snode_in c p = Some l0 ->
  nth p (snd (line_cycle sem zero c (s0, s1))) zero = v l0 /\
  (List.length (c_io c) <= p -> nth p (fst (line_cycle sem zero c (s0, s1))) zero = v l0) /\
  (p < List.length (c_io c) -> nth p (fst (line_cycle sem zero c (s0, s1))) zero = nth p s0 zero).
Proof. intros V sem zero. exact (KV.Proofs.CycleProofs.cycle_next_state sem zero). Qed.

(* executable test of gates_known *)
Theorem C01_gates_known_b_sound : forall c, KV.Proofs.CycleProofs.gates_known_b c = true -> KV.Proofs.EndToEnd.gates_known c.
Proof. exact KV.Proofs.CycleProofs.gates_known_b_sound. Qed.

(* a flip-flop / latch WITHOUT a data line (no PPO slot): c_to_s never writes its result entry and s_ppo_to_ppi copies that
   entry, so with the result vector initialised to 0 (LogicSim.__init__) its state is 0 from the first cycle on *)
Theorem C01_cycles_no_data_line : forall V (sem : N -> V -> V -> V -> V -> V) (zero : V) c p k s0 s1,
  p < List.length (s_nodes c) -> List.length (c_io c) <= p -> snode_in c p = None -> nth p s1 zero = zero ->
  nth p (snd (line_cycles sem zero c k (s0, s1))) zero = zero /\
  (1 <= k -> nth p (fst (line_cycles sem zero c k (s0, s1))) zero = zero).
Proof. intros V sem zero. exact (KV.Proofs.CycleProofs.cycles_no_data_line sem zero). Qed.

(** THE CORRESPONDENCE-CHECKED MODEL (Model/LogicSimModel.v: list memory, opcode -> primitive through the regenerated table;
    evaluated against kyupy.logic_sim.LogicSim on every generated circuit) computes what the theorems above are about.
    [semN sem] reads an opcode through the opcode table; [ops_known]: every scheduled opcode has a primitive; [locs_ok]: every
    published location lies inside the memory.  (Proofs/LogicSimGlue.v) *)
From KV Require Import Model.LogicSimModel.
From KV Require Proofs.LogicSimGlue Proofs.ReuseStrip.

(* c_prop on the list memory refines the function-memory execution [mexec] of the end-to-end theorems *)
Theorem C01_model_c_prop_refines : forall V (dflt : V) (sem : prim -> V -> V -> V -> V -> V) so m,
  KV.Proofs.LogicSimGlue.ops_known so -> KV.Proofs.LogicSimGlue.locs_ok so (List.length m) ->
  List.length (c_prop dflt sem so m) = List.length m /\
  forall j, nth j (c_prop dflt sem so m) dflt
            = mexec (KV.Proofs.LogicSimGlue.semN sem) dflt (so_loc so) (so_ops so) (fun l => nth l m dflt) j.
Proof. intros V dflt sem. exact (KV.Proofs.LogicSimGlue.c_prop_refines dflt sem). Qed.

(* both side conditions hold for every SimOps result, whatever the options; s_to_c writes the assigned value to every PPI slot
   that has a location and leaves the constant-zero slot alone; c_to_s reads the PPO slots *)
Theorem C01_model_build_conditions : forall c caps cmin reuse strip so,
  wf_netlist c -> comb_acyclic c -> (0 < cmin)%N -> KV.Proofs.EndToEnd.gates_known c -> (strip = true -> KV.Proofs.ReuseStrip.forks_ok c) ->
  build c caps cmin reuse strip = Some so ->
  KV.Proofs.LogicSimGlue.ops_known so /\ KV.Proofs.LogicSimGlue.locs_ok so (N.to_nat (so_len so)) /\
  (forall V (dflt : V) (s0 m : list V) i l, i < so_slen so -> i < List.length s0 -> so_loc so (so_ppi so + i) = Some l ->
     List.length m = N.to_nat (so_len so) -> nth l (s_to_c so s0 m) dflt = nth i s0 dflt) /\
  (forall V (dflt : V) (s0 m : list V) lz, so_loc so (so_nlines so) = Some lz -> nth lz (s_to_c so s0 m) dflt = nth lz m dflt) /\
  (forall V (dflt : V) (m s1 : list V), List.length s1 = so_slen so ->
     c_to_s dflt so m s1 = map (fun p => match so_loc so (so_ppo so + p) with Some l => nth l m dflt | None => nth p s1 dflt end)
                               (seq 0 (so_slen so))).
Proof. exact KV.Proofs.LogicSimGlue.build_refinement_conditions. Qed.

(** MODEL-LEVEL END TO END.  For every well-formed, combinationally acyclic netlist of known gates, every combination of c_reuse and
    strip_forks, every stimulus and ANY valuation [v] of the lines that satisfies all node equations: one propagation of the model from
    a cleared memory captures, at every s_node position with a data line, [v] of that line; the other positions keep their entry. *)
Theorem C01_logicsim_model_correct : forall V (dflt : V) (sem : prim -> V -> V -> V -> V -> V) c caps cmin reuse strip so s0 s1 v,
  wf_netlist c -> comb_acyclic c -> (0 < cmin)%N -> KV.Proofs.EndToEnd.gates_known c ->
  (strip = true -> KV.Proofs.ReuseStrip.forks_ok c /\ forall x b cc d, sem BUF1 x b cc d = x) ->
  build c caps cmin reuse strip = Some so ->
  List.length s0 = so_slen so -> List.length s1 = so_slen so ->
  solution (KV.Proofs.LogicSimGlue.semN sem) dflt c (fun p => nth p s0 dflt) v ->
  so_slen so = List.length (s_nodes c) /\ List.length (simulate dflt sem so s0 s1) = so_slen so /\
  forall p, p < so_slen so ->
    nth p (simulate dflt sem so s0 s1) dflt = match snode_in c p with Some l0 => v l0 | None => nth p s1 dflt end.
Proof. intros V dflt sem. exact (KV.Proofs.LogicSimGlue.logicsim_model_correct dflt sem). Qed.

(* ... equivalently, the whole result vector is the capture of the scheduler's gate-by-gate execution (C01_build_ops_solution) *)
Theorem C01_logicsim_model_capture : forall V (dflt : V) (sem : prim -> V -> V -> V -> V -> V) c caps cmin reuse strip so s0 s1,
  wf_netlist c -> comb_acyclic c -> (0 < cmin)%N -> KV.Proofs.EndToEnd.gates_known c ->
  (strip = true -> KV.Proofs.ReuseStrip.forks_ok c /\ forall x b cc d, sem BUF1 x b cc d = x) ->
  build c caps cmin reuse strip = Some so ->
  List.length s0 = List.length (s_nodes c) -> List.length s1 = List.length (s_nodes c) ->
  simulate dflt sem so s0 s1
  = capture dflt c (iexec (KV.Proofs.LogicSimGlue.semN sem) (fun x => x) (build_ops c false) (init_env dflt c (fun p => nth p s0 dflt))) s1.
Proof. intros V dflt sem. exact (KV.Proofs.LogicSimGlue.logicsim_model_capture dflt sem). Qed.

(** k CYCLES of the model -- the memory is carried over, not cleared; with c_reuse a location may hold a stale value, but the
    constant-zero slot is pinned (never overwritten), s_to_c rewrites every PPI slot, and every other read is of an owned slot
    (map_check) -- give exactly the vectors of [line_cycles], i.e. THE k-fold synchronous semantics of the netlist *)
Theorem C01_cycles_model_correct : forall V (dflt : V) (sem : prim -> V -> V -> V -> V -> V) c caps cmin reuse strip so k s0 s1,
  wf_netlist c -> comb_acyclic c -> (0 < cmin)%N -> KV.Proofs.EndToEnd.gates_known c ->
  (strip = true -> KV.Proofs.ReuseStrip.forks_ok c /\ forall x b cc d, sem BUF1 x b cc d = x) ->
  build c caps cmin reuse strip = Some so ->
  List.length s0 = List.length (s_nodes c) -> List.length s1 = List.length (s_nodes c) ->
  let r := cycles k dflt sem so (List.length (c_io c)) (repeat dflt (N.to_nat (so_len so))) s0 s1 in
  (snd (fst r), snd r) = line_cycles (KV.Proofs.LogicSimGlue.semN sem) dflt c k (s0, s1) /\
  iter_sem (KV.Proofs.LogicSimGlue.semN sem) dflt c k s0 s1 (snd (fst r)) (snd r).
Proof. intros V dflt sem. exact (KV.Proofs.LogicSimGlue.cycles_model_correct dflt sem). Qed.

(* the entry point of the 2-valued correspondence check itself: what it returns IS the k-fold Boolean next-state function
   (LUT semantics, C01_logic2_gate_by_gate); it returns None only where SimOps raises (a stripped fork without stem) *)
Theorem C01_sim_case2_correct : forall c reuse strip k s0 s1,
  wf_netlist c -> comb_acyclic c -> KV.Proofs.EndToEnd.gates_known c -> (strip = true -> KV.Proofs.ReuseStrip.forks_ok c) ->
  List.length s0 = List.length (s_nodes c) -> List.length s1 = List.length (s_nodes c) ->
  match sim_case2 c reuse strip k s0 s1 with
  | Some r => r = line_cycles sem_lut false c k (s0, s1) /\ iter_sem sem_lut false c k s0 s1 (fst r) (snd r)
  | None => build_stems c strip (List.length (c_lines c) + 3 + List.length (s_nodes c) + List.length (s_nodes c)) = None
  end.
Proof. exact KV.Proofs.LogicSimGlue.sim_case2_correct. Qed.

(** ---- source tie of the scheduler: the op-building loop of sim.SimOps.__init__, translated from the CURRENT source by
    translate/gen_simops.py (Gen/SimOpsSrc.v, section ops_src), produces exactly the op list of the hand model [build_ops] on which
    the theorems above are stated -- for EVERY netlist; each row is extended by the a_ctrl row of its output index.  The side
    conditions say that the (normalised) a_ctrl table has a row for every connected output line and the scratch slot: outside them
    the source raises IndexError.  circuit.topological_order() / circuit.s_nodes are the existing models [topo_order] / [s_nodes]. *)
From KV Require Import Model.SimOpsSrcLib Gen.SimOpsSrc.
From KV Require Proofs.SimOpsSrcProofs.
Theorem C01_simops_ops_source_is_model : forall c actrl strip,
  (forall n l, In (Some l) (n_outs (get_node c n)) -> l < List.length actrl) ->
  List.length (c_lines c) + 1 < List.length actrl ->
  simops_ops_src c actrl strip = Some (map (row_of_sop actrl) (build_ops c strip)).
Proof. exact KV.Proofs.SimOpsSrcProofs.ops_source_is_model. Qed.

(** for a well-formed netlist and ANY a_ctrl argument (None, one row per line, or lines+3 rows; pinned normalisation a_ctrl_norm) *)
Theorem C01_simops_ops_source_is_model_wf : forall c given strip, wf_netlist c ->
  let actrl := a_ctrl_norm given (List.length (c_lines c) + 3) in
  simops_ops_src c actrl strip = Some (map (row_of_sop actrl) (build_ops c strip)) /\
  option_map (map sop_of_row) (simops_ops_src c actrl strip) = Some (build_ops c strip).
Proof. exact KV.Proofs.SimOpsSrcProofs.ops_source_is_model_wf. Qed.

(** the hypotheses hold and the translated loop runs on a concrete netlist: input a, b -> AND2 g -> fork -> output y, DFF q(QN used) *)
Theorem C01_simops_ops_source_nonvacuous :
  option_map (map sop_of_row) (simops_ops_src KV.Proofs.SimOpsSrcProofs.ex_src_net (a_ctrl_norm None 9) false) = Some (build_ops KV.Proofs.SimOpsSrcProofs.ex_src_net false) /\
  List.length (build_ops KV.Proofs.SimOpsSrcProofs.ex_src_net false) = 7 /\
  option_map (@List.length _) (simops_ops_src KV.Proofs.SimOpsSrcProofs.ex_src_net (a_ctrl_norm None 9) true) = Some 5.
Proof. exact KV.Proofs.SimOpsSrcProofs.ops_source_example. Qed.

(** the op-building loop of Gen/SimOpsSrc.v runs over `circuit.topological_order()` (and reads `circuit.s_nodes`), which its translator takes
    from the models [topo_order] / [s_nodes]; Gen/TraversalsSrc.v (translate/gen_traversals.py) translates these two functions of
    circuit.py themselves, and Proofs/TraversalsSrcProofs.v proves them equal to the models (C17_traversals_source_is_model).  So the
    list the translated scheduler iterates over IS what the translated generator returns: the whole op list is tied to the source text.
    [u32_ok]: every node has fewer than 2^32 connected input pins (visit_count is a numpy uint32 array). *)
From KV Require Model.TraversalsSrcLib Gen.TraversalsSrc Proofs.SimOpsTopoSrc.
Theorem C01_simops_ops_source_uses_translated_order : forall c given strip fuel,
  wf_netlist c -> KV.Model.TraversalsSrcLib.u32_ok c -> List.length (c_nodes c) < fuel ->
  let actrl := a_ctrl_norm given (List.length (c_lines c) + 3) in
  exists order, KV.Gen.TraversalsSrc.topological_order_src c fuel = Some order /\ order = topo_order c /\
    simops_ops_src c actrl strip = Some (map (row_of_sop actrl) (build_ops c strip)) /\
    KV.Gen.TraversalsSrc.s_nodes_src c = Some (s_nodes c).
Proof. exact KV.Proofs.SimOpsTopoSrc.simops_ops_source_uses_translated_order. Qed.

(** ---- source tie of the logic simulator's DRIVER code (round 3): the evaluation loop of logic_sim._prop_cpu -- loop header, c_locs
    re-mapping, the if / elif chain of opcode guards in source order, every branch -- is translated from the CURRENT source by
    translate/gen_logicsim_drivers.py (Gen/LogicSimDriversSrc.v; meaning of the emitted data: Model/LogicSimDrvPrelude.v, one lane).
    The chains of both 2-valued copies select, for every opcode constant of sim.py, ONE assignment to c[o0] over c[i0..i3] that computes
    what the table TRACED by translate/gen_dispatch.py computes on all 16 operand rows; a guard that fires belongs to a known opcode. *)
From Coq Require Import ZArith.
From KV Require Import Gen.SimTables Gen.LogicSimDispatch Model.LogicSimModel.
From KV Require Import Model.WaveDrvPrelude Model.LogicSimDrvPrelude Gen.LogicSimDriversSrc.
From KV Require Proofs.LogicSimDriversProofs Proofs.LogicSimDriversExample.
Theorem C01_logicsim_chain2_agrees_trace :
  forallb (KV.Proofs.LogicSimDriversProofs.chain2_chk (l_chain loop_prop_cpu) disp2_cpu) lut_table = true /\
  forallb (KV.Proofs.LogicSimDriversProofs.chain2_chk (l_chain loop_cprop2_cb) disp2_cb) lut_table = true /\
  KV.Proofs.LogicSimDriversProofs.guards_known (l_chain loop_prop_cpu) = true /\
  KV.Proofs.LogicSimDriversProofs.guards_known (l_chain loop_cprop2_cb) = true.
Proof. exact (conj KV.Proofs.LogicSimDriversProofs.chain2_cpu_ok (conj KV.Proofs.LogicSimDriversProofs.chain2_cb_ok
              (conj KV.Proofs.LogicSimDriversProofs.guards_cpu_ok KV.Proofs.LogicSimDriversProofs.guards_2cb_ok))). Qed.

(* the translated loop of _prop_cpu over the op rows of ANY SimOps result whose op indices are allocated, on any memory, IS c_prop of the
   compared model (lane by lane; emb2 b = the one plane [b]) ... *)
Theorem C01_logicsim_loop_source_is_model : forall so m nl t0 t1, KV.Proofs.LogicSimDriversProofs.ops_located so ->
  run_loop 1 loop_prop_cpu (so_locs so) nl t0 t1 None (map KV.Proofs.LogicSimDriversProofs.row_of (so_ops so)) (map KV.Proofs.LogicSimDriversProofs.emb2 m)
  = (map KV.Proofs.LogicSimDriversProofs.emb2 (c_prop false sem2 so m), []).
Proof. exact KV.Proofs.LogicSimDriversProofs.prop_cpu_source_is_model. Qed.

(* ... and that side condition holds for EVERY build() result (all four option combinations): it follows from the memory-map certificate.
   PARTIAL with respect to the intended C01_logicsim_drivers_source_is_model: what is missing is the equality of the PINNED per-lane
   meaning of LogicSim.s_to_c / c_to_s / s_ppo_to_ppi / cycle (Model/LogicSimDrvPrelude.v s_to_c_src / c_to_s_src / s_ppo_to_ppi_src /
   cycle_src) with s_to_c / c_to_s / ppo_to_ppi / cycles of Model/LogicSimModel.v as a THEOREM; both sides are compared with the real
   methods on generated arrays on every run (harness/lsim_drivers_corr.py and the LogicSim correspondence).
   Intended statement:  forall k, rel L (m, s0, s1) -> rel (cycle_src k (s_to_c_src ..) (c_to_s_src ..) (s_ppo_to_ppi_src ..) (loop) L)
                                                          (cycles k false sem2 so n_io m s0 s1). *)
Theorem C01_logicsim_drivers_source_is_model_partial : forall c caps cmin reuse strip so m,
  wf_netlist c -> comb_acyclic c -> (0 < cmin)%N -> KV.Proofs.EndToEnd.gates_known c -> (strip = true -> KV.Proofs.ReuseStrip.forks_ok c) ->
  build c caps cmin reuse strip = Some so ->
  c_prop_src loop_prop_cpu loop_cprop2_cb loop_cprop4 loop_cprop8 2 (so_locs so) (so_nlines so)
             (Z.of_nat (so_nlines so + 1)) (Z.of_nat (so_nlines so + 2)) None
             (map KV.Proofs.LogicSimDriversProofs.row_of (so_ops so)) (map KV.Proofs.LogicSimDriversProofs.emb2 m)
  = (map KV.Proofs.LogicSimDriversProofs.emb2 (c_prop false sem2 so m), []).
Proof.
  intros c caps cmin reuse strip so m WF AC CM GK FK B.
  exact (KV.Proofs.LogicSimDriversProofs.prop_cpu_source_is_model so m _ 0%Z 0%Z
           (KV.Proofs.LogicSimDriversProofs.build_ops_located c caps cmin reuse strip so WF AC CM GK FK B)).
Qed.

Theorem C01_logicsim_loop_source_nonvacuous : exists so,
  build KV.Proofs.ReuseProofs.ReuseExample.exR (repeat 1%N 7) 1%N true true = Some so /\ KV.Proofs.LogicSimDriversProofs.ops_located so /\
  (2 <= List.length (so_ops so))%nat /\
  let m := [true; false; true; true; false; true; false; true; true] in
  run_loop 1 loop_prop_cpu (so_locs so) (so_nlines so) 0%Z 0%Z None (map KV.Proofs.LogicSimDriversProofs.row_of (so_ops so)) (map KV.Proofs.LogicSimDriversProofs.emb2 m)
  = (map KV.Proofs.LogicSimDriversProofs.emb2 (c_prop false sem2 so m), []) /\ c_prop false sem2 so m <> m.
Proof. exact KV.Proofs.LogicSimDriversExample.source_loop_example. Qed.

(** ---- the FULL source tie of the logic simulator's drivers (closes C01_logicsim_drivers_source_is_model_partial): the pinned per-lane
    meanings of LogicSim.s_to_c / c_to_s / s_ppo_to_ppi / cycle (Model/LogicSimDrvPrelude.v) ARE s_to_c / c_to_s / ppo_to_ppi / cycles of the
    compared hand model, as theorems (Proofs/LogicSimDriversFull.v).  [rel2 so L m s0 s1]: the source-level lane state L (c: one plane per
    location; s[0], s[1]: s_len rows of three planes) shows the model state -- c = the memory m plane by plane, s0 / s1 = plane 0 of the
    s[0] / s[1] rows.  numpy's negative-index wrap-around cannot occur: all positions come from arange (zseq), all c_locs indices are
    offset + position, and every location passed the `c_locs[..] >= 0` filter of SimOps.__init__ -- proved (through pyidx_nat), not assumed.
    The only shape hypotheses are n_io <= s_len (proved for every build() result: s_nodes = io_nodes + state elements) and the array
    shape of s that LogicSim.__init__ allocates. *)
From KV Require Proofs.LogicSimDriversFull Proofs.LogicSimDriversFullExample.
Module LSF := KV.Proofs.LogicSimDriversFull.

Theorem C01_logicsim_s_to_c_source_is_model : forall so n_io L m, (n_io <= so_slen so)%nat ->
  ls_c L = map KV.Proofs.LogicSimDriversProofs.emb2 m -> LSF.rows3 (ls_s0 L) -> List.length (ls_s0 L) = so_slen so ->
  s_to_c_src 1 (so_locs so) (Z.of_nat (ppi_off so)) n_io (so_slen so) L
  = mk_lsim (map KV.Proofs.LogicSimDriversProofs.emb2 (s_to_c so (LSF.p0 (ls_s0 L)) m)) (ls_s0 L) (ls_s1 L).
Proof. exact LSF.s_to_c_src_is_model. Qed.

Theorem C01_logicsim_c_to_s_source_is_model : forall so m n_io L, (n_io <= so_slen so)%nat ->
  ls_c L = map KV.Proofs.LogicSimDriversProofs.emb2 m -> LSF.rows3 (ls_s1 L) -> List.length (ls_s1 L) = so_slen so ->
  exists S1', c_to_s_src 1 (so_locs so) (Z.of_nat (ppo_off so)) n_io (so_slen so) L = mk_lsim (ls_c L) (ls_s0 L) S1' /\
    LSF.p0 S1' = c_to_s false so m (LSF.p0 (ls_s1 L)) /\ LSF.rows3 S1' /\ List.length S1' = so_slen so.
Proof. exact LSF.c_to_s_src_is_model. Qed.

Theorem C01_logicsim_s_ppo_to_ppi_source_is_model : forall slen n_io L, (n_io <= slen)%nat ->
  List.length (ls_s0 L) = slen -> List.length (ls_s1 L) = slen -> LSF.rows3 (ls_s0 L) -> LSF.rows3 (ls_s1 L) ->
  exists S0', s_ppo_to_ppi_src 1 n_io slen L = mk_lsim (ls_c L) S0' (ls_s1 L) /\
    LSF.p0 S0' = ppo_to_ppi n_io (LSF.p0 (ls_s0 L)) (LSF.p0 (ls_s1 L)) /\ LSF.rows3 S0' /\ List.length S0' = slen.
Proof. exact LSF.s_ppo_to_ppi_src_is_model. Qed.

(* for EVERY build() result (all four option combinations): one simulation round s_to_c(); c_prop(); c_to_s() of the source-level model
   (the pinned methods around the TRANSLATED _prop_cpu loop, [prop_of] = the pinned c_prop skeleton for m == 2) from any related state is the
   model's round, and k calls of the body of LogicSim.cycle are the model's [cycles k] -- memory, assignments and results *)
Theorem C01_logicsim_drivers_source_is_model : forall c caps cmin reuse strip so,
  wf_netlist c -> comb_acyclic c -> (0 < cmin)%N -> KV.Proofs.EndToEnd.gates_known c -> (strip = true -> KV.Proofs.ReuseStrip.forks_ok c) ->
  build c caps cmin reuse strip = Some so ->
  let n_io := List.length (c_io c) in
  forall L m s0 s1, LSF.rel2 so L m s0 s1 ->
    (let m' := c_prop false sem2 so (s_to_c so s0 m) in LSF.rel2 so (LSF.round_of so n_io L) m' s0 (c_to_s false so m' s1)) /\
    forall k, let r := cycles k false sem2 so n_io m s0 s1 in
      LSF.rel2 so (cycle_src k (LSF.stc_of so n_io) (LSF.cts_of so n_io) (LSF.p2p_of so n_io) (LSF.prop_of so) L) (fst (fst r)) (snd (fst r)) (snd r).
Proof.
  intros c caps cmin reuse strip so WF AC CM GK FK B n_io L m s0 s1 HR.
  exact (conj (LSF.build_round_src_is_model c caps cmin reuse strip so WF AC CM GK FK B L m s0 s1 HR)
              (fun k => LSF.build_cycle_src_is_model c caps cmin reuse strip so WF AC CM GK FK B k L m s0 s1 HR)).
Qed.

(* ... hence (composed with C01_logicsim_model_correct / C01_cycles_model_correct): from the state LogicSim.__init__ leaves (c cleared) the
   source-level round captures, at every s_node position with a data line, the value of that line in ANY solution of the netlist's
   gate-by-gate equations, and k source-level cycles compute the k-fold synchronous semantics *)
Theorem C01_logicsim_drivers_source_correct : forall c caps cmin reuse strip so,
  wf_netlist c -> comb_acyclic c -> (0 < cmin)%N -> KV.Proofs.EndToEnd.gates_known c -> (strip = true -> KV.Proofs.ReuseStrip.forks_ok c) ->
  build c caps cmin reuse strip = Some so ->
  let n_io := List.length (c_io c) in
  forall L, LSF.lsim_init so L ->
  (forall v, solution (KV.Proofs.LogicSimGlue.semN sem2) false c (fun p => nth p (LSF.p0 (ls_s0 L)) false) v ->
     let L' := LSF.round_of so n_io L in
     LSF.p0 (ls_s1 L') = simulate false sem2 so (LSF.p0 (ls_s0 L)) (LSF.p0 (ls_s1 L)) /\ ls_s0 L' = ls_s0 L /\
     forall p, (p < List.length (s_nodes c))%nat ->
       nth p (LSF.p0 (ls_s1 L')) false = match snode_in c p with Some l0 => v l0 | None => nth p (LSF.p0 (ls_s1 L)) false end) /\
  (forall k,
     let L' := cycle_src k (LSF.stc_of so n_io) (LSF.cts_of so n_io) (LSF.p2p_of so n_io) (LSF.prop_of so) L in
     let r := cycles k false sem2 so n_io (repeat false (N.to_nat (so_len so))) (LSF.p0 (ls_s0 L)) (LSF.p0 (ls_s1 L)) in
     (ls_c L' = map KV.Proofs.LogicSimDriversProofs.emb2 (fst (fst r)) /\ LSF.p0 (ls_s0 L') = snd (fst r) /\ LSF.p0 (ls_s1 L') = snd r) /\
     (LSF.p0 (ls_s0 L'), LSF.p0 (ls_s1 L')) = line_cycles (KV.Proofs.LogicSimGlue.semN sem2) false c k (LSF.p0 (ls_s0 L), LSF.p0 (ls_s1 L)) /\
     iter_sem (KV.Proofs.LogicSimGlue.semN sem2) false c k (LSF.p0 (ls_s0 L)) (LSF.p0 (ls_s1 L)) (LSF.p0 (ls_s0 L')) (LSF.p0 (ls_s1 L'))).
Proof.
  intros c caps cmin reuse strip so WF AC CM GK FK B n_io L HI.
  exact (conj (fun v Hv => LSF.build_round_solution c caps cmin reuse strip so WF AC CM GK FK B L v HI Hv)
              (fun k => LSF.build_cycle_solution c caps cmin reuse strip so WF AC CM GK FK B k L HI)).
Qed.

(* the entry point of the 2-valued correspondence check is what the source-level cycle leaves in s[0] / s[1] (plane 0), and that is the
   k-fold Boolean next-state function (LUT semantics) *)
Theorem C01_logicsim_drivers_source_is_sim_case2 : forall c reuse strip so k L,
  wf_netlist c -> comb_acyclic c -> KV.Proofs.EndToEnd.gates_known c -> (strip = true -> KV.Proofs.ReuseStrip.forks_ok c) ->
  build c (repeat 1%N (List.length (c_lines c) + 3)) 1%N reuse strip = Some so -> LSF.lsim_init so L ->
  let n_io := List.length (c_io c) in
  let L' := cycle_src k (LSF.stc_of so n_io) (LSF.cts_of so n_io) (LSF.p2p_of so n_io) (LSF.prop_of so) L in
  sim_case2 c reuse strip k (LSF.p0 (ls_s0 L)) (LSF.p0 (ls_s1 L)) = Some (LSF.p0 (ls_s0 L'), LSF.p0 (ls_s1 L')) /\
  (LSF.p0 (ls_s0 L'), LSF.p0 (ls_s1 L')) = line_cycles sem_lut false c k (LSF.p0 (ls_s0 L), LSF.p0 (ls_s1 L)) /\
  iter_sem sem_lut false c k (LSF.p0 (ls_s0 L)) (LSF.p0 (ls_s1 L)) (LSF.p0 (ls_s0 L')) (LSF.p0 (ls_s1 L')).
Proof. exact LSF.sim_case2_is_source. Qed.

(* non-vacuity on the exR instance (c_reuse and strip_forks on): a concrete initial state, two source-level cycles EVALUATED *)
Theorem C01_logicsim_drivers_source_nonvacuous : exists so,
  build KV.Proofs.ReuseProofs.ReuseExample.exR (repeat 1%N (List.length (c_lines KV.Proofs.ReuseProofs.ReuseExample.exR) + 3)) 1%N true true = Some so /\
  LSF.lsim_init so KV.Proofs.LogicSimDriversFullExample.exL /\
  let exL := KV.Proofs.LogicSimDriversFullExample.exL in
  let exR := KV.Proofs.ReuseProofs.ReuseExample.exR in
  let n_io := List.length (c_io exR) in
  let L' := cycle_src 2 (LSF.stc_of so n_io) (LSF.cts_of so n_io) (LSF.p2p_of so n_io) (LSF.prop_of so) exL in
  LSF.p0 (ls_s0 exL) = [true; true; false] /\ LSF.p0 (ls_s0 L') = [true; true; true] /\ LSF.p0 (ls_s1 L') = [false; true; true] /\
  sim_case2 exR true true 2 (LSF.p0 (ls_s0 exL)) (LSF.p0 (ls_s1 exL)) = Some (LSF.p0 (ls_s0 L'), LSF.p0 (ls_s1 L')) /\
  iter_sem sem_lut false exR 2 (LSF.p0 (ls_s0 exL)) (LSF.p0 (ls_s1 exL)) (LSF.p0 (ls_s0 L')) (LSF.p0 (ls_s1 L')).
Proof. exact KV.Proofs.LogicSimDriversFullExample.drivers_full_example. Qed.
