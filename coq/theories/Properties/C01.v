(** C01 -- 2-valued logic simulation computes the netlist's Boolean function.  Statements only.
    FULL STATEMENT (not yet proved as one theorem; see DESIGN.md C01):
      forall g wf, options, sims, stimulus, lane < sims, s_node i with an input:
        lane (LogicSim(g).s[1]) i = netlist_sem g (lane stimulus) (ins[0] of s_node i)
    Proved below: every link that is table- or straight-line code (LUTs, both 2-valued dispatch copies,
    primitive selection, lane independence); the scheduler/memory links are tied by correspondence. *)
From Coq Require Import List NArith Bool Arith String.
From KV Require Import Model.Bits Model.Logic Model.Prims Model.OpSem Gen.SimTables Gen.LogicSimDispatch
     Proofs.Dispatch Proofs.CircuitLevel Proofs.BitsLift.
Import ListNotations.

Theorem C01_lut_correct : forall p, exists l, lut_of p = Some l /\ forall a b c d, lut_bit l a b c d = prim_fn p a b c d.
Proof. exact lut_correct. Qed.

Theorem C01_dispatch2_correct : forall tbl, tbl = disp2_cpu \/ tbl = disp2_cb ->
  forall p, exists g, assoc (prim_name p) tbl = Some g /\ forall a b c d, run_bool g [a; b; c; d] = [prim_fn p a b c d].
Proof. exact dispatch2_correct. Qed.

Theorem C01_select_prim : forall p, exists l, lut_of p = Some l /\
    select_lut kind_prefixes (prim_name p) (Nat.ltb (arity p) 3) (Nat.ltb (arity p) 4) = Some l /\
    select_lut kind_prefixes (lower (prim_name p)) (Nat.ltb (arity p) 3) (Nat.ltb (arity p) 4) = Some l.
Proof. exact select_prim_correct. Qed.

Theorem C01_opcodes_injective : lut_inj_chk = true.
Proof. exact lut_inj_ok. Qed.

(* independently for each of the parallel patterns, any number of patterns *)
Theorem C01_lanes : forall w p ins lane, (lane < w)%N ->
  map (fun x => N.testbit x lane) (run_N w p ins) = run_bool p (map (fun x => N.testbit x lane) ins).
Proof. intros. apply run_lift. assumption. Qed.

(** MAIN THEOREM (scheduler level).  For EVERY well-formed, combinationally acyclic netlist and EVERY stimulus, executing
    the scheduler's op list gate by gate yields a valuation of the lines that satisfies every node's equation (interface
    nodes drive BUF/INV of their assigned value, forks copy, every gate's output is its selected LUT of its input lines,
    unconnected pins read the constant-zero slot) -- in any value domain, hence per lane for any batch size.  With the
    uniqueness theorem this IS "the value obtained by evaluating the netlist gate by gate". *)
From KV Require Import Model.Netlist Model.NetlistWf Model.SimOps Model.AllocCheck Model.NetlistSem.
From KV Require Proofs.SemProofs.
Theorem C01_build_ops_solution : forall V (sem : N -> V -> V -> V -> V -> V) (zero : V) c stim,
  wf_netlist c -> comb_acyclic c ->
  solution sem zero c stim (iexec sem (fun x => x) (build_ops c false) (init_env zero c stim)).
Proof. intros V sem zero. exact (KV.Proofs.SemProofs.build_ops_solution sem zero). Qed.

Theorem C01_solution_unique : forall V (sem : N -> V -> V -> V -> V -> V) (zero : V) c stim v1 v2,
  wf_netlist c -> comb_acyclic c ->
  (forall n, n < List.length (c_nodes c) -> iface_pos c n = None -> is_fork (get_node c n) = false ->
     select_lut kind_prefixes (n_kind (get_node c n)) (negb (is_some (pin (n_ins (get_node c n)) 2)))
                (negb (is_some (pin (n_ins (get_node c n)) 3))) <> None) ->
  (forall n, n < List.length (c_nodes c) -> is_dff (get_node c n) = true -> forall k o, 2 <= k -> pin (n_outs (get_node c n)) k = Some o -> False) ->
  (forall n, n < List.length (c_nodes c) -> iface_pos c n = None -> is_fork (get_node c n) = false ->
     forall k o, 1 <= k -> pin (n_outs (get_node c n)) k = Some o -> False) ->
  solution sem zero c stim v1 -> solution sem zero c stim v2 ->
  forall l, l < List.length (c_lines c) -> v1 l = v2 l.
Proof. intros V sem zero. exact (KV.Proofs.SemProofs.solution_unique sem zero). Qed.

(** 2-valued reading: at every interface line the stimulus (inverted at a flip-flop's second output), at every fork
    output the fork's input, at every gate output the PRIMITIVE'S BOOLEAN FUNCTION of its pin values (unconnected = 0) *)
From KV Require Proofs.SemCompose.
Theorem C01_logic2_gate_by_gate : forall c (stim : nat -> bool), wf_netlist c -> comb_acyclic c ->
  let v := iexec sem_lut (fun x => x) (build_ops c false) (init_env false c stim) in
  forall n, n < List.length (c_nodes c) ->
    let nd := get_node c n in
    match iface_pos c n with
    | Some p => (forall o, pin (n_outs nd) 0 = Some o -> v o = stim p) /\
                (is_dff nd = true -> forall o, pin (n_outs nd) 1 = Some o -> v o = negb (stim p)) /\
                (is_dff nd = false -> forall k o, 0 < k -> pin (n_outs nd) k = Some o -> v o = stim p)
    | None => if is_fork nd then forall k o, pin (n_outs nd) k = Some o -> v o = pinv false v (n_ins nd) 0
              else forall p sp, lut_of p = Some sp ->
                     select_lut kind_prefixes (n_kind nd) (negb (is_some (pin (n_ins nd) 2))) (negb (is_some (pin (n_ins nd) 3))) = Some sp ->
                     forall o, pin (n_outs nd) 0 = Some o ->
                       v o = prim_fn p (pinv false v (n_ins nd) 0) (pinv false v (n_ins nd) 1) (pinv false v (n_ins nd) 2) (pinv false v (n_ins nd) 3)
    end.
Proof. exact KV.Proofs.SemCompose.logic2_gate_by_gate. Qed.

(** End to end for the default options (c_reuse off, strip_forks off): the flat memory that SimOps.build lays out, after
    executing the op list it schedules, holds at every observed slot exactly the value of the line feeding that output /
    state element in THE gate-by-gate solution of the netlist -- schedule, allocator and memory map composed, no
    certificate evaluation involved. *)
From KV Require Import Model.SimOpsCert.
From KV Require Proofs.EndToEnd.
Theorem C01_end_to_end_default : forall V (sem : N -> V -> V -> V -> V -> V) (zero : V) c caps cmin so stim (m0 : fmem) v,
  wf_netlist c -> comb_acyclic c -> (0 < cmin)%N -> KV.Proofs.EndToEnd.gates_known c ->
  build c caps cmin false false = Some so ->
  (forall x l, In x (so_init so) -> so_loc so x = Some l -> m0 l = init_env zero c stim x) ->
  solution sem zero c stim v ->
  forall p, In p (so_final so) ->
    so_alias c so p < List.length (c_lines c) /\
    (exists t, n_ins (get_node c (nth (p - (List.length (c_lines c) + 3 + List.length (s_nodes c))) (s_nodes c) 0)) = Some (so_alias c so p) :: t) /\
    mread zero (so_loc so) (mexec sem zero (so_loc so) (so_ops so) m0) p = v (so_alias c so p).
Proof. intros V sem zero. exact (KV.Proofs.EndToEnd.end_to_end_solution sem zero). Qed.

Theorem C01_build_total : forall c caps cmin,
  wf_netlist c -> (0 < cmin)%N -> List.length (c_lines c) <= List.length caps ->
  exists so, build c caps cmin false false = Some so.
Proof. exact KV.Proofs.EndToEnd.build_total. Qed.

(** MULTI-CYCLE (LogicSim.cycle = s_to_c; c_prop; c_to_s; s_ppo_to_ppi, k times), at line level.  [line_cycles] (Model/CycleSem.v,
    the function evaluated against LogicSim.cycle in the correspondence check) iterates: execute the scheduler's op list from the
    assignment vector, capture the line at input pin 0 of every port / state element into the result vector, copy the result
    entries of all state elements (flip-flops and latches alike) into the assignment vector.  [iter_sem] is the netlist's
    synchronous semantics: the same iteration over ANY valuation that satisfies every node's equation. *)
From KV Require Import Model.CycleSem.
From KV Require Proofs.CycleProofs.
Theorem C01_cycles_iter_sem : forall V (sem : N -> V -> V -> V -> V -> V) (zero : V) c k s0 s1,
  wf_netlist c -> comb_acyclic c ->
  iter_sem sem zero c k s0 s1 (fst (line_cycles sem zero c k (s0, s1))) (snd (line_cycles sem zero c k (s0, s1))).
Proof. intros V sem zero. exact (KV.Proofs.CycleProofs.cycles_iter_sem sem zero). Qed.

(* ... and the semantics determines both vectors: after k cycles they EQUAL the scheduler-based iteration *)
Theorem C01_cycles_are_iter_sem : forall V (sem : N -> V -> V -> V -> V -> V) (zero : V) c k s0 s1 a b,
  wf_netlist c -> comb_acyclic c -> KV.Proofs.EndToEnd.gates_known c ->
  (iter_sem sem zero c k s0 s1 a b <-> (a, b) = line_cycles sem zero c k (s0, s1)).
Proof. intros V sem zero. exact (KV.Proofs.CycleProofs.cycles_are_iter_sem sem zero). Qed.

(* one step spelled out: result entry and next state of s_node p = the solution's value at the line on its input pin 0;
   ports keep their assigned value *)
Theorem C01_cycle_next_state : forall V (sem : N -> V -> V -> V -> V -> V) (zero : V) c s0 s1 v p l0,
  wf_netlist c -> comb_acyclic c -> KV.Proofs.EndToEnd.gates_known c -> solution sem zero c (stim_of zero s0) v ->
  snode_in c p = Some l0 ->
  nth p (snd (line_cycle sem zero c (s0, s1))) zero = v l0 /\
  (List.length (c_io c) <= p -> nth p (fst (line_cycle sem zero c (s0, s1))) zero = v l0) /\
  (p < List.length (c_io c) -> nth p (fst (line_cycle sem zero c (s0, s1))) zero = nth p s0 zero).
Proof. intros V sem zero. exact (KV.Proofs.CycleProofs.cycle_next_state sem zero). Qed.

(* executable test of gates_known *)
Theorem C01_gates_known_b_sound : forall c, KV.Proofs.CycleProofs.gates_known_b c = true -> KV.Proofs.EndToEnd.gates_known c.
Proof. exact KV.Proofs.CycleProofs.gates_known_b_sound. Qed.

(* a flip-flop / latch WITHOUT a data line (no PPO slot): c_to_s never writes its result entry and s_ppo_to_ppi copies that
   entry, so with the result vector initialised to 0 (LogicSim.__init__) its state is 0 from the first cycle on *)
Theorem C01_cycles_no_data_line : forall V (sem : N -> V -> V -> V -> V -> V) (zero : V) c p k s0 s1,
  p < List.length (s_nodes c) -> List.length (c_io c) <= p -> snode_in c p = None -> nth p s1 zero = zero ->
  nth p (snd (line_cycles sem zero c k (s0, s1))) zero = zero /\
  (1 <= k -> nth p (fst (line_cycles sem zero c k (s0, s1))) zero = zero).
Proof. intros V sem zero. exact (KV.Proofs.CycleProofs.cycles_no_data_line sem zero). Qed.
