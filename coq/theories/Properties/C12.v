(** C12 -- Multi-valued operators agree across both storage formats and the algebra.
    Statements only; proofs are in Proofs/C12Proofs.v. *)
From Coq Require Import List NArith Bool Arith.
From KV Require Import Model.Bits Model.Logic Gen.LogicOps Proofs.C12Proofs.
Import ListNotations.

(* AND/OR/XOR of 1..4 operands, 8-valued bit-parallel format, all 8^k combinations *)
Theorem C12_bp8_nary : forall o k cs, 1 <= k <= 4 -> length cs = k ->
  exists p, nth_error (bp8_of o) (k - 1) = Some p /\ run_bool p (encode_ins 3 cs) = code_bits (spec_of o cs).
Proof. exact bp8_nary_spec. Qed.

(* 4-valued bit-parallel format, all 4^k combinations; results stay 4-valued *)
Theorem C12_bp4_nary : forall o k cs, 1 <= k <= 4 -> length cs = k -> forallb is4 cs = true ->
  exists p, nth_error (bp4_of o) (k - 1) = Some p /\
            run_bool p (encode_ins 2 cs) = firstn 2 (code_bits (spec_of o cs)) /\ is4 (spec_of o cs) = true.
Proof. exact bp4_nary_spec. Qed.

(* array (mv) format: low three bits are the algebra's result, upper bits stay zero *)
Theorem C12_mv_nary : forall o k cs, 1 <= k <= 4 -> length cs = k ->
  exists p, nth_error (mv_of o) (k - 1) = Some p /\
            run_bool p (encode_ins 3 cs) = code_bits (spec_of o cs) ++ zeros5.
Proof. exact mv_nary_spec. Qed.

Theorem C12_unary : forall c,
  (exists p, nth_error bp8_not 0 = Some p /\ run_bool p (code_bits c) = code_bits (spec_not c)) /\
  (exists p, nth_error bp8_buf 0 = Some p /\ run_bool p (code_bits c) = code_bits (spec_buf c)) /\
  (exists p, nth_error mv_not 0 = Some p /\ run_bool p (code_bits c) = code_bits (spec_not c) ++ zeros5) /\
  (is4 c = true ->
     (exists p, nth_error bp4_not 0 = Some p /\ run_bool p (firstn 2 (code_bits c)) = firstn 2 (code_bits (spec_not c))) /\
     (exists p, nth_error bp4_buf 0 = Some p /\ run_bool p (firstn 2 (code_bits c)) = firstn 2 (code_bits (spec_buf c)))).
Proof. exact unary_spec. Qed.

(* IN PLACE (the output array is the operand, as LogicSim calls bp?v_not(c[o], c[o]) for every inverting gate): the unary bit-parallel
   operators, traced with one symbolic array for both arguments, still are the algebra's NOT / BUF *)
Theorem C12_unary_inplace : forall c,
  (exists p, nth_error bp8_not_inplace 0 = Some p /\ run_bool p (code_bits c) = code_bits (spec_not c)) /\
  (exists p, nth_error bp8_buf_inplace 0 = Some p /\ run_bool p (code_bits c) = code_bits (spec_buf c)) /\
  (is4 c = true ->
     (exists p, nth_error bp4_not_inplace 0 = Some p /\ run_bool p (firstn 2 (code_bits c)) = firstn 2 (code_bits (spec_not c))) /\
     (exists p, nth_error bp4_buf_inplace 0 = Some p /\ run_bool p (firstn 2 (code_bits c)) = firstn 2 (code_bits (spec_buf c)))).
Proof. exact unary_inplace_spec. Qed.

Theorem C12_mv_bp_agree : forall o k cs, 1 <= k <= 4 -> length cs = k ->
  exists pm pb, nth_error (mv_of o) (k - 1) = Some pm /\ nth_error (bp8_of o) (k - 1) = Some pb /\
                run_bool pm (encode_ins 3 cs) = run_bool pb (encode_ins 3 cs) ++ zeros5.
Proof. exact mv_bp_agree. Qed.

(* restricted to 0/1 the operators are the Boolean ones -- for ANY number of operands *)
Theorem C12_bool_restriction : forall bs b,
  spec_and (map code_of_bool bs) = code_of_bool (forallb (fun b => b) bs) /\
  spec_or (map code_of_bool bs) = code_of_bool (existsb (fun b => b) bs) /\
  spec_xor (map code_of_bool bs) = code_of_bool (fold_right xorb false bs) /\
  spec_not (code_of_bool b) = code_of_bool (negb b).
Proof. intros bs b. repeat split; [apply and_bool | apply or_bool | apply xor_bool | apply not_bool]. Qed.

Theorem C12_de_morgan_bool : forall bs,
  spec_not (spec_and (map code_of_bool bs)) = spec_or (map spec_not (map code_of_bool bs)) /\
  spec_not (spec_or (map code_of_bool bs)) = spec_and (map spec_not (map code_of_bool bs)).
Proof. exact de_morgan_bool. Qed.

Theorem C12_de_morgan8 : forall k cs, 1 <= k <= 4 -> length cs = k ->
  spec_not (spec_and cs) = spec_or (map spec_not cs) /\ spec_not (spec_or cs) = spec_and (map spec_not cs).
Proof. exact de_morgan8. Qed.

(* independently per lane, for any lane count / array shape *)
Theorem C12_lanes_independent : forall w p ins lane, (lane < w)%N ->
  map (fun x => N.testbit x lane) (run_N w p ins) = run_bool p (map (fun x => N.testbit x lane) ins).
Proof. exact lanes_independent. Qed.

(** ** the array layer: public wrappers mv_not / mv_or / mv_and / mv_xor on arrays of ANY shape
    Model: Model/NdArray.v (shape = list of axis lengths, data in row-major order; numpy's broadcasting, ufunc out= / where=,
    putmask as small functions, compared with numpy on random shapes) and Model/MvWrappers.v (kernels and wrappers call by call). *)
From KV Require Import Model.Encodings Model.NdArray Model.MvWrappers Proofs.NdArrayProofs Proofs.MvWrapperProofs Proofs.MvWrapperAlgebra.

(* offsets below the size and in-bounds multi-indices correspond one to one (row-major) *)
Theorem C12_index_offset_bijection : forall sh,
  (forall k, k < size sh -> in_bounds sh (unravel sh k) /\ ravel sh (unravel sh k) = k) /\
  (forall idx, in_bounds sh idx -> ravel sh idx < size sh /\ unravel sh (ravel sh idx) = idx).
Proof. exact index_offset_bijection. Qed.

(* numpy's broadcasting rule: rank = the larger rank; per axis from the right equal lengths or a 1 (missing axes count as 1) *)
Theorem C12_broadcast_rule : forall s t b, broadcast2 s t = Some b ->
  List.length b = Nat.max (List.length s) (List.length t) /\
  forall i, i < List.length b ->
    let n := List.length b in
    let ds := nth i (pad_to n s) 1 in let dt := nth i (pad_to n t) 1 in
    (ds = dt \/ ds = 1 \/ dt = 1) /\ nth i b 1 = (if ds =? 1 then dt else ds).
Proof. exact broadcast2_rule. Qed.

Theorem C12_broadcast_fail : forall s t, broadcast2 s t = None <->
  exists i, let n := Nat.max (List.length s) (List.length t) in
    i < n /\ nth i (pad_to n s) 1 <> nth i (pad_to n t) 1 /\ nth i (pad_to n s) 1 <> 1 /\ nth i (pad_to n t) 1 <> 1.
Proof. exact broadcast2_fail. Qed.

(* broadcast_index: a binary element-wise operation delivers, at every multi-index i of the broadcast shape,
   f (a at i mod shape a) (b at i mod shape b) -- indices right-aligned -- for ALL shapes *)
Theorem C12_broadcast_index : forall f a b r, ufunc2 f a b = Some r ->
  broadcast2 (nd_shape a) (nd_shape b) = Some (nd_shape r) /\ nd_wf r /\
  forall idx, in_bounds (nd_shape r) idx ->
    nd_get r idx = f (nd_get a (bidx (nd_shape a) idx)) (nd_get b (bidx (nd_shape b) idx)).
Proof. exact broadcast_index. Qed.

(* the wrappers mv_or / mv_and / mv_xor, out=None or caller-supplied: whenever the call returns, the result has out's shape
   (the broadcast shape without out=) and is the documented algebra element by element under broadcasting *)
Theorem C12_wrapper_elementwise : forall op junk x1 x2 out r, nd_wf x1 -> nd_wf x2 ->
  mvw_bin false op junk x1 x2 out = Some r ->
  (match out with
   | Some o => nd_shape r = nd_shape o
   | None => broadcast2 (nd_shape x1) (nd_shape x2) = Some (nd_shape r)
   end) /\ nd_wf r /\
  forall idx, in_bounds (nd_shape r) idx ->
    nd_get r idx = elem2 op (nd_get x1 (bidx (nd_shape x1) idx)) (nd_get x2 (bidx (nd_shape x2) idx)) /\
    (Forall (fun v => v < 8) (nd_data x1) -> Forall (fun v => v < 8) (nd_data x2) ->
     nd_get r idx = cnum (spec_of (nary_of op) [ccode (nd_get x1 (bidx (nd_shape x1) idx)); ccode (nd_get x2 (bidx (nd_shape x2) idx))])).
Proof. exact wrapper_elementwise. Qed.

(* exactly when the call returns and what: without out= iff the shapes are compatible; with out=o iff the operands stretch to
   o's shape and o has as many elements as the broadcast shape; otherwise it raises *)
Theorem C12_wrapper_exact : forall op junk x1 x2, nd_wf x1 -> nd_wf x2 ->
  mvw_bin false op junk x1 x2 None =
    match broadcast2 (nd_shape x1) (nd_shape x2) with
    | Some b => Some (tabulate b (fun k => elem2 op (bget x1 b k) (bget x2 b k)))
    | None => None
    end /\
  forall o, mvw_bin false op junk x1 x2 (Some o) =
    if bin_ok (nd_shape x1) (nd_shape x2) (nd_shape o)
    then Some (tabulate (nd_shape o) (fun k => elem2 op (bget x1 (nd_shape o) k) (bget x2 (nd_shape o) k)))
    else None.
Proof. intros op junk x1 x2 W1 W2. split; [apply mvw_bin_fresh | intro o; apply mvw_bin_out]; assumption. Qed.

(* out=: an array of the broadcast shape receives exactly the out=None result whatever it held; wrong sizes / shapes raise *)
Theorem C12_wrapper_out : forall op junk x1 x2 o, nd_wf x1 -> nd_wf x2 ->
  (forall b, broadcast2 (nd_shape x1) (nd_shape x2) = Some b -> nd_shape o = b ->
     mvw_bin false op junk x1 x2 (Some o) = mvw_bin false op junk x1 x2 None /\ mvw_bin false op junk x1 x2 (Some o) <> None) /\
  (forall o', nd_shape o' = nd_shape o -> mvw_bin false op junk x1 x2 (Some o') = mvw_bin false op junk x1 x2 (Some o)) /\
  (forall b, broadcast2 (nd_shape x1) (nd_shape x2) = Some b -> size (nd_shape o) <> size b -> mvw_bin false op junk x1 x2 (Some o) = None) /\
  (broadcast2 (nd_shape x1) (nd_shape x2) = None -> mvw_bin false op junk x1 x2 (Some o) = None) /\
  (bc_to (nd_shape x1) (nd_shape o) = false \/ bc_to (nd_shape x2) (nd_shape o) = false -> mvw_bin false op junk x1 x2 (Some o) = None).
Proof. exact wrapper_out. Qed.

Theorem C12_wrapper_junk_irrelevant : forall op j1 j2 x1 x2 out, nd_wf x1 -> nd_wf x2 ->
  mvw_bin false op j1 x1 x2 out = mvw_bin false op j2 x1 x2 out.
Proof. exact wrapper_junk_irrelevant. Qed.

Theorem C12_wrapper_not : forall junk x out r, nd_wf x -> mvw_not junk x out = Some r ->
  nd_shape r = (match out with Some o => nd_shape o | None => nd_shape x end) /\
  forall idx, in_bounds (nd_shape r) idx ->
    nd_get r idx = not_s (nd_get x (bidx (nd_shape x) idx)) /\
    (Forall (fun v => v < 8) (nd_data x) -> nd_get r idx = cnum (spec_not (ccode (nd_get x (bidx (nd_shape x) idx))))).
Proof. exact wrapper_not. Qed.

Theorem C12_wrapper_not_out : forall junk x o, nd_wf x ->
  mvw_not junk x None <> None /\
  (nd_shape o = nd_shape x -> mvw_not junk x (Some o) = mvw_not junk x None) /\
  (size (nd_shape o) <> size (nd_shape x) -> mvw_not junk x (Some o) = None) /\
  (bc_to (nd_shape x) (nd_shape o) = false -> mvw_not junk x (Some o) = None).
Proof. exact wrapper_not_out. Qed.

(* the element function of the array-level transcription is the documented algebra and the value of the kernel program
   traced from the source (two operands) *)
Theorem C12_elem_algebra :
  (forall op a b, a < 8 -> b < 8 -> elem2 op a b = cnum (spec_of (nary_of op) [ccode a; ccode b])) /\
  (forall a, a < 8 -> not_s a = cnum (spec_not (ccode a))) /\
  (forall op a b, a < 8 -> b < 8 ->
     exists p, nth_error (mv_of (nary_of op)) 1 = Some p /\ nat_of_bits (run_bool p (encode_ins 3 [ccode a; ccode b])) = elem2 op a b).
Proof. exact (conj elem2_algebra (conj not_s_algebra elem2_traced)). Qed.

(* hypotheses satisfiable: stretched operands in both directions, out= with an extra leading axis, wrong out=, incompatible shapes *)
Theorem C12_wrapper_example :
  nd_wf ex_a /\ nd_wf ex_b /\
  mvw_or (fun _ => 238) ex_a ex_b None = Some (NdA [2; 3] [3; 1; 3; 1; 1; 3]) /\
  mvw_or (fun _ => 238) ex_b ex_a None = Some (NdA [2; 3] [3; 1; 3; 1; 1; 3]) /\
  mvw_and (fun _ => 0) ex_b ex_a (Some (NdA [1; 2; 3] [9; 9; 9; 9; 9; 9])) = Some (NdA [1; 2; 3] [0; 0; 5; 0; 1; 7]) /\
  mvw_xor (fun _ => 0) ex_b ex_a (Some (NdA [3] [9; 9; 9])) = None /\
  mvw_xor (fun _ => 0) ex_b (NdA [2] [0; 1]) None = None.
Proof. exact wrapper_ex. Qed.

(* the code before the repair 666613e (D35): compatible operands raised whenever x1 had to be stretched *)
Theorem C12_wrapper_broadcast_refuted :
  broadcast2 (nd_shape ex_a) (nd_shape ex_b) = Some [2; 3] /\
  (forall op, mvw_bin true op (fun _ => 0) ex_a ex_b None = None) /\
  (forall op, mvw_bin false op (fun _ => 0) ex_a ex_b None <> None).
Proof. exact wrapper_broadcast_refuted. Qed.

(** ** mv_transition on arrays of any shape (Model/MvTransition.v) *)
From KV Require Import Model.MvTransition Proofs.MvTransitionProofs.

(* exactly when the call returns and what: shapes compatible, out (if given) has as many elements as the broadcast shape b and b
   (surplus leading 1 axes dropped) stretches to it; the result holds tr_s of the stretched operands in row-major order of b *)
Theorem C12_transition_exact : forall junk x1 x2 out, nd_wf x1 -> nd_wf x2 ->
  mvw_transition junk x1 x2 out =
  match broadcast2 (nd_shape x1) (nd_shape x2) with
  | Some b => let so := match out with Some o => nd_shape o | None => b end in
              if tr_ok b so then Some (tabulate so (fun k => tr_s (bget x1 b k) (bget x2 b k))) else None
  | None => None
  end.
Proof. exact transition_exact. Qed.

(* by multi-index, and on codes the documented transition (initial value of init -> final value of final; unknown if an input is
   unknown or only one is unassigned; unassigned if both are) *)
Theorem C12_transition_elementwise : forall junk x1 x2 r, nd_wf x1 -> nd_wf x2 ->
  mvw_transition junk x1 x2 None = Some r ->
  broadcast2 (nd_shape x1) (nd_shape x2) = Some (nd_shape r) /\
  forall idx, in_bounds (nd_shape r) idx ->
    nd_get r idx = tr_s (nd_get x1 (bidx (nd_shape x1) idx)) (nd_get x2 (bidx (nd_shape x2) idx)) /\
    (Forall (fun v => v < 8) (nd_data x1) -> Forall (fun v => v < 8) (nd_data x2) ->
     nd_get r idx = cnum (spec_transition (ccode (nd_get x1 (bidx (nd_shape x1) idx))) (ccode (nd_get x2 (bidx (nd_shape x2) idx))))).
Proof. exact transition_elementwise. Qed.

Theorem C12_transition_out : forall junk x1 x2 o b, nd_wf x1 -> nd_wf x2 -> broadcast2 (nd_shape x1) (nd_shape x2) = Some b ->
  (nd_shape o = b -> mvw_transition junk x1 x2 (Some o) = mvw_transition junk x1 x2 None) /\
  (forall r r0, mvw_transition junk x1 x2 (Some o) = Some r -> mvw_transition junk x1 x2 None = Some r0 ->
     nd_shape r = nd_shape o /\ nd_data r = nd_data r0) /\
  (size (nd_shape o) <> size b -> mvw_transition junk x1 x2 (Some o) = None) /\
  (forall o' j', nd_shape o' = nd_shape o -> mvw_transition j' x1 x2 (Some o') = mvw_transition junk x1 x2 (Some o)).
Proof. exact transition_out. Qed.

Theorem C12_transition_example :
  mvw_transition (fun _ => 9) (NdA [3] [0; 3; 2]) (NdA [2; 3] [3; 0; 2; 1; 3; 3]) None = Some (NdA [2; 3] [5; 6; 2; 1; 3; 1]) /\
  mvw_transition (fun _ => 9) (NdA [1; 1; 3] [0; 3; 2]) (NdA [3] [3; 0; 2]) (Some (NdA [3] [9; 9; 9])) = Some (NdA [3] [5; 6; 2]) /\
  mvw_transition (fun _ => 9) (NdA [1; 1; 3] [0; 3; 2]) (NdA [3] [3; 0; 2]) (Some (NdA [3; 1] [9; 9; 9])) = None /\
  mvw_transition (fun _ => 9) (NdA [2] [0; 3]) (NdA [3] [3; 0; 2]) None = None.
Proof. exact transition_ex. Qed.
