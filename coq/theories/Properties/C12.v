(** C12 -- Multi-valued operators agree across both storage formats and the algebra.
    Statements only; proofs are in Proofs/C12Proofs.v. *)
From Coq Require Import List NArith Bool Arith.
From KV Require Import Model.Bits Model.Logic Gen.LogicOps Proofs.C12Proofs.
Import ListNotations.

(* AND/OR/XOR of 1..4 operands, 8-valued bit-parallel format, all 8^k combinations *)
Theorem C12_bp8_nary : forall o k cs, 1 <= k <= 4 -> length cs = k ->
  exists p, nth_error (bp8_of o) (k - 1) = Some p /\ run_bool p (encode_ins 3 cs) = code_bits (spec_of o cs).
Proof. exact bp8_nary_spec. Qed.

(* 4-valued bit-parallel format, all 4^k combinations; results stay 4-valued *)
Theorem C12_bp4_nary : forall o k cs, 1 <= k <= 4 -> length cs = k -> forallb is4 cs = true ->
  exists p, nth_error (bp4_of o) (k - 1) = Some p /\
            run_bool p (encode_ins 2 cs) = firstn 2 (code_bits (spec_of o cs)) /\ is4 (spec_of o cs) = true.
Proof. exact bp4_nary_spec. Qed.

(* array (mv) format: low three bits are the algebra's result, upper bits stay zero *)
Theorem C12_mv_nary : forall o k cs, 1 <= k <= 4 -> length cs = k ->
  exists p, nth_error (mv_of o) (k - 1) = Some p /\
            run_bool p (encode_ins 3 cs) = code_bits (spec_of o cs) ++ zeros5.
Proof. exact mv_nary_spec. Qed.

Theorem C12_unary : forall c,
  (exists p, nth_error bp8_not 0 = Some p /\ run_bool p (code_bits c) = code_bits (spec_not c)) /\
  (exists p, nth_error bp8_buf 0 = Some p /\ run_bool p (code_bits c) = code_bits (spec_buf c)) /\
  (exists p, nth_error mv_not 0 = Some p /\ run_bool p (code_bits c) = code_bits (spec_not c) ++ zeros5) /\
  (is4 c = true ->
     (exists p, nth_error bp4_not 0 = Some p /\ run_bool p (firstn 2 (code_bits c)) = firstn 2 (code_bits (spec_not c))) /\
     (exists p, nth_error bp4_buf 0 = Some p /\ run_bool p (firstn 2 (code_bits c)) = firstn 2 (code_bits (spec_buf c)))).
Proof. exact unary_spec. Qed.

(* IN PLACE (the output array is the operand, as LogicSim calls bp?v_not(c[o], c[o]) for every inverting gate): the unary bit-parallel
   operators, traced with one symbolic array for both arguments, still are the algebra's NOT / BUF *)
Theorem C12_unary_inplace : forall c,
  (exists p, nth_error bp8_not_inplace 0 = Some p /\ run_bool p (code_bits c) = code_bits (spec_not c)) /\
  (exists p, nth_error bp8_buf_inplace 0 = Some p /\ run_bool p (code_bits c) = code_bits (spec_buf c)) /\
  (is4 c = true ->
     (exists p, nth_error bp4_not_inplace 0 = Some p /\ run_bool p (firstn 2 (code_bits c)) = firstn 2 (code_bits (spec_not c))) /\
     (exists p, nth_error bp4_buf_inplace 0 = Some p /\ run_bool p (firstn 2 (code_bits c)) = firstn 2 (code_bits (spec_buf c)))).
Proof. exact unary_inplace_spec. Qed.

Theorem C12_mv_bp_agree : forall o k cs, 1 <= k <= 4 -> length cs = k ->
  exists pm pb, nth_error (mv_of o) (k - 1) = Some pm /\ nth_error (bp8_of o) (k - 1) = Some pb /\
                run_bool pm (encode_ins 3 cs) = run_bool pb (encode_ins 3 cs) ++ zeros5.
Proof. exact mv_bp_agree. Qed.

(* restricted to 0/1 the operators are the Boolean ones -- for ANY number of operands *)
Theorem C12_bool_restriction : forall bs b,
  spec_and (map code_of_bool bs) = code_of_bool (forallb (fun b => b) bs) /\
  spec_or (map code_of_bool bs) = code_of_bool (existsb (fun b => b) bs) /\
  spec_xor (map code_of_bool bs) = code_of_bool (fold_right xorb false bs) /\
  spec_not (code_of_bool b) = code_of_bool (negb b).
Proof. intros bs b. repeat split; [apply and_bool | apply or_bool | apply xor_bool | apply not_bool]. Qed.

Theorem C12_de_morgan_bool : forall bs,
  spec_not (spec_and (map code_of_bool bs)) = spec_or (map spec_not (map code_of_bool bs)) /\
  spec_not (spec_or (map code_of_bool bs)) = spec_and (map spec_not (map code_of_bool bs)).
Proof. exact de_morgan_bool. Qed.

Theorem C12_de_morgan8 : forall k cs, 1 <= k <= 4 -> length cs = k ->
  spec_not (spec_and cs) = spec_or (map spec_not cs) /\ spec_not (spec_or cs) = spec_and (map spec_not cs).
Proof. exact de_morgan8. Qed.

(* independently per lane, for any lane count / array shape *)
Theorem C12_lanes_independent : forall w p ins lane, (lane < w)%N ->
  map (fun x => N.testbit x lane) (run_N w p ins) = run_bool p (map (fun x => N.testbit x lane) ins).
Proof. exact lanes_independent. Qed.
