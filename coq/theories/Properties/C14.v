(** C14 -- every SDF delay lands on the right line, polarity and dataset; none is lost.  Statements only.
    Everything from the tree handed to the transformer on is Model/Sdf.v; the TEXT level (what lark does with sdf.GRAMMAR:
    contextual lexer and LALR parser, text -> tree) is Model/SdfText.v, statements at the end of this file.  [group] / [start_cb] are the code with the D6 fix (entry lists merged per instance);
    [group_pinned] is the code of the pinned tree, for which the first statement is false (C14_cells_lost_refuted). *)
From Coq Require Import List ZArith NArith Bool Arith String Ascii.
From KV Require Import Model.Prims Model.Netlist Model.TechCell Model.Sdf Proofs.SdfProofs Model.SdfText Proofs.SdfTextProofs.
From KV Require Gen.TechLibs.   (* build dependency only: the generated correspondence cases evaluate the model on these libraries *)
Import ListNotations.
Local Open Scope list_scope.

(** ** grouping of CELL blocks: nothing is lost, file order is kept per instance, ANY sequence of blocks *)
Theorem C14_cells_none_lost : forall (bs : list block) (k : key),
  dict_get k (group bs) = if has_block k bs then Some (entries_of k bs) else None.
Proof. exact cells_none_lost. Qed.
Theorem C14_cells_none_lost_in : forall (bs : list block) (k : key) (e : entry),
  In e (entries_of k bs) <-> exists es, dict_get k (group bs) = Some es /\ In e es.
Proof. exact cells_none_lost_in. Qed.
(* dict order = order of first occurrence; every instance once; the whole dictionary *)
Theorem C14_cells_keys : forall bs : list block,
  map fst (group bs) = first_occ (map fst bs) /\ NoDup (first_occ (map fst bs)) /\
  (forall k, In k (first_occ (map fst bs)) <-> In k (map fst bs)) /\
  group bs = map (fun k => (k, entries_of k bs)) (first_occ (map fst bs)).
Proof. intro bs. split; [apply group_keys|]. split; [apply first_occ_nodup|]. split; [intro k; apply first_occ_in | apply group_char]. Qed.
(* the pinned code ([dict(...)]) loses the earlier of two blocks of one instance *)
Theorem C14_cells_lost_refuted : exists bs k e,
  In e (entries_of k bs) /\ forall es, dict_get k (group_pinned bs) = Some es -> ~ In e es.
Proof. exact cells_lost_refuted. Qed.
(* the DelayFile in terms of the file's blocks *)
Theorem C14_delayfile_of_blocks : forall args df, start_cb args = Ok df ->
  exists bs, blocks_of args = Ok bs /\
    df_name df = first_sname args /\
    df_ic df = (if has_block None bs then Some (entries_of None bs) else None) /\
    df_cells df = map (fun s => (s, entries_of (Some s) bs)) (named_keys (first_occ (map fst bs))).
Proof. exact delayfile_of_blocks. Qed.
(* a CELL keeps the entries of all its DELAY sections in order *)
Theorem C14_cell_entries : forall args n es, cell_cb args = Ok (n, es) ->
  n = first_cname args /\ Forall2 (fun t e => entry_cb t = Ok e) (cell_entries args) es.
Proof. exact cell_entries_kept. Qed.
(* application order of iopaths(): per instance (dict order), all its entries in file order *)
Theorem C14_io_items_of_blocks : forall args df, start_cb args = Ok df -> exists bs, blocks_of args = Ok bs /\
  io_items (df_cells df) =
  flat_map (fun s => map (fun e => (s, e)) (entries_of (Some s) bs)) (named_keys (first_occ (map fst bs))).
Proof. exact io_items_of_blocks. Qed.

(** ** values *)
Theorem C14_one_triple_both : forall io a b t e, entry_cb (TEntry io a b [t]) = Ok e ->
  e_r e = triple_cb t /\ e_f e = triple_cb t /\ e_a e = a /\ e_b e = b.
Proof. exact one_triple_both. Qed.
Theorem C14_two_triples : forall io a b t1 t2 e, entry_cb (TEntry io a b [t1; t2]) = Ok e ->
  e_r e = triple_cb t1 /\ e_f e = triple_cb t2 /\ e_a e = a /\ e_b e = b.
Proof. exact two_triples. Qed.
Theorem C14_empty_triple_zero : to_dt (nz (triple_cb [])) = Ok dzero /\ to_dt (nz (triple_cb [None; None; None])) = Ok dzero /\
  forall a b c, to_dt (nz (triple_cb [Some a; None; Some c])) = Ok (a, 0%Z, c) /\ to_dt (nz (triple_cb [Some a; Some b; Some c])) = Ok (a, b, c).
Proof. exact empty_triple_zero. Qed.

(** ** iopaths: slot by slot *)
(* the array is the zero array overwritten by the resolved entries in application order: each slot holds the value of the
   LAST assignment addressing it, else 0 *)
Theorem C14_iopath_slots : forall c lib df a, iopaths c lib df = Ok a ->
  exists ws, resolve_all (io_resolve_item c lib) (io_items (df_cells df)) = Ok ws /\
    forall l ip op, a l ip op = slot_value ws l ip op.
Proof. exact iopath_slots. Qed.
(* none is lost: an entry that resolves to an assignment is visible at every slot it addresses unless a LATER entry addresses that slot *)
Theorem C14_iopath_entry_present : forall c lib df a pre it post w l ip, iopaths c lib df = Ok a ->
  io_items (df_cells df) = pre ++ it :: post ->
  io_resolve_item c lib it = Ok (Some w) -> hits w l ip = true ->
  (forall it' w', In it' post -> io_resolve_item c lib it' = Ok (Some w') -> hits w' l ip = false) ->
  forall op, a l ip op = wval w op.
Proof. exact iopath_entry_present. Qed.
Theorem C14_iopath_untouched_zero : forall c lib df a l ip, iopaths c lib df = Ok a ->
  (forall it w, In it (io_items (df_cells df)) -> io_resolve_item c lib it = Ok (Some w) -> hits w l ip = false) ->
  forall op, a l ip op = dzero.
Proof. exact iopath_untouched_zero. Qed.
(* the slot of an entry: line at the pin position of the (edge-stripped) input pin of the named cell (backslashes removed),
   input polarities by the qualifier, rising/falling triple with empty = 0 *)
Theorem C14_iopath_resolve : forall c lib name e w, io_resolve_item c lib (name, e) = Ok (Some w) <->
  exists i idx, assoc (strip_bs name) (cc_cells c) = Some i /\
    pin_index lib (n_kind (get_node (cc_net c) i)) (strip_edge (e_a e)) = Ok idx /\
    nth_error (n_ins (get_node (cc_net c) i)) idx = Some (Some (w_line w)) /\
    w_pols w = pols_of (e_a e) /\ to_dt (nz (e_r e)) = Ok (w_r w) /\ to_dt (nz (e_f e)) = Ok (w_f w).
Proof. exact iopath_resolve. Qed.
Local Open Scope string_scope.
Theorem C14_edge_posedge : forall p, no_rparen p = true -> p <> "" ->
  strip_edge ("(posedge " ++ p ++ ")") = p /\ pols_of ("(posedge " ++ p ++ ")") = [false].
Proof. exact edge_posedge_pin. Qed.
Theorem C14_edge_negedge : forall p, no_rparen p = true -> p <> "" ->
  strip_edge ("(negedge " ++ p ++ ")") = p /\ pols_of ("(negedge " ++ p ++ ")") = [true].
Proof. exact edge_negedge_pin. Qed.
Theorem C14_edge_plain : forall p, no_lparen p = true -> strip_edge p = p /\ pols_of p = [false; true].
Proof. exact edge_plain. Qed.
Local Close Scope string_scope.

(** ** interconnects *)
Theorem C14_interconnect_slots : forall c lib df a, interconnects c lib df = Ok a ->
  exists es ws, df_ic df = Some es /\ resolve_all (ic_resolve c lib) es = Ok ws /\
    (forall w, In w ws -> w_pols w = all_pols) /\         (* broadcast over axis 2 *)
    forall l ip op, a l ip op = slot_value ws l ip op.
Proof. exact interconnect_slots. Qed.
Theorem C14_interconnect_entry_present : forall c lib df a es pre e post w l, interconnects c lib df = Ok a ->
  df_ic df = Some es -> es = pre ++ e :: post ->
  ic_resolve c lib e = Ok (Some w) -> w_line w = l ->
  (forall e' w', In e' post -> ic_resolve c lib e' = Ok (Some w') -> w_line w' <> l) ->
  forall ip op, a l ip op = wval w op.
Proof. exact interconnect_entry_present. Qed.
Theorem C14_interconnect_untouched_zero : forall c lib df a es l, interconnects c lib df = Ok a -> df_ic df = Some es ->
  (forall e w, In e es -> ic_resolve c lib e = Ok (Some w) -> w_line w <> l) ->
  forall ip op, a l ip op = dzero.
Proof. exact interconnect_untouched_zero. Qed.
Theorem C14_interconnect_resolve : forall c lib e w, ic_resolve c lib e = Ok (Some w) ->
  exists cn1 pn1 cn2 pn2 i1 i2 p1 p2 lo li,
    ic_skipped (nz (e_r e)) (nz (e_f e)) = Ok false /\
    split_pin (e_a e) = Ok (cn1, pn1) /\ split_pin (e_b e) = Ok (cn2, pn2) /\
    assoc (strip_bs cn1) (cc_cells c) = Some i1 /\ assoc (strip_bs cn2) (cc_cells c) = Some i2 /\
    opt_pin lib (n_kind (get_node (cc_net c) i1)) pn1 = Ok p1 /\ opt_pin lib (n_kind (get_node (cc_net c) i2)) pn2 = Ok p2 /\
    nth_error (n_outs (get_node (cc_net c) i1)) p1 = Some (Some lo) /\
    nth_error (n_ins (get_node (cc_net c) i2)) p2 = Some (Some li) /\
    ic_line (cc_net c) lo li = Ok (Some (w_line w)) /\
    w_pols w = all_pols /\ to_dt (nz (e_r e)) = Ok (w_r w) /\ to_dt (nz (e_f e)) = Ok (w_f w).
Proof. exact interconnect_resolve. Qed.
(* the annotated line is the input of the branch fork (or sole fork) between the two pins *)
Theorem C14_interconnect_line : forall net lo li l, ic_line net lo li = Ok (Some l) ->
  let i1 := l_rdr (get_line net lo) in
  let i2 := l_drv (get_line net li) in
  is_fork (get_node net i1) = true /\ is_fork (get_node net i2) = true /\
  List.length (n_outs (get_node net i2)) = 1 /\
  nth_error (n_ins (get_node net i2)) 0 = Some (Some l) /\
  (i1 = i2 \/ exists lx, nth_error (n_outs (get_node net i1)) (l_dpin (get_line net l)) = Some (Some lx) /\
                         line_eqb (get_line net lx) (get_line net l) = true).
Proof. exact ic_line_spec. Qed.
(* the code skips entries with max(max(delvals)) == 0: for non-negative delays these are exactly the all-zero entries *)
Theorem C14_interconnect_skip_nonneg : forall r0 r1 r2 f0 f1 f2,
  (0 <= r0 -> 0 <= r1 -> 0 <= r2 -> 0 <= f0 -> 0 <= f1 -> 0 <= f2 ->
  (ic_skipped [r0; r1; r2] [f0; f1; f2] = Ok true <-> (r0 = 0 /\ r1 = 0 /\ r2 = 0 /\ f0 = 0 /\ f1 = 0 /\ f2 = 0)))%Z.
Proof. exact interconnect_skip_nonneg. Qed.

(** ** result layout [dataset, line, input polarity, output polarity] *)
Theorem C14_dataset_axis : forall n a d l (ip op : bool), d < 3 -> l < n ->
  nth (if op then 1 else 0) (nth (if ip then 1 else 0) (nth l (nth d (tab n a) []) []) []) 0%Z = dsel d (a l ip op).
Proof. exact dataset_axis. Qed.

(** ** TEXT level: sdf.GRAMMAR as lark parses it (Model/SdfText.v; [parse_sdf] = the children of lark's start tree, None = lark raises) *)
(* every way of writing a file covered by the concrete syntax [cfile] -- any ignored text (blanks, tabs, form feeds, newlines, "\r\n",
   "//" comments) wherever the grammar ignores it, header entries, CELLTYPE, (INSTANCE), TIMINGCHECK with any balanced payload, a last
   comment without newline -- is accepted and parsed to exactly its DESIGN names, INSTANCE names and delay entries.  Next to a name the
   conditions of [cfile_ok] follow the lexer (fix d9c2c16: a plain ID / ID_OR_EDGE is a run of characters other than parentheses and \s, ID also without the double quote) exactly:
   * in front of a name ([bef_ok]): ANY ignored text, also none, in which every comment directly follows a line break, "\r\n" or another
     comment ([cm_ok]; anywhere else the `//` would be lexed as a name); where that text ends with a line break or comment the name does
     not begin with `//` (it would be one more comment);
   * between the two names of an entry ([touch_ok]): such text, non-empty unless one of the names is in the quoted / parenthesised form;
   * after a plain name ([aft_ok]): nothing (a parenthesis follows) or any ignored text that does not begin with a comment (a `//`
     directly after a name belongs to the name); after the quoted / parenthesised form any ignored text.
   The first version of these conditions (a blank, then blanks / tabs / form feeds; after a name nothing or text beginning with a blank) is
   the special case C14_text_parse_cfile_v1. *)
Theorem C14_text_parse_cfile : forall f : cfile, cfile_ok f = true -> parse_sdf (cfile_text f) = Some (cfile_abs f).
Proof. exact parse_cfile. Qed.
Theorem C14_text_parse_cfile_v1 : forall f : cfile, cfile_ok_v1 f = true -> cfile_ok f = true /\ parse_sdf (cfile_text f) = Some (cfile_abs f).
Proof. intros f H. split; [apply cfile_ok_v1_wide, H | apply parse_cfile_v1, H]. Qed.
(* the conditions next to a name are EXACT at the scanner of a name state ([scan_id] / [scan_ide] = what lark lexes where ID / ID_OR_EDGE is
   acceptable; [sep_text s] = the text of a sequence of blanks, tabs, form feeds, line breaks, "\r\n" and `//` comments):
   the scanner skips the separator and arrives at X iff every comment follows a line break or comment ... *)
Theorem C14_text_idsep_exact : forall (s : sep) (X : string), sep_ok s = true -> stops is_ws X = true -> ends0 false s && slash2 X = false ->
  (id_skip (sep_text s ++ X)%string = X <-> idsep_ok s = true).
Proof. exact id_skip_sep_iff. Qed.
(* ... otherwise it stops in front of the first misplaced comment, which is lexed as a name that begins with `//` *)
Theorem C14_text_comment_lexed_as_name : forall (s : sep) (X : string), sep_ok s = true -> cm_ok false s = false ->
  (exists p b r, s = p ++ IgComment b :: r /\ id_skip (sep_text s ++ X)%string = (sep_text (IgComment b :: r) ++ X)%string) /\
  (exists n r, scan_id (sep_text s ++ X)%string = Some (n, r) /\ slash2 n = true) /\
  (exists n r, scan_ide (sep_text s ++ X)%string = Some (n, r) /\ slash2 n = true).
Proof. intros s X H1 H2. split; [apply id_skip_sep_bad; assumption|]. split; [apply scan_id_comment | apply scan_ide_comment]; assumption. Qed.
(* where the separator ends with a line break or comment, a name written with `//` in front is not read (it is one more comment) *)
Theorem C14_text_slash_name_lost : forall (s : sep) (n rest : string), idsep_ok s = true -> ends0 false s = true -> slash2 (n ++ rest) = true ->
  scan_id (sep_text s ++ n ++ rest)%string <> Some (n, rest) /\ scan_ide (sep_text s ++ n ++ rest)%string <> Some (n, rest).
Proof. intros s n rest H1 H2 H3. split; [apply scan_id_slash_lost | apply scan_ide_slash_lost]; assumption. Qed.
(* a plain name ends where written iff a character outside its class follows: a parenthesis or ANY white-space character (for ID also the
   double quote); in particular a comment directly after a plain name belongs to the name *)
Theorem C14_text_name_end_exact : forall (s : sep) (n rest : string), idsep_ok s = true -> ends0 false s && slash2 (n ++ rest) = false ->
  (wf_ide n = true -> opens c_lpar n = false -> (scan_ide (sep_text s ++ n ++ rest)%string = Some (n, rest) <-> name_end rest = true)) /\
  (wf_id n = true -> opens c_quote n = false -> (scan_id (sep_text s ++ n ++ rest)%string = Some (n, rest) <-> stops id_char rest = true)) /\
  (name_end rest = true -> stops id_char rest = true).
Proof.
  intros s n rest H1 H2. split; [intros H3 H4; apply scan_ide_plain_iff; assumption|]. split; [intros H3 H4; apply scan_id_plain_iff; assumption|].
  exact (name_end_stops id_char id_char_end rest).
Qed.
(* `(INSTANCE` s `)` is an INSTANCE without name exactly for these separators *)
Theorem C14_text_instance0_exact : forall (s : sep) (rest : string), sep_ok s = true ->
  (parse_instance (sep_text s ++ ")" ++ rest)%string = Some ([], rest) <-> idsep_ok s = true).
Proof. exact instance0_iff. Qed.
(* (a) round trip with the printer, for every well-formed tree (names as lark can return them, number texts over [-.0-9]) *)
Theorem C14_text_parse_print : forall t : list xsarg, wf_tree t = true -> parse_sdf (print_sdf t) = Some t.
Proof. exact parse_print. Qed.
Theorem C14_text_print_is_cfile : forall t : list xsarg, print_sdf t = cfile_text (cfile_of t) /\
  (wf_tree t = true -> cfile_ok (cfile_of t) = true /\ cfile_abs (cfile_of t) = t).
Proof. intro t. split; [apply print_is_text | apply cfile_of_ok]. Qed.
(* (b) ignored text does not matter: two ways of writing the same content parse alike *)
Theorem C14_text_ignored_text_irrelevant : forall f g : cfile, cfile_ok f = true -> cfile_ok g = true -> cfile_abs f = cfile_abs g ->
  parse_sdf (cfile_text f) = parse_sdf (cfile_text g).
Proof. exact same_content_same_parse. Qed.
(* (c) header entries (SDFVERSION .. TIMESCALE, PROCESS), CELLTYPE, (INSTANCE) and TIMINGCHECK blocks are skipped: removing them from the
   text leaves the parse unchanged *)
Theorem C14_text_skipped_items_irrelevant : forall f : cfile, cfile_ok f = true ->
  parse_sdf (cfile_text (strip_file f)) = parse_sdf (cfile_text f) /\ parse_sdf (cfile_text f) = Some (cfile_abs f).
Proof. exact skipped_items_irrelevant. Qed.
(* (d) from the TEXT to the DelayFile: sdf.parse succeeds with [df], and every delay entry written in a DELAY section of a CELL is in [df]
   under the first INSTANCE name of that CELL (instance-less: in the interconnect list) -- none is lost *)
Theorem C14_text_entry_kept : forall f t df, cfile_ok f = true -> tree_of_x (cfile_abs f) = Some t -> start_cb t = Ok df ->
  delayfile_of_text (cfile_text f) = Some (Ok df) /\
  forall sc items sf sd s1 es sf' s3 se ce,
    In (sc, CTCell items sf) (cf_items f) -> In (sd, CCDelay s1 es sf' s3) items -> In (se, ce) es ->
    exists te e, entry_of_x (centry_abs ce) = Some te /\ entry_cb te = Ok e /\ kept_in df (ccell_key items) e.
Proof. exact text_entry_kept. Qed.
(* the same for ANY text lark accepts (no reference to how it is written), on lark's tree *)
Theorem C14_text_entry_kept_any : forall text x t df, parse_sdf text = Some x -> tree_of_x x = Some t -> start_cb t = Ok df ->
  forall args es xe, In (XSCell args) x -> In (XDelay es) args -> In xe es ->
  exists te e, entry_of_x xe = Some te /\ entry_cb te = Ok e /\ kept_in df (xcell_key args) e.
Proof. exact text_entry_kept_any. Qed.
(* C14_delayfile_of_blocks / C14_cells_none_lost restated from the text *)
Theorem C14_text_delayfile_of_blocks : forall text t df, tree_of_text text = Some t -> start_cb t = Ok df ->
  delayfile_of_text text = Some (Ok df) /\
  exists bs, blocks_of t = Ok bs /\
    df_name df = first_sname t /\
    df_ic df = (if has_block None bs then Some (entries_of None bs) else None) /\
    df_cells df = map (fun s => (s, entries_of (Some s) bs)) (named_keys (first_occ (map fst bs))) /\
    (forall k, dict_get k (group bs) = if has_block k bs then Some (entries_of k bs) else None).
Proof. exact text_delayfile_of_blocks. Qed.
(* the hypotheses are satisfiable: a file with header entries, comments, tabs, "\r\n", TIMINGCHECK and two CELL blocks of one instance *)
Theorem C14_text_example : cfile_ok ex_file = true /\ cfile_abs ex_file = ex_tree /\ parse_sdf (cfile_text ex_file) = Some ex_tree /\
  wf_tree ex_tree = true /\ parse_sdf (print_sdf ex_tree) = Some ex_tree /\
  cfile_abs (strip_file ex_file) = ex_tree /\ List.length (cf_items (strip_file ex_file)) = 4.
Proof. exact ex_file_ok. Qed.
(* the widened conditions are satisfiable and strictly wider: names on the next line, after comments that follow a line break, after "\r\n" / tabs,
   no separator next to the quoted / parenthesised form, a comment directly after such a form; the text is spelled out in Proofs/SdfTextProofs.v *)
Theorem C14_text_example_wide : cfile_ok ex_wide = true /\ cfile_ok_v1 ex_wide = false /\ cfile_abs ex_wide = ex_wide_tree /\
  parse_sdf (cfile_text ex_wide) = Some ex_wide_tree.
Proof. destruct ex_wide_ok as [H1 [H2 [H3 [H4 _]]]]. repeat split; assumption. Qed.
(* for whole files [cfile_ok] is sufficient, not necessary (a misplaced empty comment is lexed as the name `//`; the name `//` after it is skipped
   as a comment): the exactness statements are therefore made at the scanner of a name, and checked on generated one-defect renderings *)
Theorem C14_text_cfile_ok_not_necessary : exists f : cfile, cfile_ok f = false /\ parse_sdf (cfile_text f) = Some (cfile_abs f).
Proof. exists ex_coincidence. destruct ex_coincidence_ok as [H1 [_ [H2 _]]]. split; assumption. Qed.
Local Open Scope string_scope.
(* D34 (fixed by d9c2c16): ID and ID_OR_EDGE end at any \s character, so a newline or tab next to a name is NOT lexed into the name: the
   instance of `(INSTANCE u1` NEWLINE `)` is "u1" and its delays are kept, `A<TAB>Z` are two pins; every character the two ignore rules skip is \s *)
Theorem C14_text_name_whitespace_ends_name :
  parse_sdf ("(DELAYFILE(CELL(INSTANCE u1" ++ nl1 ++ ")))") = Some [XSCell [XName "u1"]] /\
  parse_sdf "(DELAYFILE(CELL(INSTANCE u1 )))" = Some [XSCell [XName "u1"]] /\
  parse_sdf ("(DELAYFILE(CELL(INSTANCE" ++ String c_tab "u1" ++ String c_cr nl1 ++ ")))") = Some [XSCell [XName "u1"]] /\
  parse_sdf ("(DELAYFILE(CELL(DELAY(ABSOLUTE(IOPATH A" ++ String c_tab "Z (1:2:3))))))") = Some [XSCell [XDelay [XEntry true "A" "Z" [["1"; "2"; "3"]]]]] /\
  (forall c, is_ws c = true -> ide_char c = false /\ id_char c = false) /\
  (forall c, is_b1 c = true \/ c = c_nl \/ c = c_cr -> is_ws c = true) /\
  exists t df, tree_of_text ("(DELAYFILE(CELL(INSTANCE u1" ++ nl1 ++ ")(DELAY(ABSOLUTE(IOPATH A" ++ String c_tab "Z (1:2:3))))))") = Some t /\
               start_cb t = Ok df /\ map fst (df_cells df) = ["u1"].
Proof. exact name_whitespace_ends_name. Qed.
Local Close Scope string_scope.

(** ** source tie (translation) of the pure transformer callbacks: SdfTransformer.triple, sanitize, SdfTransformer.iopath /
    interconnect, translated from the CURRENT source text (Gen/SdfCallbacksSrc.v, translate/gen_sdf_callbacks.py), ARE the hand model:
    on the number tokens of a triple (text = body followed by the ":" / ")" the token pattern includes) triple computes
    [triple_cb] of the numbers Model/SdfText.v reads ([triple_of_x]; None = float() raises / leaves the 1/8 grid); on two name
    tokens followed by the triples' values the entry callbacks compute [entry_cb] (one triple duplicated, any other count than
    one or two raises in the namedtuple constructor). *)
From KV Require Import Model.SdfCallbacksSrcLib Gen.SdfCallbacksSrc Proofs.SdfCallbacksSrcProofs.
Theorem C14_callbacks_source_is_model :
  (forall l : list (string * ascii),
     SdfTransformer_triple_src (map (fun p => tok_of (fst p) (snd p)) l) = option_map triple_cb (triple_of_x (map fst l))) /\
  (forall a b ts,
     SdfTransformer_iopath_src (enc_entry_args a b ts) = match entry_cb (TEntry true a b ts) with Ok e => Some (enc_entry e) | Err => None end /\
     SdfTransformer_interconnect_src (enc_entry_args a b ts) = match entry_cb (TEntry false a b ts) with Ok e => Some (enc_entry e) | Err => None end).
Proof. exact callbacks_source_is_model. Qed.
Local Open Scope string_scope.
Theorem C14_callbacks_source_nonvacuous :
  SdfTransformer_triple_src ["0.5:"; ":"; "-1.25)"] = Some [4; 0; -10]%Z /\
  SdfTransformer_iopath_src [SvTok "(posedge A)"; SvTok "Y"; SvNums [4; 0; -10]%Z] =
    Some [SvTok "(posedge A)"; SvTok "Y"; SvNums [4; 0; -10]%Z; SvNums [4; 0; -10]%Z] /\
  SdfTransformer_interconnect_src [SvTok "u1/Y"; SvTok "u2/A"; SvNums [8; 8; 8]%Z; SvNums []] =
    Some [SvTok "u1/Y"; SvTok "u2/A"; SvNums [8; 8; 8]%Z; SvNums []] /\
  SdfTransformer_iopath_src [SvTok "A"; SvTok "Y"; SvNums []; SvNums []; SvNums []] = None /\
  SdfTransformer_iopath_src [SvTok "A"; SvTok "Y"] = None.
Proof. exact callbacks_nonvacuous. Qed.
Local Close Scope string_scope.
