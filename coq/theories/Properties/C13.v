(** C13 -- capture results and switching-activity counts faithfully summarise waveforms. Statements only. *)
From Coq Require Import List ZArith NArith Bool Arith.
From KV Require Import Model.Time Model.WaveEval Model.WaveSpec Proofs.WaveCore.
From KV Require Proofs.WaveEquiv.
Import ListNotations.

(* the counts returned by a gate evaluation are the rising / falling transitions of the waveform it stored *)
Theorem C13_wsa_counts : forall lut ws ds zreg r, wf_args ws ds zreg -> wave_eval lut ws ds zreg = Some r ->
  (r_rise r, r_fall r) = edges (r_z r).
Proof. exact wsa_counts. Qed.

(* the overflow mark is set exactly when this evaluation dropped transitions or an operand carries the mark *)
Theorem C13_overflow_mark : forall lut ws ds zreg r, wf_args ws ds zreg -> wave_eval lut ws ds zreg = Some r ->
  (terminator (r_z r) = MaxOvl <-> (0 < r_ovf r \/ exists k, k < 4 /\ terminator (nth k ws []) = MaxOvl)) /\
  (terminator (r_z r) = MaxInf \/ terminator (r_z r) = MaxOvl).
Proof. exact wave_ovl. Qed.

(* overflow indicator clear => the waveform is the one computed with any larger (unlimited) capacity, and it
   depends on the operands only up to their terminators *)
Theorem C13_no_overflow_is_exact : forall lut ws ws' ds zreg zreg' r,
  2 <= length zreg ->
  length ws = 4 -> length ws' = 4 -> length ds = 4 ->
  Forall2 (fun w w' => upto_end w = upto_end w') ws ws' ->
  length zreg <= length zreg' ->
  wave_eval lut ws ds zreg = Some r -> r_ovf r = 0 ->
  exists r', wave_eval lut ws' ds zreg' = Some r' /\ upto_end (r_z r') = upto_end (r_z r) /\
             r_ovf r' = 0 /\ r_rise r' = r_rise r /\ r_fall r' = r_fall r.
Proof. exact KV.Proofs.WaveEquiv.no_ovf_exact. Qed.
