(** C13 -- capture results and switching-activity counts faithfully summarise waveforms. Statements only. *)
From Coq Require Import List ZArith NArith Bool Arith.
From KV Require Import Model.Time Model.WaveEval Model.WaveSpec Proofs.WaveCore.
From KV Require Proofs.WaveEquiv.
Import ListNotations.

(* the counts returned by a gate evaluation are the rising / falling transitions of the waveform it stored *)
Theorem C13_wsa_counts : forall lut ws ds zreg r, wf_args ws ds zreg -> wave_eval lut ws ds zreg = Some r ->
  (r_rise r, r_fall r) = edges (r_z r).
Proof. exact wsa_counts. Qed.

(* the overflow mark is set exactly when this evaluation dropped transitions or an operand carries the mark *)
Theorem C13_overflow_mark : forall lut ws ds zreg r, wf_args ws ds zreg -> wave_eval lut ws ds zreg = Some r ->
  (terminator (r_z r) = MaxOvl <-> (0 < r_ovf r \/ exists k, k < 4 /\ terminator (nth k ws []) = MaxOvl)) /\
  (terminator (r_z r) = MaxInf \/ terminator (r_z r) = MaxOvl).
Proof. exact wave_ovl. Qed.

(* overflow indicator clear => the waveform is the one computed with any larger (unlimited) capacity, and it
   depends on the operands only up to their terminators *)
Theorem C13_no_overflow_is_exact : forall lut ws ws' ds zreg zreg' r,
  2 <= length zreg ->
  length ws = 4 -> length ws' = 4 -> length ds = 4 ->
  Forall2 (fun w w' => upto_end w = upto_end w') ws ws' ->
  length zreg <= length zreg' ->
  wave_eval lut ws ds zreg = Some r -> r_ovf r = 0 ->
  exists r', wave_eval lut ws' ds zreg' = Some r' /\ upto_end (r_z r') = upto_end (r_z r) /\
             r_ovf r' = 0 /\ r_rise r' = r_rise r /\ r_fall r' = r_fall r.
Proof. exact KV.Proofs.WaveEquiv.no_ovf_exact. Qed.

(* capture: initial value, final value, earliest arrival, latest stabilisation, value at T, overflow indicator *)
From KV Require Import Model.CaptureSpec.
From KV Require Proofs.CaptureProofs.
Theorem C13_capture_summary : forall w T, wf_wave w ->
  let '(ini, a) := capture w T in
  ini = init_val w /\ k_fin a = final_val w /\ k_eat a = earliest w /\ k_lst a = latest w /\
  k_val a = value_before w T /\ (k_ovl a = true <-> terminator w = MaxOvl).
Proof. exact KV.Proofs.CaptureProofs.capture_summary. Qed.
(* for increasing waveforms the entries before T are a prefix: the captured value is the value just before T *)
Theorem C13_value_before_prefix : forall w T, wf_wave w -> strictly_increasing w ->
  exists n, n <= ntrans w /\ filter (fun t => tltb t T) (body w) = firstn n (body w).
Proof. exact KV.Proofs.CaptureProofs.value_before_prefix. Qed.
