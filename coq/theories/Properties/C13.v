(** C13 -- capture results and switching-activity counts faithfully summarise waveforms. Statements only. *)
From Coq Require Import List ZArith NArith Bool Arith.
From KV Require Import Model.Time Model.WaveEval Model.WaveSpec Proofs.WaveCore.
From KV Require Proofs.WaveEquiv.
Import ListNotations.

(* the counts returned by a gate evaluation are the rising / falling transitions of the waveform it stored *)
Theorem C13_wsa_counts : forall lut ws ds zreg r, wf_args ws ds zreg -> wave_eval lut ws ds zreg = Some r ->
  (r_rise r, r_fall r) = edges (r_z r).
Proof. exact wsa_counts. Qed.

(* the overflow mark is set exactly when this evaluation dropped transitions or an operand carries the mark *)
Theorem C13_overflow_mark : forall lut ws ds zreg r, wf_args ws ds zreg -> wave_eval lut ws ds zreg = Some r ->
  (terminator (r_z r) = MaxOvl <-> (0 < r_ovf r \/ exists k, k < 4 /\ terminator (nth k ws []) = MaxOvl)) /\
  (terminator (r_z r) = MaxInf \/ terminator (r_z r) = MaxOvl).
Proof. exact wave_ovl. Qed.

(* overflow indicator clear => the waveform is the one computed with any larger (unlimited) capacity, and it
   depends on the operands only up to their terminators *)
Theorem C13_no_overflow_is_exact : forall lut ws ws' ds zreg zreg' r,
  2 <= length zreg ->
  length ws = 4 -> length ws' = 4 -> length ds = 4 ->
  Forall2 (fun w w' => upto_end w = upto_end w') ws ws' ->
  length zreg <= length zreg' ->
  wave_eval lut ws ds zreg = Some r -> r_ovf r = 0 ->
  exists r', wave_eval lut ws' ds zreg' = Some r' /\ upto_end (r_z r') = upto_end (r_z r) /\
             r_ovf r' = 0 /\ r_rise r' = r_rise r /\ r_fall r' = r_fall r.
Proof. exact KV.Proofs.WaveEquiv.no_ovf_exact. Qed.

(* capture: initial value, final value, earliest arrival, latest stabilisation, value at T, overflow indicator *)
From KV Require Import Model.CaptureSpec.
From KV Require Proofs.CaptureProofs.
Theorem C13_capture_summary : forall w T, wf_wave w ->
  let '(ini, a) := capture w T in
  ini = init_val w /\ k_fin a = final_val w /\ k_eat a = earliest w /\ k_lst a = latest w /\
  k_val a = value_before w T /\ (k_ovl a = true <-> terminator w = MaxOvl).
Proof. exact KV.Proofs.CaptureProofs.capture_summary. Qed.
(* for increasing waveforms the entries before T are a prefix: the captured value is the value just before T *)
Theorem C13_value_before_prefix : forall w T, wf_wave w -> strictly_increasing w ->
  exists n, n <= ntrans w /\ filter (fun t => tltb t T) (body w) = firstn n (body w).
Proof. exact KV.Proofs.CaptureProofs.value_before_prefix. Qed.

(** OP-LIST LEVEL (Proofs/WaveAccProofs.v).  [wacc] mirrors level_eval_cpu: for each op in order
    abuf[a_loc] += nrise*a_wr + nfall*a_wf with the counts that op's evaluation returned. *)
From KV Require Import Model.SimOps Model.WaveOps Model.WaveSimModel Model.WaveAcc.
From KV Require Proofs.WaveCircuit Proofs.WaveAccProofs Proofs.WaveFlat.

(* after ANY op list accumulator a holds its old value plus, for every op assigned to a, the weighted rising / falling
   transitions of the waveform that op stored at the time it was evaluated *)
Theorem C13_wacc_running : forall delays cap actrl,
  KV.Proofs.WaveCircuit.good_delays delays -> KV.Proofs.WaveCircuit.good_caps cap ->
  forall ops i (e : wenv) ab a, (forall k, wf_wave (e k)) -> a < length ab ->
  nth a (snd (wacc_from delays cap actrl i ops e ab)) 0%Z = (nth a ab 0 + wsa_running delays cap actrl i ops e a)%Z.
Proof. exact KV.Proofs.WaveAccProofs.wacc_running. Qed.

(* the sum is over the waveforms found at the END, provided an op whose output index is written again later does not
   accumulate ([acc_once]; evaluated per generated case by [acc_once_b]: SimOps re-writes only the scratch slot, a_loc = -1) *)
Theorem C13_wacc_final : forall delays cap actrl,
  KV.Proofs.WaveCircuit.good_delays delays -> KV.Proofs.WaveCircuit.good_caps cap ->
  forall ops (e : wenv) ab a, (forall k, wf_wave (e k)) -> acc_once actrl 0 ops -> a < length ab ->
  nth a (wacc delays cap actrl ops e ab) 0%Z = (nth a ab 0 + wsa_final actrl 0 ops (wexec delays cap ops e) a)%Z.
Proof. exact KV.Proofs.WaveAccProofs.wacc_final. Qed.

(* in particular for op lists that write every output index once *)
Theorem C13_wacc_final_ssa : forall delays cap actrl,
  KV.Proofs.WaveCircuit.good_delays delays -> KV.Proofs.WaveCircuit.good_caps cap ->
  forall ops (e : wenv) ab a, (forall k, wf_wave (e k)) -> NoDup (map s_out ops) -> a < length ab ->
  nth a (wacc delays cap actrl ops e ab) 0%Z = (nth a ab 0 + wsa_final actrl 0 ops (wexec delays cap ops e) a)%Z.
Proof. exact KV.Proofs.WaveAccProofs.wacc_final_ssa. Qed.

Theorem C13_acc_once_check_sound : forall actrl ops i, acc_once_b actrl i ops = true -> acc_once actrl i ops.
Proof. exact KV.Proofs.WaveAccProofs.acc_once_b_sound. Qed.

(* a signal carries the overflow mark iff an evaluation in its transitive fan-in dropped a transition (or a marked input reaches it) *)
Theorem C13_ovf_reach : forall delays cap,
  KV.Proofs.WaveCircuit.good_delays delays -> KV.Proofs.WaveCircuit.good_caps cap ->
  forall ops (e : wenv) k, (forall j, wf_wave (e j)) ->
  (terminator (wexec delays cap ops e k) = MaxOvl <-> ovf_reach delays cap ops e (ovf0 e) k = true).
Proof. exact KV.Proofs.WaveAccProofs.ovf_reach_spec. Qed.

Theorem C13_ovf_reach_clean : forall delays cap ops (e : wenv) (ov : nat -> bool),
  dropped_total delays cap ops e = 0 -> (forall k, ov k = false) -> forall k, ovf_reach delays cap ops e ov k = false.
Proof. exact KV.Proofs.WaveAccProofs.ovf_reach_clean. Qed.

(* capture of any signal of any op list *)
Theorem C13_circuit_capture : forall delays cap,
  KV.Proofs.WaveCircuit.good_delays delays -> KV.Proofs.WaveCircuit.good_caps cap ->
  forall ops (e : wenv) k T, (forall j, wf_wave (e j)) ->
  let w := wexec delays cap ops e k in
  let '(ini, a) := capture w T in
  ini = bexec ops (fun j => init_val (e j)) k /\ k_fin a = bexec ops (fun j => final_val (e j)) k /\
  k_eat a = earliest w /\ k_lst a = latest w /\ k_val a = value_before w T /\
  (k_ovl a = true <-> ovf_reach delays cap ops e (ovf0 e) k = true).
Proof. exact KV.Proofs.WaveAccProofs.circuit_capture. Qed.

(* FLAT MEMORY: c_to_s after c_prop -- the PPO slot i, which aliases the tracked line l0, captures the line-level waveform of l0 *)
Theorem C13_flat_capture : forall so delays actrl (P : nat -> Prop) (m : wmem) ab m' ab' T i l0 zl,
  regions_ok so P (length m) -> w_c_prop so delays actrl m ab = Some (m', ab') ->
  i < so_slen so -> P l0 -> locZ so l0 = Some zl ->
  locZ so (n_tracked so + i) = locZ so l0 -> capN so (n_tracked so + i) = capN so l0 ->
  nth i (w_c_to_s so m' T) None = Some (six (capture (wexec (dl_of delays) (capN so) (so_ops so) (env_of so m) l0) T)).
Proof. exact KV.Proofs.WaveFlat.flat_capture. Qed.

(** MEMORY LEVEL, all four c_reuse x strip_forks combinations (Proofs/WaveSimGlue.v): the region certificate of C13_flat_capture is
    derived from the allocator invariant of every build result (C03_build_regions_all) instead of being checked per case *)
From KV Require Import Model.Netlist Model.NetlistWf Model.WaveGlue.
From KV Require Model.CycleSem Proofs.EndToEnd Proofs.ReuseStrip Proofs.LogicSimGlue Proofs.WaveSimGlue.
Theorem C13_wavesim_model_capture : forall c caps reuse strip delays actrl abuf_len s extra tcap,
  wf_netlist c -> comb_acyclic c -> KV.Proofs.EndToEnd.gates_known c -> length (c_lines c) <= length caps ->
  KV.Proofs.WaveSimGlue.extra_ok c extra ->
  KV.Proofs.WaveSimGlue.wave_inputs_ok c (dl_of delays) (stim_wave s extra) ->
  (strip = true -> build_stems c true (KV.Proofs.LogicSimGlue.std_len c) <> None /\ KV.Proofs.ReuseStrip.forks_ok c /\
     KV.Proofs.WaveSimGlue.forks_single c /\
     KV.Proofs.WaveSimGlue.strip_side c (dl_of delays) (lcap (length (c_lines c)) caps)
        (wexec (dl_of delays) (lcap (length (c_lines c)) caps) (build_ops c false) (wenv0 c s extra))) ->
  exists r, wsim_case c caps reuse strip delays actrl abuf_len s extra tcap = Some r /\
    forall p l0, KV.Model.CycleSem.snode_in c p = Some l0 ->
      let w := wexec (dl_of delays) (lcap (length (c_lines c)) caps) (build_ops c false) (wenv0 c s extra) l0 in
      let '(ini, a) := capture w tcap in
      nth p (w_capt r) None = Some (ini, k_eat a, k_lst a, k_fin a, k_val a, k_ovl a) /\
      ini = bexec (build_ops c false) (fun j => init_val (wenv0 c s extra j)) l0 /\
      k_fin a = bexec (build_ops c false) (fun j => final_val (wenv0 c s extra j)) l0 /\
      k_eat a = earliest w /\ k_lst a = latest w /\ k_val a = value_before w tcap /\
      (k_ovl a = true <->
       ovf_reach (dl_of delays) (lcap (length (c_lines c)) caps) (build_ops c false) (wenv0 c s extra) (ovf0 (wenv0 c s extra)) l0 = true).
Proof. exact KV.Proofs.WaveSimGlue.wavesim_model_capture. Qed.

(* abuf of the compared model = line-level accumulation, with or without c_reuse; accumulator a = weighted transitions of the
   final line-level waveforms when no accumulating op is overwritten (with strip_forks: C03_wavesim_model_alias, the alias run) *)
Theorem C13_wavesim_model_activity : forall c caps reuse delays actrl abuf_len s extra tcap,
  wf_netlist c -> comb_acyclic c -> KV.Proofs.EndToEnd.gates_known c -> length (c_lines c) <= length caps ->
  KV.Proofs.WaveSimGlue.extra_ok c extra ->
  let dl := dl_of delays in let cp := lcap (length (c_lines c)) caps in let e0 := wenv0 c s extra in
  exists r, wsim_case c caps reuse false delays actrl abuf_len s extra tcap = Some r /\
    w_abuf r = wacc dl cp actrl (build_ops c false) e0 (repeat 0%Z abuf_len) /\
    (KV.Proofs.WaveSimGlue.wave_inputs_ok c dl (stim_wave s extra) -> acc_once actrl 0 (build_ops c false) ->
     forall a, a < abuf_len -> nth a (w_abuf r) 0%Z = wsa_final actrl 0 (build_ops c false) (wexec dl cp (build_ops c false) e0) a).
Proof. exact KV.Proofs.WaveSimGlue.wavesim_model_activity. Qed.

(** SOURCE TIE (see C03_kernel_source_is_model): the merge kernel as translated from the current text of wave_sim._wave_eval
    (Gen/WaveEvalSrc.v, regenerated on every run) computes the model [wave_eval]; hence the pair (nrise, nfall) the SOURCE returns
    counts the rising / falling transitions of the waveform that call stored. *)
From KV Require Import Model.WaveSrcPrelude Gen.WaveEvalSrc.
From KV Require Proofs.WaveEvalSrcProofs Proofs.WaveEvalSrcCorollaries.
Theorem C13_kernel_source_is_model : forall lut ws ds zreg, 2 <= length zreg ->
  KV.Proofs.WaveEvalSrcProofs.res_of
    (WaveEvalSrc.wave_eval_src (KV.Proofs.WaveEvalSrcProofs.model_fuel ws) (Z.of_N lut) ws ds zreg) = wave_eval lut ws ds zreg.
Proof. exact KV.Proofs.WaveEvalSrcProofs.kernel_source_is_model. Qed.

Theorem C13_source_counts : forall lut ws ds zreg s nr nf, wf_args ws ds zreg ->
  WaveEvalSrc.wave_eval_src (KV.Proofs.WaveEvalSrcProofs.model_fuel ws) (Z.of_N lut) ws ds zreg = Some (s, (nr, nf)) ->
  (Z.to_nat nr, Z.to_nat nf) = edges (KV.Proofs.WaveEvalSrcCorollaries.src_z s).
Proof. exact KV.Proofs.WaveEvalSrcCorollaries.src_counts. Qed.

(** capture from the source text: wave_capture_cpu and the thread body of wave_capture_gpu (sd = 0), translated into
    Gen/WaveEvalSrc.v on every run, compute the model [capture] all capture theorems above are about *)
Theorem C13_capture_cpu_source_is_model : forall tcap w,
  WaveCaptureCpuSrc.capture_src tcap w = KV.Proofs.WaveEvalSrcProofs.WaveCaptureCpuSrcProofs.model_result w tcap.
Proof. exact KV.Proofs.WaveEvalSrcProofs.WaveCaptureCpuSrcProofs.capture_source_is_model. Qed.

Theorem C13_capture_gpu_source_is_model : forall tcap w,
  WaveCaptureGpuSrc.capture_src tcap w = KV.Proofs.WaveEvalSrcProofs.WaveCaptureGpuSrcProofs.model_result w tcap.
Proof. exact KV.Proofs.WaveEvalSrcProofs.WaveCaptureGpuSrcProofs.capture_source_is_model. Qed.

(** DRIVER CODE from the source text (Gen/WaveDriversSrc.v, translate/gen_wave_drivers.py; see Properties/C06.v): the accumulation
    wrapper of the GPU path (cuda.atomic.add in wave_eval_gpu) adds nrise * a_wr + nfall * a_wf of the model step to abuf[a_loc] of
    the thread's own lane, and the write-back of wave_capture_gpu stores the model's eight capture values in s[3..10] *)
From KV Require Import Model.WaveDrvPrelude Gen.WaveDriversSrc.
From KV Require Proofs.WaveDriversProofs.
Theorem C13_driver_accumulate_is_model : forall so ops D seed op_start n_ops sim_start n_sims x y o a L,
  x < n_sims -> y < n_ops -> nth (op_start + y) ops [] = KV.Proofs.WaveDriversProofs.op_row o a ->
  KV.Proofs.WaveDriversProofs.out_cap_ok so (l_c L) o ->
  WaveEvalGpuSrc.inst_src ops (so_locs so) (KV.Proofs.WaveDriversProofs.caps_z so) D (Z.of_nat op_start) (Z.of_nat (op_start + n_ops))
    (Z.of_nat sim_start) (Z.of_nat (sim_start + n_sims)) seed (Z.of_nat x) (Z.of_nat y) L
  = KV.Proofs.WaveDriversProofs.lane_eval_step so D seed o a L.
Proof. exact KV.Proofs.WaveDriversProofs.eval_gpu_inst_is_model. Qed.
Theorem C13_driver_capture_is_model : forall so nsims tcap x y L, x < nsims ->
  WaveCaptureGpuDrvSrc.inst_src (so_locs so) (KV.Proofs.WaveDriversProofs.caps_z so) tcap (Z.of_nat (so_nlines so + 3 + so_slen so))
    (Z.of_nat nsims) (Z.of_nat x) (Z.of_nat y) L = KV.Proofs.WaveDriversProofs.capture_step so tcap y L.
Proof. exact KV.Proofs.WaveDriversProofs.capture_gpu_inst_is_model. Qed.

(** ACTIVITY UNDER strip_forks (round 4b; closes "abuf under strip_forks only through the alias run").  With strip_forks = True
    (any c_reuse), under the hypotheses of the strip theorems (C06_wave_strip_forks_irrelevant: zero delay on fork inputs, the
    stem waveforms of the UNSTRIPPED run strictly increasing and fitting every branch region) the compared memory-level model
    is total and its accumulation buffer is
      (1) the accumulation, over the ops the STRIPPED schedule keeps (build_ops c true: the fork ops are not executed), of
          the (nrise, nfall) each kept op returns when evaluated on the UNSTRIPPED line-level waveforms -- op i adds
          nrise * a_wr + nfall * a_wf of its a_ctrl row to its accumulator;
      (2) if the scratch slot of output-less gates does not accumulate (what SimOps builds from a per-line a_ctrl table):
          accumulator a = the weighted rising / falling transitions of the UNSTRIPPED waveform of the output LINE of every kept
          op whose row names a.
    What it means for a user: SimOps attaches a_ctrl[line] to the op that WRITES the line; a fork branch line is written by a
    fork op, which strip_forks removes -- the row of a fork branch is attached to no op and accumulates NOTHING (no error), while
    without strip_forks it counts the branch waveform (= the stem waveform under these hypotheses).  To count a net with
    strip_forks the accumulator has to sit on the STEM line (C13_strip_branch_row_lost: witness, confirmed on the real code). *)
From KV Require Proofs.WaveStripAcc.
Theorem C13_wavesim_model_activity_strip : forall c caps reuse delays actrl abuf_len s extra tcap,
  wf_netlist c -> comb_acyclic c -> KV.Proofs.EndToEnd.gates_known c -> length (c_lines c) <= length caps ->
  KV.Proofs.WaveSimGlue.extra_ok c extra ->
  let dl := dl_of delays in let cp := lcap (length (c_lines c)) caps in let e0 := wenv0 c s extra in
  let eu := wexec dl cp (build_ops c false) e0 in
  build_stems c true (KV.Proofs.LogicSimGlue.std_len c) <> None -> KV.Proofs.ReuseStrip.forks_ok c -> KV.Proofs.WaveSimGlue.forks_single c ->
  KV.Proofs.WaveSimGlue.wave_inputs_ok c dl (stim_wave s extra) -> KV.Proofs.WaveSimGlue.strip_side c dl cp eu ->
  exists r, wsim_case c caps reuse true delays actrl abuf_len s extra tcap = Some r /\
    w_abuf r = KV.Proofs.WaveStripAcc.acc_cnt actrl 0 (build_ops c true) (wop_counts dl cp eu) (repeat 0%Z abuf_len) /\
    (KV.Proofs.WaveStripAcc.scratch_off c actrl ->
     forall a, a < abuf_len -> nth a (w_abuf r) 0%Z = wsa_final actrl 0 (build_ops c true) eu a).
Proof. exact KV.Proofs.WaveStripAcc.wavesim_model_activity_strip. Qed.
(** ... with all hypotheses discharged by evaluation (what the check evaluates on every generated strip_forks case) *)
Theorem C13_wavesim_model_activity_strip_b : forall c caps reuse delays actrl abuf_len s extra tcap,
  KV.Proofs.WaveSimGlue.wglue_hyps_b c caps true delays s extra = true ->
  let dl := dl_of delays in let cp := lcap (length (c_lines c)) caps in let e0 := wenv0 c s extra in
  let eu := wexec dl cp (build_ops c false) e0 in
  exists r, wsim_case c caps reuse true delays actrl abuf_len s extra tcap = Some r /\
    w_abuf r = KV.Proofs.WaveStripAcc.acc_cnt actrl 0 (build_ops c true) (wop_counts dl cp eu) (repeat 0%Z abuf_len) /\
    (KV.Proofs.WaveStripAcc.scratch_off_b c actrl = true ->
     forall a, a < abuf_len -> nth a (w_abuf r) 0%Z = wsa_final actrl 0 (build_ops c true) eu a).
Proof. exact KV.Proofs.WaveStripAcc.wavesim_model_activity_strip_b. Qed.
(** a kept op that writes a line, evaluated on the unstripped waveforms, returns the unstripped waveform of that line (why (1) is (2)) *)
Theorem C13_strip_kept_op_fixpoint : forall c caps delays s extra, wf_netlist c -> comb_acyclic c ->
  let dl := dl_of delays in let cp := lcap (length (c_lines c)) caps in
  let eu := wexec dl cp (build_ops c false) (wenv0 c s extra) in
  forall o, In o (build_ops c true) -> s_out o <> length (c_lines c) + 1 -> wop dl cp eu o = eu (s_out o).
Proof. exact KV.Proofs.WaveStripAcc.kept_op_fixpoint. Qed.
(** the hypotheses are satisfiable (fork with three branches, multi-transition stimulus) ... *)
Theorem C13_activity_strip_hyps_example :
  let c := KV.Proofs.WaveStrip.StripWaveExample.cxw in let dls := KV.Proofs.WaveSimGlue.WaveGlueExample.dls in
  let ss := KV.Proofs.WaveSimGlue.WaveGlueExample.ss in let ex := KV.Proofs.WaveSimGlue.WaveGlueExample.ex in
  wf_netlist c /\ comb_acyclic c /\ KV.Proofs.EndToEnd.gates_known c /\ length (c_lines c) <= length (repeat 8%N 6) /\
  KV.Proofs.WaveSimGlue.extra_ok c ex /\
  build_stems c true (KV.Proofs.LogicSimGlue.std_len c) <> None /\ KV.Proofs.ReuseStrip.forks_ok c /\ KV.Proofs.WaveSimGlue.forks_single c /\
  KV.Proofs.WaveSimGlue.wave_inputs_ok c (dl_of dls) (stim_wave ss ex) /\
  KV.Proofs.WaveSimGlue.strip_side c (dl_of dls) (lcap 6 (repeat 8%N 6))
    (wexec (dl_of dls) (lcap 6 (repeat 8%N 6)) (build_ops c false) (wenv0 c ss ex)) /\
  KV.Proofs.WaveStripAcc.scratch_off c (KV.Proofs.WaveStripAcc.StripAccExample.actrl_of (build_ops c true)).
Proof. exact KV.Proofs.WaveStripAcc.StripAccExample.cxw_strip_hyps. Qed.
(** ... and on it the row of fork branch line 2 (accumulator 1) counts 3 transitions unstripped and nothing stripped, while the
    stem (accumulator 0) and the and-gate (accumulator 2) accumulate the same in both runs *)
Theorem C13_strip_branch_row_lost :
  let c := KV.Proofs.WaveStrip.StripWaveExample.cxw in let dls := KV.Proofs.WaveSimGlue.WaveGlueExample.dls in
  let ss := KV.Proofs.WaveSimGlue.WaveGlueExample.ss in let ex := KV.Proofs.WaveSimGlue.WaveGlueExample.ex in
  let actrl_of := KV.Proofs.WaveStripAcc.StripAccExample.actrl_of in
  option_map w_abuf (wsim_case c (repeat 8%N 6) false false dls (actrl_of (build_ops c false)) 3 ss ex (Fin 30)) = Some [3; 3; 3]%Z /\
  option_map w_abuf (wsim_case c (repeat 8%N 6) false true dls (actrl_of (build_ops c true)) 3 ss ex (Fin 30)) = Some [3; 0; 3]%Z /\
  map (wsa_final (actrl_of (build_ops c true)) 0 (build_ops c true)
         (wexec (dl_of dls) (lcap 6 (repeat 8%N 6)) (build_ops c false) (wenv0 c ss ex))) [0; 1; 2] = [3; 0; 3]%Z.
Proof. exact KV.Proofs.WaveStripAcc.StripAccExample.strip_branch_row_lost. Qed.
(** the stripped schedule has no op that writes a branch line of a stripped fork -- so wsa_final over build_ops c true never
    mentions the a_ctrl row of such a line (SimOps attaches a_ctrl[line] to the op that writes the line: C01_simops_ops_source_is_model) *)
From KV Require Import Model.NetlistSem.
Theorem C13_strip_branch_no_op : forall c n ol, wf_netlist c -> n < length (c_nodes c) -> iface_pos c n = None ->
  is_fork (get_node c n) = true -> In ol (somes (n_outs (get_node c n))) -> forall o, In o (build_ops c true) -> s_out o <> ol.
Proof. exact KV.Proofs.WaveStripAcc.strip_branch_no_op. Qed.
