(** What the family name of a combinational library cell denotes (vendor datasheet conventions),
    independent of the cell's implementation text. *)
From Coq Require Import List NArith Bool Arith String Ascii.
From KV Require Import Model.Prims Model.TechCell.
Import ListNotations.
Local Open Scope list_scope.
Local Open Scope string_scope.

Inductive family :=
| FBuf | FInv
| FAnd (n : nat) | FNand (n : nat) | FOr (n : nat) | FNor (n : nat) | FXor (n : nat) | FXnor (n : nat)
| FAO (inverted and_or : bool) (groups : list nat)     (* and_or = true: OR of ANDs; false: AND of ORs *)
| FMux2 | FMux4 | FHalfAdd | FFullAdd.

Definition is_digit (c : ascii) : bool := let n := nat_of_ascii c in Nat.leb 48 n && Nat.leb n 57.
Fixpoint digits (s : string) : list nat :=
  match s with
  | String c r => if is_digit c then (nat_of_ascii c - 48) :: digits r else []
  | EmptyString => []
  end.
Fixpoint drop (n : nat) (s : string) : string :=
  match n, s with O, _ => s | S n', String _ r => drop n' r | S _, EmptyString => EmptyString end.
Definition after (pre s : string) : option string := if prefix pre s then Some (drop (String.length pre) s) else None.

(** which operand positions form the groups: in digit order (GSC180, SAED) or single pins first (NANGATE) *)
Definition singles_first (lib : string) : bool := prefix "NANGATE" lib.
Fixpoint insert_sorted (x : nat) (l : list nat) : list nat :=
  match l with [] => [x] | y :: r => if Nat.leb x y then x :: l else y :: insert_sorted x r end.
Definition order_groups (lib : string) (g : list nat) : list nat :=
  if singles_first lib then fold_right insert_sorted [] g else g.

Definition first_digit (s : string) : option nat := match digits s with d :: _ => Some d | [] => None end.

Definition family_of (lib name : string) : option family :=
  let try pre (k : string -> option family) := match after pre name with Some r => k r | None => None end in
  let nary (mk : nat -> family) (r : string) := option_map mk (first_digit r) in
  let ao inv ao_ (r : string) := match digits r with [] => None | [_] => None | g => Some (FAO inv ao_ g) end in
  let rules : list (string * (string -> option family)) := [
    ("AOBUF", fun _ => Some FBuf); ("AOINV", fun _ => Some FInv);
    ("NAND", nary FNand); ("NOR", nary FNor); ("AND", nary FAnd); ("XNOR", nary FXnor); ("XOR", nary FXor); ("OR", nary FOr);
    ("AOI", ao true true); ("OAI", ao true false); ("AO", ao false true); ("OA", ao false false);
    ("CLKBUF", fun _ => Some FBuf); ("NBUFF", fun _ => Some FBuf); ("DELLN", fun _ => Some FBuf); ("BUF", fun _ => Some FBuf);
    ("IBUFF", fun _ => Some FInv); ("INV", fun _ => Some FInv);
    ("MUX41", fun _ => Some FMux4); ("MUX21", fun _ => Some FMux2); ("MUX2", fun _ => Some FMux2); ("MX2", fun _ => Some FMux2);
    ("ADDH", fun _ => Some FHalfAdd); ("HADD", fun _ => Some FHalfAdd); ("HA_", fun _ => Some FHalfAdd);
    ("ADDF", fun _ => Some FFullAdd); ("FADD", fun _ => Some FFullAdd); ("FA_", fun _ => Some FFullAdd)] in
  (fix go (l : list (string * (string -> option family))) :=
     match l with
     | [] => None
     | (pre, k) :: r => match after pre name with Some rest => k rest | None => go r end
     end) rules.

Definition n_inputs (f : family) : nat :=
  match f with
  | FBuf | FInv => 1
  | FAnd n | FNand n | FOr n | FNor n | FXor n | FXnor n => n
  | FAO _ _ g => fold_left Nat.add g 0
  | FMux2 => 3 | FMux4 => 6 | FHalfAdd => 2 | FFullAdd => 3
  end.

Fixpoint split_groups (g : list nat) (row : list bool) : list (list bool) :=
  match g with [] => [] | n :: r => firstn n row :: split_groups r (skipn n row) end.
Definition all_b := forallb (fun b : bool => b).
Definition any_b := existsb (fun b : bool => b).
Definition xor_b (l : list bool) := fold_right xorb false l.

(** expected value of output pin [o] for the input row (inputs in declaration order); None = this pin is
    not an output of the family *)
Definition family_fn (lib : string) (f : family) (row : list bool) (o : string) (n_outs : nat) : option bool :=
  let single v := if Nat.eqb n_outs 1 then Some v else None in
  let i k := nth k row false in
  match f with
  | FBuf => single (i 0) | FInv => single (negb (i 0))
  | FAnd _ => single (all_b row) | FNand _ => single (negb (all_b row))
  | FOr _ => single (any_b row) | FNor _ => single (negb (any_b row))
  | FXor _ => single (xor_b row) | FXnor _ => single (negb (xor_b row))
  | FAO inv ao g =>
      let gs := split_groups (order_groups lib g) row in
      let v := if ao then any_b (map all_b gs) else all_b (map any_b gs) in
      single (if inv then negb v else v)
  | FMux2 => single (if i 2 then i 1 else i 0)
  | FMux4 => single (if i 5 then (if i 4 then i 3 else i 2) else (if i 4 then i 1 else i 0))
  | FHalfAdd =>
      if String.eqb o "S" || String.eqb o "SO" then Some (xorb (i 0) (i 1))
      else if String.eqb o "CO" || String.eqb o "C1" then Some (i 0 && i 1) else None
  | FFullAdd =>
      if String.eqb o "S" then Some (xorb (xorb (i 0) (i 1)) (i 2))
      else if String.eqb o "CO" then Some ((i 0 && i 1) || (i 0 && i 2) || (i 1 && i 2)) else None
  end.

Definition opt_bool_eqb (a b : option bool) : bool :=
  match a, b with Some x, Some y => Bool.eqb x y | _, _ => false end.

(** a cell satisfies its family: right number of inputs, every output pin is a family output and computes it *)
Definition cell_fn_ok (lib : string) (c : tcell) (name : string) : bool :=
  if cell_is_seq c then true else
  match family_of lib name with
  | None => true
  | Some f =>
      Nat.eqb (List.length (t_ins c)) (n_inputs f) &&
      forallb (fun row => forallb (fun o =>
          opt_bool_eqb (eval_out c row o) (family_fn lib f row o (List.length (t_outs c)))) (t_outs c))
        (rows (List.length (t_ins c)))
  end.
