(** Static view of a kyupy Circuit (what simulators and traversals read): nodes with their pin
    lists, lines with driver/reader, the io list; plus the traversals of circuit.py:497-564
    (after the D4 fix: connected pins only). *)
From Coq Require Import List NArith Bool Arith String.
From KV Require Import Model.Prims.
Import ListNotations.
Local Open Scope list_scope.

Record node := { n_kind : string; n_ins : list (option nat); n_outs : list (option nat) }.
Record line := { l_drv : nat; l_dpin : nat; l_rdr : nat; l_rpin : nat }.
Record netlist := { c_nodes : list node; c_lines : list line; c_io : list nat }.

Definition dnode := {| n_kind := ""; n_ins := []; n_outs := [] |}.
Definition dline := {| l_drv := 0; l_dpin := 0; l_rdr := 0; l_rpin := 0 |}.
Definition get_node (c : netlist) (i : nat) := nth i (c_nodes c) dnode.
Definition get_line (c : netlist) (i : nat) := nth i (c_lines c) dline.

Definition is_dff (n : node) := contains "dff" (lower (n_kind n)).
Definition is_latch (n : node) := contains "latch" (lower (n_kind n)).
Definition is_seq (n : node) := is_dff n || is_latch n.
Definition is_some {A} (o : option A) := match o with Some _ => true | None => false end.
Definition connected {A} (l : list (option A)) : nat := List.length (filter is_some l).
Definition somes {A} (l : list (option A)) : list A := flat_map (fun o => match o with Some x => [x] | None => [] end) l.

Fixpoint find_idx {A} (f : A -> bool) (l : list A) (i : nat) : list nat :=
  match l with [] => [] | x :: r => if f x then i :: find_idx f r (S i) else find_idx f r (S i) end.

(** Circuit.s_nodes: ports, then flip-flops, then latches *)
Definition s_nodes (c : netlist) : list nat :=
  c_io c ++ find_idx is_dff (c_nodes c) 0 ++ find_idx is_latch (c_nodes c) 0.

Fixpoint incr (l : list nat) (i : nat) : list nat :=
  match l, i with
  | [], _ => []
  | x :: r, O => S x :: r
  | x :: r, S i' => x :: incr r i'
  end.

(** Kahn's algorithm with a FIFO queue, exactly as topological_order *)
Definition visit_succ (c : netlist) (st : list nat * list nat) (l : nat) : list nat * list nat :=
  let '(visit, queue) := st in
  let succ := l_rdr (get_line c l) in
  let visit' := incr visit succ in
  let sn := get_node c succ in
  if Nat.eqb (nth succ visit' 0) (connected (n_ins sn)) && negb (is_seq sn)
  then (visit', queue ++ [succ]) else (visit', queue).

Fixpoint topo_loop (fuel : nat) (c : netlist) (visit queue acc : list nat) : list nat :=
  match fuel with
  | O => rev acc
  | S f =>
      match queue with
      | [] => rev acc
      | n :: q =>
          let '(visit', q') := fold_left (visit_succ c) (somes (n_outs (get_node c n))) (visit, q) in
          topo_loop f c visit' q' (n :: acc)
      end
  end.

Definition topo_init (c : netlist) : list nat :=
  find_idx (fun n => Nat.eqb (connected (n_ins n)) 0 || is_seq n) (c_nodes c) 0.
Definition topo_order (c : netlist) : list nat :=
  topo_loop (S (List.length (c_nodes c))) c (map (fun _ => 0) (c_nodes c)) (topo_init c) [].

(** reversed_topological_order: the same on the reversed graph *)
Definition visit_pred (c : netlist) (st : list nat * list nat) (l : nat) : list nat * list nat :=
  let '(visit, queue) := st in
  let pred := l_drv (get_line c l) in
  let visit' := incr visit pred in
  let pn := get_node c pred in
  if Nat.eqb (nth pred visit' 0) (connected (n_outs pn)) && negb (is_seq pn)
  then (visit', queue ++ [pred]) else (visit', queue).
Fixpoint rtopo_loop (fuel : nat) (c : netlist) (visit queue acc : list nat) : list nat :=
  match fuel with
  | O => rev acc
  | S f =>
      match queue with
      | [] => rev acc
      | n :: q =>
          let '(visit', q') := fold_left (visit_pred c) (somes (n_ins (get_node c n))) (visit, q) in
          rtopo_loop f c visit' q' (n :: acc)
      end
  end.
Definition rtopo_init (c : netlist) : list nat :=
  find_idx (fun n => Nat.eqb (connected (n_outs n)) 0 || is_seq n) (c_nodes c) 0.
Definition rtopo_order (c : netlist) : list nat :=
  rtopo_loop (S (List.length (c_nodes c))) c (map (fun _ => 0) (c_nodes c)) (rtopo_init c) [].

(** topological_order_with_level *)
Fixpoint set_nat (l : list nat) (i v : nat) : list nat :=
  match l, i with
  | [], _ => []
  | _ :: r, O => v :: r
  | x :: r, S i' => x :: set_nat r i' v
  end.
Definition topo_levels (c : netlist) : list (nat * nat) :=
  let step (st : list nat * list (nat * nat)) (n : nat) :=
      let '(lev, acc) := st in
      let nd := get_node c n in
      let l := if Nat.eqb (connected (n_ins nd)) 0 || is_seq nd then 0
               else S (fold_left Nat.max (map (fun ln => nth (l_drv (get_line c ln)) lev 0) (somes (n_ins nd))) 0) in
      (set_nat lev n l, (n, l) :: acc) in
  rev (snd (fold_left step (topo_order c) (map (fun _ => 0) (c_nodes c), []))).

Definition topo_line_order (c : netlist) : list nat :=
  flat_map (fun n => somes (n_outs (get_node c n))) (topo_order c).

(** fanin(origin_nodes) *)
Definition fanin (c : netlist) (origins : list nat) : list nat :=
  let marks0 := map (fun i => existsb (Nat.eqb i) origins) (seq 0 (List.length (c_nodes c))) in
  let step (st : list bool * list nat) (n : nat) :=
      let '(marks, acc) := st in
      let m := nth n marks false ||
               existsb (fun ln => nth (l_rdr (get_line c ln)) marks false) (somes (n_outs (get_node c n))) in
      let marks' := map (fun im => if Nat.eqb (fst im) n then m else snd im) (combine (seq 0 (List.length marks)) marks) in
      (marks', if m then n :: acc else acc) in
  rev (snd (fold_left step (rtopo_order c) (marks0, []))).
