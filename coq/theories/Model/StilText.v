(** TEXT level of the STIL front end: an executable transcription of what
    `Lark(stil.GRAMMAR, parser="lalr", transformer=StilTransformer()).parse(text)` (stil.py:225-270, lark 0.12,
    contextual lexer) accepts and of what the StilTransformer callbacks hand to StilFile.__init__.

      start: "STIL" FLOAT ( _ignore | ";" ) _block*
      _block: signal_groups | scan_structures | pattern | "Header" _ignore | "Signals" _ignore | "Timing" _ignore
            | "PatternBurst" quoted _ignore | "PatternExec" _ignore | "Procedures" _ignore | "MacroDefs" _ignore
            | "UserKeywords" /[a-zA-Z]*;/
      signal_groups: "SignalGroups" "{" signal_group* "}"
      signal_group: quoted "=" "'" quoted ( "+" quoted)* "'" _ignore? ";"?
      scan_structures: "ScanStructures" "{" scan_chain* "}"
      scan_chain: "ScanChain" quoted "{" ( scan_length | scan_in | scan_out | scan_inversion | scan_cells | scan_master_clock )* "}"
      scan_length: "ScanLength" /[0-9]+/ ";"     scan_inversion: "ScanInversion" /[0-9]+/ ";"
      scan_in: "ScanIn" quoted ";"   scan_out: "ScanOut" quoted ";"   scan_master_clock: "ScanMasterClock" quoted ";"
      scan_cells: "ScanCells" (quoted | /!/)* ";"
      pattern: "Pattern" quoted "{" ( label | w | c | macro | ann | call )* "}"
      label: quoted ":"   w: "W" quoted ";"   c: "C" _ignore   macro: "Macro" quoted ";"   ann: "Ann" _ignore
      call: "Call" quoted "{" call_parameter* "}"          call_parameter: quoted "=" /[^;]+/ ";"
      quoted: /"[^"]*""/ (written here with one more quote to keep this comment lexable)    FLOAT: /[-0-9.]+/
      _ignore: "{" _NOB? _ignore_inner* "}"     _ignore_inner: "{" _NOB? _ignore_inner* "}" _NOB?     _NOB: /[^{}]+/
      %ignore ( /\r?\n/ | "//" /[^\n]*/ | /[\t\f ]/ )+

    How lark lexes this grammar (determined by running the real parser; harness/stil_text.py keeps the probes):
    * the contextual lexer offers, in every parser state, only the terminals that state can shift or reduce on, plus the
      %ignore terminal; candidates are tried in the order (longer maximal width, longer pattern text) and the FIRST that
      matches at the position wins.  So a keyword is a literal prefix -- no separator is needed after it
      (`STIL1.0;`, `ScanIn"si";`, `ScanLength2;`, `UserKeywordsabc;` are accepted) -- and `ScanInversion` is tried before
      `ScanIn`, `Call` before `C`, `PatternBurst`/`PatternExec` before `Pattern` (`ScanIn version "x";` raises).
    * ignored text: "\n", "\r\n" (a lone "\r" raises outside raw text), "//" up to but excluding the next "\n" (or the end
      of the text), tab, form feed, space.  It is tried BEFORE the raw-text terminals _NOB and /[^;]+/, which are
      otherwise greedy:
      - inside `{ .. }` of an ignored block, after "{" and after an inner "}", ignored text is skipped first -- a comment
        there swallows braces (`Header { // } <newline> }` is ONE block) -- then _NOB takes everything up to the next brace:
        a "//" after other text is NOT a comment (`Header { x // } <newline> }` closes at the first "}").
      - a call-parameter value starts at the first non-ignored character after "=" and extends to the next ";" whatever
        is in between (newlines, "//", quotes, braces); it may not be empty.
    * `UserKeywords` takes one /[a-zA-Z]*;/ (no blank before ";").  `"a"='"x"' {..} ;` : at most one ignored block, at most
      one ";" after a signal group.  `ScanCells ;` is an empty cell list; `!` needs no blanks around it.
    * StilTransformer: the LAST SignalGroups / ScanStructures / Pattern block counts; dict() keeps the first position and the
      last value of a repeated key; a ScanChain without ScanCells raises TypeError; without ScanIn / ScanOut the chain list
      holds None (outside the modelled domain: [SUnrep]); StilFile.__init__ raises without a ScanStructures block
      (AttributeError) or a Pattern block (TypeError); float() of the FLOAT token may raise ValueError (`1.0.0`, `-`).
      Cell names: `.replace('.SI', '')`, then, per line, everything up to the last '.' is dropped.
    Domain of the model: texts whose code points are < 256 (one Coq [ascii] per code point).

    The second half of the file is the declarative side: [cfile] is a concrete syntax tree (every token with the ignored
    text in front of it, every ignored block and statement), [pr_file] writes it down, [file_ok] are the side conditions,
    [file_ast] the tree the callbacks see.  Proofs/StilTextProofs.v proves  parse_ast s = Some a  <->  s = pr_file f for a
    well-formed f with file_ast f = a  (the accepted language), that the ignored text and the ignored blocks / statements
    do not matter, and the round trip through the canonical printer [print_stil].

    [None] = stil.parse raises (UnexpectedCharacters / UnexpectedToken / TypeError / AttributeError / ValueError). *)
From Coq Require Import List Arith Bool String Ascii.
From KV Require Import Model.Stil.
Import ListNotations.
Local Open Scope list_scope.
Local Open Scope string_scope.

(* ---------------------------------------------------------------------------------------------- *)
(** * characters *)
Definition c_nl : ascii := "010"%char.
Definition c_cr : ascii := "013"%char.
Definition c_tab : ascii := "009"%char.
Definition c_ff : ascii := "012"%char.
Definition c_sp : ascii := " "%char.
Definition c_slash : ascii := "/"%char.
Definition c_dq : ascii := """"%char.
Definition c_semi : ascii := ";"%char.
Definition c_lb : ascii := "{"%char.
Definition c_rb : ascii := "}"%char.
Definition c_bang : ascii := "!"%char.
Definition c_dot : ascii := "."%char.

Definition is_ws (c : ascii) : bool :=
  Ascii.eqb c c_sp || Ascii.eqb c c_tab || Ascii.eqb c c_ff || Ascii.eqb c c_nl.
Definition in_range (lo hi : nat) (c : ascii) : bool := Nat.leb lo (nat_of_ascii c) && Nat.leb (nat_of_ascii c) hi.
Definition is_digit (c : ascii) : bool := in_range 48 57 c.
Definition is_letter (c : ascii) : bool := in_range 65 90 c || in_range 97 122 c.
Definition is_float_char (c : ascii) : bool := is_digit c || Ascii.eqb c "-" || Ascii.eqb c c_dot.
Definition not_semi (c : ascii) : bool := negb (Ascii.eqb c c_semi).

(* ---------------------------------------------------------------------------------------------- *)
(** * the %ignore terminal: skip blanks, newlines and comments *)
Fixpoint skip_go (com : bool) (s : string) {struct s} : string :=
  match s with
  | EmptyString => EmptyString
  | String c r =>
      if com then skip_go (negb (Ascii.eqb c c_nl)) r
      else if is_ws c then skip_go false r
      else if Ascii.eqb c c_cr then
        match r with
        | String c2 r2 => if Ascii.eqb c2 c_nl then skip_go false r2 else s
        | EmptyString => s
        end
      else if Ascii.eqb c c_slash then
        match r with
        | String c2 r2 => if Ascii.eqb c2 c_slash then skip_go true r2 else s
        | EmptyString => s
        end
      else s
  end.
Definition skip (s : string) : string := skip_go false s.

(** does ignored text start here? *)
Definition starts_trivia (s : string) : bool :=
  match s with
  | EmptyString => false
  | String c r =>
      is_ws c ||
      match r with
      | String c2 _ => (Ascii.eqb c c_cr && Ascii.eqb c2 c_nl) || (Ascii.eqb c c_slash && Ascii.eqb c2 c_slash)
      | EmptyString => false
      end
  end.

(* ---------------------------------------------------------------------------------------------- *)
(** * _ignore: the text after the opening brace up to and including the matching closing brace.
      IStart: after "{" or an inner "}" (ignored text is skipped here); INob: inside _NOB; ICom: inside a comment
      that started at IStart.  [d] = number of open inner blocks. *)
Inductive imode := IStart | INob | ICom.
Fixpoint ign_scan (d : nat) (m : imode) (s : string) {struct s} : option string :=
  match s with
  | EmptyString => None
  | String c r =>
      match m with
      | ICom => ign_scan d (if Ascii.eqb c c_nl then IStart else ICom) r
      | _ =>
          if Ascii.eqb c c_lb then ign_scan (S d) IStart r
          else if Ascii.eqb c c_rb then match d with O => Some r | S d' => ign_scan d' IStart r end
          else
            match m with
            | INob => ign_scan d INob r
            | _ =>
                if is_ws c then ign_scan d IStart r
                else if Ascii.eqb c c_cr then
                  match r with
                  | String c2 r2 => if Ascii.eqb c2 c_nl then ign_scan d IStart r2 else ign_scan d INob r
                  | EmptyString => None
                  end
                else if Ascii.eqb c c_slash then
                  match r with
                  | String c2 r2 => if Ascii.eqb c2 c_slash then ign_scan d ICom r2 else ign_scan d INob r
                  | EmptyString => None
                  end
                else ign_scan d INob r
            end
      end
  end.

(* ---------------------------------------------------------------------------------------------- *)
(** * token readers.  Every reader first skips ignored text; [res A] = value and remaining text *)
Definition res (A : Type) := option (A * string).

Fixpoint strip_prefix (p s : string) : option string :=
  match p with
  | EmptyString => Some s
  | String a p' =>
      match s with
      | String b s' => if Ascii.eqb a b then strip_prefix p' s' else None
      | EmptyString => None
      end
  end.
(** a keyword / punctuation literal *)
Definition expect (k s : string) : option string := strip_prefix k (skip s).
(** the first literal of an ordered candidate list that is a prefix *)
Fixpoint first_kw {T} (kws : list (string * T)) (s : string) : option (T * string) :=
  match kws with
  | [] => None
  | (k, t) :: r => match strip_prefix k s with Some s' => Some (t, s') | None => first_kw r s end
  end.
(** does the next token start with character c? *)
Definition next_is (c : ascii) (s : string) : bool :=
  match skip s with String c' _ => Ascii.eqb c' c | EmptyString => false end.

Fixpoint span (p : ascii -> bool) (s : string) : string * string :=
  match s with
  | EmptyString => (EmptyString, EmptyString)
  | String c r => if p c then (let (a, b) := span p r in (String c a, b)) else (EmptyString, s)
  end.
(** a greedy, non-empty run: /[0-9]+/, /[-0-9.]+/, /[^;]+/ *)
Definition p_run (p : ascii -> bool) (s : string) : res string :=
  match span p (skip s) with
  | (EmptyString, _) => None
  | (a, r) => Some (a, r)
  end.

Fixpoint until_quote (s : string) : res string :=
  match s with
  | EmptyString => None
  | String c r =>
      if Ascii.eqb c c_dq then Some (EmptyString, r)
      else match until_quote r with Some (a, r') => Some (String c a, r') | None => None end
  end.
(** quoted: a double quote, any characters but double quotes, a double quote; the transformer strips the two quotes *)
Definition p_quoted (s : string) : res string :=
  match skip s with
  | String c r => if Ascii.eqb c c_dq then until_quote r else None
  | EmptyString => None
  end.
(** _ignore *)
Definition p_ignore (s : string) : option string :=
  match skip s with
  | String c r => if Ascii.eqb c c_lb then ign_scan 0 IStart r else None
  | EmptyString => None
  end.
(** /[a-zA-Z]*;/ *)
Definition p_userkw (s : string) : option string :=
  match snd (span is_letter (skip s)) with
  | String c r => if Ascii.eqb c c_semi then Some r else None
  | EmptyString => None
  end.

(** x* : [start] looks at the next token, [item] reads one x.  Every x consumes at least one character, so the length
    of the text is enough fuel. *)
Fixpoint many_f {A} (fuel : nat) (start : string -> bool) (item : string -> res A) (s : string) : res (list A) :=
  match fuel with
  | O => None
  | S f =>
      if start s then
        match item s with
        | Some (a, r) => match many_f f start item r with Some (l, r') => Some (a :: l, r') | None => None end
        | None => None
        end
      else Some ([], s)
  end.
Definition many {A} (start : string -> bool) (item : string -> res A) (s : string) : res (list A) :=
  many_f (S (String.length s)) start item s.

Definition bind {A B} (o : option A) (f : A -> option B) : option B :=
  match o with Some x => f x | None => None end.
Notation "'do' x <- o ; b" := (bind o (fun x => b)) (at level 200, x pattern, o at level 100, b at level 200).

(* ---------------------------------------------------------------------------------------------- *)
(** * the tree the transformer callbacks see *)
Inductive citem := CIn (q : string) | COut (q : string) | CCells (l : list string) | COther.
Inductive pitem := PCall (name : string) (params : list (string * string)) | POther.
Inductive block :=
| BGroups (g : list (string * list string))
| BChains (c : list (string * list citem))
| BPattern (name : string) (items : list pitem)
| BOther.
Definition ast := (string * list block)%type.     (* FLOAT token, blocks *)

(* ---------------------------------------------------------------------------------------------- *)
(** * the parser (deterministic with one token of look-ahead, like the LALR automaton) *)
(* ( "+" quoted )* *)
Definition p_plus (s : string) : res string := do s1 <- expect "+" s; p_quoted s1.
(* signal_group *)
Definition p_group (s : string) : res (string * list string) :=
  do (name, s1) <- p_quoted s;
  do s2 <- expect "=" s1;
  do s3 <- expect "'" s2;
  do (m0, s4) <- p_quoted s3;
  do (ms, s5) <- many (next_is "+") p_plus s4;
  do s6 <- expect "'" s5;
  do s7 <- (if next_is c_lb s6 then p_ignore s6 else Some s6);
  Some ((name, m0 :: ms), if next_is c_semi s7 then match skip s7 with String _ r => r | EmptyString => s7 end else s7).

(* (quoted | /!/)* *)
Definition cell_start (s : string) : bool := next_is c_dq s || next_is c_bang s.
Definition p_cell (s : string) : res string :=
  if next_is c_bang s then match skip s with String _ r => Some ("!", r) | EmptyString => None end else p_quoted s.

Inductive ckw := KwLength | KwInversion | KwIn | KwOut | KwClock | KwCells.
Definition chain_kws : list (string * ckw) :=
  [("ScanMasterClock", KwClock); ("ScanInversion", KwInversion); ("ScanLength", KwLength); ("ScanCells", KwCells);
   ("ScanOut", KwOut); ("ScanIn", KwIn)].
Definition citem_start (s : string) : bool :=
  match first_kw chain_kws (skip s) with Some _ => true | None => false end.
Definition p_citem (s : string) : res citem :=
  do (kw, s1) <- first_kw chain_kws (skip s);
  match kw with
  | KwLength | KwInversion => do (_, s2) <- p_run is_digit s1; do s3 <- expect ";" s2; Some (COther, s3)
  | KwClock => do (_, s2) <- p_quoted s1; do s3 <- expect ";" s2; Some (COther, s3)
  | KwIn => do (q, s2) <- p_quoted s1; do s3 <- expect ";" s2; Some (CIn q, s3)
  | KwOut => do (q, s2) <- p_quoted s1; do s3 <- expect ";" s2; Some (COut q, s3)
  | KwCells => do (l, s2) <- many cell_start p_cell s1; do s3 <- expect ";" s2; Some (CCells l, s3)
  end.
(* scan_chain *)
Definition chain_start (s : string) : bool :=
  match expect "ScanChain" s with Some _ => true | None => false end.
Definition p_chain (s : string) : res (string * list citem) :=
  do s1 <- expect "ScanChain" s;
  do (name, s2) <- p_quoted s1;
  do s3 <- expect "{" s2;
  do (items, s4) <- many citem_start p_citem s3;
  do s5 <- expect "}" s4;
  Some ((name, items), s5).

(* call_parameter *)
Definition p_param (s : string) : res (string * string) :=
  do (name, s1) <- p_quoted s;
  do s2 <- expect "=" s1;
  do (v, s3) <- p_run not_semi s2;
  do s4 <- expect ";" s3;
  Some ((name, v), s4).

Inductive pkw := KwMacro | KwCall | KwAnn | KwW | KwC.
Definition pattern_kws : list (string * pkw) :=
  [("Macro", KwMacro); ("Call", KwCall); ("Ann", KwAnn); ("W", KwW); ("C", KwC)].
Definition pitem_start (s : string) : bool :=
  next_is c_dq s || match first_kw pattern_kws (skip s) with Some _ => true | None => false end.
Definition p_pitem (s : string) : res pitem :=
  if next_is c_dq s then
    do (_, s1) <- p_quoted s; do s2 <- expect ":" s1; Some (POther, s2)
  else
    do (kw, s1) <- first_kw pattern_kws (skip s);
    match kw with
    | KwMacro | KwW => do (_, s2) <- p_quoted s1; do s3 <- expect ";" s2; Some (POther, s3)
    | KwAnn | KwC => do s2 <- p_ignore s1; Some (POther, s2)
    | KwCall =>
        do (name, s2) <- p_quoted s1;
        do s3 <- expect "{" s2;
        do (ps, s4) <- many (next_is c_dq) p_param s3;
        do s5 <- expect "}" s4;
        Some (PCall name ps, s5)
    end.

Inductive bkw := KwScanStructures | KwSignalGroups | KwPatternBurst | KwUserKeywords | KwPattern | KwIgnored.
Definition block_kws : list (string * bkw) :=
  [("ScanStructures", KwScanStructures); ("PatternBurst", KwPatternBurst); ("SignalGroups", KwSignalGroups);
   ("UserKeywords", KwUserKeywords); ("PatternExec", KwIgnored); ("Procedures", KwIgnored); ("MacroDefs", KwIgnored);
   ("Pattern", KwPattern); ("Signals", KwIgnored); ("Header", KwIgnored); ("Timing", KwIgnored)].
Definition block_start (s : string) : bool :=
  match first_kw block_kws (skip s) with Some _ => true | None => false end.
Definition p_block (s : string) : res block :=
  do (kw, s1) <- first_kw block_kws (skip s);
  match kw with
  | KwIgnored => do s2 <- p_ignore s1; Some (BOther, s2)
  | KwPatternBurst => do (_, s2) <- p_quoted s1; do s3 <- p_ignore s2; Some (BOther, s3)
  | KwUserKeywords => do s2 <- p_userkw s1; Some (BOther, s2)
  | KwSignalGroups =>
      do s2 <- expect "{" s1;
      do (gs, s3) <- many (next_is c_dq) p_group s2;
      do s4 <- expect "}" s3;
      Some (BGroups gs, s4)
  | KwScanStructures =>
      do s2 <- expect "{" s1;
      do (cs, s3) <- many chain_start p_chain s2;
      do s4 <- expect "}" s3;
      Some (BChains cs, s4)
  | KwPattern =>
      do (name, s2) <- p_quoted s1;
      do s3 <- expect "{" s2;
      do (items, s4) <- many pitem_start p_pitem s3;
      do s5 <- expect "}" s4;
      Some (BPattern name items, s5)
  end.

(** start *)
Definition parse_ast (s : string) : option ast :=
  do s1 <- expect "STIL" s;
  do (ver, s2) <- p_run is_float_char s1;
  do s3 <- (if next_is c_lb s2 then p_ignore s2 else expect ";" s2);
  do (blocks, s4) <- many block_start p_block s3;
  match skip s4 with
  | EmptyString => Some (ver, blocks)
  | _ => None
  end.

(* ---------------------------------------------------------------------------------------------- *)
(** * StilTransformer + StilFile(...) *)
(** float(FLOAT token): -? ( digits+ ( . digits* )? | . digits+ ) among the strings over [-0-9.] *)
Definition float_ok (s : string) : bool :=
  let s := match s with String c r => if Ascii.eqb c "-" then r else s | EmptyString => s end in
  let (a, r) := span is_digit s in
  match r with
  | EmptyString => negb (String.eqb a "")
  | String c r' =>
      if Ascii.eqb c c_dot then
        (let (b, r'') := span is_digit r' in String.eqb r'' "" && negb (String.eqb a "" && String.eqb b ""))
      else false
  end.

(** n.replace('.SI', '') *)
Fixpoint strip_si (s : string) : string :=
  match s with
  | EmptyString => EmptyString
  | String c r =>
      if Ascii.eqb c c_dot then
        match r with
        | String c2 r2 =>
            if Ascii.eqb c2 "S" then
              match r2 with
              | String c3 r3 => if Ascii.eqb c3 "I" then strip_si r3 else String c (strip_si r)
              | EmptyString => String c (strip_si r)
              end
            else String c (strip_si r)
        | EmptyString => String c (strip_si r)
        end
      else String c (strip_si r)
  end.
(** re.sub(r'.*\.', '', s) if '.' in s else s : in every line (only "\n" ends a line) drop everything up to the last '.' *)
Fixpoint dot_in_line (s : string) : bool :=
  match s with
  | EmptyString => false
  | String c r => if Ascii.eqb c c_nl then false else Ascii.eqb c c_dot || dot_in_line r
  end.
Fixpoint strip_hier (s : string) : string :=
  match s with
  | EmptyString => EmptyString
  | String c r =>
      if Ascii.eqb c c_nl then String c (strip_hier r)
      else if dot_in_line r || Ascii.eqb c c_dot then strip_hier r
      else String c (strip_hier r)
  end.
Definition clean_cell (s : string) : string := strip_hier (strip_si s).

(** scan_chain callback: the last ScanIn / ScanOut / ScanCells statement counts *)
Definition last_of {A B} (f : A -> option B) (l : list A) : option B :=
  fold_left (fun acc x => match f x with Some y => Some y | None => acc end) l None.
Definition chain_si_of (items : list citem) : option string := last_of (fun i => match i with CIn q => Some q | _ => None end) items.
Definition chain_so_of (items : list citem) : option string := last_of (fun i => match i with COut q => Some q | _ => None end) items.
Definition chain_cells_of (items : list citem) : option (list string) :=
  last_of (fun i => match i with CCells l => Some l | _ => None end) items.
(** None = TypeError ([scan_in] + None) *)
Definition chain_list (items : list citem) : option (list (option string)) :=
  match chain_cells_of items with
  | Some cells => Some (chain_si_of items :: map (fun c => Some (clean_cell c)) cells ++ [chain_so_of items])
  | None => None
  end.
Definition chains_raise (b : block) : bool :=
  match b with
  | BChains cs => existsb (fun c => match chain_list (snd c) with None => true | Some _ => false end) cs
  | _ => false
  end.

Fixpoint all_some {A} (l : list (option A)) : option (list A) :=
  match l with
  | [] => Some []
  | Some x :: r => match all_some r with Some r' => Some (x :: r') | None => None end
  | None :: _ => None
  end.

Definition call_of (i : pitem) : list call :=
  match i with PCall name ps => [{| call_name := name; call_params := dict_of ps |}] | POther => [] end.

Record stil_file := { sf_version : string;                        (* the FLOAT token; float() accepts it *)
                      sf_groups : option (sdict (list string));   (* None: no SignalGroups block *)
                      sf_chains : sdict (list string);
                      sf_calls : list call }.
(** the first argument of maps_gen (a missing block behaves like an empty dictionary: KeyError / TypeError) *)
Definition groups_of (f : stil_file) : sdict (list string) := match sf_groups f with Some g => g | None => [] end.

Inductive outcome := SRaise | SUnrep | SOk (f : stil_file).

Definition sel_groups (b : block) := match b with BGroups g => Some g | _ => None end.
Definition sel_chains (b : block) := match b with BChains c => Some c | _ => None end.
Definition sel_pattern (b : block) := match b with BPattern _ i => Some i | _ => None end.
(** the dictionary entry of one scan_chain callback result *)
Definition chain_entry (c : string * list citem) : string * list (option string) :=
  (fst c, match chain_list (snd c) with Some l => l | None => [] end).
Definition entry_some (kv : string * list (option string)) : option (string * list string) :=
  match all_some (snd kv) with Some l => Some (fst kv, l) | None => None end.

Definition transform (a : ast) : outcome :=
  let (ver, blocks) := a in
  if existsb chains_raise blocks then SRaise else
  if negb (float_ok ver) then SRaise else
  match last_of sel_chains blocks, last_of sel_pattern blocks with
  | Some cs, Some items =>
      match all_some (map entry_some (dict_of (map chain_entry cs))) with
      | Some chains =>
          SOk {| sf_version := ver;
                 sf_groups := option_map (@dict_of (list string)) (last_of sel_groups blocks);
                 sf_chains := chains;
                 sf_calls := flat_map call_of items |}
      | None => SUnrep
      end
  | _, _ => SRaise
  end.

Definition stil_outcome (text : string) : outcome :=
  match parse_ast text with Some a => transform a | None => SRaise end.
(** stil.parse(text) up to the arguments of StilFile(...) *)
Definition parse_stil (text : string) : option stil_file :=
  match stil_outcome text with SOk f => Some f | _ => None end.
(** the modelled domain: lark accepts the text, nothing raises, and no chain list holds None *)
Definition stil_domain (text : string) : bool :=
  match stil_outcome text with SUnrep => false | _ => true end.

(* ---------------------------------------------------------------------------------------------- *)
(** * concrete syntax: every way of writing a STIL file that the parser accepts, with all ignored text and all
      ignored blocks.  Printers take the text that follows as an argument. *)
Inductive ign := IgSpace | IgTab | IgFf | IgNl | IgCrNl | IgComment (body : string).
Definition trivia := list ign.
Fixpoint no_char (x : ascii) (s : string) : bool :=
  match s with EmptyString => true | String c r => negb (Ascii.eqb c x) && no_char x r end.
Definition ign_ok (i : ign) : bool := match i with IgComment b => no_char c_nl b | _ => true end.
Definition tr_ok (t : trivia) : bool := forallb ign_ok t.
Definition ign_k (i : ign) (k : string) : string :=
  match i with
  | IgSpace => String c_sp k
  | IgTab => String c_tab k
  | IgFf => String c_ff k
  | IgNl => String c_nl k
  | IgCrNl => String c_cr (String c_nl k)
  | IgComment b => String c_slash (String c_slash (b ++ String c_nl k))
  end.
Fixpoint sep_k (t : trivia) (k : string) : string :=
  match t with [] => k | i :: r => ign_k i (sep_k r k) end.
Fixpoint pr_list {A} (pr : A -> string -> string) (l : list A) (k : string) : string :=
  match l with [] => k | x :: r => pr x (pr_list pr r k) end.

(** ignored block: "{" segment ( brace segment )* "}" with balanced braces; a segment is ignored text followed by raw
    text without braces that does not itself start with ignored text *)
Record iseg := { is_tr : trivia; is_nob : string }.
Inductive ibrace := IOpen | IClose.
Record iblock := { ib_first : iseg; ib_rest : list (ibrace * iseg) }.
Definition pr_seg (g : iseg) (k : string) : string := sep_k (is_tr g) (is_nob g ++ k).
Definition brace_char (b : ibrace) : ascii := match b with IOpen => c_lb | IClose => c_rb end.
Definition pr_bseg (p : ibrace * iseg) (k : string) : string := String (brace_char (fst p)) (pr_seg (snd p) k).
Definition pr_iblock (b : iblock) (k : string) : string :=
  String c_lb (pr_seg (ib_first b) (pr_list pr_bseg (ib_rest b) (String c_rb k))).
Fixpoint balanced (d : nat) (l : list (ibrace * iseg)) : bool :=
  match l with
  | [] => Nat.eqb d 0
  | (IOpen, _) :: r => balanced (S d) r
  | (IClose, _) :: r => match d with O => false | S d' => balanced d' r end
  end.
Definition nob_ok (n : string) : bool := no_char c_lb n && no_char c_rb n && negb (starts_trivia n).
Definition seg_ok (g : iseg) : bool := tr_ok (is_tr g) && nob_ok (is_nob g).
Definition iblock_ok (b : iblock) : bool :=
  seg_ok (ib_first b) && forallb (fun p => seg_ok (snd p)) (ib_rest b) && balanced 0 (ib_rest b).

(** a quoted string with the ignored text in front of it *)
Record qt := { q_tr : trivia; q_s : string }.
Definition pr_qt (q : qt) (k : string) : string := sep_k (q_tr q) (String c_dq (q_s q ++ String c_dq k)).
Definition qt_ok (q : qt) : bool := tr_ok (q_tr q) && no_char c_dq (q_s q).

(* signal_group *)
Record cgroup := { g_name : qt; g_eq : trivia; g_ap : trivia; g_first : qt; g_more : list (trivia * qt); g_cl : trivia;
                   g_ign : option (trivia * iblock); g_semi : option trivia }.
Definition pr_more (m : trivia * qt) (k : string) : string := sep_k (fst m) ("+" ++ pr_qt (snd m) k).
Definition pr_oign (o : option (trivia * iblock)) (k : string) : string :=
  match o with Some (t, b) => sep_k t (pr_iblock b k) | None => k end.
Definition pr_osemi (o : option trivia) (k : string) : string :=
  match o with Some t => sep_k t (";" ++ k) | None => k end.
Definition pr_group (g : cgroup) (k : string) : string :=
  pr_qt (g_name g) (sep_k (g_eq g) ("=" ++ sep_k (g_ap g) ("'" ++ pr_qt (g_first g) (pr_list pr_more (g_more g)
    (sep_k (g_cl g) ("'" ++ pr_oign (g_ign g) (pr_osemi (g_semi g) k))))))).
Definition oign_ok (o : option (trivia * iblock)) : bool :=
  match o with Some (t, b) => tr_ok t && iblock_ok b | None => true end.
Definition otr_ok (o : option trivia) : bool := match o with Some t => tr_ok t | None => true end.
Definition group_ok (g : cgroup) : bool :=
  qt_ok (g_name g) && tr_ok (g_eq g) && tr_ok (g_ap g) && qt_ok (g_first g) &&
  forallb (fun m => tr_ok (fst m) && qt_ok (snd m)) (g_more g) && tr_ok (g_cl g) && oign_ok (g_ign g) && otr_ok (g_semi g).
Definition group_ast (g : cgroup) : string * list string :=
  (q_s (g_name g), q_s (g_first g) :: map (fun m => q_s (snd m)) (g_more g)).

(* scan_chain *)
Inductive ccell := CQ (q : qt) | CBang (t : trivia).
Definition pr_cell (c : ccell) (k : string) : string :=
  match c with CQ q => pr_qt q k | CBang t => sep_k t ("!" ++ k) end.
Definition cell_ok (c : ccell) : bool := match c with CQ q => qt_ok q | CBang t => tr_ok t end.
Definition cell_ast (c : ccell) : string := match c with CQ q => q_s q | CBang _ => "!" end.
Fixpoint all_chars (p : ascii -> bool) (s : string) : bool :=
  match s with EmptyString => true | String c r => p c && all_chars p r end.
Definition run_ok (p : ascii -> bool) (s : string) : bool :=
  match s with EmptyString => false | _ => all_chars p s end.
Inductive ccitem :=
| KLength (t tn : trivia) (n : string) (ts : trivia)
| KInversion (t tn : trivia) (n : string) (ts : trivia)
| KIn (t : trivia) (q : qt) (ts : trivia)
| KOut (t : trivia) (q : qt) (ts : trivia)
| KClock (t : trivia) (q : qt) (ts : trivia)
| KCells (t : trivia) (cells : list ccell) (ts : trivia).
Definition pr_citem (i : ccitem) (k : string) : string :=
  match i with
  | KLength t tn n ts => sep_k t ("ScanLength" ++ sep_k tn (n ++ sep_k ts (";" ++ k)))
  | KInversion t tn n ts => sep_k t ("ScanInversion" ++ sep_k tn (n ++ sep_k ts (";" ++ k)))
  | KIn t q ts => sep_k t ("ScanIn" ++ pr_qt q (sep_k ts (";" ++ k)))
  | KOut t q ts => sep_k t ("ScanOut" ++ pr_qt q (sep_k ts (";" ++ k)))
  | KClock t q ts => sep_k t ("ScanMasterClock" ++ pr_qt q (sep_k ts (";" ++ k)))
  | KCells t cells ts => sep_k t ("ScanCells" ++ pr_list pr_cell cells (sep_k ts (";" ++ k)))
  end.
Definition citem_ok (i : ccitem) : bool :=
  match i with
  | KLength t tn n ts | KInversion t tn n ts => tr_ok t && tr_ok tn && run_ok is_digit n && tr_ok ts
  | KIn t q ts | KOut t q ts | KClock t q ts => tr_ok t && qt_ok q && tr_ok ts
  | KCells t cells ts => tr_ok t && forallb cell_ok cells && tr_ok ts
  end.
Definition citem_ast (i : ccitem) : citem :=
  match i with
  | KIn _ q _ => CIn (q_s q)
  | KOut _ q _ => COut (q_s q)
  | KCells _ cells _ => CCells (map cell_ast cells)
  | _ => COther
  end.
Record cchain := { c_tr : trivia; c_name : qt; c_op : trivia; c_items : list ccitem; c_cl : trivia }.
Definition pr_chain (c : cchain) (k : string) : string :=
  sep_k (c_tr c) ("ScanChain" ++ pr_qt (c_name c) (sep_k (c_op c) ("{" ++ pr_list pr_citem (c_items c) (sep_k (c_cl c) ("}" ++ k))))).
Definition chain_ok (c : cchain) : bool :=
  tr_ok (c_tr c) && qt_ok (c_name c) && tr_ok (c_op c) && forallb citem_ok (c_items c) && tr_ok (c_cl c).
Definition chain_ast (c : cchain) : string * list citem := (q_s (c_name c), map citem_ast (c_items c)).

(* pattern *)
Record cparam := { pa_name : qt; pa_eq : trivia; pa_lead : trivia; pa_val : string }.
Definition pr_param (p : cparam) (k : string) : string :=
  pr_qt (pa_name p) (sep_k (pa_eq p) ("=" ++ sep_k (pa_lead p) (pa_val p ++ String c_semi k))).
(** a value: not empty, no ";", does not start with ignored text *)
Definition val_ok (v : string) : bool := run_ok not_semi v && negb (starts_trivia v).
Definition param_ok (p : cparam) : bool :=
  qt_ok (pa_name p) && tr_ok (pa_eq p) && tr_ok (pa_lead p) && val_ok (pa_val p).
Definition param_ast (p : cparam) : string * string := (q_s (pa_name p), pa_val p).
Inductive cpitem :=
| ILabel (q : qt) (tc : trivia)
| IW (t : trivia) (q : qt) (ts : trivia)
| IMacro (t : trivia) (q : qt) (ts : trivia)
| IC (t ti : trivia) (b : iblock)
| IAnn (t ti : trivia) (b : iblock)
| ICall (t : trivia) (q : qt) (to : trivia) (ps : list cparam) (tc : trivia).
Definition pr_pitem (i : cpitem) (k : string) : string :=
  match i with
  | ILabel q tc => pr_qt q (sep_k tc (":" ++ k))
  | IW t q ts => sep_k t ("W" ++ pr_qt q (sep_k ts (";" ++ k)))
  | IMacro t q ts => sep_k t ("Macro" ++ pr_qt q (sep_k ts (";" ++ k)))
  | IC t ti b => sep_k t ("C" ++ sep_k ti (pr_iblock b k))
  | IAnn t ti b => sep_k t ("Ann" ++ sep_k ti (pr_iblock b k))
  | ICall t q to ps tc => sep_k t ("Call" ++ pr_qt q (sep_k to ("{" ++ pr_list pr_param ps (sep_k tc ("}" ++ k)))))
  end.
Definition pitem_ok (i : cpitem) : bool :=
  match i with
  | ILabel q tc => qt_ok q && tr_ok tc
  | IW t q ts | IMacro t q ts => tr_ok t && qt_ok q && tr_ok ts
  | IC t ti b | IAnn t ti b => tr_ok t && tr_ok ti && iblock_ok b
  | ICall t q to ps tc => tr_ok t && qt_ok q && tr_ok to && forallb param_ok ps && tr_ok tc
  end.
Definition pitem_ast (i : cpitem) : pitem :=
  match i with ICall _ q _ ps _ => PCall (q_s q) (map param_ast ps) | _ => POther end.

(* blocks *)
Inductive ikw := KHeader | KSignals | KTiming | KPatternExec | KProcedures | KMacroDefs.
Definition ikw_text (kw : ikw) : string :=
  match kw with
  | KHeader => "Header" | KSignals => "Signals" | KTiming => "Timing"
  | KPatternExec => "PatternExec" | KProcedures => "Procedures" | KMacroDefs => "MacroDefs"
  end.
Inductive cblock :=
| BkGroups (t to : trivia) (gs : list cgroup) (tc : trivia)
| BkChains (t to : trivia) (cs : list cchain) (tc : trivia)
| BkPattern (t : trivia) (q : qt) (to : trivia) (items : list cpitem) (tc : trivia)
| BkIgn (t : trivia) (kw : ikw) (ti : trivia) (b : iblock)
| BkBurst (t : trivia) (q : qt) (ti : trivia) (b : iblock)
| BkUser (t tw : trivia) (w : string).
Definition pr_block (b : cblock) (k : string) : string :=
  match b with
  | BkGroups t to gs tc => sep_k t ("SignalGroups" ++ sep_k to ("{" ++ pr_list pr_group gs (sep_k tc ("}" ++ k))))
  | BkChains t to cs tc => sep_k t ("ScanStructures" ++ sep_k to ("{" ++ pr_list pr_chain cs (sep_k tc ("}" ++ k))))
  | BkPattern t q to items tc =>
      sep_k t ("Pattern" ++ pr_qt q (sep_k to ("{" ++ pr_list pr_pitem items (sep_k tc ("}" ++ k)))))
  | BkIgn t kw ti b => sep_k t (ikw_text kw ++ sep_k ti (pr_iblock b k))
  | BkBurst t q ti b => sep_k t ("PatternBurst" ++ pr_qt q (sep_k ti (pr_iblock b k)))
  | BkUser t tw w => sep_k t ("UserKeywords" ++ sep_k tw (w ++ String c_semi k))
  end.
Definition block_ok (b : cblock) : bool :=
  match b with
  | BkGroups t to gs tc => tr_ok t && tr_ok to && forallb group_ok gs && tr_ok tc
  | BkChains t to cs tc => tr_ok t && tr_ok to && forallb chain_ok cs && tr_ok tc
  | BkPattern t q to items tc => tr_ok t && qt_ok q && tr_ok to && forallb pitem_ok items && tr_ok tc
  | BkIgn t kw ti b => tr_ok t && tr_ok ti && iblock_ok b
  | BkBurst t q ti b => tr_ok t && qt_ok q && tr_ok ti && iblock_ok b
  | BkUser t tw w => tr_ok t && tr_ok tw && all_chars is_letter w
  end.
Definition block_ast (b : cblock) : block :=
  match b with
  | BkGroups _ _ gs _ => BGroups (map group_ast gs)
  | BkChains _ _ cs _ => BChains (map chain_ast cs)
  | BkPattern _ q _ items _ => BPattern (q_s q) (map pitem_ast items)
  | _ => BOther
  end.

(* file: ignored text may end in a comment without newline *)
Inductive chead := HIgn (ti : trivia) (b : iblock) | HSemi (ts : trivia).
Record cfile := { f_tr : trivia; f_tv : trivia; f_ver : string; f_head : chead; f_blocks : list cblock;
                  f_end : trivia; f_tail : option string }.
Definition pr_head (h : chead) (k : string) : string :=
  match h with HIgn ti b => sep_k ti (pr_iblock b k) | HSemi ts => sep_k ts (";" ++ k) end.
Definition tail_text (t : option string) : string :=
  match t with Some b => String c_slash (String c_slash b) | None => EmptyString end.
Definition pr_file (f : cfile) : string :=
  sep_k (f_tr f) ("STIL" ++ sep_k (f_tv f) (f_ver f ++ pr_head (f_head f)
    (pr_list pr_block (f_blocks f) (sep_k (f_end f) (tail_text (f_tail f)))))).
Definition head_ok (h : chead) : bool :=
  match h with HIgn ti b => tr_ok ti && iblock_ok b | HSemi ts => tr_ok ts end.
Definition file_ok (f : cfile) : bool :=
  tr_ok (f_tr f) && tr_ok (f_tv f) && run_ok is_float_char (f_ver f) && head_ok (f_head f) &&
  forallb block_ok (f_blocks f) && tr_ok (f_end f) &&
  match f_tail f with Some b => no_char c_nl b | None => true end.
Definition file_ast (f : cfile) : ast := (f_ver f, map block_ast (f_blocks f)).

(* ---------------------------------------------------------------------------------------------- *)
(** * the core of a tree: only what the transformer keeps (no ScanLength / ScanInversion / ScanMasterClock, no labels,
      W, C, Macro, Ann statements, no ignored blocks) *)
Definition citem_core (i : citem) : list citem := match i with COther => [] | _ => [i] end.
Definition pitem_core (i : pitem) : list pitem := match i with POther => [] | _ => [i] end.
Definition block_core (b : block) : list block :=
  match b with
  | BGroups g => [BGroups g]
  | BChains c => [BChains (map (fun ch => (fst ch, flat_map citem_core (snd ch))) c)]
  | BPattern n items => [BPattern n (flat_map pitem_core items)]
  | BOther => []
  end.
Definition ast_core (a : ast) : ast := (fst a, flat_map block_core (snd a)).

(* ---------------------------------------------------------------------------------------------- *)
(** * the same tokens written without any ignored text between them (ignored blocks keep their raw content) *)
Definition qt_compact (q : qt) : qt := {| q_tr := []; q_s := q_s q |}.
Definition group_compact (g : cgroup) : cgroup :=
  {| g_name := qt_compact (g_name g); g_eq := []; g_ap := []; g_first := qt_compact (g_first g);
     g_more := map (fun m => ([], qt_compact (snd m))) (g_more g); g_cl := [];
     g_ign := match g_ign g with Some (_, b) => Some ([], b) | None => None end;
     g_semi := match g_semi g with Some _ => Some [] | None => None end |}.
Definition cell_compact (c : ccell) : ccell := match c with CQ q => CQ (qt_compact q) | CBang _ => CBang [] end.
Definition citem_compact (i : ccitem) : ccitem :=
  match i with
  | KLength _ _ n _ => KLength [] [] n []
  | KInversion _ _ n _ => KInversion [] [] n []
  | KIn _ q _ => KIn [] (qt_compact q) []
  | KOut _ q _ => KOut [] (qt_compact q) []
  | KClock _ q _ => KClock [] (qt_compact q) []
  | KCells _ cells _ => KCells [] (map cell_compact cells) []
  end.
Definition chain_compact (c : cchain) : cchain :=
  {| c_tr := []; c_name := qt_compact (c_name c); c_op := []; c_items := map citem_compact (c_items c); c_cl := [] |}.
Definition param_compact (p : cparam) : cparam :=
  {| pa_name := qt_compact (pa_name p); pa_eq := []; pa_lead := []; pa_val := pa_val p |}.
Definition pitem_compact (i : cpitem) : cpitem :=
  match i with
  | ILabel q _ => ILabel (qt_compact q) []
  | IW _ q _ => IW [] (qt_compact q) []
  | IMacro _ q _ => IMacro [] (qt_compact q) []
  | IC _ _ b => IC [] [] b
  | IAnn _ _ b => IAnn [] [] b
  | ICall _ q _ ps _ => ICall [] (qt_compact q) [] (map param_compact ps) []
  end.
Definition block_compact (b : cblock) : cblock :=
  match b with
  | BkGroups _ _ gs _ => BkGroups [] [] (map group_compact gs) []
  | BkChains _ _ cs _ => BkChains [] [] (map chain_compact cs) []
  | BkPattern _ q _ items _ => BkPattern [] (qt_compact q) [] (map pitem_compact items) []
  | BkIgn _ kw _ b => BkIgn [] kw [] b
  | BkBurst _ q _ b => BkBurst [] (qt_compact q) [] b
  | BkUser _ _ w => BkUser [] [] w
  end.
Definition file_compact (f : cfile) : cfile :=
  {| f_tr := []; f_tv := []; f_ver := f_ver f;
     f_head := match f_head f with HIgn _ b => HIgn [] b | HSemi _ => HSemi [] end;
     f_blocks := map block_compact (f_blocks f); f_end := []; f_tail := None |}.

(* ---------------------------------------------------------------------------------------------- *)
(** * a canonical printer for a StilFile(...) argument tuple *)
Definition q_of (t : trivia) (s : string) : qt := {| q_tr := t; q_s := s |}.
Definition empty_iblock : iblock := {| ib_first := {| is_tr := []; is_nob := "" |}; ib_rest := [] |}.
Definition canon_group (g : string * list string) : cgroup :=
  {| g_name := q_of [IgNl; IgSpace] (fst g); g_eq := [IgSpace]; g_ap := [IgSpace];
     g_first := q_of [] (hd "" (snd g)); g_more := map (fun m => ([IgSpace], q_of [IgSpace] m)) (tl (snd g));
     g_cl := []; g_ign := None; g_semi := Some [] |}.
Definition canon_cell (c : string) : ccell := if String.eqb c "!" then CBang [IgSpace] else CQ (q_of [IgSpace] c).
Definition canon_chain (c : string * list string) : cchain :=
  {| c_tr := [IgNl; IgSpace]; c_name := q_of [IgSpace] (fst c); c_op := [IgSpace];
     c_items := [KIn [IgSpace] (q_of [IgSpace] (chain_si (snd c))) [];
                 KOut [IgSpace] (q_of [IgSpace] (chain_so (snd c))) [];
                 KCells [IgSpace] (map canon_cell (chain_mid (snd c))) []];
     c_cl := [IgSpace] |}.
Definition canon_param (p : string * string) : cparam :=
  {| pa_name := q_of [IgSpace] (fst p); pa_eq := []; pa_lead := []; pa_val := snd p |}.
Definition canon_call (c : call) : cpitem :=
  ICall [IgNl; IgSpace] (q_of [IgSpace] (call_name c)) [IgSpace] (map canon_param (call_params c)) [IgSpace].
Definition canon_file (f : stil_file) : cfile :=
  {| f_tr := []; f_tv := [IgSpace]; f_ver := sf_version f; f_head := HSemi [];
     f_blocks := match sf_groups f with Some g => [BkGroups [IgNl] [IgSpace] (map canon_group g) [IgNl]] | None => [] end ++
                 [BkChains [IgNl] [IgSpace] (map canon_chain (sf_chains f)) [IgNl];
                  BkPattern [IgNl] (q_of [IgSpace] "_pattern_") [IgSpace] (map canon_call (sf_calls f)) [IgNl]];
     f_end := [IgNl]; f_tail := None |}.
Definition print_stil (f : stil_file) : string := pr_file (canon_file f).

(** what can be printed and read back: names without double quotes, cell names without '.', group member lists not empty, chain
    lists with both ports, parameter values that are call-parameter tokens, no repeated dictionary keys *)
Definition name_ok (s : string) : bool := no_char c_dq s.
Fixpoint nodupb (l : list string) : bool :=
  match l with [] => true | x :: r => negb (existsb (String.eqb x) r) && nodupb r end.
Definition wf_group (g : string * list string) : bool :=
  name_ok (fst g) && forallb name_ok (snd g) && negb (match snd g with [] => true | _ => false end).
Definition wf_chain (c : string * list string) : bool :=
  name_ok (fst c) && forallb name_ok (snd c) && Nat.leb 2 (List.length (snd c)) &&
  forallb (no_char c_dot) (chain_mid (snd c)).
Definition wf_call (c : call) : bool :=
  name_ok (call_name c) && forallb (fun p => name_ok (fst p) && val_ok (snd p)) (call_params c) &&
  nodupb (dkeys (call_params c)).
Definition wf_file (f : stil_file) : bool :=
  run_ok is_float_char (sf_version f) && float_ok (sf_version f) &&
  match sf_groups f with Some g => forallb wf_group g && nodupb (dkeys g) | None => true end &&
  forallb wf_chain (sf_chains f) && nodupb (dkeys (sf_chains f)) && forallb wf_call (sf_calls f).

(* ---------------------------------------------------------------------------------------------- *)
(** * correspondence cases (harness/stil_text.py) *)
Definition call_eqb (a b : call) : bool :=
  String.eqb (call_name a) (call_name b) && sl_dict_eqb String.eqb (call_params a) (call_params b).
Definition sfile_eqb (a b : stil_file) : bool :=
  String.eqb (sf_version a) (sf_version b) &&
  sl_opt_eqb (sl_dict_eqb (sl_list_eqb String.eqb)) (sf_groups a) (sf_groups b) &&
  sl_dict_eqb (sl_list_eqb String.eqb) (sf_chains a) (sf_chains b) &&
  sl_list_eqb call_eqb (sf_calls a) (sf_calls b).
(** [dom] = false: stil.parse returned a StilFile one of whose chain lists holds None; otherwise [got] = what it handed
    to StilFile(...) (None = it raised) *)
Definition stext_case (text : string) (dom : bool) (got : option stil_file) : bool :=
  Bool.eqb (stil_domain text) dom && (if dom then sl_opt_eqb sfile_eqb (parse_stil text) got else true).
(** printer case: the text the Python twin of print_stil wrote (and the real parser read back as f) *)
Definition sprint_case (f : stil_file) (text : string) : bool := String.eqb (print_stil f) text && wf_file f.
