(** Executable transcription of the elaboration part of kyupy/stil.py (everything behind the lark grammar):

      StilFile.__init__   call list -> ScanPattern(load, launch, capture, unload)       [extract_patterns]
      StilFile._maps      interface order, _pi/_po maps, scan maps, scan inversions     [maps_gen]
      StilFile.tests      4-valued stuck-at test set                                     [tests]
      StilFile.responses  4-valued response set                                          [responses]
      StilFile.tests_loc  8-valued launch-on-capture test set; the logic simulation in
                          the middle is an INPUT of the model (simulated next state)     [loc_init, tests_loc]
      logic.interpret / mvarray / _mv_xor / mv_transition on numeric codes 0..7

    Python dicts are insertion-ordered association lists ([dset] replaces in place, like dict.__setitem__);
    numpy 1-D arrays are lists, a numpy scalar is [Scal]; broadcasting of 1-D operands is modelled
    ([bshape], [bget], [assign]); where Python raises (KeyError, IndexError, shape mismatch) the model
    yields [None].  Arrays are stored pattern-major: one list ("column") per pattern, i.e. the transpose
    of the (interface, patterns) arrays of the implementation.

    [maps_gen false] is the code of the pinned tree (case-sensitive 'DFF' filter without latches; element 0
    of the inversion vector, a scalar, applied to the whole chain); [maps_gen true] is the repaired code
    (interface = Circuit.s_nodes; the whole inversion vector).  Domain: chain lists have at least the two
    port entries (the transformer always builds [scan_in] + cells + [scan_out]); kinds are ASCII. *)
From Coq Require Import List Arith Bool String Ascii.
From KV Require Import Model.Prims.
Import ListNotations.
Local Open Scope list_scope.

(* ---------------------------------------------------------------------------------------------- *)
(** * insertion-ordered dictionaries with string keys *)
Definition sdict (V : Type) := list (string * V).

Fixpoint dget {V} (d : sdict V) (k : string) : option V :=
  match d with
  | [] => None
  | (k', v) :: r => if String.eqb k' k then Some v else dget r k
  end.
Fixpoint dset {V} (d : sdict V) (k : string) (v : V) : sdict V :=
  match d with
  | [] => [(k, v)]
  | (k', v') :: r => if String.eqb k' k then (k', v) :: r else (k', v') :: dset r k v
  end.
Definition dict_of {V} (l : list (string * V)) : sdict V :=
  fold_left (fun d kv => dset d (fst kv) (snd kv)) l [].
Definition dkeys {V} (d : sdict V) : list string := map fst d.
Definition dhas {V} (d : sdict V) (k : string) : bool :=
  match dget d k with Some _ => true | None => false end.

(* ---------------------------------------------------------------------------------------------- *)
(** * logic.py: value codes, interpret, mvarray, _mv_xor, mv_transition *)
Definition ZERO := 0.
Definition UNKNOWN := 1.
Definition UNASSIGNED := 2.
Definition ONE := 3.
Definition PPULSE := 4.
Definition RISE := 5.
Definition FALL := 6.
Definition NPULSE := 7.

Fixpoint chr_in (c : ascii) (s : string) : bool :=
  match s with EmptyString => false | String c' r => Ascii.eqb c' c || chr_in c r end.

(** logic.interpret on one character (logic.py:92-99) *)
Definition interpret (c : ascii) : nat :=
  if chr_in c "0Ll" then ZERO
  else if chr_in c "1Hh" then ONE
  else if chr_in c "-Zz" then UNASSIGNED
  else if chr_in c "Rr/" then RISE
  else if chr_in c "Ff\" then FALL
  else if chr_in c "Pp^" then PPULSE
  else if chr_in c "Nnv" then NPULSE
  else UNKNOWN.
(** logic.mvarray(str): a 1-D array with one code per character *)
Definition mvarray (s : string) : list nat := map interpret (list_ascii_of_string s).

Definition is_unk (v : nat) : bool := (v =? UNASSIGNED) || (v =? UNKNOWN).

(** _mv_xor(out, a, b), logic.py:193-201, one element *)
Definition mv_xor1 (a b : nat) : nat :=
  let any_unknown := ((a =? UNKNOWN) || (a =? UNASSIGNED)) || ((b =? UNKNOWN) || (b =? UNASSIGNED)) in
  let o := ZERO in
  let o := Nat.lxor o (Nat.land a 3) in
  let o := Nat.lor o (Nat.land a 4) in
  let o := Nat.lxor o (Nat.land b 3) in
  let o := Nat.lor o (Nat.land b 4) in
  if any_unknown then UNKNOWN else o.

(** mv_transition(init, final), logic.py:251-257, one element *)
Definition mv_transition1 (i f : nat) : nat :=
  let o := Nat.lor (Nat.land i 2) (Nat.land f 1) in
  let o := Nat.lor o (Nat.land (Nat.lxor (Nat.shiftl o 1) (Nat.shiftl o 2)) 4) in
  let unknown := ((i =? UNKNOWN) || (i =? UNASSIGNED)) || ((f =? UNKNOWN) || (f =? UNASSIGNED)) in
  let unassigned := (i =? UNASSIGNED) && (f =? UNASSIGNED) in
  let o := if unknown then UNKNOWN else o in
  if unassigned then UNASSIGNED else o.

(* ---------------------------------------------------------------------------------------------- *)
(** * numpy: 1-D arrays, scalars, broadcasting, fancy-index assignment *)
Inductive ndarr := Scal (v : nat) | Arr (l : list nat).

(** broadcast of two 1-D shapes *)
Definition bshape (m n : nat) : option nat :=
  if m =? n then Some m else if m =? 1 then Some n else if n =? 1 then Some m else None.
(** element i of a 1-D operand inside a broadcast *)
Definition bget (l : list nat) (i : nat) : nat :=
  if List.length l =? 1 then hd 0 l else nth i l 0.

Fixpoint set_nth (l : list nat) (i v : nat) : list nat :=
  match l, i with
  | [], _ => []
  | _ :: r, O => v :: r
  | x :: r, S i' => x :: set_nth r i' v
  end.
(** col[idxs] = vals : same length, or a single value that is broadcast; later writes win *)
Definition assign (col idxs vals : list nat) : option (list nat) :=
  let k := List.length idxs in
  match bshape k (List.length vals) with
  | Some k' =>
      if k' =? k
      then Some (fold_left (fun c iv => set_nth c (fst iv) (snd iv)) (combine idxs (map (bget vals) (seq 0 k))) col)
      else None
  | None => None
  end.
(** col[idxs] = scalar *)
Definition assign_scalar (col idxs : list nat) (v : nat) : list nat :=
  fold_left (fun c i => set_nth c i v) idxs col.

(** np.choose((pattern == UNASSIGNED) | (pattern == UNKNOWN), [inv, ZERO]) *)
Definition choose_inv (pattern : list nat) (inv : ndarr) : option (list nat) :=
  match inv with
  | Scal v => Some (map (fun p => if is_unk p then ZERO else v) pattern)
  | Arr l =>
      match bshape (List.length pattern) (List.length l) with
      | Some k => Some (map (fun i => if is_unk (bget pattern i) then ZERO else bget l i) (seq 0 k))
      | None => None
      end
  end.
(** np.bitwise_xor(pattern, inversions, out=pattern): the broadcast shape must be pattern's shape *)
Definition xor_into (pattern inversions : list nat) : option (list nat) :=
  let m := List.length pattern in
  match bshape m (List.length inversions) with
  | Some k => if k =? m then Some (map (fun i => Nat.lxor (nth i pattern 0) (bget inversions i)) (seq 0 m)) else None
  | None => None
  end.
(** logic.mv_xor(pattern, inv): out is fresh and has the broadcast shape; since fix 666613e (D35) _mv_xor accumulates its masks
    out of place, so ANY broadcastable pair of shapes is accepted (before, the broadcast shape had to be pattern's shape: a
    one-element pattern against a longer inversion array raised) *)
Definition mv_xor_arr (pattern : list nat) (inv : ndarr) : option (list nat) :=
  match inv with
  | Scal v => Some (map (fun p => mv_xor1 p v) pattern)
  | Arr l =>
      match bshape (List.length pattern) (List.length l) with
      | Some k => Some (map (fun i => mv_xor1 (bget pattern i) (bget l i)) (seq 0 k))
      | None => None
      end
  end.

(* ---------------------------------------------------------------------------------------------- *)
(** * StilFile.__init__ : pattern extraction from the call list *)
Record call := { call_name : string; call_params : sdict string }.
Record pattern := { p_load : sdict string; p_launch : sdict string; p_capture : sdict string; p_unload : sdict string }.

Definition nl : ascii := "010"%char.
Fixpoint remove_chr (x : ascii) (s : string) : string :=
  match s with
  | EmptyString => EmptyString
  | String c r => if Ascii.eqb c x then remove_chr x r else String c (remove_chr x r)
  end.
Fixpoint replace_chr (x y : ascii) (s : string) : string :=
  match s with
  | EmptyString => EmptyString
  | String c r => String (if Ascii.eqb c x then y else c) (replace_chr x y r)
  end.
(** v.replace('\n', '').replace('N', '-') *)
Definition clean (s : string) : string := replace_chr "N" "-" (remove_chr nl s).

Definition rev_string (s : string) : string := string_of_list_ascii (rev (list_ascii_of_string s)).
Definition ends_with (suffix s : string) : bool := prefix (rev_string suffix) (rev_string s).

(** dict((v[0], k) ...) / dict((v[-1], k) ...): only the (ordered, de-duplicated) keys are used *)
Definition chain_si (ch : list string) : string := hd ""%string ch.
Definition chain_so (ch : list string) : string := last ch ""%string.
Definition si_ports (chains : sdict (list string)) : list string :=
  dkeys (dict_of (map (fun kv => (chain_si (snd kv), fst kv)) chains)).
Definition so_ports (chains : sdict (list string)) : list string :=
  dkeys (dict_of (map (fun kv => (chain_so (snd kv), fst kv)) chains)).

(** for port in ports: if port in parameters: d[port] = clean(parameters[port]) *)
Fixpoint pick_ports (ports : list string) (params : sdict string) (d : sdict string) : sdict string :=
  match ports with
  | [] => d
  | port :: r =>
      pick_ports r params (match dget params port with Some v => dset d port (clean v) | None => d end)
  end.
Definition clean_params (params : sdict string) : sdict string :=
  dict_of (map (fun kv => (fst kv, clean (snd kv))) params).

Record xstate := { x_patterns : list pattern; x_launch : sdict string; x_capture : sdict string; x_sload : sdict string }.

Definition xstep (sis sos : list string) (st : xstate) (c : call) : xstate :=
  let st :=
    if String.eqb (call_name c) "load_unload" then
      let unload := pick_ports sos (call_params c) [] in
      let st' :=
        if 0 <? List.length (x_capture st)
        then {| x_patterns := x_patterns st ++ [{| p_load := x_sload st; p_launch := x_launch st;
                                                   p_capture := x_capture st; p_unload := unload |}];
                x_launch := []; x_capture := []; x_sload := x_sload st |}
        else st in
      {| x_patterns := x_patterns st'; x_launch := x_launch st'; x_capture := x_capture st';
         x_sload := pick_ports sis (call_params c) [] |}
    else st in
  let st :=
    if ends_with "_launch" (call_name c)
    then {| x_patterns := x_patterns st; x_launch := clean_params (call_params c);
            x_capture := x_capture st; x_sload := x_sload st |}
    else st in
  if ends_with "_capture" (call_name c)
  then {| x_patterns := x_patterns st; x_launch := x_launch st;
          x_capture := clean_params (call_params c); x_sload := x_sload st |}
  else st.

Definition extract_patterns (chains : sdict (list string)) (calls : list call) : list pattern :=
  x_patterns (fold_left (xstep (si_ports chains) (so_ports chains)) calls
                        {| x_patterns := []; x_launch := []; x_capture := []; x_sload := [] |}).

(* ---------------------------------------------------------------------------------------------- *)
(** * StilFile._maps *)
Record snode := { sn_name : string; sn_kind : string }.
(** what _maps reads of a Circuit: all nodes (name, kind) in index order, and io_nodes as node indices *)
Record scircuit := { sc_nodes : list snode; sc_io : list nat }.
Definition dsnode := {| sn_name := ""; sn_kind := "" |}.

Definition io_nodes (c : scircuit) : list snode := map (fun i => nth i (sc_nodes c) dsnode) (sc_io c).
(** pinned tree: list(c.io_nodes) + [n for n in c.nodes if 'DFF' in n.kind] *)
Definition interface_v0 (c : scircuit) : list snode :=
  io_nodes c ++ filter (fun n => contains "DFF" (sn_kind n)) (sc_nodes c).
(** Circuit.s_nodes (circuit.py:268) *)
Definition interface (c : scircuit) : list snode :=
  io_nodes c ++ filter (fun n => contains "dff" (lower (sn_kind n))) (sc_nodes c)
             ++ filter (fun n => contains "latch" (lower (sn_kind n))) (sc_nodes c).

(** dict((n.name, i) for i, n in enumerate(interface)) *)
Definition intf_pos (intf : list snode) : sdict nat :=
  dict_of (combine (map sn_name intf) (seq 0 (List.length intf))).

Fixpoint lookup_all (d : sdict nat) (names : list string) : option (list nat) :=
  match names with
  | [] => Some []
  | n :: r =>
      match dget d n, lookup_all d r with
      | Some p, Some ps => Some (p :: ps)
      | _, _ => None
      end
  end.

Definition is_marker (s : string) : bool := String.eqb s "!".
(** chain[1:-1] *)
Definition chain_mid (ch : list string) : list string := removelast (tl ch).

(** one pass of the "inversion = not inversion / append(inversion)" loop *)
Fixpoint inv_walk (items : list string) (inv : bool) : list bool :=
  match items with
  | [] => []
  | n :: r => if is_marker n then inv_walk r (negb inv) else inv :: inv_walk r inv
  end.
Definition scan_in_inversion (mid : list string) : list bool := rev (inv_walk mid false).
Definition scan_out_inversion (mid : list string) : list bool := inv_walk (rev mid) false.
(** cell names in the order the second loop appends them: from scan-out towards scan-in *)
Definition scan_cells_rev (mid : list string) : list string := filter (fun n => negb (is_marker n)) (rev mid).
(** logic.mvarray(list of bool) *)
Definition mv_of_bools (l : list bool) : list nat := map (fun b : bool => if b then ONE else ZERO) l.
(** fixed: the vector; pinned tree: vector[0] (IndexError on a chain without cells) *)
Definition inv_entry (fixed : bool) (l : list bool) : option ndarr :=
  if fixed then Some (Arr (mv_of_bools l))
  else match mv_of_bools l with [] => None | x :: _ => Some (Scal x) end.

Record maps := { m_intf : list snode; m_pi : list nat; m_po : list nat;
                 m_scan : sdict (list nat); m_inv : sdict ndarr }.

Fixpoint chain_maps (fixed : bool) (pos : sdict nat) (chains : list (list string))
         (sm : sdict (list nat)) (si : sdict ndarr) : option (sdict (list nat) * sdict ndarr) :=
  match chains with
  | [] => Some (sm, si)
  | ch :: r =>
      let mid := chain_mid ch in
      match lookup_all pos (scan_cells_rev mid),
            inv_entry fixed (scan_in_inversion mid), inv_entry fixed (scan_out_inversion mid) with
      | Some scan_map, Some inv_in, Some inv_out =>
          chain_maps fixed pos r
                     (dset (dset sm (chain_si ch) scan_map) (chain_so ch) scan_map)
                     (dset (dset si (chain_si ch) inv_in) (chain_so ch) inv_out)
      | _, _, _ => None
      end
  end.

Definition maps_gen (fixed : bool) (groups chains : sdict (list string)) (c : scircuit) : option maps :=
  let intf := if fixed then interface c else interface_v0 c in
  let pos := intf_pos intf in
  match dget groups "_pi", dget groups "_po" with
  | Some gpi, Some gpo =>
      match lookup_all pos gpi, lookup_all pos gpo with
      | Some pi_map, Some po_map =>
          match chain_maps fixed pos (map snd chains) [] [] with
          | Some (sm, si) => Some {| m_intf := intf; m_pi := pi_map; m_po := po_map; m_scan := sm; m_inv := si |}
          | None => None
          end
      | _, _ => None
      end
  | _, _ => None
  end.

(* ---------------------------------------------------------------------------------------------- *)
(** * tests / responses / tests_loc : one column per pattern *)
Definition blank (m : maps) : list nat := repeat UNASSIGNED (List.length (m_intf m)).

(** pattern = mvarray(string); inversions = np.choose(...); np.bitwise_xor(pattern, inversions, out=pattern) *)
Definition load_vec (pat : list nat) (inv : ndarr) : option (list nat) :=
  match choose_inv pat inv with
  | Some inversions => xor_into pat inversions
  | None => None
  end.

(** the loop "for port in ports: pattern = vec(mvarray(strs[port]), scan_inversions[port]);
    col[scan_maps[port]] = pattern" that tests / tests_loc (vec = load_vec, load strings, scan-in ports and
    vec = mv_xor, load strings) and responses (vec = mv_xor, unload strings, scan-out ports) share *)
Fixpoint scan_loop (vec : list nat -> ndarr -> option (list nat)) (m : maps) (strs : sdict string)
         (ports : list string) (col : list nat) : option (list nat) :=
  match ports with
  | [] => Some col
  | port :: r =>
      match dget strs port, dget (m_inv m) port, dget (m_scan m) port with
      | Some s, Some inv, Some scan_map =>
          match vec (mvarray s) inv with
          | Some pat =>
              match assign col scan_map pat with
              | Some col' => scan_loop vec m strs r col'
              | None => None
              end
          | None => None
          end
      | _, _, _ => None
      end
  end.
Definition load_chains (m : maps) (p : pattern) (sis : list string) (col : list nat) : option (list nat) :=
  scan_loop load_vec m (p_load p) sis col.
Definition xor_chains (m : maps) (strs : sdict string) (ports : list string) (col : list nat) : option (list nat) :=
  scan_loop mv_xor_arr m strs ports col.

Definition tests_col (m : maps) (sis : list string) (p : pattern) : option (list nat) :=
  match load_chains m p sis (blank m) with
  | Some col =>
      match dget (p_capture p) "_pi" with
      | Some s => assign col (m_pi m) (mvarray s)
      | None => None
      end
  | None => None
  end.

Definition responses_col (m : maps) (sos : list string) (p : pattern) : option (list nat) :=
  match dget (if 0 <? List.length (p_capture p) then p_capture p else p_launch p) "_po" with
  | Some s =>
      match assign (blank m) (m_po m) (mvarray s) with
      | Some col => xor_chains m (p_unload p) sos col
      | None => None
      end
  | None => None
  end.

Definition loc_init_col (m : maps) (sis : list string) (p : pattern) : option (list nat) :=
  match load_chains m p sis (blank m) with
  | Some col =>
      match (if dhas (p_launch p) "_pi" then dget (p_launch p) "_pi" else dget (p_capture p) "_pi") with
      | Some s => assign col (m_pi m) (mvarray s)
      | None => None
      end
  | None => None
  end.

Definition has_P (s : string) : bool := chr_in "P" s.

(** '_pi' not in p.launch or 'P' not in p.launch['_pi'] or 'P' not in p.capture['_pi']  (short-circuit) *)
Definition no_launch_clock (p : pattern) : option bool :=
  match dget (p_launch p) "_pi" with
  | None => Some true
  | Some l =>
      if negb (has_P l) then Some true
      else match dget (p_capture p) "_pi" with
           | Some c => Some (negb (has_P c))
           | None => None
           end
  end.

(** [sim] is the column of logic.bp_to_mv(sim8v.s[1]) for this pattern (simulated next state) *)
Definition loc_launch_col (m : maps) (sis : list string) (p : pattern) (sim : list nat) : option (list nat) :=
  if negb (List.length sim =? List.length (m_intf m)) then None else
  match no_launch_clock p with
  | Some nc =>
      match (if nc then xor_chains m (p_load p) sis sim else Some sim) with
      | Some l1 =>
          match (match dget (p_capture p) "_pi" with
                 | Some s => if has_P s then assign l1 (m_pi m) (mvarray s) else Some l1
                 | None => Some l1
                 end) with
          | Some l2 => Some (assign_scalar l2 (m_po m) UNASSIGNED)
          | None => None
          end
      | None => None
      end
  | None => None
  end.

Fixpoint map_opt {A B} (f : A -> option B) (l : list A) : option (list B) :=
  match l with
  | [] => Some []
  | x :: r => match f x, map_opt f r with Some y, Some ys => Some (y :: ys) | _, _ => None end
  end.

Definition tests (m : maps) (sis : list string) (ps : list pattern) := map_opt (tests_col m sis) ps.
Definition responses (m : maps) (sos : list string) (ps : list pattern) := map_opt (responses_col m sos) ps.
Definition loc_init (m : maps) (sis : list string) (ps : list pattern) := map_opt (loc_init_col m sis) ps.
Definition loc_launch (m : maps) (sis : list string) (ps : list pattern) (sims : list (list nat)) :=
  if negb (List.length sims =? List.length ps) then None
  else map_opt (fun ps => loc_launch_col m sis (fst ps) (snd ps)) (combine ps sims).
Definition tests_loc (m : maps) (sis : list string) (ps : list pattern) (sims : list (list nat)) : option (list (list nat)) :=
  match loc_init m sis ps, loc_launch m sis ps sims with
  | Some ini, Some lau => Some (map (fun il => map (fun ab => mv_transition1 (fst ab) (snd ab)) (combine (fst il) (snd il))) (combine ini lau))
  | _, _ => None
  end.

(** tests_loc(circuit): "sim8v.s[0] = logic.mv_to_bp(init)" needs init to have len(circuit.s_nodes) rows, also
    when there is no pattern at all (a one-row init that numpy would broadcast is outside the domain) *)
Definition tests_loc_c (c : scircuit) (m : maps) (sis : list string) (ps : list pattern) (sims : list (list nat)) :=
  if List.length (m_intf m) =? List.length (interface c) then tests_loc m sis ps sims else None.

(* ---------------------------------------------------------------------------------------------- *)
(** * comparison helpers for the correspondence cases *)
Fixpoint sl_list_eqb {A} (eqb : A -> A -> bool) (a b : list A) : bool :=
  match a, b with
  | [], [] => true
  | x :: a', y :: b' => eqb x y && sl_list_eqb eqb a' b'
  | _, _ => false
  end.
Definition sl_opt_eqb {A} (eqb : A -> A -> bool) (a b : option A) : bool :=
  match a, b with Some x, Some y => eqb x y | None, None => true | _, _ => false end.
Definition sl_dict_eqb {V} (eqb : V -> V -> bool) (a b : sdict V) : bool :=
  sl_list_eqb (fun x y => String.eqb (fst x) (fst y) && eqb (snd x) (snd y)) a b.
Definition pattern_eqb (a b : pattern) : bool :=
  sl_dict_eqb String.eqb (p_load a) (p_load b) && sl_dict_eqb String.eqb (p_launch a) (p_launch b) &&
  sl_dict_eqb String.eqb (p_capture a) (p_capture b) && sl_dict_eqb String.eqb (p_unload a) (p_unload b).
Definition ndarr_eqb (a b : ndarr) : bool :=
  match a, b with
  | Scal x, Scal y => x =? y
  | Arr x, Arr y => sl_list_eqb Nat.eqb x y
  | _, _ => false
  end.
Definition mat_eqb := sl_list_eqb (sl_list_eqb Nat.eqb).

(** what _maps returned: interface names, pi_map, po_map, scan_maps, scan_inversions *)
Definition maps_data := (list string * list nat * list nat * sdict (list nat) * sdict ndarr)%type.
Definition maps_view (m : maps) : maps_data := (map sn_name (m_intf m), m_pi m, m_po m, m_scan m, m_inv m).
Definition maps_data_eqb (a b : maps_data) : bool :=
  let '(n1, pi1, po1, s1, i1) := a in let '(n2, pi2, po2, s2, i2) := b in
  sl_list_eqb String.eqb n1 n2 && sl_list_eqb Nat.eqb pi1 pi2 && sl_list_eqb Nat.eqb po1 po2 &&
  sl_dict_eqb (sl_list_eqb Nat.eqb) s1 s2 && sl_dict_eqb ndarr_eqb i1 i2.

Record stil_obs := {
  o_patterns : list pattern;                 (* StilFile.patterns *)
  o_maps : option maps_data;                 (* _maps(c); None = raised *)
  o_tests : option (list (list nat));        (* tests(c), transposed; None = raised *)
  o_resp : option (list (list nat));         (* responses(c) *)
  o_init : option (list (list nat));         (* init handed to init_filter by tests_loc *)
  o_sims : list (list nat);                  (* simulated s[1] per pattern for that init (input of the model) *)
  o_loc : option (list (list nat)) }.        (* tests_loc(c) *)

(** [fixed] selects the code version.  All components are compared. *)
Definition stil_case (fixed : bool) (groups chains : sdict (list string)) (calls : list call) (c : scircuit)
           (o : stil_obs) : bool :=
  let ps := extract_patterns chains calls in
  let sis := si_ports chains in
  let sos := so_ports chains in
  let mo := maps_gen fixed groups chains c in
  sl_list_eqb pattern_eqb ps (o_patterns o) &&
  sl_opt_eqb maps_data_eqb (option_map maps_view mo) (o_maps o) &&
  match mo with
  | Some m =>
      sl_opt_eqb mat_eqb (tests m sis ps) (o_tests o) &&
      sl_opt_eqb mat_eqb (responses m sos ps) (o_resp o) &&
      sl_opt_eqb mat_eqb (loc_init m sis ps) (o_init o) &&
      sl_opt_eqb mat_eqb (tests_loc_c c m sis ps (o_sims o)) (o_loc o)
  | None =>
      match o_tests o, o_resp o, o_init o, o_loc o with None, None, None, None => true | _, _, _, _ => false end
  end.

(** one generated case: what the parser handed to StilFile.__init__, the circuit, and the observations *)
Record stil_input := { i_groups : sdict (list string); i_chains : sdict (list string); i_calls : list call;
                       i_circuit : scircuit; i_obs : stil_obs }.
Definition stil_run (fixed : bool) (x : stil_input) : bool :=
  stil_case fixed (i_groups x) (i_chains x) (i_calls x) (i_circuit x) (i_obs x).
