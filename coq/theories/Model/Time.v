(** Extended integer time: the float32 sentinels TMIN = -2^127, TMAX = 2^127, TMAX_OVL = 1.1*2^127 absorb
    every finite delay; on the integer grid all other arithmetic of wave_sim.py is exact. *)
From Coq Require Import ZArith Bool.
Local Open Scope Z_scope.

Inductive time := MinInf | Fin (z : Z) | MaxInf | MaxOvl.

Definition tadd (t : time) (d : Z) : time := match t with Fin z => Fin (z + d) | _ => t end.
Definition rank (t : time) : Z := match t with MinInf => 0 | Fin _ => 1 | MaxInf => 2 | MaxOvl => 3 end.
Definition tltb (a b : time) : bool :=
  match a, b with
  | Fin x, Fin y => x <? y
  | _, _ => rank a <? rank b
  end.
Definition teqb (a b : time) : bool :=
  match a, b with
  | Fin x, Fin y => x =? y
  | MinInf, MinInf | MaxInf, MaxInf | MaxOvl, MaxOvl => true
  | _, _ => false
  end.
Definition tleb (a b : time) : bool := tltb a b || teqb a b.
Definition tmin (a b : time) : time := if tltb b a then b else a.
Definition tmax (a b : time) : time := if tltb a b then b else a.
(** (current_t - previous_t) > thresh, as the float code evaluates it *)
Definition gap_gt (cur prev : time) (thresh : Z) : bool :=
  match cur, prev with
  | Fin c, Fin p => thresh <? c - p
  | Fin _, MinInf => true
  | MinInf, MinInf => thresh <? 0
  | MinInf, _ => false
  | _, MinInf => true
  | _, _ => false
  end.
Definition is_end (t : time) : bool := match t with MaxInf | MaxOvl => true | _ => false end.  (* t >= TMAX *)
