(** C10, substitute: the remaining hypothesis checkers and the per-case tie used by the check (wraps [subst_case] of
    Model/CircuitSubstSem.v).  Definitions only. *)
From Coq Require Import List Arith Bool String.
From KV Require Import Model.Circuit Model.CircuitInv Model.CircuitCorr Model.CircuitSubstSem.
Import ListNotations.
Local Open Scope list_scope.

(* shape precondition of the semantic theorem beyond [subst_shape_b]: a line into a port that is not read inside the implementation
   (a pure output port) arrives at pin 0 -- ports are forks with ONE input *)
Definition pure_ports_b (impl : circ) : bool :=
  forallb (fun l => match l_rdr (lst impl l) with
                    | Some r => negb (in_ios impl r && (List.length (outs_of impl r) =? 0)) || (l_rpin (lst impl l) =? 0)
                    | None => true
                    end) (lines impl).

(* 0 = everything holds; 1..5 as [subst_case]; 6 = [pure_ports_b] fails or a node collected for the clean-up is not listed *)
Definition subst_case2 (c : circ) (u : nat) (impl : circ) (v : cview) (all_in all_out d22free : bool) : nat :=
  match subst_case c u impl v all_in all_out d22free with
  | O => if pure_ports_b impl &&
            match substitute_pre c u impl with
            | Some (c4, dl, _) => forallb (fun d => mem d (nodes c4)) dl
            | None => false
            end then 0 else 6
  | k => k
  end.
