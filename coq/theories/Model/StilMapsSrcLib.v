(** Vocabulary of the translated source of StilFile._maps (kyupy/stil.py; Gen/StilMapsSrc.v, written by
    translate/gen_stil_maps.py).  It REUSES the Python values of Model/DefRouteSrcLib.v ([pyv]: None | int | str | tuple |
    list, [py_seq], [py_index], [py_append], [pyv_eqb], [py_hashable]) and adds what _maps needs on top:

      [pyd V]      a dict ({} / dict(...)): insertion-ordered association list from values to V; a store replaces the
                   value of an equal key in place (position and key object kept, as dict.__setitem__ does), a lookup of
                   a missing key is KeyError = None, an unhashable key is TypeError = None
      bool         a local that is only ever assigned False / True / `not <such a local>` is a Coq bool (the translator
                   checks that); a list that only such locals are appended to is a Coq [list bool]
      [mvobj]      logic.mvarray(l) for such a list of bools l: an UNINTERPRETED constructor applied to the bool list
                   (what the array holds is the business of logic.mvarray, Model/Stil.v [mv_of_bools]; see [mv_interp])
      [node_s]     a circuit node as far as _maps reads it: its .name
      [circ_s]     the circuit: its s_nodes (a list of nodes; Circuit.s_nodes itself is tied by C17 / C18_interface_is_s_nodes)
      [stil_s]     vars(StilFile) as far as _maps reads them: signal_groups, scan_chains (dicts)

    Every operation that can raise is a function into [option], bound in evaluation order.  Definitions only. *)
From Coq Require Import List ZArith Bool String Ascii Arith.
From KV Require Import Model.DefRouteSrcLib Model.Stil.
Import ListNotations.
Local Open Scope list_scope.

Inductive mvobj : Type := Mvarray (l : list bool).
Record node_s := mkNodeS { s_name : pyv }.
Record circ_s := mkCircS { s_s_nodes : list node_s }.

(** * dicts *)
Definition pyd (V : Type) := list (pyv * V).
Fixpoint pd_set {V} (k : pyv) (v : V) (d : pyd V) : pyd V :=
  match d with
  | [] => [(k, v)]
  | (k', v') :: r => if pyv_eqb k' k then (k', v) :: r else (k', v') :: pd_set k v r
  end.
Fixpoint pd_get {V} (d : pyd V) (k : pyv) : option V :=
  match d with
  | [] => None
  | (k', v) :: r => if pyv_eqb k' k then Some v else pd_get r k
  end.
(* d[k] = v *)
Definition py_dict_set {V} (k : pyv) (v : V) (d : pyd V) : option (pyd V) :=
  if py_hashable k then Some (pd_set k v d) else None.
(* d[k] : KeyError / TypeError = None *)
Definition py_dict_get {V} (d : pyd V) (k : pyv) : option V :=
  if py_hashable k then pd_get d k else None.
(* d.values() *)
Definition py_dict_values {V} (d : pyd V) : list V := map snd d.

Record stil_s := mkStilS { s_signal_groups : pyd pyv; s_scan_chains : pyd pyv }.

(** * sequences *)
(* enumerate(l) *)
Fixpoint py_enumerate_from {A} (k : nat) (l : list A) : list (pyv * A) :=
  match l with [] => [] | x :: r => (PInt (Z.of_nat k), x) :: py_enumerate_from (S k) r end.
Definition py_enumerate {A} (l : list A) : list (pyv * A) := py_enumerate_from 0 l.
(* v[lo:-hi] for constants lo >= 0, hi > 0 on a tuple / list: start = min(lo, n), stop = max(n - hi, 0); keeps the kind *)
Definition slice_mid {A} (lo hi : nat) (l : list A) : list A := skipn lo (firstn (List.length l - hi) l).
Definition py_slice_mid (v : pyv) (lo hi : nat) : option pyv :=
  match v with
  | PTup l => Some (PTup (slice_mid lo hi l))
  | PList l => Some (PList (slice_mid lo hi l))
  | _ => None
  end.
(* iter(reversed(v)) of a tuple / list *)
Definition py_reversed (v : pyv) : option (list pyv) := option_map (@rev pyv) (py_seq v).
(* v == 'c' for a string constant c: never raises on the values of the universe *)
Definition py_eq_str (v : pyv) (c : string) : bool := match v with PStr s => String.eqb s c | _ => false end.

(** * the result tuple of _maps: interface, pi_map, po_map, scan_maps, scan_inversions *)
Definition maps_src_result := (list node_s * pyv * pyv * pyd pyv * pyd mvobj)%type.

(** * How the values of Model/Stil.v look as Python values *)
Definition enc_nat (n : nat) : pyv := PInt (Z.of_nat n).
Definition enc_nats (l : list nat) : pyv := PList (map enc_nat l).
Definition enc_strs (l : list string) : pyv := PList (map PStr l).
Definition enc_sdict {V W} (f : V -> W) (d : sdict V) : pyd W := map (fun kv => (PStr (fst kv), f (snd kv))) d.
Definition enc_node (n : snode) : node_s := mkNodeS (PStr (sn_name n)).
(* a StilFile object with these signal groups and scan chains; a circuit whose s_nodes is the interface of the model *)
Definition enc_stil (groups chains : sdict (list string)) : stil_s :=
  mkStilS (enc_sdict enc_strs groups) (enc_sdict enc_strs chains).
Definition enc_circ (c : scircuit) : circ_s := mkCircS (map enc_node (interface c)).
(* what logic.mvarray makes of a list of bools, as Model/Stil.v transcribes it (the repaired code keeps the whole vector) *)
Definition mv_interp (m : mvobj) : ndarr := match m with Mvarray l => Arr (mv_of_bools l) end.
(* both sides of the source tie as one comparable value: the source result with its arrays interpreted,
   the model's maps with names / positions written as Python values *)
Definition maps_cmp := (list node_s * pyv * pyv * pyd pyv * pyd ndarr)%type.
Definition src_view (r : maps_src_result) : maps_cmp :=
  match r with (intf, pi, po, sm, si) => (intf, pi, po, sm, map (fun kv => (fst kv, mv_interp (snd kv))) si) end.
Definition model_view (m : maps) : maps_cmp :=
  (map enc_node (m_intf m), enc_nats (m_pi m), enc_nats (m_po m), enc_sdict enc_nats (m_scan m), enc_sdict (fun a => a) (m_inv m)).

(** * Comparison for the correspondence cases: the translated source on the objects as the implementation holds them.
    exp = what the real _maps returned: names of the interface nodes, pi_map, po_map, list(scan_maps.items()),
    list(scan_inversions.items()) with every array as the list of its numeric codes *)
Definition pyd_items (d : pyd pyv) : pyv := PList (map (fun kv => PTup [fst kv; snd kv]) d).
Definition mv_codes (m : mvobj) : pyv :=
  match mv_interp m with Arr l => PList (map enc_nat l) | Scal x => enc_nat x end.
Definition maps_src_eqb (r : maps_src_result) (names pi po sm si : pyv) : bool :=
  match r with
  | (intf, pi', po', sm', si') =>
      pyv_eqb (PList (map s_name intf)) names && pyv_eqb pi' pi && pyv_eqb po' po && pyv_eqb (pyd_items sm') sm
      && pyv_eqb (pyd_items (map (fun kv => (fst kv, mv_codes (snd kv))) si')) si
  end.
Definition maps_src_case (o : option maps_src_result) (exp : option (pyv * pyv * pyv * pyv * pyv)) : bool :=
  match o, exp with
  | Some r, Some (names, pi, po, sm, si) => maps_src_eqb r names pi po sm si
  | None, None => true
  | _, _ => false
  end.
