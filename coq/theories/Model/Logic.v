(** The documented 8-valued algebra of kyupy.logic (module docstring, logic.py:8-27) as a
    specification, independent of both storage formats.
    bit0 = final value, bit1 = initial value, bit2 = activity; (1,0,0) = unknown, (0,1,0) = unassigned. *)
From Coq Require Import List Bool Arith.
Import ListNotations.

Inductive code := Zero | Unk | Una | One | PP | Rise | Fall | NP.   (* numeric values 0..7 *)

Definition code_bits (c : code) : list bool :=       (* [bit0; bit1; bit2] *)
  match c with
  | Zero => [false; false; false] | Unk => [true; false; false]
  | Una => [false; true; false]   | One => [true; true; false]
  | PP => [false; false; true]    | Rise => [true; false; true]
  | Fall => [false; true; true]   | NP => [true; true; true]
  end.
Definition code_of_bits (b0 b1 b2 : bool) : code :=
  match b0, b1, b2 with
  | false, false, false => Zero | true, false, false => Unk
  | false, true, false => Una   | true, true, false => One
  | false, false, true => PP    | true, false, true => Rise
  | false, true, true => Fall   | true, true, true => NP
  end.
Definition code_of_list (l : list bool) : code := code_of_bits (nth 0 l false) (nth 1 l false) (nth 2 l false).
Definition code_eqb (a b : code) : bool :=
  match a, b with
  | Zero, Zero | Unk, Unk | Una, Una | One, One | PP, PP | Rise, Rise | Fall, Fall | NP, NP => true
  | _, _ => false
  end.
Definition all_codes := [Zero; Unk; Una; One; PP; Rise; Fall; NP].
Definition codes4 := [Zero; Unk; Una; One].
Definition codes2 := [Zero; One].
Definition known6 := [Zero; One; PP; Rise; Fall; NP].

Definition fin (c : code) := nth 0 (code_bits c) false.
Definition ini (c : code) := nth 1 (code_bits c) false.
Definition act (c : code) := nth 2 (code_bits c) false.
Definition unknownish (c : code) := match c with Unk | Una => true | _ => false end.
Definition is4 (c : code) := negb (act c).
Definition is2 (c : code) := match c with Zero | One => true | _ => false end.
Definition code_of_bool (b : bool) := if b then One else Zero.

(** "a controlling constant dominates, otherwise an unknown operand makes the result unknown,
    [otherwise componentwise and] activity is the union of operand activity" *)
Definition spec_not (c : code) : code :=
  if unknownish c then Unk else code_of_bits (negb (fin c)) (negb (ini c)) (act c).
Definition spec_buf (c : code) : code := if unknownish c then Unk else c.
Definition spec_and (l : list code) : code :=
  if existsb (code_eqb Zero) l then Zero
  else if existsb unknownish l then Unk
  else code_of_bits (forallb fin l) (forallb ini l) (existsb act l).
Definition spec_or (l : list code) : code :=
  if existsb (code_eqb One) l then One
  else if existsb unknownish l then Unk
  else code_of_bits (existsb fin l) (existsb ini l) (existsb act l).
Definition spec_xor (l : list code) : code :=
  if existsb unknownish l then Unk
  else code_of_bits (fold_right xorb false (map fin l)) (fold_right xorb false (map ini l)) (existsb act l).

(** operand encodings for the swept programs: operand j, plane p  |->  input j*mdim+p *)
Definition encode_ins (mdim : nat) (cs : list code) : list bool :=
  flat_map (fun c => firstn mdim (code_bits c)) cs.
Fixpoint decode_ins (mdim k : nat) (ins : list bool) : list code :=
  match k with
  | 0 => []
  | S k' => code_of_list (firstn mdim ins) :: decode_ins mdim k' (skipn mdim ins)
  end.

Fixpoint bools_eqb (a b : list bool) : bool :=
  match a, b with
  | [], [] => true
  | x :: a', y :: b' => Bool.eqb x y && bools_eqb a' b'
  | _, _ => false
  end.
Definition out_is3 (outs : list bool) (c : code) := bools_eqb outs (code_bits c).
Definition out_is2 (outs : list bool) (c : code) := is4 c && bools_eqb outs (firstn 2 (code_bits c)).
Definition out_is8 (outs : list bool) (c : code) :=
  bools_eqb outs (code_bits c ++ [false; false; false; false; false]).
