(** Elaboration part of kyupy/sdf.py (the lark grammar / lexer is NOT modelled):

    - the transformer callbacks [triple], [sanitize]/[iopath]/[interconnect], [cell], [start]
      (sdf.py:138-163) working on the tree lark hands to them, and [DelayFile.__init__] (sdf.py:28-31);
    - [DelayFile.iopaths] (sdf.py:37-79) and [DelayFile.interconnects] (sdf.py:81-135) over a static
      view of the circuit (Model/Netlist.v + the [circuit.cells] dictionary) and the pin table of a
      technology library (techlib.py:90-94 over Model/TechCell.v).

    Numbers: a delay value is an integer (the harness scales the decimal strings of the file by 8; all
    generated values are k/8, so float() is exact and comparisons/zero tests are those of Z).
    Python exceptions (TypeError, KeyError, IndexError, AssertionError, ValueError) are the value [Err].

    [start_cb] is the code AFTER the proposed fix of defect D6 (entry lists merged per instance);
    [start_cb_pinned] is the transcription of the code as it is in the pinned tree
    ([dict(t for t in args if isinstance(t, tuple))]: a later block replaces an earlier one). *)
From Coq Require Import List ZArith NArith Bool Arith String Ascii.
From KV Require Import Model.Prims Model.Netlist Model.TechCell.
Import ListNotations.
Local Open Scope list_scope.

Inductive res (A : Type) := Ok (a : A) | Err.
Arguments Ok {A} a.
Arguments Err {A}.
Definition bind {A B} (r : res A) (f : A -> res B) : res B := match r with Ok a => f a | Err => Err end.
Fixpoint map_res {A B} (f : A -> res B) (l : list A) : res (list B) :=
  match l with
  | [] => Ok []
  | x :: r => match f x with Err => Err | Ok y => match map_res f r with Err => Err | Ok ys => Ok (y :: ys) end end
  end.

(** * The tree handed to the transformer *)
(** triple: "(" ( NUM":" NUM":" NUM")" | ")" ) -- no token for "()", else three tokens; a token without
    digits ("1::3") is [None] *)
Definition ttriple := list (option Z).
Inductive tentry := TEntry (io : bool) (a b : string) (ts : list ttriple).   (* io = true: IOPATH *)
Inductive tcarg := CName (s : string) | CDelay (es : list tentry).           (* children of a cell rule *)
Inductive tsarg := SName (s : string) | SCell (args : list tcarg).           (* children of the start rule *)

(** * Callbacks *)
(* [float(a.value[:-1]) if len(a.value) > 1 else 0.0 for a in args] *)
Definition triple_cb (t : ttriple) : list Z := map (fun o => match o with Some z => z | None => 0%Z end) t.

Record entry := { e_io : bool; e_a : string; e_b : string; e_r : list Z; e_f : list Z }.

(* sanitize: one triple is duplicated; the namedtuple constructor takes exactly four fields *)
Definition entry_cb (t : tentry) : res entry :=
  let 'TEntry io a b ts := t in
  match map triple_cb ts with
  | [r] => Ok {| e_io := io; e_a := a; e_b := b; e_r := r; e_f := r |}
  | [r; f] => Ok {| e_io := io; e_a := a; e_b := b; e_r := r; e_f := f |}
  | _ => Err
  end.

Definition key := option string.
Definition block := (key * list entry)%type.

Fixpoint first_cname (args : list tcarg) : key :=
  match args with [] => None | CName s :: _ => Some s | _ :: r => first_cname r end.
Definition cell_entries (args : list tcarg) : list tentry :=
  flat_map (fun a => match a with CDelay es => es | CName _ => [] end) args.
(* name = first string among the children; entries = children of every DELAY subtree, in order *)
Definition cell_cb (args : list tcarg) : res block :=
  bind (map_res entry_cb (cell_entries args)) (fun es => Ok (first_cname args, es)).

Definition key_eqb (a b : key) : bool :=
  match a, b with None, None => true | Some x, Some y => String.eqb x y | _, _ => false end.
Fixpoint dict_get {V} (k : key) (d : list (key * V)) : option V :=
  match d with [] => None | (k', v) :: r => if key_eqb k k' then Some v else dict_get k r end.
(* d[k] = v : an existing key keeps its position *)
Fixpoint dict_set {V} (k : key) (v : V) (d : list (key * V)) : list (key * V) :=
  match d with
  | [] => [(k, v)]
  | (k', v') :: r => if key_eqb k k' then (k', v) :: r else (k', v') :: dict_set k v r
  end.
(* d.setdefault(k, []).extend(v) *)
Fixpoint dict_extend {A} (k : key) (v : list A) (d : list (key * list A)) : list (key * list A) :=
  match d with
  | [] => [(k, v)]
  | (k', v') :: r => if key_eqb k k' then (k', v' ++ v) :: r else (k', v') :: dict_extend k v r
  end.

(** pinned tree: [cells = dict(t for t in args if isinstance(t, tuple))] *)
Definition group_pinned (bs : list block) : list block := fold_left (fun d b => dict_set (fst b) (snd b) d) bs [].
(** fixed: [for n, es in blocks: cells.setdefault(n, []).extend(es)] *)
Definition group (bs : list block) : list block := fold_left (fun d b => dict_extend (fst b) (snd b) d) bs [].

Record delayfile := { df_name : option string; df_ic : option (list entry); df_cells : list (string * list entry) }.
(* DelayFile.__init__: _interconnects = cells.get(None); cells = the entries with a truthy name *)
Definition named_cells (cells : list block) : list (string * list entry) :=
  flat_map (fun kv => match fst kv with
                      | Some EmptyString => []
                      | Some s => [(s, snd kv)]
                      | None => [] end) cells.
Definition mk_delayfile (name : option string) (cells : list block) : delayfile :=
  {| df_name := name; df_ic := dict_get None cells; df_cells := named_cells cells |}.

Fixpoint first_sname (args : list tsarg) : option string :=
  match args with [] => None | SName s :: _ => Some s | _ :: r => first_sname r end.
Definition start_cells (args : list tsarg) : list (list tcarg) :=
  flat_map (fun a => match a with SCell c => [c] | SName _ => [] end) args.
Definition blocks_of (args : list tsarg) : res (list block) := map_res cell_cb (start_cells args).
Definition start_with (g : list block -> list block) (args : list tsarg) : res delayfile :=
  bind (blocks_of args) (fun bs => Ok (mk_delayfile (first_sname args) (g bs))).
Definition start_cb := start_with group.
Definition start_cb_pinned := start_with group_pinned.

(** what a file says about one instance: the entries of all its blocks, in file order *)
Definition entries_of (k : key) (bs : list block) : list entry :=
  flat_map (fun b => if key_eqb k (fst b) then snd b else []) bs.
Definition has_block (k : key) (bs : list block) : bool := existsb (fun b => key_eqb k (fst b)) bs.
Definition key_mem (k : key) (ks : list key) : bool := existsb (key_eqb k) ks.
(** keys in order of first occurrence (dict insertion order) *)
Definition first_occ (ks : list key) : list key :=
  fold_left (fun acc k => if key_mem k acc then acc else acc ++ [k]) ks [].

(** * String processing *)
Definition bslash : ascii := ascii_of_nat 92.
Definition slash : ascii := ascii_of_nat 47.
Definition rparen : ascii := ascii_of_nat 41.
(* s.replace(c, '') *)
Fixpoint remove_char (c : ascii) (s : string) : string :=
  match s with
  | EmptyString => EmptyString
  | String x r => if Ascii.eqb x c then remove_char c r else String x (remove_char c r)
  end.
Definition strip_bs := remove_char bslash.
(* s.split(c) *)
Fixpoint split_on (c : ascii) (s : string) : list string :=
  match s with
  | EmptyString => [EmptyString]
  | String x r =>
      if Ascii.eqb x c then EmptyString :: split_on c r
      else match split_on c r with p :: ps => String x p :: ps | [] => [String x EmptyString] end
  end.
(* cn, pn = n.split('/') if '/' in n else (n, None) *)
Definition split_pin (n : string) : res (string * option string) :=
  match split_on slash n with
  | [a] => Ok (a, None)
  | [a; b] => Ok (a, Some b)
  | _ => Err
  end.

(* longest prefix without ")" and, if a ")" follows, the rest after it *)
Fixpoint span_rparen (s : string) : string * option string :=
  match s with
  | EmptyString => (EmptyString, None)
  | String x r => if Ascii.eqb x rparen then (EmptyString, Some r)
                  else let '(p, q) := span_rparen r in (String x p, q)
  end.
Fixpoint drop_prefix (p s : string) : option string :=
  match p with
  | EmptyString => Some s
  | String a p' => match s with
                   | String b s' => if Ascii.eqb a b then drop_prefix p' s' else None
                   | EmptyString => None
                   end
  end.
(* re.sub(r'\((neg|pos)edge ([^)]+)\)', r'\2', s): leftmost non-overlapping matches *)
Fixpoint re_sub_edge (fuel : nat) (s : string) : string :=
  match fuel with
  | O => s
  | S f =>
      match s with
      | EmptyString => EmptyString
      | String x r =>
          let body := match drop_prefix "(posedge " s with
                      | Some b => Some b
                      | None => drop_prefix "(negedge " s end in
          match body with
          | Some b =>
              match span_rparen b with
              | (String y p, Some rest) => String y p ++ re_sub_edge f rest
              | _ => String x (re_sub_edge f r)
              end
          | None => String x (re_sub_edge f r)
          end
      end
  end.
Definition strip_edge (s : string) : string := re_sub_edge (S (String.length s)) s.
(* polarity indices of the IOPATH input: false = 0 = rising/posedge, true = 1 = falling/negedge *)
Definition pols_of (s : string) : list bool :=
  if prefix "(posedge " s then [false] else if prefix "(negedge " s then [true] else [false; true].

(** * Circuit view and pin table *)
Record circ := { cc_net : netlist; cc_cells : list (string * nat) }.   (* circuit.cells: name -> node index *)

(* self.cells[kind][1][pin][0]; a later definition of a name replaces an earlier one *)
Definition lib_cell (lib : list tcell) (kind : string) : option tcell :=
  find (fun c => existsb (String.eqb kind) (t_names c)) (rev lib).
Definition pin_index (lib : list tcell) (kind pin : string) : res nat :=
  match lib_cell lib kind with
  | None => Err
  | Some c => match pos_of pin (t_ins c) 0 with
              | Some i => Ok i
              | None => match pos_of pin (t_outs c) 0 with Some i => Ok i | None => Err end
              end
  end.

(** * Delay arrays *)
Definition dt := (Z * Z * Z)%type.           (* min, typ, max : the dataset axis *)
Definition dzero : dt := (0, 0, 0)%Z.
Definition darr := nat -> bool -> bool -> dt.   (* [line, input polarity, output polarity] *)
Definition azero : darr := fun _ _ _ => dzero.
(* d if len(d) > 0 else [0, 0, 0] *)
Definition nz (d : list Z) : list Z := match d with [] => [0; 0; 0]%Z | _ => d end.
Definition to_dt (d : list Z) : res dt := match d with [a; b; c] => Ok (a, b, c) | _ => Err end.

(** one assignment [delays[line, pols] = [r, f]] *)
Record write := { w_line : nat; w_pols : list bool; w_r : dt; w_f : dt }.
Definition hits (w : write) (l : nat) (ip : bool) : bool := Nat.eqb l (w_line w) && existsb (Bool.eqb ip) (w_pols w).
Definition wval (w : write) (op : bool) : dt := if op then w_f w else w_r w.
Definition apply (a : darr) (w : write) : darr :=
  fun l ip op => if hits w l ip then wval w op else a l ip op.
Definition mk_write (line : nat) (pols : list bool) (r f : list Z) : res (option write) :=
  bind (to_dt r) (fun r' => bind (to_dt f) (fun f' =>
    Ok (Some {| w_line := line; w_pols := pols; w_r := r'; w_f := f' |}))).

(** a loop body: resolve the entry to nothing (warning / continue), an assignment, or an exception *)
Definition step {E} (f : E -> res (option write)) (a : res darr) (e : E) : res darr :=
  match a with
  | Err => Err
  | Ok a' => match f e with Err => Err | Ok None => Ok a' | Ok (Some w) => Ok (apply a' w) end
  end.

(** * DelayFile.iopaths *)
Definition io_resolve (lib : list tcell) (cell : node) (e : entry) : res (option write) :=
  let pols := pols_of (e_a e) in
  let pin := strip_edge (e_a e) in
  bind (pin_index lib (n_kind cell) pin) (fun idx =>
    match nth_error (n_ins cell) idx with
    | None => Err                                   (* IndexError *)
    | Some None => Ok None                          (* 'No line to annotate' *)
    | Some (Some line) => mk_write line pols (nz (e_r e)) (nz (e_f e))
    end).

Definition iopaths_cell (c : circ) (lib : list tcell) (a : res darr) (ne : string * list entry) : res darr :=
  match assoc (strip_bs (fst ne)) (cc_cells c) with
  | Some i => fold_left (step (io_resolve lib (get_node (cc_net c) i))) (snd ne) a
  | None => a                                       (* 'Name from SDF not found in circuit' *)
  end.
Definition iopaths (c : circ) (lib : list tcell) (df : delayfile) : res darr :=
  fold_left (iopaths_cell c lib) (df_cells df) (Ok azero).

(** * DelayFile.interconnects *)
Fixpoint lex_gtb (a b : list Z) : bool :=       (* list comparison a > b *)
  match a, b with
  | [], _ => false
  | _ :: _, [] => true
  | x :: a', y :: b' => if Z.eqb x y then lex_gtb a' b' else Z.gtb x y
  end.
Definition py_max (l : list Z) : res Z := match l with [] => Err | x :: r => Ok (fold_left Z.max r x) end.
Definition is_fork (n : node) : bool := String.eqb (n_kind n) "__fork__".
Definition line_eqb (a b : line) : bool :=       (* Line.__eq__ ; nodes are equal iff same index (unique names) *)
  Nat.eqb (l_drv a) (l_drv b) && Nat.eqb (l_dpin a) (l_dpin b) && Nat.eqb (l_rdr a) (l_rdr b) && Nat.eqb (l_rpin a) (l_rpin b).
Definition opt_pin (lib : list tcell) (kind : string) (pn : option string) : res nat :=
  match pn with Some p => pin_index lib kind p | None => Ok 0 end.
Definition all_pols := [false; true].

Definition ic_line (net : netlist) (lo li : nat) : res (option nat) :=
  let i1 := l_rdr (get_line net lo) in
  let i2 := l_drv (get_line net li) in
  let f1 := get_node net i1 in
  let f2 := get_node net i2 in
  if negb (is_fork f1) then Err else
  if negb (is_fork f2) then Err else
  if negb (Nat.eqb i1 i2) then
    if negb (Nat.eqb (List.length (n_outs f2)) 1) then Err else
    match nth_error (n_ins f2) 0 with
    | Some (Some l0) =>
        match nth_error (n_outs f1) (l_dpin (get_line net l0)) with
        | Some (Some lx) => if line_eqb (get_line net lx) (get_line net l0) then Ok (Some l0) else Err
        | _ => Err
        end
    | _ => Err
    end
  else if Nat.eqb (List.length (n_outs f2)) 1 then
    match nth_error (n_ins f2) 0 with Some (Some l0) => Ok (Some l0) | _ => Err end
  else Ok None.                                    (* 'No branchfork to annotate' *)

Definition ic_skipped (r f : list Z) : res bool :=   (* max(max(delvals)) == 0 *)
  bind (py_max (if lex_gtb f r then f else r)) (fun m => Ok (Z.eqb m 0)).

Definition ic_resolve (c : circ) (lib : list tcell) (e : entry) : res (option write) :=
  let r := nz (e_r e) in
  let f := nz (e_f e) in
  bind (ic_skipped r f) (fun skip =>
  if skip then Ok None else
  bind (split_pin (e_a e)) (fun '(cn1, pn1) =>
  bind (split_pin (e_b e)) (fun '(cn2, pn2) =>
  match assoc (strip_bs cn1) (cc_cells c), assoc (strip_bs cn2) (cc_cells c) with
  | Some i1, Some i2 =>
      let c1 := get_node (cc_net c) i1 in
      let c2 := get_node (cc_net c) i2 in
      bind (opt_pin lib (n_kind c1) pn1) (fun p1 =>
      bind (opt_pin lib (n_kind c2) pn2) (fun p2 =>
      match nth_error (n_outs c1) p1 with
      | Some (Some lo) =>
          match nth_error (n_ins c2) p2 with
          | Some (Some li) =>
              bind (ic_line (cc_net c) lo li) (fun ol =>
              match ol with
              | Some line => mk_write line all_pols r f
              | None => Ok None
              end)
          | _ => Ok None                          (* 'No line to annotate pin' *)
          end
      | _ => Ok None
      end))
  | _, _ => Err                                    (* KeyError *)
  end))).

Definition interconnects (c : circ) (lib : list tcell) (df : delayfile) : res darr :=
  match df_ic df with
  | None => Err                                    (* iterating None *)
  | Some es => fold_left (step (ic_resolve c lib)) es (Ok azero)
  end.

(** * np.moveaxis(delays, -1, 0) and tabulation for comparison with the implementation *)
Definition dsel (d : nat) (v : dt) : Z := let '(a, b, c) := v in match d with 0 => a | 1 => b | _ => c end.
Definition result_at (a : darr) (d l : nat) (ip op : bool) : Z := dsel d (a l ip op).
Definition tab (n : nat) (a : darr) : list (list (list (list Z))) :=
  map (fun d => map (fun l => map (fun ip => map (fun op => result_at a d l ip op) all_pols) all_pols) (seq 0 n)) [0; 1; 2].

(** * whole pipeline from the tree *)
Definition sdf_iopaths (c : circ) (lib : list tcell) (t : list tsarg) : res darr :=
  bind (start_cb t) (iopaths c lib).
Definition sdf_interconnects (c : circ) (lib : list tcell) (t : list tsarg) : res darr :=
  bind (start_cb t) (interconnects c lib).

(** * comparison helpers for generated cases *)
Fixpoint leqb {A} (eqb : A -> A -> bool) (a b : list A) : bool :=
  match a, b with [], [] => true | x :: a', y :: b' => eqb x y && leqb eqb a' b' | _, _ => false end.
Definition entry_eqb (a b : entry) : bool :=
  Bool.eqb (e_io a) (e_io b) && String.eqb (e_a a) (e_a b) && String.eqb (e_b a) (e_b b) &&
  leqb Z.eqb (e_r a) (e_r b) && leqb Z.eqb (e_f a) (e_f b).
Definition oeqb {A} (eqb : A -> A -> bool) (a b : option A) : bool :=
  match a, b with Some x, Some y => eqb x y | None, None => true | _, _ => false end.
Definition df_eqb (a b : delayfile) : bool :=
  oeqb String.eqb (df_name a) (df_name b) && oeqb (leqb entry_eqb) (df_ic a) (df_ic b) &&
  leqb (fun x y => String.eqb (fst x) (fst y) && leqb entry_eqb (snd x) (snd y)) (df_cells a) (df_cells b).
Definition arr_eqb := leqb (leqb (leqb (leqb Z.eqb))).
Definition res_arr_ok (n : nat) (r : res darr) (exp : option (list (list (list (list Z))))) : bool :=
  match r, exp with Ok a, Some x => arr_eqb (tab n a) x | Err, None => true | _, _ => false end.

(** one case: the tree of the implementation's own parser, the circuit, what the implementation produced
    (DelayFile fields; iopaths / interconnects arrays or None if the call raised) *)
Definition sdf_case (t : list tsarg) (c : circ) (lib : list tcell)
           (exp_df : option delayfile) (exp_io exp_ic : option (list (list (list (list Z))))) : bool :=
  let n := List.length (c_lines (cc_net c)) in
  match start_cb t, exp_df with
  | Ok df, Some x => df_eqb df x && res_arr_ok n (iopaths c lib df) exp_io && res_arr_ok n (interconnects c lib df) exp_ic
  | Err, None => true
  | _, _ => false
  end.
(** the same against the pinned grouping (used to show which of the two variants a tree runs) *)
Definition sdf_case_pinned (t : list tsarg) (exp_df : option delayfile) : bool :=
  match start_cb_pinned t, exp_df with Ok df, Some x => df_eqb df x | Err, None => true | _, _ => false end.

Definition pin_case (lib : list tcell) (rows : list (string * string * nat)) : bool :=
  forallb (fun r => let '(k, p, i) := r in match pin_index lib k p with Ok j => Nat.eqb i j | Err => false end) rows.

(** * Specification vocabulary (used by the statements in Properties/C14.v) *)
(** application order of [iopaths]: the entries of the DelayFile, cell by cell *)
Definition io_items (cells : list (string * list entry)) : list (string * entry) :=
  flat_map (fun ne => map (fun e => (fst ne, e)) (snd ne)) cells.
(** what one (instance name, entry) does in [iopaths] *)
Definition io_resolve_item (c : circ) (lib : list tcell) (it : string * entry) : res (option write) :=
  match assoc (strip_bs (fst it)) (cc_cells c) with
  | Some i => io_resolve lib (get_node (cc_net c) i) (snd it)
  | None => Ok None
  end.
(** the assignments a loop performs, in order; [Err] if some entry raises *)
Fixpoint resolve_all {E} (f : E -> res (option write)) (es : list E) : res (list write) :=
  match es with
  | [] => Ok []
  | e :: r =>
      match f e with
      | Err => Err
      | Ok None => resolve_all f r
      | Ok (Some w) => match resolve_all f r with Ok ws => Ok (w :: ws) | Err => Err end
      end
  end.
(** the last assignment (in application order) that addresses [line l, input polarity ip] *)
Definition last_hit (ws : list write) (l : nat) (ip : bool) : option write := find (fun w => hits w l ip) (rev ws).
Definition slot_value (ws : list write) (l : nat) (ip op : bool) : dt :=
  match last_hit ws l ip with Some w => wval w op | None => dzero end.

Fixpoint str_forall (p : ascii -> bool) (s : string) : bool :=
  match s with EmptyString => true | String x r => p x && str_forall p r end.
Definition lparen : ascii := ascii_of_nat 40.
Definition no_rparen (s : string) : bool := str_forall (fun x => negb (Ascii.eqb x rparen)) s.
Definition no_lparen (s : string) : bool := str_forall (fun x => negb (Ascii.eqb x lparen)) s.

(** names of the instances of a file in dict order: first occurrence, truthy names only *)
Definition named_keys (ks : list key) : list string :=
  flat_map (fun k => match k with Some EmptyString => [] | Some s => [s] | None => [] end) ks.
