(** C10, library clause: a built-in library cell as a kyupy Circuit, one instance of it in a host circuit, and the
    executable check that resolve_tlib_cells preserves names, order and Boolean function.

    * [impl_of_tcell]: the implementation circuit exactly as TechLib.__init__ (techlib.py:66-88) builds it:
      bench.parse of the cell body (BenchTransformer, bench.py:16-32, callbacks in LALR reduction order: the
      [parameters] of a statement are elaborated before the statement itself) followed by eliminate_1to1_forks,
      expressed with the operations of Model/Circuit.v.
    * [host_of]: the one-instance host circuit of vcheck/props/C10.py:instance_circuit.
    * [resolved]: resolve_tlib_cells of the host with the cell's implementation.
    * [sim_env]/[obs]: 2-valued evaluation of a [circ] through [view] and the simulator's own schedule (SimOps.build_ops),
      observed where LogicSim captures (the line at input pin 0 of each output port / state element).
    * [resolve_ok]: the Boolean check.  Definitions only. *)
From Coq Require Import List Arith Bool String Ascii NArith.
From KV Require Model.Prims Model.Netlist Model.SimOps Model.AllocCheck Model.NetlistSem.
From KV Require Import Model.TechCell Model.Circuit Model.CircuitInv Model.CircuitView.
Import ListNotations.
Local Open Scope list_scope.

(** ** small helpers *)
Fixpoint list_eqb {A} (eqb : A -> A -> bool) (a b : list A) : bool :=
  match a, b with
  | [], [] => true
  | x :: a', y :: b' => eqb x y && list_eqb eqb a' b'
  | _, _ => false
  end.
Definition obool_eqb (a b : option bool) : bool :=
  match a, b with Some x, Some y => Bool.eqb x y | None, None => true | _, _ => false end.
Definition onat_eqb (a b : option nat) : bool :=
  match a, b with Some x, Some y => Nat.eqb x y | None, None => true | _, _ => false end.
Definition count_true (l : list bool) : nat := List.length (filter (fun b => b) l).
Definition all_true (n : nat) : list bool := repeat true n.
(* all pins connected except pin k *)
Definition all_but (n k : nat) : list bool := map (fun i => negb (Nat.eqb i k)) (seq 0 n).
(* the entries of [l] at the positions where [conn] is true *)
Fixpoint pick {A} (conn : list bool) (l : list A) : list A :=
  match conn, l with
  | true :: c, x :: r => x :: pick c r
  | false :: c, _ :: r => pick c r
  | _, _ => []
  end.
(* the values of the connected pins put back at their positions; every other position reads false *)
Fixpoint spread (conn : list bool) (vals : list bool) : list bool :=
  match conn with
  | [] => []
  | true :: c => match vals with v :: vs => v :: spread c vs | [] => false :: spread c [] end
  | false :: c => false :: spread c vals
  end.

(** ** bench.py: BenchTransformer on the edit model *)
(* parameters: [self.c.get_or_add_fork(str(name)) for name in args] *)
Definition forks_step (st : circ * list nat) (name : string) : option (circ * list nat) :=
  match get_or_add_fork (fst st) name with
  | Some (c', n) => Some (c', snd st ++ [n])
  | None => None
  end.
Definition forks_of (c : circ) (names : list string) : option (circ * list nat) := fold_opt forks_step names (c, []).

Definition bench_stmt (c : circ) (s : tstmt) : option circ :=
  match s with
  | TIn names | TOut names =>                      (* interface: self.c.io_nodes.extend(args[0]) *)
      match forks_of c names with
      | Some (c1, ns) => Some (with_io c1 (io c1 ++ map Some ns))
      | None => None
      end
  | TGate o k args =>                              (* assignment *)
      match forks_of c args with
      | None => None
      | Some (c1, drivers) =>
          match add_node c1 o k with               (* cell = Node(self.c, str(name), str(cell_type)) *)
          | None => None
          | Some (c2, cell) =>
              match get_or_add_fork c2 o with      (* Line(self.c, cell, self.c.get_or_add_fork(str(name))) *)
              | None => None
              | Some (c3, f) =>
                  let c4 := fst (add_line c3 cell None f None) in
                  Some (fold_left (fun c' d => fst (add_line c' d None cell None)) drivers c4)   (* for d in drivers: Line(self.c, d, cell) *)
              end
          end
      end
  end.
Definition bench_circ (l : list tstmt) : option circ := fold_opt bench_stmt l empty.

(** ** TechLib.__init__: c = bench.parse(...); c.eliminate_1to1_forks(); pin dict from io_nodes *)
Definition impl_of_tcell (cell : tcell) : option circ :=
  match bench_circ (t_stmts cell) with Some c => eliminate_1to1 c | None => None end.

(* pin_dict: io nodes without input line are the input pins (numbered in io order), the others the output pins *)
Definition io_ids (c : circ) : list nat := somes (io c).
Definition io_is_in (c : circ) (n : nat) : bool := List.length (ins_of c n) =? 0.
Definition impl_in_nodes (c : circ) : list nat := filter (io_is_in c) (io_ids c).
Definition impl_out_nodes (c : circ) : list nat := filter (fun n => negb (io_is_in c n)) (io_ids c).
Definition pin_names (c : circ) : list string * list string :=
  (map (name_of c) (impl_in_nodes c), map (name_of c) (impl_out_nodes c)).

(* the projections of the statement list *)
Definition stmts_ins (l : list tstmt) : list string := flat_map (fun s => match s with TIn n => n | _ => [] end) l.
Definition stmts_outs (l : list tstmt) : list string := flat_map (fun s => match s with TOut n => n | _ => [] end) l.
Definition stmts_gates (l : list tstmt) : list (string * string * list string) :=
  flat_map (fun s => match s with TGate o k a => [(o, k, a)] | _ => [] end) l.
Definition gate_eqb (a b : string * string * list string) : bool :=
  String.eqb (fst (fst a)) (fst (fst b)) && String.eqb (snd (fst a)) (snd (fst b)) && list_eqb String.eqb (snd a) (snd b).
Definition stmts_ok (cell : tcell) : bool :=
  list_eqb String.eqb (stmts_ins (t_stmts cell)) (t_ins cell) &&
  list_eqb String.eqb (stmts_outs (t_stmts cell)) (t_outs cell) &&
  list_eqb gate_eqb (stmts_gates (t_stmts cell)) (t_gates cell).

(** ** the host circuit (vcheck/props/C10.py:instance_circuit): Node u1 of the cell's kind; for every connected input pin
    `pi_X --> w_X --> (u1, idx)`, then for every connected output pin `(u1, idx) --> w_X --> po_X`; ports appended to io_nodes *)
Definition pi_ (s : string) : string := String.append "pi_" s.
Definition po_ (s : string) : string := String.append "po_" s.
Definition w_ (s : string) : string := String.append "w_" s.
Definition host_add_in (u : nat) (c : circ) (q : nat * (string * bool)) : option circ :=
  let '(idx, (name, conn)) := q in
  if conn then
    match add_node c (pi_ name) "input" with
    | None => None
    | Some (c1, i) =>
        match add_node c1 (w_ name) FORK with
        | None => None
        | Some (c2, f) =>
            let c3 := fst (add_line c2 i None f None) in
            let c4 := fst (add_line c3 f None u (Some idx)) in
            Some (with_io c4 (io c4 ++ [Some i]))
        end
    end
  else Some c.
Definition host_add_out (u : nat) (c : circ) (q : nat * (string * bool)) : option circ :=
  let '(idx, (name, conn)) := q in
  if conn then
    match add_node c (w_ name) FORK with
    | None => None
    | Some (c1, f) =>
        let c2 := fst (add_line c1 u (Some idx) f None) in
        match add_node c2 (po_ name) "output" with
        | None => None
        | Some (c3, o) =>
            let c4 := fst (add_line c3 f None o None) in
            Some (with_io c4 (io c4 ++ [Some o]))
        end
    end
  else Some c.
Definition pins_conn (names : list string) (conn : list bool) : list (nat * (string * bool)) :=
  combine (seq 0 (List.length names)) (combine names conn).
Definition host_of_pins (kind : string) (ins outs : list string) (ci co : list bool) : option (circ * nat) :=
  match add_node empty "u1" kind with
  | None => None
  | Some (c0, u) =>
      match fold_opt (host_add_in u) (pins_conn ins ci) c0 with
      | None => None
      | Some c1 => option_map (fun c2 => (c2, u)) (fold_opt (host_add_out u) (pins_conn outs co) c1)
      end
  end.
(* the instance carries the first name of the definition *)
Definition first_name (cell : tcell) : string := hd EmptyString (t_names cell).
Definition host_of (cell : tcell) (ci co : list bool) : option (circ * nat) :=
  host_of_pins (first_name cell) (t_ins cell) (t_outs cell) ci co.

(** ** resolving.  resolve_tlib_cells walks a snapshot of the node list and substitutes every node whose kind is a key of
    tlib.cells; [resolved] uses the one-entry table (kind -> impl) and [no_lib_kind] checks that no other node of the host or of
    the result carries any library name, so the one-entry table and the whole library give the same result. *)
Definition resolved (kind : string) (host impl : circ) : option circ := resolve_tlib host [(kind, impl)].
Definition substituted (host : circ) (u : nat) (impl : circ) : option circ := substitute host u impl.
Definition no_lib_kind (libnames : list string) (c : circ) : bool :=
  forallb (fun n => negb (existsb (String.eqb (kind_of c n)) libnames)) (nodes c).
Definition lib_names (lib : list tcell) : list string := flat_map t_names lib.

(** ** 2-valued evaluation of a netlist view with the simulator's schedule; [stim] is indexed by s_nodes position *)
Definition sim_env (v : Netlist.netlist) : list bool -> nat -> bool :=
  let ops := SimOps.build_ops v false in
  fun stim => AllocCheck.iexec NetlistSem.sem_lut (fun x => x) ops (NetlistSem.init_env false v (fun p => nth p stim false)).
(* what LogicSim captures for an s_node: the value of the line at its input pin 0 (c_to_s copies the PPO slot).  A state
   element whose data pin is unconnected has no capture slot; it is read as constant 0 like every unconnected input pin
   (NetlistSem.pinv), which is what the implementation circuit computes when the cell's data input pin reads 0. *)
Definition obs (v : Netlist.netlist) (env : nat -> bool) (i : nat) : bool :=
  match SimOps.pin (Netlist.n_ins (Netlist.get_node v i)) 0 with Some l => env l | None => false end.
(* state elements: s_nodes after the ports *)
Definition state_idx (v : Netlist.netlist) : list nat := skipn (List.length (Netlist.c_io v)) (Netlist.s_nodes v).
(* input pins of an implementation: io nodes without input line *)
Definition v_is_in (v : Netlist.netlist) (i : nat) : bool := List.length (Netlist.n_ins (Netlist.get_node v i)) =? 0.

(* stimulus of the implementation circuit: its io nodes in io order (input pins take the next value, output forks read false),
   then the state bits *)
Fixpoint impl_io_stim (isin : list bool) (vals : list bool) : list bool :=
  match isin with
  | [] => []
  | true :: r => hd false vals :: impl_io_stim r (tl vals)
  | false :: r => false :: impl_io_stim r vals
  end.

Definition canon_eqb (a b : option pstate) : bool :=
  match a, b with
  | Some (n1, l1, i1), Some (n2, l2, i2) =>
      list_eqb (fun x y => String.eqb (fst x) (fst y) && String.eqb (snd x) (snd y)) n1 n2 &&
      list_eqb (fun x y => let '(a1, b1, c1, d1) := x in let '(a2, b2, c2, d2) := y in
                           Nat.eqb a1 a2 && Nat.eqb b1 b2 && Nat.eqb c1 c2 && Nat.eqb d1 d2) l1 l2 &&
      list_eqb Nat.eqb i1 i2
  | None, None => true
  | _, _ => false
  end.

(** ** the check.  [fn_ok_v vi vr]: for ALL rows over (connected input pins ++ state elements): every connected output port
    and every next-state value of the resolved host [vr] equals that of the implementation circuit [vi] evaluated on its own
    with unconnected inputs reading 0; for combinational cells also the direct evaluation of the cell's gates
    ([TechCell.eval_out]).  The host's ports are (connected inputs ++ connected outputs) in pin order ([struct_ok]). *)
Definition fn_ok_v (cell : tcell) (vi vr : Netlist.netlist) (ci co : list bool) : bool :=
  let n_ci := count_true ci in
  let st_i := state_idx vi in
  let st_r := state_idx vr in
  let n_st := List.length st_i in
  let env_i := sim_env vi in
  let env_r := sim_env vr in
  let isin := map (v_is_in vi) (Netlist.c_io vi) in
  let outs_i := pick co (filter (fun i => negb (v_is_in vi i)) (Netlist.c_io vi)) in   (* implementation output forks of the connected pins *)
  let outs_r := skipn n_ci (Netlist.c_io vr) in                                        (* the host's output ports, same order *)
  let out_names := pick co (t_outs cell) in
  let comb := negb (cell_is_seq cell) in
  Nat.eqb (List.length st_r) n_st && Nat.eqb (List.length outs_r) (List.length outs_i) &&
  forallb (fun row =>
      let in_vals := firstn n_ci row in
      let sv := skipn n_ci row in
      let full := spread ci in_vals in
      let ei := env_i (impl_io_stim isin full ++ sv) in
      let er := env_r (in_vals ++ repeat false (List.length outs_r) ++ sv) in
      list_eqb Bool.eqb (map (obs vr er) outs_r) (map (obs vi ei) outs_i) &&
      list_eqb Bool.eqb (map (obs vr er) st_r) (map (obs vi ei) st_i) &&
      (if comb then list_eqb obool_eqb (map (fun n => Some (obs vr er n)) outs_r) (map (eval_out cell full) out_names) else true))
    (rows (n_ci + n_st)).
Definition fn_ok (cell : tcell) (impl r : circ) (ci co : list bool) : bool := fn_ok_v cell (view impl) (view r) ci co.

(* structural part, for an instance of kind [name] *)
Definition struct_ok (libnames : list string) (name : string) (cell : tcell) (impl host r : circ) (ci co : list bool) : bool :=
  cinv_b host && io_ok_b host && cinv_b r && io_ok_b r &&
  list_eqb onat_eqb (io r) (io host) &&                                       (* the same port objects in the same order *)
  list_eqb String.eqb (map (name_of r) (io_ids r)) (map pi_ (pick ci (t_ins cell)) ++ map po_ (pick co (t_outs cell))) &&
  list_eqb String.eqb (s_names r) (s_names host) &&                           (* names and order of ports and state elements *)
  no_lib_kind libnames r &&                                                   (* no library cell left *)
  negb (existsb (String.eqb "input") libnames) && negb (existsb (String.eqb "output") libnames) &&
  negb (existsb (String.eqb FORK) libnames).

(* facts about the definition alone *)
Definition impl_ok (cell : tcell) (impl : circ) : bool :=
  stmts_ok cell && cinv_b impl && io_ok_b impl &&
  list_eqb String.eqb (fst (pin_names impl)) (t_ins cell) && list_eqb String.eqb (snd (pin_names impl)) (t_outs cell).

(* the resolved host of an instance of kind [name] *)
Definition resolved_of (name : string) (cell : tcell) (impl : circ) (ci co : list bool) : option (circ * circ) :=
  match host_of_pins name (t_ins cell) (t_outs cell) ci co with
  | None => None
  | Some (host, u) => option_map (fun r => (host, r)) (resolved name host impl)
  end.

Definition resolve_ok_name (libnames : list string) (name : string) (cell : tcell) (ci co : list bool) : bool :=
  Nat.eqb (List.length ci) (List.length (t_ins cell)) && Nat.eqb (List.length co) (List.length (t_outs cell)) &&
  match impl_of_tcell cell with
  | None => false
  | Some impl =>
      impl_ok cell impl &&
      match resolved_of name cell impl ci co with
      | None => false
      | Some (host, r) => struct_ok libnames name cell impl host r ci co && fn_ok cell impl r ci co
      end
  end.

(* every expanded name of the definition *)
Definition resolve_ok (libnames : list string) (cell : tcell) (ci co : list bool) : bool :=
  forallb (fun name => resolve_ok_name libnames name cell ci co) (t_names cell).

Definition n_pins (cell : tcell) : nat := List.length (t_ins cell) + List.length (t_outs cell).
Definition conn_all (cell : tcell) : list bool * list bool :=
  (all_true (List.length (t_ins cell)), all_true (List.length (t_outs cell))).
(* pin k unconnected: k counts the input pins first, then the output pins *)
Definition conn_but (cell : tcell) (k : nat) : list bool * list bool :=
  let ni := List.length (t_ins cell) in
  let no := List.length (t_outs cell) in
  if Nat.ltb k ni then (all_but ni k, all_true no) else (all_true ni, all_but no (k - ni)).
Definition conn_no_out (cell : tcell) : list bool * list bool :=
  (all_true (List.length (t_ins cell)), repeat false (List.length (t_outs cell))).

(** ** the same check with the function part evaluated once per definition: all names of a pattern share the implementation,
    and the resolved hosts of two names have the same netlist view (checked by [netlist_eqb]); [excl] marks the names that are
    excepted (known findings).  [Proofs/CellCircuitProofs.v: resolve_fast_sound] *)
Definition opin_eqb := list_eqb onat_eqb.
Definition vnode_eqb (a b : Netlist.node) : bool :=
  String.eqb (Netlist.n_kind a) (Netlist.n_kind b) && opin_eqb (Netlist.n_ins a) (Netlist.n_ins b) &&
  opin_eqb (Netlist.n_outs a) (Netlist.n_outs b).
Definition vline_eqb (a b : Netlist.line) : bool :=
  Nat.eqb (Netlist.l_drv a) (Netlist.l_drv b) && Nat.eqb (Netlist.l_dpin a) (Netlist.l_dpin b) &&
  Nat.eqb (Netlist.l_rdr a) (Netlist.l_rdr b) && Nat.eqb (Netlist.l_rpin a) (Netlist.l_rpin b).
Definition netlist_eqb (a b : Netlist.netlist) : bool :=
  list_eqb vnode_eqb (Netlist.c_nodes a) (Netlist.c_nodes b) && list_eqb vline_eqb (Netlist.c_lines a) (Netlist.c_lines b) &&
  list_eqb Nat.eqb (Netlist.c_io a) (Netlist.c_io b).

Definition resolve_fast (libnames : list string) (excl : string -> bool) (cell : tcell) (ci co : list bool) : bool :=
  Nat.eqb (List.length ci) (List.length (t_ins cell)) && Nat.eqb (List.length co) (List.length (t_outs cell)) &&
  match impl_of_tcell cell with
  | None => false
  | Some impl =>
      impl_ok cell impl &&
      match find (fun n => negb (excl n)) (t_names cell) with
      | None => true                                              (* every name of the definition is excepted *)
      | Some n0 =>
          match resolved_of n0 cell impl ci co with
          | None => false
          | Some (_, r0) =>
              let v0 := view r0 in
              fn_ok_v cell (view impl) v0 ci co &&
              forallb (fun name => if excl name then true else              (* [if]: not evaluated for excepted names *)
                         match resolved_of name cell impl ci co with
                         | None => false
                         | Some (host, r) => struct_ok libnames name cell impl host r ci co && netlist_eqb (view r) v0
                         end) (t_names cell)
          end
      end
  end.

Definition resolve_ok_all_connected (libnames : list string) (cell : tcell) : bool :=
  resolve_ok libnames cell (fst (conn_all cell)) (snd (conn_all cell)).
Definition resolve_ok_one_unconnected (libnames : list string) (cell : tcell) (k : nat) : bool :=
  resolve_ok libnames cell (fst (conn_but cell k)) (snd (conn_but cell k)).
Definition resolve_ok_no_output (libnames : list string) (cell : tcell) : bool :=
  resolve_ok libnames cell (fst (conn_no_out cell)) (snd (conn_no_out cell)).

(** ** the exceptions: known findings of /verif/known_findings.json, property C10 *)
(* D15: latch cells whose kind name does not contain 'latch': resolving ADDS a state element (keys
   resolve:GSC180:(TLATX1|TLATSRX1):adds-state, resolve:NANGATE(_ZN)?:(TLAT_X1|DLH_X[12]|DLL_X[12]):adds-state) *)
Definition d15_GSC180 : list string := ["TLATX1"; "TLATSRX1"]%string.
Definition d15_NANGATE : list string := ["TLAT_X1"; "DLH_X1"; "DLH_X2"; "DLL_X1"; "DLL_X2"]%string.
Definition d15_none : list string := [].
Definition is_d15 (d15 : list string) (name : string) : bool := existsb (String.eqb name) d15.
(* D22: AND3/AND4/NAND3/NAND4 instance whose HIGHEST input pin is the unconnected one (key
   resolve:<lib>:N?AND[34]<anything>:variadic-high-pin-unconnected) *)
Definition is_d22 (name : string) (cell : tcell) (k : nat) : bool :=
  (String.prefix "AND3" name || String.prefix "AND4" name || String.prefix "NAND3" name || String.prefix "NAND4" name) &&
  Nat.eqb (S k) (List.length (t_ins cell)).
(* D21: a flip-flop / latch instance none of whose output pins is connected loses its state element (key
   resolve:<lib>:<cell>:drops-state-without-outputs) *)
Definition is_d21 (cell : tcell) : bool := cell_is_seq cell.

(** ** whole-library checks (evaluated by vm_compute in Proofs/CellLib*.v) *)
Definition lib_all_fast (lib : list tcell) (d15 : list string) : bool :=
  let names := lib_names lib in
  forallb (fun cell => resolve_fast names (is_d15 d15) cell (fst (conn_all cell)) (snd (conn_all cell))) lib.
(* every single pin unconnected: instances carrying the FIRST name of the definition (the dependence on the name is the subject
   of the all-connected and no-output sweeps, which run over every name) *)
Definition not_first (cell : tcell) (name : string) : bool := negb (String.eqb name (first_name cell)).
Definition lib_one_fast (lib : list tcell) (d15 : list string) : bool :=
  let names := lib_names lib in
  forallb (fun cell => forallb (fun k => resolve_fast names (fun name => not_first cell name || is_d15 d15 name || is_d22 name cell k) cell
                                                      (fst (conn_but cell k)) (snd (conn_but cell k))) (seq 0 (n_pins cell))) lib.
Definition lib_noout_fast (lib : list tcell) : bool :=
  let names := lib_names lib in
  forallb (fun cell => resolve_fast names (fun _ => is_d21 cell) cell (fst (conn_no_out cell)) (snd (conn_no_out cell))) lib.
(* every excepted instance really fails the check *)
Definition lib_all_refuted (lib : list tcell) (d15 : list string) : bool :=
  let names := lib_names lib in
  forallb (fun cell => forallb (fun name => if is_d15 d15 name
                                            then negb (resolve_ok_name names name cell (fst (conn_all cell)) (snd (conn_all cell)))
                                            else true) (t_names cell)) lib.
Definition lib_one_refuted (lib : list tcell) (d15 : list string) : bool :=
  let names := lib_names lib in
  forallb (fun cell => forallb (fun k => forallb (fun name =>
      if is_d15 d15 name || is_d22 name cell k
      then negb (resolve_ok_name names name cell (fst (conn_but cell k)) (snd (conn_but cell k))) else true) (t_names cell))
    (seq 0 (n_pins cell))) lib.
Definition lib_noout_refuted (lib : list tcell) : bool :=
  let names := lib_names lib in
  forallb (fun cell => forallb (fun name =>
      if is_d21 cell then negb (resolve_ok_name names name cell (fst (conn_no_out cell)) (snd (conn_no_out cell))) else true)
    (t_names cell)) lib.

(** ** non-vacuity of the library theorems: instances inside / outside the exceptions exist in a library *)
Definition wit_seq (d15 : list string) (cell : tcell) (name : string) : bool :=        (* non-excepted sequential cell, >= 4 inputs, 2 outputs *)
  negb (is_d15 d15 name) && cell_is_seq cell && Nat.leb 4 (List.length (t_ins cell)) && Nat.leb 2 (List.length (t_outs cell)).
Definition wit_comb (d15 : list string) (cell : tcell) (name : string) : bool :=       (* non-excepted multi-gate combinational cell, >= 5 inputs *)
  negb (is_d15 d15 name) && negb (cell_is_seq cell) && Nat.leb 5 (List.length (t_ins cell)) && Nat.leb 2 (List.length (t_gates cell)).
Definition wit_d22 (cell : tcell) (name : string) : bool :=
  existsb (fun k => is_d22 name cell k) (seq 0 (n_pins cell)).
Definition lib_has (lib : list tcell) (p : tcell -> string -> bool) : bool :=
  existsb (fun cell => existsb (p cell) (t_names cell)) lib.
