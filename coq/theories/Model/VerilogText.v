(** TEXT level of the Verilog front end: an executable transcription of what
    `Lark(verilog.GRAMMAR, parser="lalr")` (verilog.py:219-242, lark 0.12, contextual lexer) accepts and of the raw
    tree it builds, followed by the child callbacks of VerilogTransformer (name, range, sigsel, concat, declaration,
    namedpin, instantiation: Model/VerilogElab.v, Model/VerilogModule.v) that turn the raw tree into what
    VerilogTransformer.module receives (Model/VerilogModule.v [vmodule]).

      start: (module)*
      module: "module" name parameters ";" (_statement)* "endmodule"
      parameters: "(" [ _namelist ] ")"
      _statement: input | output | inout | tri | wire | assign | instantiation
      input: "input" range? _namelist ";"          (output, inout, tri, wire alike)
      assign: "assign" sigsel "=" sigsel ";"
      instantiation: name name "(" [ pin ( "," pin )* ] ")" ";"
      pin: namedpin | sigsel                       namedpin: "." name "(" sigsel? ")"
      range: "[" /[0-9]+/ (":" /[0-9]+/)? "]"
      sigsel: name range? | concat                 concat: "{" sigsel ( "," sigsel )*  "}"
      _namelist: name ( "," name )*
      name: ( /[a-z_][a-z0-9_]*/i | /\\[^\t \r\n]+[\t \r\n]/i | /[0-9]+'[bdh][0-9a-f]+/i )
      COMMENT: /\/\*(\*(?!\/)|[^*])*\*\// | /\(\*(\*(?!\))|[^*])*\*\)/ |  "//" /[^\n]*/
      %ignore ( /\r?\n/ | COMMENT )+               %ignore /[\t \f]+/

    How lark lexes this grammar (read off lark/lexer.py, the terminal list and the LALR table, confirmed by running the real
    parser; harness/vlog_text.py keeps the probes and re-checks the table facts used here on every run).
    * The contextual lexer builds one scanner per parser state from the terminals acceptable there plus the two ignore
      terminals.  A scanner is ONE alternation in the order (priority, maximal width, length of the pattern source, name):
          IGNORE_0 = one or more of: block comment, attribute, "//" [^\n]* , \r?\n ;  sized constant, plain name,
          escaped name, IGNORE_1 = [\t \f]+ , /[0-9]+/ , then the string literals.
      Python takes the FIRST alternative that matches.  The non-ignored alternatives begin with pairwise different
      characters, so the order matters only for lpar-star: an attribute wherever a complete one can be read, else "(".
    * The eight keyword strings match the plain-name pattern completely, so lark removes them from every scanner that
      contains that pattern and re-types a name token whose WHOLE text is a keyword ACCEPTABLE IN THE PARSER STATE (case
      sensitive).  Hence a keyword is a keyword only at the beginning of a statement (input output inout tri wire assign
      endmodule; `module` there is a NAME: `module b ();` inside a module is an instantiation of a cell called module) and
      everywhere else an ordinary name (`input input;`, `module input (wire);`).  At top level only the literal "module"
      is acceptable and no name pattern is in the scanner: there it is a plain prefix (`modulem();endmodule`,
      `module1'b0();endmodule` are accepted).
    * The parser state in which a token is scanned is determined by the previous token ([mode_after]): top level at the
      start and after `endmodule`; statement start after ";"; digits only (/[0-9]+/) after "[" and ":"; otherwise a state
      whose acceptable terminals are names and punctuation.  Scanning a terminal that the state does not accept raises in
      lark and yields a token the parser rejects here: the same texts are rejected.
    * ignored: "\n", "\r\n" (a lone "\r" raises), tab, blank, form feed (vertical tab raises), a block comment up to the
      first star-slash (so slash-star-slash is not a comment), an attribute up to the first star-parenthesis from the third
      character on (lpar-star-rpar is not an attribute, lpar-star-rpar-blank-star-rpar is one), and "//" up to the next
      "\n" or the end of the text (a "\r" in front of that "\n" belongs to the comment; the "\n" is then ignored by the line
      break alternative).  Before the repair (NEWLINE was mandatory after the comment) a text ending in a "//" comment without
      line break raised.
    * an escaped name extends to the first tab / blank / "\r" / "\n" and KEEPS that character (VerilogTransformer.name
      removes the backslash and the last character); at the end of the text it is not a token.  A sized constant takes
      the longest run of hexadecimal digits, for every base: "1'b0f" is one token, "1'b0x" is "1'b0" followed by "x".
    Domain of the model: texts whose code points are < 256 (one Coq [ascii] per code point).  Outside it Python's
    re.IGNORECASE makes U+0130, U+0131, U+017F and U+212A name characters; not modelled.

    [None] = lark raises (UnexpectedCharacters / UnexpectedToken / UnexpectedEOF).  Definitions only. *)
From Coq Require Import List ZArith NArith Bool Arith String Ascii.
From KV Require Model.VerilogElab Model.VerilogModule.
From KV Require Import Model.Circuit.
Import ListNotations.
Local Open Scope list_scope.
Module VE := KV.Model.VerilogElab.
Module VM := KV.Model.VerilogModule.

(** * The raw tree (names and numbers as token texts) *)
Inductive dkind := DInput | DOutput | DInout | DTri | DWire.
Inductive trange := TRange (l : string) (r : option string).
Inductive tsig := TSel (n : string) (r : option trange) | TConcat (l : list tsig).
Inductive tpin := TNamed (n : string) (s : option tsig) | TPos (s : tsig).
Inductive tstmt :=
| TDecl (k : dkind) (r : option trange) (ns : list string)
| TAssign (a b : tsig)
| TInst (ty nm : string) (pins : list tpin).
Record tmodule := mkT { t_name : string; t_params : list string; t_stmts : list tstmt }.

(** * Tokens *)
Inductive skw := KDecl (d : dkind) | KAssign.
Inductive vtok :=
| TModule | TEndmodule | TKw (k : skw)
| TName (s : string)                  (* the text of a plain / escaped / sized-constant name token *)
| TNum (s : string)                   (* /[0-9]+/ *)
| TSemi | TLpar | TRpar | TEq | TComma | TDot | TColon | TLsqb | TRsqb | TLbrace | TRbrace.

(** * characters *)
Definition c_tab : ascii := ascii_of_N 9.
Definition c_nl : ascii := ascii_of_N 10.
Definition c_ff : ascii := ascii_of_N 12.
Definition c_cr : ascii := ascii_of_N 13.
Definition c_sp : ascii := ascii_of_N 32.
Definition c_quote : ascii := ascii_of_N 39.
Definition c_lpar : ascii := ascii_of_N 40.
Definition c_rpar : ascii := ascii_of_N 41.
Definition c_star : ascii := ascii_of_N 42.
Definition c_slash : ascii := ascii_of_N 47.
Definition c_bsl : ascii := ascii_of_N 92.

Definition in_rng (lo hi : N) (c : ascii) : bool := let n := N_of_ascii c in ((lo <=? n) && (n <=? hi))%N.
Definition is_digit (c : ascii) : bool := in_rng 48 57 c.
Definition is_alpha_ (c : ascii) : bool := in_rng 65 90 c || in_rng 97 122 c || Ascii.eqb c "_".      (* [a-z_] /i *)
Definition is_wordc (c : ascii) : bool := is_alpha_ c || is_digit c.                                   (* [a-z0-9_] /i *)
Definition is_hex (c : ascii) : bool := is_digit c || in_rng 65 70 c || in_rng 97 102 c.              (* [0-9a-f] /i *)
Definition is_base (c : ascii) : bool :=                                                               (* [bdh] /i *)
  Ascii.eqb c "b" || Ascii.eqb c "d" || Ascii.eqb c "h" || Ascii.eqb c "B" || Ascii.eqb c "D" || Ascii.eqb c "H".
Definition is_ws4 (c : ascii) : bool := Ascii.eqb c c_tab || Ascii.eqb c c_sp || Ascii.eqb c c_cr || Ascii.eqb c c_nl.   (* [\t \r\n] *)
Definition not_ws4 (c : ascii) : bool := negb (is_ws4 c).
Definition is_blank (c : ascii) : bool := Ascii.eqb c c_tab || Ascii.eqb c c_sp || Ascii.eqb c c_ff.  (* [\t \f] *)

(* greedy character class: (maximal prefix, rest) *)
Fixpoint span (p : ascii -> bool) (s : string) : string * string :=
  match s with
  | EmptyString => (EmptyString, EmptyString)
  | String c r => if p c then (let '(a, b) := span p r in (String c a, b)) else (EmptyString, s)
  end.
Fixpoint sall (p : ascii -> bool) (s : string) : bool :=
  match s with EmptyString => true | String c r => p c && sall p r end.
Definition nonempty (s : string) : bool := match s with EmptyString => false | _ => true end.
Fixpoint drop_prefix (p s : string) : option string :=
  match p with
  | EmptyString => Some s
  | String a p' => match s with
                   | String b s' => if Ascii.eqb a b then drop_prefix p' s' else None
                   | EmptyString => None
                   end
  end.

(** * ignored text: the maximal prefix made of IGNORE_0 / IGNORE_1 matches is removed.  Inside a block comment / attribute the
    scanner runs to its end; if the text ends first the opening characters are not ignorable in lark and nothing else matches "/"
    (resp. nothing matches the "*" after "("): lark raises, here [None].  A "//" comment ends in front of the next "\n" (which
    the line break alternative then removes) or at the end of the text. *)
Inductive kst := K0 | KBlock (star : bool) | KAttr (star : bool) | KLine.
Fixpoint skip_go (k : kst) (s : string) : option string :=
  match s with
  | EmptyString => match k with K0 | KLine => Some EmptyString | _ => None end
  | String c r =>
      match k with
      | KLine => if Ascii.eqb c c_nl then skip_go K0 r else skip_go KLine r
      | KBlock st => if st && Ascii.eqb c c_slash then skip_go K0 r else skip_go (KBlock (Ascii.eqb c c_star)) r
      | KAttr st => if st && Ascii.eqb c c_rpar then skip_go K0 r else skip_go (KAttr (Ascii.eqb c c_star)) r
      | K0 =>
          if is_blank c || Ascii.eqb c c_nl then skip_go K0 r
          else if Ascii.eqb c c_cr then
            match r with
            | String d r' => if Ascii.eqb d c_nl then skip_go K0 r' else Some (String c r)
            | EmptyString => Some (String c r)
            end
          else if Ascii.eqb c c_slash then
            match r with
            | String d r' => if Ascii.eqb d c_star then skip_go (KBlock false) r'
                             else if Ascii.eqb d c_slash then skip_go KLine r'
                             else Some (String c r)
            | EmptyString => Some (String c r)
            end
          else if Ascii.eqb c c_lpar then
            match r with
            | String d r' => if Ascii.eqb d c_star then skip_go (KAttr false) r' else Some (String c r)
            | EmptyString => Some (String c r)
            end
          else Some (String c r)
      end
  end.
Definition skip_ign : string -> option string := skip_go K0.

(** * one token in a parser state *)
Inductive lmode := LTop | LStmt | LNum | LGen.
Definition mode_after (t : vtok) : lmode :=
  match t with TEndmodule => LTop | TSemi => LStmt | TLsqb | TColon => LNum | _ => LGen end.

Local Open Scope string_scope.
Definition kw_text (k : skw) : string :=
  match k with
  | KDecl DInput => "input" | KDecl DOutput => "output" | KDecl DInout => "inout" | KDecl DTri => "tri" | KDecl DWire => "wire"
  | KAssign => "assign"
  end.
(* the name token [w] at the beginning of a statement *)
Definition stmt_word (w : string) : vtok :=
  if String.eqb w "input" then TKw (KDecl DInput) else if String.eqb w "output" then TKw (KDecl DOutput)
  else if String.eqb w "inout" then TKw (KDecl DInout) else if String.eqb w "tri" then TKw (KDecl DTri)
  else if String.eqb w "wire" then TKw (KDecl DWire) else if String.eqb w "assign" then TKw KAssign
  else if String.eqb w "endmodule" then TEndmodule else TName w.
Definition is_stmt_kw (w : string) : bool := match stmt_word w with TName _ => false | _ => true end.
Local Close Scope string_scope.

Definition punct (c : ascii) : option vtok :=
  match N_of_ascii c with
  | 59%N => Some TSemi | 40%N => Some TLpar | 41%N => Some TRpar | 61%N => Some TEq | 44%N => Some TComma | 46%N => Some TDot
  | 58%N => Some TColon | 91%N => Some TLsqb | 93%N => Some TRsqb | 123%N => Some TLbrace | 125%N => Some TRbrace
  | _ => None
  end.
Definition chr (c : ascii) : string := String c EmptyString.

Definition scan_tok (m : lmode) (s : string) : option (vtok * string) :=
  match s with
  | EmptyString => None
  | String c r =>
      match m with
      | LTop => match drop_prefix "module" s with Some r' => Some (TModule, r') | None => None end
      | LNum => if is_digit c then (let '(w, r') := span is_digit s in Some (TNum w, r')) else None
      | _ =>
          if is_alpha_ c then
            let '(w, r') := span is_wordc s in
            Some (match m with LStmt => stmt_word w | _ => TName w end, r')
          else if Ascii.eqb c c_bsl then
            match span not_ws4 r with
            | (String x b, String e r2) => Some (TName (String c (String x b ++ chr e)), r2)
            | _ => None
            end
          else if is_digit c then
            match span is_digit s with
            | (w, String q (String b r2)) =>
                if Ascii.eqb q c_quote && is_base b then
                  match span is_hex r2 with
                  | (String x h, r3) => Some (TName (w ++ String q (String b (String x h))), r3)
                  | _ => None
                  end
                else None
            | _ => None
            end
          else match punct c with Some t => Some (t, r) | None => None end
      end
  end.

Definition ocons {A} (t : A) (o : option (list A)) : option (list A) :=
  match o with Some l => Some (t :: l) | None => None end.

(* every token consumes at least one character: the length of the text (+1) is enough fuel *)
Fixpoint lex_go (fuel : nat) (m : lmode) (s : string) : option (list vtok) :=
  match fuel with
  | O => None
  | S f =>
      match skip_ign s with
      | None => None
      | Some EmptyString => Some []
      | Some s1 =>
          match scan_tok m s1 with
          | Some (t, r) => ocons t (lex_go f (mode_after t) r)
          | None => None
          end
      end
  end.
Definition lex (s : string) : option (list vtok) := lex_go (S (String.length s)) LTop s.

(** * parser (the grammar is LL(1) on the token stream; [k] is fuel: one unit per loop iteration / nesting level) *)
Definition p_range (ts : list vtok) : option (trange * list vtok) :=
  match ts with
  | TLsqb :: TNum a :: TRsqb :: r => Some (TRange a None, r)
  | TLsqb :: TNum a :: TColon :: TNum b :: TRsqb :: r => Some (TRange a (Some b), r)
  | _ => None
  end.
Definition p_orange (ts : list vtok) : option (option trange * list vtok) :=
  match ts with
  | TLsqb :: _ => match p_range ts with Some (g, r) => Some (Some g, r) | None => None end
  | _ => Some (None, ts)
  end.
(* [tl = false]: one sigsel (a singleton list);  [tl = true]: ( "," sigsel )* "}" *)
Fixpoint p_sg (k : nat) (tl : bool) (ts : list vtok) : option (list tsig * list vtok) :=
  match k with
  | O => None
  | S f =>
      if tl then
        match ts with
        | TRbrace :: r => Some ([], r)
        | TComma :: r =>
            match p_sg f false r with
            | Some (s, r1) => match p_sg f true r1 with Some (l, r2) => Some (s ++ l, r2) | None => None end
            | None => None
            end
        | _ => None
        end
      else
        match ts with
        | TName n :: r => match p_orange r with Some (g, r') => Some ([TSel n g], r') | None => None end
        | TLbrace :: r =>
            match p_sg f false r with
            | Some (s, r1) => match p_sg f true r1 with Some (l, r2) => Some ([TConcat (s ++ l)], r2) | None => None end
            | None => None
            end
        | _ => None
        end
  end.
Definition p_sig (k : nat) (ts : list vtok) : option (tsig * list vtok) :=
  match p_sg k false ts with Some ([s], r) => Some (s, r) | _ => None end.

(* ( "," name )* : stops in front of the first token that is not a comma *)
Fixpoint p_names (ts : list vtok) : option (list string * list vtok) :=
  match ts with
  | TComma :: TName n :: r => match p_names r with Some (l, r') => Some (n :: l, r') | None => None end
  | TComma :: _ => None
  | _ => Some ([], ts)
  end.

Definition p_pin (k : nat) (ts : list vtok) : option (tpin * list vtok) :=
  match ts with
  | TDot :: TName n :: TLpar :: TRpar :: r => Some (TNamed n None, r)
  | TDot :: TName n :: TLpar :: r =>
      match p_sig k r with Some (s, TRpar :: r') => Some (TNamed n (Some s), r') | _ => None end
  | _ => match p_sig k ts with Some (s, r) => Some (TPos s, r) | None => None end
  end.
(* ( "," pin )* ")" *)
Fixpoint p_pins (k : nat) (ts : list vtok) : option (list tpin * list vtok) :=
  match k with
  | O => None
  | S f =>
      match ts with
      | TRpar :: r => Some ([], r)
      | TComma :: r =>
          match p_pin f r with
          | Some (p, r1) => match p_pins f r1 with Some (l, r2) => Some (p :: l, r2) | None => None end
          | None => None
          end
      | _ => None
      end
  end.

Definition p_stmt (k : nat) (ts : list vtok) : option (tstmt * list vtok) :=
  match ts with
  | TKw (KDecl d) :: r =>
      match p_orange r with
      | Some (g, TName n :: r1) =>
          match p_names r1 with Some (ns, TSemi :: r2) => Some (TDecl d g (n :: ns), r2) | _ => None end
      | _ => None
      end
  | TKw KAssign :: r =>
      match p_sig k r with
      | Some (a, TEq :: r1) => match p_sig k r1 with Some (b, TSemi :: r2) => Some (TAssign a b, r2) | _ => None end
      | _ => None
      end
  | TName ty :: TName nm :: TLpar :: TRpar :: TSemi :: r => Some (TInst ty nm [], r)
  | TName ty :: TName nm :: TLpar :: r =>
      match p_pin k r with
      | Some (p, r1) => match p_pins k r1 with Some (l, TSemi :: r2) => Some (TInst ty nm (p :: l), r2) | _ => None end
      | None => None
      end
  | _ => None
  end.
(* (_statement)* "endmodule" *)
Fixpoint p_stmts (k : nat) (ts : list vtok) : option (list tstmt * list vtok) :=
  match k with
  | O => None
  | S f =>
      match ts with
      | TEndmodule :: r => Some ([], r)
      | _ => match p_stmt f ts with
             | Some (s, r1) => match p_stmts f r1 with Some (l, r2) => Some (s :: l, r2) | None => None end
             | None => None
             end
      end
  end.
Definition p_params (ts : list vtok) : option (list string * list vtok) :=
  match ts with
  | TLpar :: TRpar :: r => Some ([], r)
  | TLpar :: TName n :: r => match p_names r with Some (l, TRpar :: r') => Some (n :: l, r') | _ => None end
  | _ => None
  end.
Definition p_module (k : nat) (ts : list vtok) : option (tmodule * list vtok) :=
  match ts with
  | TModule :: TName n :: r =>
      match p_params r with
      | Some (ps, TSemi :: r1) => match p_stmts k r1 with Some (l, r2) => Some (mkT n ps l, r2) | None => None end
      | _ => None
      end
  | _ => None
  end.
Fixpoint p_modules (k : nat) (ts : list vtok) : option (list tmodule) :=
  match ts with
  | [] => Some []
  | _ => match k with
         | O => None
         | S f => match p_module f ts with
                  | Some (m, r) => match p_modules f r with Some l => Some (m :: l) | None => None end
                  | None => None
                  end
         end
  end.
Definition parse_toks (ts : list vtok) : option (list tmodule) := p_modules (S (List.length ts)) ts.

(** the children of lark's [start] tree; [None] = lark raises *)
Definition parse_verilog (s : string) : option (list tmodule) :=
  match lex s with Some ts => parse_toks ts | None => None end.

(** * token stream of a tree *)
Fixpoint sep_by {A} (c : A) (l : list (list A)) : list A :=
  match l with [] => [] | [x] => x | x :: r => x ++ c :: sep_by c r end.
Definition toks_range (g : trange) : list vtok :=
  match g with
  | TRange a None => [TLsqb; TNum a; TRsqb]
  | TRange a (Some b) => [TLsqb; TNum a; TColon; TNum b; TRsqb]
  end.
Definition toks_orange (g : option trange) : list vtok := match g with Some x => toks_range x | None => [] end.
Fixpoint toks_sig (s : tsig) : list vtok :=
  match s with
  | TSel n g => TName n :: toks_orange g
  | TConcat l => TLbrace :: sep_by TComma (map toks_sig l) ++ [TRbrace]
  end.
Definition toks_names (l : list string) : list vtok := sep_by TComma (map (fun n => [TName n]) l).
Definition toks_pin (p : tpin) : list vtok :=
  match p with
  | TNamed n None => [TDot; TName n; TLpar; TRpar]
  | TNamed n (Some s) => TDot :: TName n :: TLpar :: toks_sig s ++ [TRpar]
  | TPos s => toks_sig s
  end.
Definition toks_stmt (s : tstmt) : list vtok :=
  match s with
  | TDecl d g ns => TKw (KDecl d) :: toks_orange g ++ toks_names ns ++ [TSemi]
  | TAssign a b => TKw KAssign :: toks_sig a ++ TEq :: toks_sig b ++ [TSemi]
  | TInst ty nm pins => TName ty :: TName nm :: TLpar :: sep_by TComma (map toks_pin pins) ++ [TRpar; TSemi]
  end.
Definition toks_module (m : tmodule) : list vtok :=
  TModule :: TName (t_name m) :: TLpar :: toks_names (t_params m) ++ TRpar :: TSemi :: flat_map toks_stmt (t_stmts m) ++ [TEndmodule].
Definition toks_tree (l : list tmodule) : list vtok := flat_map toks_module l.

(** * well-formed trees: exactly the trees lark can produce *)
Definition name_plain (s : string) : bool :=
  match s with String c r => is_alpha_ c && sall is_wordc r | EmptyString => false end.
Definition name_esc (s : string) : bool :=
  match s with
  | String c r => Ascii.eqb c c_bsl &&
                  match span not_ws4 r with (String _ _, String e EmptyString) => is_ws4 e | _ => false end
  | EmptyString => false
  end.
Definition name_sized (s : string) : bool :=
  match span is_digit s with
  | (String _ _, String q (String b h)) => Ascii.eqb q c_quote && is_base b && nonempty h && sall is_hex h
  | _ => false
  end.
Definition wf_name (s : string) : bool := name_plain s || name_esc s || name_sized s.
Definition wf_num (s : string) : bool := nonempty s && sall is_digit s.
Definition wf_range (g : trange) : bool :=
  match g with TRange a None => wf_num a | TRange a (Some b) => wf_num a && wf_num b end.
Definition wf_orange (g : option trange) : bool := match g with Some x => wf_range x | None => true end.
Fixpoint wf_sig (s : tsig) : bool :=
  match s with
  | TSel n g => wf_name n && wf_orange g
  | TConcat l => (match l with [] => false | _ => true end) &&
                 (fix all (l : list tsig) : bool := match l with [] => true | x :: r => wf_sig x && all r end) l
  end.
Definition wf_pin (p : tpin) : bool :=
  match p with
  | TNamed n None => wf_name n
  | TNamed n (Some s) => wf_name n && wf_sig s
  | TPos s => wf_sig s
  end.
Definition wf_stmt (s : tstmt) : bool :=
  match s with
  | TDecl _ g ns => wf_orange g && (match ns with [] => false | _ => true end) && forallb wf_name ns
  | TAssign a b => wf_sig a && wf_sig b
  | TInst ty nm pins => wf_name ty && negb (is_stmt_kw ty) && wf_name nm && forallb wf_pin pins
  end.
Definition wf_module (m : tmodule) : bool :=
  wf_name (t_name m) && forallb wf_name (t_params m) && forallb wf_stmt (t_stmts m).
Definition wf_tree (l : list tmodule) : bool := forallb wf_module l.

(* the part of well-formedness the PARSER decides (the rest is decided by the lexer): no empty name list in a declaration, no
   empty concatenation *)
Fixpoint shape_sig (s : tsig) : bool :=
  match s with
  | TSel _ _ => true
  | TConcat l => (match l with [] => false | _ => true end) &&
                 (fix all (l : list tsig) : bool := match l with [] => true | x :: r => shape_sig x && all r end) l
  end.
Definition shape_pin (p : tpin) : bool :=
  match p with TNamed _ None => true | TNamed _ (Some s) => shape_sig s | TPos s => shape_sig s end.
Definition shape_stmt (s : tstmt) : bool :=
  match s with
  | TDecl _ _ ns => match ns with [] => false | _ => true end
  | TAssign a b => shape_sig a && shape_sig b
  | TInst _ _ pins => forallb shape_pin pins
  end.
Definition shape_module (m : tmodule) : bool := forallb shape_stmt (t_stmts m).
Definition shape_tree (l : list tmodule) : bool := forallb shape_module l.

(** * concrete syntax: tokens, each PRECEDED by ignored text *)
Inductive ign := IgSpace | IgTab | IgFf | IgNl | IgCrNl | IgBlock (b : string) | IgAttr (b : string) | IgLine (b : string).
Definition sep := list ign.
(* the body never closes the comment: no "*" directly followed by [e] *)
Fixpoint body_ok (e : ascii) (st : bool) (b : string) : bool :=
  match b with
  | EmptyString => true
  | String c r => negb (st && Ascii.eqb c e) && body_ok e (Ascii.eqb c c_star) r
  end.
Definition no_newline (s : string) : bool := sall (fun c => negb (Ascii.eqb c c_nl)) s.
Definition ign_ok (i : ign) : bool :=
  match i with
  | IgBlock b => body_ok c_slash false b
  | IgAttr b => body_ok c_rpar false b
  | IgLine b => no_newline b
  | _ => true
  end.
Definition sep_ok (s : sep) : bool := forallb ign_ok s.
Local Open Scope string_scope.
Definition nl1 : string := chr c_nl.
Definition ign_text (i : ign) : string :=
  match i with
  | IgSpace => chr c_sp
  | IgTab => chr c_tab
  | IgFf => chr c_ff
  | IgNl => nl1
  | IgCrNl => String c_cr nl1
  | IgBlock b => "/*" ++ b ++ "*/"
  | IgAttr b => "(*" ++ b ++ "*)"
  | IgLine b => "//" ++ b ++ nl1
  end.
Fixpoint sep_text (l : sep) : string := match l with [] => "" | i :: r => ign_text i ++ sep_text r end.

Definition tok_text (t : vtok) : string :=
  match t with
  | TModule => "module" | TEndmodule => "endmodule" | TKw k => kw_text k | TName s => s | TNum s => s
  | TSemi => ";" | TLpar => "(" | TRpar => ")" | TEq => "=" | TComma => "," | TDot => "." | TColon => ":"
  | TLsqb => "[" | TRsqb => "]" | TLbrace => "{" | TRbrace => "}"
  end.
Local Close Scope string_scope.
Definition is_punct (t : vtok) : bool :=
  match t with TModule | TEndmodule | TKw _ | TName _ | TNum _ => false | _ => true end.
(* a token the scanner of parser state [m] returns *)
Definition tok_ok (m : lmode) (t : vtok) : bool :=
  match m with
  | LTop => match t with TModule => true | _ => false end
  | LNum => match t with TNum w => wf_num w | _ => false end
  | LStmt => match t with TKw _ | TEndmodule => true | TName w => wf_name w && negb (is_stmt_kw w) | _ => is_punct t end
  | LGen => match t with TName w => wf_name w | _ => is_punct t end
  end.
Fixpoint toks_ok (m : lmode) (ts : list vtok) : bool :=
  match ts with [] => true | t :: r => tok_ok m t && toks_ok (mode_after t) r end.

Definition first_is (p : ascii -> bool) (s : string) : bool :=
  match s with String c _ => p c | EmptyString => false end.
(* the text [next] that follows token [t] does not prolong it (and does not turn "(" into the beginning of an attribute) *)
Definition follows_ok (t : vtok) (next : string) : bool :=
  match t with
  | TName w => if first_is (Ascii.eqb c_bsl) w then true
               else if first_is is_digit w then negb (first_is is_hex next)
               else negb (first_is is_wordc next)
  | TKw _ | TEndmodule => negb (first_is is_wordc next)
  | TNum _ => negb (first_is is_digit next)
  | TLpar => negb (first_is (Ascii.eqb c_star) next)
  | _ => true
  end.

Fixpoint render (l : list (sep * vtok)) (rest : string) : string :=
  match l with
  | [] => rest
  | (s, t) :: r => (sep_text s ++ tok_text t ++ render r rest)%string
  end.
Fixpoint glue_ok (l : list (sep * vtok)) (rest : string) : bool :=
  match l with
  | [] => true
  | (s, t) :: r => sep_ok s && follows_ok t (render r rest) && glue_ok r rest
  end.
(* the end of a text: ignored text, then possibly a last "//" comment without line break *)
Definition tail_text (t : option string) : string := match t with Some b => ("//" ++ b)%string | None => EmptyString end.
Definition tail_ok (t : option string) : bool := match t with Some b => no_newline b | None => true end.
Definition end_text (sf : sep) (t : option string) : string := (sep_text sf ++ tail_text t)%string.
(* [s] is a way of writing the token stream [ts]: ignored text before every token and at the end *)
Definition rendering (s : string) (ts : list vtok) : Prop :=
  exists l sf tl, s = render l (end_text sf tl) /\ map snd l = ts /\
    toks_ok LTop ts = true /\ glue_ok l (end_text sf tl) = true /\ sep_ok sf = true /\ tail_ok tl = true.

(** * printer: every token preceded by a blank, a line break at the end *)
Definition print_toks (ts : list vtok) : string := render (map (fun t => ([IgSpace], t)) ts) nl1.
Definition print_tree (l : list tmodule) : string := print_toks (toks_tree l).

(** * from the raw tree to what VerilogTransformer.module receives: the child callbacks *)
(* name: s[1:-1] if s[0] == '\\' else s *)
Fixpoint drop_last (s : string) : string :=
  match s with
  | EmptyString => EmptyString
  | String c EmptyString => EmptyString
  | String c r => String c (drop_last r)
  end.
Definition name_cb (s : string) : string :=
  match s with String c r => if Ascii.eqb c c_bsl then drop_last r else s | EmptyString => s end.
(* int(token.value) of a digit string *)
Definition int_of (s : string) : option Z := option_map Z.of_N (VE.parse_digits 10%N s).
(* range: range(left, right+1) / range(left, right-1, -1) *)
Definition range_cb (g : trange) : option (list Z) :=
  match g with
  | TRange a None => match int_of a with Some l => Some (VE.vrange l None) | None => None end
  | TRange a (Some b) => match int_of a, int_of b with Some l, Some r => Some (VE.vrange l (Some r)) | _, _ => None end
  end.
Definition orange_cb (g : option trange) : option (option (list Z)) :=
  match g with None => Some None | Some x => option_map Some (range_cb x) end.
(* sigsel / concat, bottom up; [None] = one of the callbacks raises *)
Fixpoint sig_cb (s : tsig) : option VE.sig :=
  match s with
  | TSel n None => VE.sigsel (VE.AName (name_cb n) None)
  | TSel n (Some g) => match range_cb g with Some rg => VE.sigsel (VE.AName (name_cb n) (Some rg)) | None => None end
  | TConcat l =>
      match (fix go (l : list tsig) : option (list VE.sig) :=
               match l with
               | [] => Some []
               | x :: r => match sig_cb x, go r with Some v, Some vs => Some (v :: vs) | _, _ => None end
               end) l with
      | Some args => VE.sigsel (VE.AConcat (VE.concat args))
      | None => None
      end
  end.
Fixpoint omap {A B} (f : A -> option B) (l : list A) : option (list B) :=
  match l with
  | [] => Some []
  | x :: r => match f x, omap f r with Some y, Some ys => Some (y :: ys) | _, _ => None end
  end.
Definition pin_cb (p : tpin) : option VM.rawpin :=
  match p with
  | TNamed n None => Some (VM.RNamed (name_cb n) None)
  | TNamed n (Some s) => match sig_cb s with Some v => Some (VM.RNamed (name_cb n) (Some v)) | None => None end
  | TPos s => option_map VM.RPos (sig_cb s)
  end.
(* input / output / inout (treated as input) / wire / tri (treated as wire) *)
Definition skind_of (d : dkind) : VE.skind :=
  match d with DInput | DInout => VE.KInput | DOutput => VE.KOutput | DTri | DWire => VE.KWire end.
Definition stmt_cb (s : tstmt) : option VM.vstmt :=
  match s with
  | TDecl d g ns => match orange_cb g with
                    | Some rg => Some (VM.VDecl (VE.declaration (skind_of d) rg (map name_cb ns)))
                    | None => None
                    end
  | TAssign a b => match sig_cb a, sig_cb b with Some x, Some y => Some (VM.VAssign x y) | _, _ => None end
  | TInst ty nm pins => match omap pin_cb pins with
                        | Some l => Some (VM.VInst (name_cb ty) (name_cb nm) (VM.mk_pins l))
                        | None => None
                        end
  end.
Definition module_args (m : tmodule) : option VM.vmodule :=
  match omap stmt_cb (t_stmts m) with
  | Some l => Some (VM.mkM (name_cb (t_name m)) (map name_cb (t_params m)) l)
  | None => None
  end.
(* what `module` is called with, one entry per module of the text *)
Definition modules_of_text (s : string) : option (list VM.vmodule) :=
  match parse_verilog s with Some l => omap module_args l | None => None end.
(** verilog.parse(text, tlib, branchforks) up to the circuits ([None]: it raises; the real function returns the single
    Circuit when the text has exactly one module, else the list) *)
Definition circuits_of_text (s : string) (lib : VM.tlib_pins) (bf : bool) : option (list circ) :=
  match modules_of_text s with
  | Some ms => omap (fun m => VM.elab_module m lib bf) ms
  | None => None
  end.

(** * comparison helpers for the generated cases (harness/vlog_text.py) *)
Definition leqb {A} (eq : A -> A -> bool) := VE.eqb_list eq.
Definition oeqb {A} (eq : A -> A -> bool) := VE.eqb_opt eq.
Definition dkind_eqb (a b : dkind) : bool :=
  match a, b with
  | DInput, DInput | DOutput, DOutput | DInout, DInout | DTri, DTri | DWire, DWire => true
  | _, _ => false
  end.
Definition trange_eqb (x y : trange) : bool :=
  let 'TRange a b := x in let 'TRange a' b' := y in String.eqb a a' && oeqb String.eqb b b'.
Fixpoint tsig_eqb (x y : tsig) : bool :=
  match x, y with
  | TSel n g, TSel n' g' => String.eqb n n' && oeqb trange_eqb g g'
  | TConcat l, TConcat l' =>
      (fix go (a b : list tsig) : bool :=
         match a, b with [], [] => true | u :: a', v :: b' => tsig_eqb u v && go a' b' | _, _ => false end) l l'
  | _, _ => false
  end.
Definition tpin_eqb (x y : tpin) : bool :=
  match x, y with
  | TNamed n s, TNamed n' s' => String.eqb n n' && oeqb tsig_eqb s s'
  | TPos s, TPos s' => tsig_eqb s s'
  | _, _ => false
  end.
Definition tstmt_eqb (x y : tstmt) : bool :=
  match x, y with
  | TDecl k g ns, TDecl k' g' ns' => dkind_eqb k k' && oeqb trange_eqb g g' && leqb String.eqb ns ns'
  | TAssign a b, TAssign a' b' => tsig_eqb a a' && tsig_eqb b b'
  | TInst t n p, TInst t' n' p' => String.eqb t t' && String.eqb n n' && leqb tpin_eqb p p'
  | _, _ => false
  end.
Definition tmodule_eqb (x y : tmodule) : bool :=
  String.eqb (t_name x) (t_name y) && leqb String.eqb (t_params x) (t_params y) && leqb tstmt_eqb (t_stmts x) (t_stmts y).
(* what lark did with the text: its raw tree, or None if it raised; an accepted tree is well-formed *)
Definition vtext_case (text : string) (got : option (list tmodule)) : bool :=
  oeqb (leqb tmodule_eqb) (parse_verilog text) got && match got with Some t => wf_tree t | None => true end.
(* a tree the real parser produced prints to [text] (and, checked on the Python side, lark reads that back) *)
Definition vprint_case (t : list tmodule) (text : string) : bool := wf_tree t && String.eqb (print_tree t) text.
(* VerilogTransformer.name on a token text *)
Definition vname_case (tok got : string) : bool := String.eqb (name_cb tok) got.
(* verilog.parse as a whole: every node, line and io entry of every circuit; None = it raises *)
Definition vtext_circ_case (text : string) (lib : VM.tlib_pins) (bf : bool) (got : option (list VM.mod_view)) : bool :=
  match circuits_of_text text lib bf, got with
  | None, None => true
  | Some cs, Some vs =>
      (fix go (a : list circ) (b : list VM.mod_view) : bool :=
         match a, b with
         | [], [] => true
         | c :: a', v :: b' => match VM.view_of c with Some w => VM.view_eqb w v | None => false end && go a' b'
         | _, _ => false
         end) cs vs
  | _, _ => false
  end.
(* the scanner state as a function of the previous token, compared with lark's parse table (terminal names in [acc]):
   0 = exactly MODULE / $END, 1 = the statement keywords, ENDMODULE and the three name patterns, 2 = exactly /[0-9]+/,
   3 = names and punctuation only *)
Definition mode_code (m : lmode) : nat := match m with LTop => 0 | LStmt => 1 | LNum => 2 | LGen => 3 end.
Definition mode_case (t : vtok) (code : nat) : bool := Nat.eqb (mode_code (mode_after t)) code.
