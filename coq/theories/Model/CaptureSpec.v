(** Vocabulary for statements about capture (C13). Definitions only. *)
From Coq Require Import List ZArith NArith Bool Arith.
From KV Require Import Model.Time Model.WaveEval Model.WaveSpec.
Import ListNotations.

Definition finite_entries (w : list time) : list time := filter is_fin (body w).
Definition earliest (w : list time) : time := fold_left tmin (finite_entries w) MaxInf.
Definition latest (w : list time) : time := fold_left tmax (finite_entries w) MinInf.
(** value just before T: every body entry strictly before T toggles the value starting from 0 *)
Definition value_before (w : list time) (T : time) : bool :=
  Nat.odd (List.length (filter (fun t => tltb t T) (body w))).
