(** The static netlist view of a circuit-graph state: what the simulators, traversals and the harness
    (harness/circgen.coq_netlist) read off a kyupy Circuit -- nodes in list order with their pin lists holding line
    INDICES, lines in list order with driver/reader node INDICES, io_nodes as node indices.  This is the bridge
    between the edit model (Model/Circuit.v, object identity = ids) and the netlist vocabulary of the simulation
    theorems (Model/Netlist.v, NetlistWf.v, NetlistSem.v).  Definitions only. *)
From Coq Require Import List Arith Bool String.
From KV Require Model.Netlist.
From KV Require Import Model.Circuit.
Import ListNotations.
Local Open Scope list_scope.

Definition line_idx (c : circ) (l : nat) : nat := l_index (lst c l).
Definition node_idx (c : circ) (n : nat) : nat := n_index (nst c n).
Definition onode_idx (c : circ) (o : option nat) : nat := match o with Some n => node_idx c n | None => 0 end.

Definition view_node (c : circ) (n : nat) : Netlist.node :=
  {| Netlist.n_kind := kind_of c n;
     Netlist.n_ins := map (option_map (line_idx c)) (ins_of c n);
     Netlist.n_outs := map (option_map (line_idx c)) (outs_of c n) |}.
Definition view_line (c : circ) (l : nat) : Netlist.line :=
  let L := lst c l in
  {| Netlist.l_drv := onode_idx c (l_drv L); Netlist.l_dpin := l_dpin L;
     Netlist.l_rdr := onode_idx c (l_rdr L); Netlist.l_rpin := l_rpin L |}.
Definition view (c : circ) : Netlist.netlist :=
  {| Netlist.c_nodes := map (view_node c) (nodes c);
     Netlist.c_lines := map (view_line c) (lines c);
     Netlist.c_io := map (onode_idx c) (io c) |}.

(** Circuit.s_nodes as node ids / as names: ports (io order), then flip-flops, then latches in node-list order *)
Definition s_node_ids (c : circ) : list nat := map (fun i => nth i (nodes c) 0) (Netlist.s_nodes (view c)).
Definition s_names (c : circ) : list string := map (name_of c) (s_node_ids c).
