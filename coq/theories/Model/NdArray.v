(** A small shape-polymorphic model of numpy arrays of uint8 / bool values: shape = list of axis lengths, data = the
    elements in row-major (C) order.  Definitions only.

    What is modelled (each item is an ASSUMPTION about numpy, compared with the real calls on random shapes by
    harness/nd_corr.py):
    - multi-index <-> offset in row-major order ([ravel] / [unravel]);
    - the broadcasting rule for two / three shapes ([broadcast2], [broadcast3]: right-aligned, an axis of length 1
      stretches, missing leading axes count as 1, anything else fails);
    - element-wise binary operators with a fresh result ([ufunc2] = [a | b]), with [out=] / [where=] ([ufunc2_out]:
      every operand incl. [where] must broadcast to the shape of [out], [out] itself is never stretched),
      [out[...] = scalar] ([nd_fill]), [np.putmask] (mask and data need the same SIZE, elements are paired in flat order);
    - [swapaxes(-1,-2)], [np.packbits] / [np.unpackbits] (bitorder='little') along the last axis and along axis -2,
      with zero padding of the last byte.
    Memory layout (strides, Fortran order) is not modelled: numpy's results do not depend on it (the harness feeds
    C, Fortran and strided inputs). *)
From Coq Require Import List Arith Bool Lia.
From KV Require Import Model.Encodings.
Import ListNotations.
Local Open Scope list_scope.

Definition shape := list nat.
Fixpoint size (sh : shape) : nat := match sh with [] => 1 | d :: r => d * size r end.

Record nd := NdA { nd_shape : shape; nd_data : list nat }.
Definition nd_wf (x : nd) : Prop := List.length (nd_data x) = size (nd_shape x).
Definition nd_wfb (x : nd) : bool := List.length (nd_data x) =? size (nd_shape x).
Definition rank (x : nd) : nat := List.length (nd_shape x).

(** * multi-index <-> offset (row-major) *)
Fixpoint ravel (sh : shape) (idx : list nat) : nat :=
  match sh, idx with
  | _ :: sh', i :: idx' => i * size sh' + ravel sh' idx'
  | _, _ => 0
  end.
Fixpoint unravel (sh : shape) (k : nat) : list nat :=
  match sh with
  | [] => []
  | _ :: sh' => k / size sh' :: unravel sh' (k mod size sh')
  end.
Fixpoint in_bounds (sh : shape) (idx : list nat) : Prop :=
  match sh, idx with
  | [], [] => True
  | d :: sh', i :: idx' => i < d /\ in_bounds sh' idx'
  | _, _ => False
  end.
Definition nd_get (x : nd) (idx : list nat) : nat := nth (ravel (nd_shape x) idx) (nd_data x) 0.
Definition at_ (x : nd) (k : nat) : nat := nth k (nd_data x) 0.

(** * broadcasting *)
Definition pad_to (n : nat) (s : shape) : shape := repeat 1 (n - List.length s) ++ s.
Definition bc_dim (a b : nat) : option nat :=
  if a =? b then Some a else if a =? 1 then Some b else if b =? 1 then Some a else None.
Fixpoint bc_zip (s t : shape) : option shape :=
  match s, t with
  | [], [] => Some []
  | a :: s', b :: t' => match bc_dim a b, bc_zip s' t' with Some d, Some r => Some (d :: r) | _, _ => None end
  | _, _ => None
  end.
(** np.broadcast(x1, x2).shape; None = ValueError *)
Definition broadcast2 (s t : shape) : option shape :=
  let n := Nat.max (List.length s) (List.length t) in bc_zip (pad_to n s) (pad_to n t).
Definition broadcast3 (s t u : shape) : option shape :=
  match broadcast2 s t with Some b => broadcast2 b u | None => None end.

(** [s] can be stretched to exactly [t] (an operand of a ufunc whose out= has shape [t]) *)
Fixpoint dims_to (s t : shape) : bool :=
  match s, t with
  | [], [] => true
  | d :: s', o :: t' => ((d =? o) || (d =? 1)) && dims_to s' t'
  | _, _ => false
  end.
Definition bc_to (s t : shape) : bool :=
  (List.length s <=? List.length t) && dims_to (pad_to (List.length t) s) t.

(** the index of the operand element that is read for result index [idx]: 0 on stretched axes *)
Fixpoint clip (s : shape) (idx : list nat) : list nat :=
  match s, idx with
  | d :: s', i :: idx' => (if d =? 1 then 0 else i) :: clip s' idx'
  | _, _ => []
  end.
(** offset into an operand of shape [s] for the element at offset [k] of a result of shape [t] *)
Definition boff (s t : shape) (k : nat) : nat :=
  let ps := pad_to (List.length t) s in ravel ps (clip ps (unravel t k)).
Definition bget (x : nd) (t : shape) (k : nat) : nat := at_ x (boff (nd_shape x) t k).
(** the same read, by multi-index: right-aligned, i mod d on every axis (d = 1 gives 0, d = the result's length gives i) *)
Fixpoint mod_dims (s : shape) (idx : list nat) : list nat :=
  match s, idx with
  | d :: s', i :: idx' => i mod d :: mod_dims s' idx'
  | _, _ => []
  end.
Definition bidx (s : shape) (idx : list nat) : list nat := mod_dims s (skipn (List.length idx - List.length s) idx).

(** * element-wise operations *)
Definition tabulate (sh : shape) (f : nat -> nat) : nd := NdA sh (map f (seq 0 (size sh))).
Definition nd_map (g : nat -> nat) (x : nd) : nd := NdA (nd_shape x) (map g (nd_data x)).
(** a OP b with a freshly allocated result *)
Definition ufunc2 (f : nat -> nat -> nat) (a b : nd) : option nd :=
  match broadcast2 (nd_shape a) (nd_shape b) with
  | Some sh => Some (tabulate sh (fun k => f (bget a sh k) (bget b sh k)))
  | None => None
  end.
(** np.OP(a, b, out=out, where=w): elements where [w] is false keep the content of [out] *)
Definition where_at (w : option nd) (sh : shape) (k : nat) : bool :=
  match w with Some m => negb (bget m sh k =? 0) | None => true end.
Definition opt_shape (w : option nd) : list shape := match w with Some m => [nd_shape m] | None => [] end.
Definition ufunc2_out (f : nat -> nat -> nat) (a b : nd) (w : option nd) (out : nd) : option nd :=
  let sh := nd_shape out in
  if forallb (fun s => bc_to s sh) (nd_shape a :: nd_shape b :: opt_shape w) then
    Some (tabulate sh (fun k => if where_at w sh k then f (bget a sh k) (bget b sh k) else at_ out k))
  else None.
(** out[...] = v *)
Definition nd_fill (out : nd) (v : nat) : nd := tabulate (nd_shape out) (fun _ => v).
(** np.putmask(out, mask, v) with a scalar v *)
Definition putmask (out mask : nd) (v : nat) : option nd :=
  if size (nd_shape mask) =? size (nd_shape out) then
    Some (tabulate (nd_shape out) (fun k => if at_ mask k =? 0 then at_ out k else v))
  else None.
(** np.empty(sh): the content is whatever [junk] says *)
Definition np_empty (junk : nat -> nat) (sh : shape) : nd := tabulate sh junk.
Definition scalar0 (v : nat) : nd := NdA [] [v].

Definition obind {A B} (o : option A) (f : A -> option B) : option B := match o with Some a => f a | None => None end.

(** * the last two axes *)
(** row [r] of a flat list cut into rows of length [n] *)
Definition row_of (n : nat) (l : list nat) (r : nat) : list nat := firstn n (skipn (r * n) l).
Definition rows (n cnt : nat) (l : list nat) : list (list nat) := map (row_of n l) (seq 0 cnt).
Definition transpose (c : nat) (M : list (list nat)) : list (list nat) := transp 0 c M.
Definition lead (k : nat) (sh : shape) : shape := firstn (List.length sh - k) sh.
Definition axis (k : nat) (sh : shape) : nat := nth (List.length sh - k) sh 0.     (* axis -k *)

(** x.swapaxes(-1,-2): for every index of the leading axes (row-major) the a x b matrix is transposed *)
Definition swap_last2 (x : nd) : option nd :=
  let sh := nd_shape x in
  if List.length sh <? 2 then None else
  let a := axis 2 sh in let b := axis 1 sh in
  Some (NdA (lead 2 sh ++ [b; a])
            (flat_map (fun blk => concat (transpose b (rows b a blk))) (rows (a * b) (size (lead 2 sh)) (nd_data x)))).

Definition cdiv8 (n : nat) : nat := cdiv n 8.
(** bits are stored as 0 / 1 (np.packbits reads any non-zero element as 1) *)
Definition nz (b : nat) : bool := negb (b =? 0).
Definition bits_le (n : nat) (x : nat) : list nat := map Nat.b2n (nbits n x).
Definition of_bits_le (l : list nat) : nat := nat_of_bits (map nz l).
(** one row: groups of eight, the last group zero-padded (Encodings.np_packbits_le) *)
Definition pack_row (l : list nat) : list nat := np_packbits_le (map nz l).
(** np.packbits(x, axis=-1, bitorder='little') *)
Definition as_1d (sh : shape) : shape := match sh with [] => [1] | _ => sh end.   (* numpy reads a 0-d array as one of shape (1,) here *)
Definition packbits_last (x : nd) : option nd :=
  let sh := as_1d (nd_shape x) in
  let n := axis 1 sh in
  Some (NdA (lead 1 sh ++ [cdiv8 n])
            (flat_map pack_row (rows n (size (lead 1 sh)) (nd_data x)))).
(** np.packbits(x, axis=-2, bitorder='little') = the same along the other axis *)
Definition packbits_axis2 (x : nd) : option nd :=
  obind (swap_last2 x) (fun y => obind (packbits_last y) swap_last2).
(** np.unpackbits(x, axis=-1, bitorder='little') *)
Definition unpackbits_last (x : nd) : option nd :=
  let sh := as_1d (nd_shape x) in
  Some (NdA (lead 1 sh ++ [8 * axis 1 sh]) (flat_map (bits_le 8) (nd_data x))).
(** logic.unpackbits(x)[..., :nb] for a uint8 array: a new last axis with the nb least significant bits *)
Definition unpack_new_axis (nb : nat) (x : nd) : nd :=
  NdA (nd_shape x ++ [nb]) (flat_map (bits_le nb) (nd_data x)).
(** logic.packbits(a) with dtype uint8: the last axis (truncated to 8, zero-padded to 8) becomes one byte *)
Definition packbits_u8_last (x : nd) : option nd :=
  let sh := nd_shape x in
  if List.length sh <? 1 then None else
  Some (NdA (lead 1 sh) (map (fun r => of_bits_le (firstn 8 r)) (rows (axis 1 sh) (size (lead 1 sh)) (nd_data x)))).
