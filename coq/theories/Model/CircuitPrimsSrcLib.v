(** Vocabulary of the translated source of the graph primitives of circuit.py (Gen/CircuitPrimsSrc.v, written by
    translate/gen_circuit_prims.py): GrowingList, IndexList, Node.__init__ / remove, Line.__init__ / remove.
    Definitions only.

    What is TRUSTED here (the reading of Python's object model that the translator emits; everything else is proved in
    Proofs/CircuitPrimsSrcProofs.v against the hand model Model/Circuit.v, which is tied to the running code by correspondence):

      object identity = id     a Node / Line object is its creation-order id (nat); `Node(...)` / `Line(...)` allocates the next
                               id with a blank record ([new_node] / [new_line]) and then runs the translated __init__ on it;
                               `x is None` on a reference is a test of an [option nat]
      attribute                `obj.attr` reads / writes one field of the record [nst c id] / [lst c id] of Model/Circuit.v;
                               all other objects and attributes are unchanged by a write ([upd_node] / [upd_line])
      obj.circuit              is either THE circuit the state describes or None: modelled by the flag [n_alive] / [l_alive];
                               `obj.circuit.f` raises AttributeError when the flag is false
      list attribute           `node.ins` / `node.outs` (GrowingList, created by Node.__init__ and never shared) = the pin list
                               [n_ins] / [n_outs] (list (option line id)); `circuit.nodes` / `circuit.lines` (IndexList) = [nodes] /
                               [lines]; `circuit.io_nodes` = [io].  A method of GrowingList only touches the list itself, so it is a
                               function list -> list; IndexList.__delitem__ also writes `.index` of an element, so it is translated
                               once per element class (nodes / lines) as a function of the whole state
      dict                     `circuit.cells` / `circuit.forks` = the association lists [cells] / [forks] in insertion order
      int                      Python integers are [Z], arithmetic is exact; an integer that is used as a list position or stored
                               in an index / pin attribute must be non-negative ([py_idx]: None = left the modelled domain;
                               negative positions are never produced by the code on a non-negative argument)
      raise                    every operation that can raise is option-valued and bound in Python's evaluation order:
                               None = IndexError / KeyError / AttributeError / AssertionError (asserts are executed: no -O) *)
From Coq Require Import List Arith Bool String ZArith.
From KV Require Import Model.Circuit.
Import ListNotations.
Local Open Scope list_scope.

(** ** integers *)
Definition py_idx (z : Z) : option nat := if (z <? 0)%Z then None else Some (Z.to_nat z).
Definition py_len {A} (l : list A) : Z := Z.of_nat (List.length l).
(** [None] * z : the empty list for z <= 0 *)
Definition py_repeat_none (z : Z) : list (option nat) := repeat None (Z.to_nat z).
Definition py_is_none {A} (o : option A) : bool := match o with None => true | Some _ => false end.

(** ** plain list operations (the methods GrowingList / IndexList inherit or reach through super()) *)
Definition py_lget {A} (i : nat) (l : list A) : option A := nth_error l i.
Definition py_lset {A} (i : nat) (v : A) (l : list A) : option (list A) :=
  if Nat.ltb i (List.length l) then Some (set_nth i v l) else None.
Definition py_ldel {A} (i : nat) (l : list A) : option (list A) :=
  if Nat.ltb i (List.length l) then Some (remove_nth i l) else None.
(** l.pop(): (last element, rest); IndexError on the empty list *)
Definition py_pop {A} (l : list A) : option (A * list A) :=
  match rev l with [] => None | x :: r => Some (x, rev r) end.
Definition py_append {A} (l : list A) (x : A) : list A := l ++ [x].
Definition py_extend {A} (l m : list A) : list A := l ++ m.
(** next((i for i, x in enumerate(l) if p x), default): position of the first element that satisfies p *)
Fixpoint py_next_enum {A} (p : A -> bool) (l : list A) (i : Z) (default : Z) : Z :=
  match l with [] => default | x :: r => if p x then i else py_next_enum p r (i + 1)%Z default end.

(** ** dict str -> object (insertion order) *)
Definition py_din (k : string) (d : list (string * nat)) : bool := match dget k d with Some _ => true | None => false end.
Fixpoint py_dset (k : string) (v : nat) (d : list (string * nat)) : list (string * nat) :=
  match d with
  | [] => [(k, v)]
  | (k', v') :: r => if String.eqb k k' then (k', v) :: r else (k', v') :: py_dset k v r
  end.
Definition py_ddel (k : string) (d : list (string * nat)) : option (list (string * nat)) := ddel k d.
Definition py_dget (k : string) (d : list (string * nat)) : option nat := dget k d.

(** ** objects *)
Definition new_node (c : circ) : circ * nat :=
  (mkC (fupd (nst c) (nnext c) dead_node) (S (nnext c)) (lst c) (lnext c) (nodes c) (lines c) (io c) (cells c) (forks c), nnext c).
Definition new_line (c : circ) : circ * nat :=
  (mkC (nst c) (nnext c) (fupd (lst c) (lnext c) dead_line) (S (lnext c)) (nodes c) (lines c) (io c) (cells c) (forks c), lnext c).

Definition nset_name (r : nodeR) s := mkN s (n_kind r) (n_index r) (n_ins r) (n_outs r) (n_alive r).
Definition set_n_name (c : circ) (n : nat) (s : string) : circ := upd_node c n (fun r => nset_name r s).
Definition set_n_kind (c : circ) (n : nat) (s : string) : circ := upd_node c n (fun r => nset_kind r s).
Definition set_n_index (c : circ) (n : nat) (i : nat) : circ := upd_node c n (fun r => nset_index r i).
Definition set_n_ins (c : circ) (n : nat) (v : list (option nat)) : circ := upd_node c n (fun r => nset_ins r v).
Definition set_n_outs (c : circ) (n : nat) (v : list (option nat)) : circ := upd_node c n (fun r => nset_outs r v).
Definition set_n_circuit (c : circ) (n : nat) (b : bool) : circ := upd_node c n (fun r => nset_alive r b).

Definition set_l_index (c : circ) (l : nat) (i : nat) : circ := upd_line c l (fun r => lset_index r i).
Definition set_l_driver (c : circ) (l : nat) (d : option nat) : circ := upd_line c l (fun r => lset_drv r d (l_dpin r)).
Definition set_l_driver_pin (c : circ) (l : nat) (p : nat) : circ := upd_line c l (fun r => lset_dpin r p).
Definition set_l_reader (c : circ) (l : nat) (d : option nat) : circ := upd_line c l (fun r => lset_rdr r d (l_rpin r)).
Definition set_l_reader_pin (c : circ) (l : nat) (p : nat) : circ := upd_line c l (fun r => lset_rdr r (l_rdr r) p).
Definition set_l_circuit (c : circ) (l : nat) (b : bool) : circ := upd_line c l (fun r => lset_alive r b).

(** ** equality of states: the object stores are functions, so two states are compared field by field and the stores
    pointwise (no functional extensionality is assumed anywhere) *)
Definition ceq (a b : circ) : Prop :=
  (forall n, nst a n = nst b n) /\ nnext a = nnext b /\ (forall l, lst a l = lst b l) /\ lnext a = lnext b /\
  nodes a = nodes b /\ lines a = lines b /\ io a = io b /\ cells a = cells b /\ forks a = forks b.
Definition oceq (a b : option circ) : Prop :=
  match a, b with Some x, Some y => ceq x y | None, None => True | _, _ => False end.
Definition oceq_id (a b : option (circ * nat)) : Prop :=
  match a, b with Some (x, i), Some (y, j) => ceq x y /\ i = j | None, None => True | _, _ => False end.

(** ** edit histories on the translated source: the primitive operations run the translated functions, the composite
    operations (which call the primitives) run the hand model *)
Definition pin_arg (n : nat) (p : option nat) : nat * option nat := (n, p).
Section SrcRun.
  Variable node_init_s : circ -> string -> string -> option (circ * nat).
  Variable node_remove_s : circ -> nat -> option circ.
  Variable line_init_s : circ -> nat * option nat -> nat * option nat -> option (circ * nat).
  Variable line_remove_s : circ -> nat -> option circ.
  Variable growing_setitem_s : list (option nat) -> Z -> option nat -> option (list (option nat)).
  Definition step_src (c : circ) (o : op) : option circ :=
    match o with
    | AddNode name kind => option_map fst (node_init_s c name kind)
    | AddLine d dp r rp => option_map fst (line_init_s c (pin_arg d dp) (pin_arg r rp))
    | RemoveLine l => line_remove_s c l
    | RemoveNode n => node_remove_s c n
    | SetIO pos n => option_map (with_io c) (growing_setitem_s (io c) (Z.of_nat pos) (Some n))
    | _ => step c o
    end.
  Fixpoint run_from_src (c : circ) (ops : list op) : option circ :=
    match ops with [] => Some c | o :: r => match step_src c o with Some c' => run_from_src c' r | None => None end end.
End SrcRun.
