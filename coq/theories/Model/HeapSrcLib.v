(** Vocabulary of the translated source of sim.Heap (Gen/HeapSrc.v, written by translate/gen_heap.py).
    Every Python operation that can raise (KeyError, IndexError) or leave the modelled domain (a negative
    integer) is a function into [option]; the translator binds each of them in evaluation order, so [None]
    means "the statement raised / left the domain here".  Definitions only.

    dict start -> size   : the sorted association list of Model/Heap.v ([lookup] / [insert] / [remove])
    list of starts       : [list N]; indices are [nat]
    bisect / insort_left : the library functions on SORTED lists (their documented domain): number of leading
                           elements <= x (bisect = bisect_right) resp. < x (bisect_left) *)
From Coq Require Import List NArith Bool Arith.
From KV Require Import Model.Heap.
Import ListNotations.
Local Open Scope N_scope.

(** d[k] *)
Definition py_dget (k : N) (m : list (N * N)) : option N := lookup k m.
(** del d[k] : KeyError when k is missing *)
Definition py_ddel (k : N) (m : list (N * N)) : option (list (N * N)) :=
  match lookup k m with Some _ => Some (remove k m) | None => None end.
(** d[k] = v never raises *)
Definition py_dset (k v : N) (m : list (N * N)) : list (N * N) := insert k v m.

(** l[i] for a non-negative index *)
Definition py_lget {A} (i : nat) (l : list A) : option A := nth_error l i.
(** l[-1] *)
Definition py_llast {A} (l : list A) : option A := hd_error (rev l).
(** l[i] = v : IndexError when i >= len(l) *)
Definition py_lset {A} (i : nat) (v : A) (l : list A) : option (list A) :=
  if Nat.ltb i (List.length l) then Some (set_nth i v l) else None.
(** del l[i] *)
Definition py_ldel {A} (i : nat) (l : list A) : option (list A) :=
  if Nat.ltb i (List.length l) then Some (remove_nth i l) else None.
(** del l[-1] *)
Definition py_ldel_last {A} (l : list A) : option (list A) :=
  match rev l with [] => None | _ :: r => Some (rev r) end.

Fixpoint bisect_left (x : N) (l : list N) : nat :=
  match l with [] => 0%nat | y :: r => if y <? x then S (bisect_left x r) else 0%nat end.
(** bisect.insort_left(l, x) *)
Definition py_insort_left (x : N) (l : list N) : list N := insert_at (bisect_left x l) x l.
(** bisect.insort(l, x) = insort_right *)
Definition py_insort (x : N) (l : list N) : list N := insert_at (bisect x l) x l.

(** a - b on Python integers stays inside the naturals only when b <= a *)
Definition py_nsub (a b : N) : option N := if b <=? a then Some (a - b) else None.
Definition py_natsub (a b : nat) : option nat := if Nat.leb b a then Some (a - b)%nat else None.

Definition mk_heap (c : list (N * N)) (r : list N) (u m : N) : heap :=
  {| chunks := c; released := r; cur := u; mx := m |}.

(** histories on the translated source (the same shape as [hrun] / [heap_case] of the hand model) *)
Section SrcRun.
  Variable alloc_s : heap -> N -> option (N * heap).
  Variable free_s : heap -> N -> option heap.
  Fixpoint hrun_src (ops : list hop) (h : heap) (trace : list N) : option (heap * list N) :=
    match ops with
    | [] => Some (h, rev trace)
    | HAlloc s :: r => match alloc_s h s with Some (loc, h') => hrun_src r h' (loc :: trace) | None => None end
    | HFree l :: r => match free_s h l with Some h' => hrun_src r h' trace | None => None end
    end.
End SrcRun.
