(** Vocabulary of the translated DefTransformer callbacks of kyupy/def_file.py (Gen/DefCallbacksSrc.v, written by
    translate/gen_def_callbacks.py).  It extends Model/DefRouteSrcLib.v (Python VALUES [pyv], option = the operation raises):

      a lark Token          its text ([PStr]; Token is a str subclass, `.value` is the plain str with the same text)
      an object             [pyobj] = vars(obj): insertion-ordered association list attribute name -> value (the [pdict] of
                            Model/DefElab.v on [pyv]); `Cls(e)` = the attribute stores of Cls.__init__ one after the other;
                            `setattr(obj, k, v)` with a computed name = [py_setattr] (TypeError unless k is a str,
                            AttributeError when k names a property of the class); `obj.f.append(e)` = read, append, store back
      `self.def_file.D[k] = v` as last statement = the function returns the entry (k, v); D is kept as <callback>_store.

    Definitions only. *)
From Coq Require Import List ZArith NArith Bool String Ascii Arith.
From KV Require Import Model.DefRoute Model.DefElab Model.DefRouteSrcLib.
Import ListNotations.
Local Open Scope list_scope.
Local Open Scope string_scope.

(** * strings / tokens *)
(* tok.value: only a Token has it (a tuple / list / None: AttributeError) *)
Definition py_value (v : pyv) : option pyv := match v with PStr s => Some (PStr s) | _ => None end.
Definition lower_ascii (c : ascii) : ascii :=
  let n := N_of_ascii c in if ((65 <=? n) && (n <=? 90))%N then ascii_of_N (n + 32) else c.
Fixpoint lower_str (s : string) : string :=
  match s with EmptyString => EmptyString | String c r => String (lower_ascii c) (lower_str r) end.
Fixpoint all_ascii7 (s : string) : bool :=
  match s with EmptyString => true | String c r => (N_of_ascii c <? 128)%N && all_ascii7 r end.
(* s.lower(): ASCII texts only (outside: None = left the modelled universe; Python lower-cases Latin-1 letters too) *)
Definition py_lower (v : pyv) : option pyv :=
  match v with PStr s => if all_ascii7 s then Some (PStr (lower_str s)) else None | _ => None end.
(* a == b (never raises in the universe; a str never equals a tuple / list / int / None) *)
Definition py_eq (a b : pyv) : bool := pyv_eqb a b.
(* v in [c1, c2 ...] *)
Definition py_in (v : pyv) (l : list pyv) : bool := existsb (pyv_eqb v) l.
Definition py_is_list (v : pyv) : bool := match v with PList _ => true | _ => false end.        (* isinstance(v, list) *)

(** * objects *)
Definition pyobj := pdict pyv.
Definition py_getattr (o : pyobj) (k : string) : option pyv := pd_get k o.                       (* o.k *)
(* setattr(o, k, v); props = the properties of the class (no setter: AttributeError) *)
Definition py_setattr (props : list string) (o : pyobj) (k v : pyv) : option pyobj :=
  match k with
  | PStr s => if existsb (String.eqb s) props then None else Some (pd_set s v o)
  | _ => None
  end.
(* o.__dict__.setdefault(k, []).extend(vs) *)
Definition py_setdefault_extend (o : pyobj) (k vs : pyv) : option pyobj :=
  match k, py_seq vs with
  | PStr s, Some l =>
      match pd_get s o with
      | None => Some (pd_set s (PList l) o)
      | Some (PList old) => Some (pd_set s (PList (old ++ l)) o)
      | Some _ => None
      end
  | _, _ => None
  end.

(** * How the values of Model/DefElab.v look as Python values *)
Definition enc_rpoint (r : rpoint) : pyv := PTup (enc_oz (rp_x r) :: enc_oz (rp_y r) :: enc_ext (rp_z r)).
Definition enc_pinval (v : pinval) : pyv :=
  match v with
  | PVStr s => PStr s
  | PVLayer n p q => PList [PStr n; enc_rpoint p; enc_rpoint q]
  | PVEmpty => PList []
  end.
Definition enc_pplace (p : pplace) : pyv := PTup [enc_oz (fst (fst p)); enc_oz (snd (fst p)); PStr (snd p)].
(* the argument list of pins_opt: the keyword token, then the children *)
Definition enc_pinopt_arg (o : pinopt_arg) : pyv :=
  match o with
  | PANet id => PList [PStr "NET"; PStr id]
  | PASpecial => PList [PStr "SPECIAL"]
  | PADirection id => PList [PStr "DIRECTION"; PStr id]
  | PAUse id => PList [PStr "USE"; PStr id]
  | PAPort => PList [PStr "PORT"]
  | PALayer id a b => PList [PStr "LAYER"; PStr id; enc_rpoint a; enc_rpoint b]
  | PAPlaced r o => PList [PStr "PLACED"; enc_rpoint r; PStr o]
  end.
(* what pins_opt returns: (opt, val) *)
Definition enc_pinopt_val (o : pinopt_val) : pyv :=
  match o with
  | PPlaced p => PTup [PStr "placed"; enc_pplace p]
  | PAttr k v => PTup [PStr k; enc_pinval v]
  end.
(* vars(DefPin) *)
Definition enc_dpin (p : dpin) : pyobj :=
  ("name", PStr (dp_name p)) :: ("points", PList (map enc_pplace (dp_points p)))
  :: map (fun kv => (fst kv, enc_pinval (snd kv))) (dp_attrs p).
(* the domain of cb_pins_stmt: an attribute option never carries one of the names pins_stmt / DefPin give a meaning *)
Definition pinopt_ok (o : pinopt_val) : bool :=
  match o with
  | PPlaced _ => true
  | PAttr k _ => negb (String.eqb k "placed") && negb (String.eqb k "name") && negb (String.eqb k "points")
  end.
Definition enc_dcomp (c : dcomp) : pyv := PTup [PStr (fst (fst c)); enc_rpoint (snd (fst c)); PStr (snd c)].

(** * Comparison for the correspondence cases (the real callback's result written as the Python value it is) *)
Definition pyobj_eqb (a : pyobj) (b : pyv) : bool :=                  (* b = list(vars(obj).items()) *)
  pyv_eqb (PList (map (fun kv => PTup [PStr (fst kv); snd kv]) a)) b.
Definition cb_ret_case (r : option pyv) (exp : pyv) : bool := opt_pyv_eqb r exp.
Definition cb_store_obj_case (r : option (pyv * pyobj)) (key vars_ : pyv) : bool :=
  match r with Some (k, o) => pyv_eqb k key && pyobj_eqb o vars_ | None => false end.
Definition cb_store_val_case (r : option (pyv * pyv)) (key val : pyv) : bool :=
  match r with Some (k, v) => pyv_eqb k key && pyv_eqb v val | None => false end.
Definition cb_raises {A} (o : option A) : bool := match o with None => true | Some _ => false end.
