(** logic.mv_transition (logic.py:241-258) on the array model: definitions only.
    out = out if out is not None else np.empty(np.broadcast(init, final).shape, dtype=np.uint8)
    out[...] = (init & 0b010) | (final & 0b001)
    out[...] |= ((out << 1) ^ (out << 2)) & 0b100
    unknown = (init == UNKNOWN) | (init == UNASSIGNED) | (final == UNKNOWN) | (final == UNASSIGNED)
    unassigned = (init == UNASSIGNED) & (final == UNASSIGNED)
    np.putmask(out, unknown, UNKNOWN); np.putmask(out, unassigned, UNASSIGNED); return out *)
From Coq Require Import List Arith Bool Lia.
From KV Require Import Model.Encodings Model.NdArray Model.MvWrappers.
Import ListNotations.
Local Open Scope list_scope.

(** out[...] = src : numpy drops surplus leading axes of src if they all have length 1, then stretches src to out's shape
    (an ASSUMPTION about numpy's assignment, compared with the real call through mv_transition with out= of many shapes) *)
Definition strip_lead (n : nat) (s : shape) : option shape :=
  let j := List.length s - n in
  if forallb (fun d => d =? 1) (firstn j s) then Some (skipn j s) else None.
Definition nd_assign (out src : nd) : option nd :=
  match strip_lead (List.length (nd_shape out)) (nd_shape src) with
  | Some s' => if bc_to s' (nd_shape out)
               then Some (tabulate (nd_shape out) (fun k => at_ src (boff s' (nd_shape out) k)))
               else None
  | None => None
  end.

(** v | (((v << 1) ^ (v << 2)) & 0b100): the uint8 wrap-around of << cannot reach bit 2, so plain shifts do *)
Definition tr_fix (v : nat) : nat := Nat.lor v (Nat.land (Nat.lxor (Nat.shiftl v 1) (Nat.shiftl v 2)) 4).

Definition mvw_transition (junk : nat -> nat) (init final : nd) (out : option nd) : option nd :=
  o <- match out with
       | Some o => Some o
       | None => option_map (np_empty junk) (broadcast2 (nd_shape init) (nd_shape final))
       end ;;
  e <- ufunc2 Nat.lor (nd_map (fun v => Nat.land v 2) init) (nd_map (fun v => Nat.land v 1) final) ;;
  o <- nd_assign o e ;;
  let o := nd_map tr_fix o in
  u1 <- ufunc2 Nat.lor (eqc init UNKNOWN) (eqc init UNASSIGNED) ;;
  u2 <- ufunc2 Nat.lor u1 (eqc final UNKNOWN) ;;
  unknown <- ufunc2 Nat.lor u2 (eqc final UNASSIGNED) ;;
  unassigned <- ufunc2 Nat.land (eqc init UNASSIGNED) (eqc final UNASSIGNED) ;;
  o <- putmask o unknown UNKNOWN ;;
  putmask o unassigned UNASSIGNED.

(** one element *)
Definition tr_s (a b : nat) : nat :=
  let o := tr_fix (Nat.lor (Nat.land a 2) (Nat.land b 1)) in
  let unk := Nat.lor (Nat.lor (Nat.lor (b2 (a =? UNKNOWN)) (b2 (a =? UNASSIGNED))) (b2 (b =? UNKNOWN))) (b2 (b =? UNASSIGNED)) in
  let una := Nat.land (b2 (a =? UNASSIGNED)) (b2 (b =? UNASSIGNED)) in
  let o := if unk =? 0 then o else UNKNOWN in
  if una =? 0 then o else UNASSIGNED.

(** the call returns iff the shapes are compatible, out has as many elements as the broadcast shape [b] and [b]
    (without surplus leading 1 axes) stretches to out's shape *)
Definition tr_ok (b so : shape) : bool :=
  (size b =? size so) && match strip_lead (List.length so) b with Some b' => bc_to b' so | None => false end.
