(** The mock GPU launcher (__init__.py:230-256) and the grid computation of WaveSimCuda:
    kernel[grid, block] runs the kernel body once for every (grid_x, grid_y, block_x, block_y),
    with cuda.grid(2) = (grid_x*block_x_dim + block_x, grid_y*block_y_dim + block_y). *)
From Coq Require Import List Arith.
Import ListNotations.

Definition cdiv (x y : nat) : nat := (x + y - 1) / y.          (* -(x // -y) for y > 0 *)
Definition launch (gx gy bx by_ : nat) : list (nat * nat) :=
  flat_map (fun g_x => flat_map (fun g_y => flat_map (fun b_x =>
     map (fun b_y => (g_x * bx + b_x, g_y * by_ + b_y)) (seq 0 by_)) (seq 0 bx)) (seq 0 gy)) (seq 0 gx).
(** _grid_dim(x, y) = (cdiv(x, block[0]), cdiv(y, block[1])); kernels return early when x >= X or y >= Y *)
Definition threads (X Y bx by_ : nat) : list (nat * nat) :=
  filter (fun p => Nat.ltb (fst p) X && Nat.ltb (snd p) Y)%bool (launch (cdiv X bx) (cdiv Y by_) bx by_).
