(** C11 -- TechLib.cells[kind][1] (techlib.py:77-88: pin name -> (position, is_output), inputs and outputs numbered
    separately in the order of the interface statements) derived from the library source text as translated into
    Gen/TechLibs.v (t_ins / t_outs).  Definitions only. *)
From Coq Require Import List Bool String Arith.
From KV Require Import Model.TechCell Model.VerilogModule.
Import ListNotations.
Local Open Scope list_scope.

Fixpoint enum_pins (o : bool) (i : nat) (l : list string) : pintab :=
  match l with [] => [] | p :: r => (p, (i, o)) :: enum_pins o (S i) r end.
Definition pins_of_tcell (t : tcell) : pintab := enum_pins false 0 (t_ins t) ++ enum_pins true 0 (t_outs t).
(* self.cells[name] = (c, pin_dict) for every expanded name; a later cell of the same name replaces an earlier one *)
Definition lib_pins_of (l : list tcell) : tlib_pins :=
  flat_map (fun t => map (fun nm => (nm, pins_of_tcell t)) (t_names t)) (rev l).

Definition pintab_eqb (a b : pintab) : bool :=
  VE.eqb_list (fun x y => String.eqb (fst x) (fst y) && Nat.eqb (fst (snd x)) (fst (snd y)) && Bool.eqb (snd (snd x)) (snd (snd y))) a b.
(* [got] = list(tlib.cells[kind][1].items()) of the real library, None if the kind is unknown *)
Definition pintab_case (l : list tcell) (kind : string) (got : option pintab) : bool :=
  VE.eqb_opt pintab_eqb (VE.dget kind (lib_pins_of l)) got.
