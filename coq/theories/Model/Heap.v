(** sim.Heap (sim.py:83-137) transcribed.  [chunks] is the dict start -> size kept as a list sorted
    by start (canonical form of the dict), [released] the sorted list of free chunk starts. *)
From Coq Require Import List NArith Bool Arith.
Import ListNotations.
Local Open Scope N_scope.

Record heap := { chunks : list (N * N); released : list N; cur : N; mx : N }.
Definition hinit : heap := {| chunks := []; released := []; cur := 0; mx := 0 |}.

Fixpoint lookup (k : N) (m : list (N * N)) : option N :=
  match m with [] => None | (k', v) :: r => if k =? k' then Some v else lookup k r end.
Fixpoint remove (k : N) (m : list (N * N)) : list (N * N) :=
  match m with [] => [] | (k', v) :: r => if k =? k' then r else (k', v) :: remove k r end.
Fixpoint insert (k v : N) (m : list (N * N)) : list (N * N) :=   (* set m[k] = v, keeping order *)
  match m with
  | [] => [(k, v)]
  | (k', v') :: r => if k <? k' then (k, v) :: m else if k =? k' then (k, v) :: r else (k', v') :: insert k v r
  end.
Definition size_of (h : heap) (loc : N) : N := match lookup loc (chunks h) with Some s => s | None => 0 end.

(** alloc: first released chunk (ascending address) that is large enough, split if larger *)
Fixpoint alloc_scan (size : N) (ch : list (N * N)) (before rel : list N) : option (N * list (N * N) * list N) :=
  match rel with
  | [] => None
  | loc :: rest =>
      let cs := match lookup loc ch with Some s => s | None => 0 end in
      if cs =? size then Some (loc, ch, rev before ++ rest)
      else if size <? cs then
        Some (loc, insert (loc + size) (cs - size) (insert loc size ch), rev before ++ (loc + size) :: rest)
      else alloc_scan size ch (loc :: before) rest
  end.

Definition alloc (h : heap) (size : N) : N * heap :=
  match alloc_scan size (chunks h) [] (released h) with
  | Some (loc, ch, rel) => (loc, {| chunks := ch; released := rel; cur := cur h; mx := mx h |})
  | None =>
      let loc := cur h in
      (loc, {| chunks := insert loc size (chunks h); released := released h;
               cur := cur h + size; mx := N.max (mx h) (cur h + size) |})
  end.

(* bisect.bisect (right): number of elements <= x in a sorted list *)
Fixpoint bisect (x : N) (l : list N) : nat :=
  match l with [] => 0%nat | y :: r => if y <=? x then S (bisect x r) else 0%nat end.
Fixpoint set_nth {A} (n : nat) (v : A) (l : list A) : list A :=
  match l, n with
  | [], _ => []
  | _ :: r, O => v :: r
  | y :: r, S n' => y :: set_nth n' v r
  end.
Fixpoint insert_at {A} (n : nat) (v : A) (l : list A) : list A :=
  match n, l with
  | O, _ => v :: l
  | S n', [] => [v]
  | S n', y :: r => y :: insert_at n' v r
  end.
Fixpoint remove_nth {A} (n : nat) (l : list A) : list A :=
  match l, n with
  | [], _ => []
  | _ :: r, O => r
  | y :: r, S n' => y :: remove_nth n' r
  end.

Definition free (h : heap) (loc : N) : option heap :=
  match lookup loc (chunks h) with
  | None => None                                             (* KeyError *)
  | Some size =>
      if loc + size =? cur h then
        (* end of managed area: drop the chunk, and the previous one if it is free *)
        let ch := remove loc (chunks h) in
        let c1 := cur h - size in
        match rev (released h) with
        | prev :: rrest =>
            let ps := match lookup prev ch with Some s => s | None => 0 end in
            if prev + ps =? c1
            then Some {| chunks := remove prev ch; released := rev rrest; cur := c1 - ps; mx := mx h |}
            else Some {| chunks := ch; released := released h; cur := c1; mx := mx h |}
        | [] => Some {| chunks := ch; released := released h; cur := c1; mx := mx h |}
        end
      else
        let idx := bisect loc (released h) in
        let next_free := match nth_error (released h) idx with Some nx => loc + size =? nx | None => false end in
        let '(ch1, size1, rel1) :=
          if next_free then
            let ns := match lookup (loc + size) (chunks h) with Some s => s | None => 0 end in
            (insert loc (size + ns) (remove (loc + size) (chunks h)), size + ns, set_nth idx loc (released h))
          else (chunks h, size, insert_at idx loc (released h)) in
        match idx with
        | O => Some {| chunks := ch1; released := rel1; cur := cur h; mx := mx h |}
        | S pidx =>
            match nth_error rel1 pidx with
            | Some prev =>
                let ps := match lookup prev ch1 with Some s => s | None => 0 end in
                if prev + ps =? loc
                then Some {| chunks := insert prev (size1 + ps) (remove loc ch1); released := remove_nth idx rel1;
                             cur := cur h; mx := mx h |}
                else Some {| chunks := ch1; released := rel1; cur := cur h; mx := mx h |}
            | None => Some {| chunks := ch1; released := rel1; cur := cur h; mx := mx h |}
            end
        end
  end.

Inductive hop := HAlloc (size : N) | HFree (loc : N).
(** run a history; the trace records every returned location *)
Fixpoint hrun (ops : list hop) (h : heap) (trace : list N) : option (heap * list N) :=
  match ops with
  | [] => Some (h, rev trace)
  | HAlloc s :: r => let '(loc, h') := alloc h s in hrun r h' (loc :: trace)
  | HFree l :: r => match free h l with Some h' => hrun r h' trace | None => None end
  end.
