(** Circuit._locs (circuit.py:292-307): prefix lookup of port / state-element positions.
    Names are matched with  (prefix.*?)((?:[\d_\[\]])*$) : group 2 is the maximal trailing run of digits, '_', '[' and ']'
    after the (literal) prefix, split into integers; the positions are filed in a nested dictionary keyed by group 1 and
    the integers, which is flattened in ascending key order.  The prefix is taken literally (no regex metacharacters). *)
From Coq Require Import List NArith Bool Arith String Ascii.
Import ListNotations.
Local Open Scope list_scope.

Definition is_idx_char (c : ascii) : bool :=
  let n := nat_of_ascii c in (Nat.leb 48 n && Nat.leb n 57) || Nat.eqb n 95 || Nat.eqb n 91 || Nat.eqb n 93.
Definition is_digit_c (c : ascii) : bool := let n := nat_of_ascii c in Nat.leb 48 n && Nat.leb n 57.

Fixpoint chars (s : string) : list ascii := match s with EmptyString => [] | String c r => c :: chars r end.
Fixpoint of_chars (l : list ascii) : string := match l with [] => EmptyString | c :: r => String c (of_chars r) end.

(** longest suffix of idx chars: (head, tail) *)
Fixpoint split_tail (l : list ascii) : list ascii * list ascii :=
  match l with
  | [] => ([], [])
  | c :: r => let '(h, t) := split_tail r in
              match h with
              | [] => if is_idx_char c then ([], c :: t) else ([c], t)
              | _ => (c :: h, t)
              end
  end.

(** integers in the tail: maximal digit runs (re.split on [_\[\]]+ and dropping empty pieces) *)
Fixpoint ints_of (l : list ascii) (cur : option nat) : list nat :=
  match l with
  | [] => match cur with Some n => [n] | None => [] end
  | c :: r => if is_digit_c c
              then ints_of r (Some (10 * (match cur with Some n => n | None => 0 end) + (nat_of_ascii c - 48)))
              else match cur with Some n => n :: ints_of r None | None => ints_of r None end
  end.

Fixpoint strip_prefix (p s : list ascii) : option (list ascii) :=
  match p, s with
  | [], _ => Some s
  | a :: p', b :: s' => if Ascii.eqb a b then strip_prefix p' s' else None
  | _ :: _, [] => None
  end.

Inductive key := KS (s : string) | KI (n : nat).
(** Python compares the keys of one dictionary level: strings among themselves (code point order), ints numerically *)
Fixpoint str_ltb (a b : string) : bool :=
  match a, b with
  | EmptyString, EmptyString => false
  | EmptyString, String _ _ => true
  | String _ _, EmptyString => false
  | String x a', String y b' => let nx := nat_of_ascii x in let ny := nat_of_ascii y in
                                if Nat.ltb nx ny then true else if Nat.ltb ny nx then false else str_ltb a' b'
  end.
Definition key_ltb (a b : key) : bool :=
  match a, b with KS x, KS y => str_ltb x y | KI x, KI y => Nat.ltb x y | KI _, KS _ => true | KS _, KI _ => false end.
Definition key_eqb (a b : key) : bool :=
  match a, b with KS x, KS y => String.eqb x y | KI x, KI y => Nat.eqb x y | _, _ => false end.

Inductive trie := TLeaf (i : nat) | TNode (kids : list (key * trie)).

(** d[path[-1]] = i after walking / creating the inner dictionaries; None = TypeError (an inner key already holds a position) *)
Fixpoint tinsert (fuel : nat) (t : trie) (path : list key) (i : nat) : option trie :=
  match fuel with
  | O => None
  | S f =>
      match t, path with
      | TLeaf _, _ => None
      | TNode kids, [] => None
      | TNode kids, [k] =>
          Some (TNode ((fix upd (l : list (key * trie)) := match l with
                          | [] => [(k, TLeaf i)]
                          | (k', v) :: r => if key_eqb k k' then (k, TLeaf i) :: r else (k', v) :: upd r end) kids))
      | TNode kids, k :: rest =>
          match (fix upd (l : list (key * trie)) : option (list (key * trie)) := match l with
                   | [] => option_map (fun sub => [(k, sub)]) (tinsert f (TNode []) rest i)
                   | (k', v) :: r => if key_eqb k k'
                                     then option_map (fun sub => (k, sub) :: r) (tinsert f v rest i)
                                     else option_map (fun r' => (k', v) :: r') (upd r) end) kids with
          | Some kids' => Some (TNode kids')
          | None => None
          end
      end
  end.

Fixpoint insert_key (kv : key * trie) (l : list (key * trie)) : list (key * trie) :=
  match l with [] => [kv] | x :: r => if key_ltb (fst kv) (fst x) then kv :: l else x :: insert_key kv r end.
Definition sort_kids (l : list (key * trie)) : list (key * trie) := fold_right insert_key [] l.

Inductive res := RLeaf (i : nat) | RList (l : list res).
Fixpoint flatten (fuel : nat) (t : trie) : res :=
  match fuel with
  | O => RList []
  | S f => match t with
           | TLeaf i => RLeaf i
           | TNode kids => RList (map (fun kv => flatten f (snd kv)) (sort_kids kids))
           end
  end.
Fixpoint unwrap (fuel : nat) (r : res) : res :=
  match fuel with O => r | S f => match r with RList [x] => unwrap f x | _ => r end end.

Definition name_path (prefix name : string) : option (list key) :=
  match strip_prefix (chars prefix) (chars name) with
  | None => None
  | Some rest => let '(h, t) := split_tail rest in
                 Some (KS (of_chars (chars prefix ++ h)) :: map KI (ints_of t None))
  end.

(** Some None = Python returns None (nothing matches); None = Python raises TypeError *)
Definition locs (prefix : string) (names : list string) : option (option res) :=
  let step (acc : option trie) (in_ : nat * string) :=
      match acc with
      | None => None
      | Some t => match name_path prefix (snd in_) with
                  | None => Some t
                  | Some path => tinsert (S (List.length path)) t path (fst in_)
                  end
      end in
  match fold_left step (combine (seq 0 (List.length names)) names) (Some (TNode [])) with
  | None => None
  | Some t => let r := unwrap 8 (flatten 16 t) in
              Some (match r with RList [] => None | _ => Some r end)
  end.
