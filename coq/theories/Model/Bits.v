(** Straight-line bitwise programs: the target of the tracing translator (translate/pysym.py).
    A program computes each register from earlier ones; registers 0..n-1 are the inputs.
    Two interpretations: one lane ([bool]) and a whole bit-vector of lanes ([N], width [w]). *)
From Coq Require Import List NArith Bool Arith.
Import ListNotations.

Inductive instr :=
| IConst (b : bool) | INot (a : nat) | IAnd (a b : nat) | IOr (a b : nat) | IXor (a b : nat).

Record prog := { p_code : list instr; p_outs : list nat }.

Section Alg.
  Context {B : Type} (zero one : B) (bnot : B -> B) (band bor bxor : B -> B -> B).
  Definition get (env : list B) (n : nat) : B := nth n env zero.
  Definition exec_instr (env : list B) (i : instr) : B :=
    match i with
    | IConst b => if b then one else zero
    | INot a => bnot (get env a)
    | IAnd a b => band (get env a) (get env b)
    | IOr a b => bor (get env a) (get env b)
    | IXor a b => bxor (get env a) (get env b)
    end.
  Definition step (env : list B) (i : instr) : list B := env ++ [exec_instr env i].
  Definition run_code (code : list instr) (env : list B) : list B := fold_left step code env.
  Definition run (p : prog) (inputs : list B) : list B :=
    let env := run_code (p_code p) inputs in map (get env) (p_outs p).
End Alg.

Definition run_bool : prog -> list bool -> list bool := run false true negb andb orb xorb.
Definition run_N (w : N) : prog -> list N -> list N :=
  run 0%N (N.ones w) (fun x => N.lxor (N.ones w) x) N.land N.lor N.lxor.

(** every operand refers to an input or an earlier register; every output register exists *)
Definition instr_ok (n : nat) (i : instr) : bool :=
  match i with
  | IConst _ => true
  | INot a => a <? n
  | IAnd a b | IOr a b | IXor a b => (a <? n) && (b <? n)
  end.
Fixpoint code_ok (n : nat) (code : list instr) : bool :=
  match code with [] => true | i :: r => instr_ok n i && code_ok (S n) r end.
Definition prog_ok (n_in : nat) (p : prog) : bool :=
  code_ok n_in (p_code p) && forallb (fun o => o <? n_in + length (p_code p)) (p_outs p).

(** bits <-> numbers, least significant first *)
Definition Ncons (b : bool) (x : N) : N := if b then N.succ_double x else N.double x.
Fixpoint N_of_bits (l : list bool) : N :=
  match l with [] => 0%N | b :: r => Ncons b (N_of_bits r) end.
Fixpoint to_bits (n : nat) (x : N) : list bool :=
  match n with 0 => [] | S n' => N.odd x :: to_bits n' (N.div2 x) end.
Definition bits_of (k : N) (n : nat) : list bool := map (fun v => N.testbit k (N.of_nat v)) (seq 0 n).

(** exhaustive sweep of a program over all 2^nvars input rows, evaluated bit-parallel:
    lane k of the N-interpretation carries input row k *)
Fixpoint Nseq (start : N) (len : nat) : list N :=
  match len with 0 => [] | S l => start :: Nseq (N.succ start) l end.
Definition col (nvars v : nat) : N :=
  N_of_bits (map (fun k => N.testbit k (N.of_nat v)) (Nseq 0 (2 ^ nvars))).
Definition cols (nvars : nat) : list N := map (col nvars) (seq 0 nvars).
Fixpoint sweep_rows (chk : list bool -> list bool -> bool) (nvars : nat) (k : N)
         (outs : list (list bool)) (n : nat) : bool :=
  match n with
  | 0 => true
  | S n' => chk (bits_of k nvars) (map (hd false) outs) &&
            sweep_rows chk nvars (N.succ k) (map (@tl bool) outs) n'
  end.
Definition sweep (p : prog) (nvars : nat) (chk : list bool -> list bool -> bool) : bool :=
  let outs := run_N (N.of_nat (2 ^ nvars)) p (cols nvars) in
  sweep_rows chk nvars 0%N (map (to_bits (2 ^ nvars)) outs) (2 ^ nvars).
