(** kyupy/circuit.py: GrowingList, IndexList, Node, Line, Circuit (graph edits) transcribed.

    Python object identity becomes a stable id: node ids / line ids are allocated consecutively in creation
    order ([nnext]/[lnext]) and never reused.  The attributes of an object live in the stores [nst]/[lst]
    (total functions; an id that was never allocated reads as a dead default record).  [n_alive]/[l_alive]
    model [obj.circuit is not None].  The containers of the Circuit object are lists of ids:
    [nodes]/[lines] (IndexList: position = index), [io] (GrowingList), [cells]/[forks] (dicts in insertion
    order).  Every public mutator is [circ -> args -> option circ]; [None] = the Python code raises.  *)
From Coq Require Import List Arith Bool String Ascii NArith.
Import ListNotations.
Local Open Scope list_scope.

Definition FORK : string := "__fork__"%string.
Definition is_fork (k : string) : bool := String.eqb k FORK.

Record nodeR := mkN { n_name : string; n_kind : string; n_index : nat;
                      n_ins : list (option nat); n_outs : list (option nat); n_alive : bool }.
Record lineR := mkL { l_index : nat; l_drv : option nat; l_dpin : nat; l_rdr : option nat; l_rpin : nat; l_alive : bool }.

Definition dead_node : nodeR := mkN EmptyString EmptyString 0 [] [] false.
Definition dead_line : lineR := mkL 0 None 0 None 0 false.

Record circ := mkC { nst : nat -> nodeR; nnext : nat; lst : nat -> lineR; lnext : nat;
                     nodes : list nat; lines : list nat; io : list (option nat);
                     cells : list (string * nat); forks : list (string * nat) }.

Definition empty : circ := mkC (fun _ => dead_node) 0 (fun _ => dead_line) 0 [] [] [] [] [].

Definition fupd {A} (f : nat -> A) (k : nat) (v : A) : nat -> A := fun x => if Nat.eqb x k then v else f x.

(** record field setters *)
Definition nset_index (r : nodeR) i := mkN (n_name r) (n_kind r) i (n_ins r) (n_outs r) (n_alive r).
Definition nset_kind (r : nodeR) k := mkN (n_name r) k (n_index r) (n_ins r) (n_outs r) (n_alive r).
Definition nset_ins (r : nodeR) v := mkN (n_name r) (n_kind r) (n_index r) v (n_outs r) (n_alive r).
Definition nset_outs (r : nodeR) v := mkN (n_name r) (n_kind r) (n_index r) (n_ins r) v (n_alive r).
Definition nset_alive (r : nodeR) b := mkN (n_name r) (n_kind r) (n_index r) (n_ins r) (n_outs r) b.
Definition lset_index (r : lineR) i := mkL i (l_drv r) (l_dpin r) (l_rdr r) (l_rpin r) (l_alive r).
Definition lset_drv (r : lineR) d p := mkL (l_index r) d p (l_rdr r) (l_rpin r) (l_alive r).
Definition lset_dpin (r : lineR) p := mkL (l_index r) (l_drv r) p (l_rdr r) (l_rpin r) (l_alive r).
Definition lset_rdr (r : lineR) d p := mkL (l_index r) (l_drv r) (l_dpin r) d p (l_alive r).
Definition lset_alive (r : lineR) b := mkL (l_index r) (l_drv r) (l_dpin r) (l_rdr r) (l_rpin r) b.

Definition with_nst (c : circ) f := mkC f (nnext c) (lst c) (lnext c) (nodes c) (lines c) (io c) (cells c) (forks c).
Definition with_lst (c : circ) f := mkC (nst c) (nnext c) f (lnext c) (nodes c) (lines c) (io c) (cells c) (forks c).
Definition with_nodes (c : circ) v := mkC (nst c) (nnext c) (lst c) (lnext c) v (lines c) (io c) (cells c) (forks c).
Definition with_lines (c : circ) v := mkC (nst c) (nnext c) (lst c) (lnext c) (nodes c) v (io c) (cells c) (forks c).
Definition with_io (c : circ) v := mkC (nst c) (nnext c) (lst c) (lnext c) (nodes c) (lines c) v (cells c) (forks c).
Definition with_cells (c : circ) v := mkC (nst c) (nnext c) (lst c) (lnext c) (nodes c) (lines c) (io c) v (forks c).
Definition with_forks (c : circ) v := mkC (nst c) (nnext c) (lst c) (lnext c) (nodes c) (lines c) (io c) (cells c) v.

Definition upd_node (c : circ) (n : nat) (g : nodeR -> nodeR) : circ := with_nst c (fupd (nst c) n (g (nst c n))).
Definition upd_line (c : circ) (l : nat) (g : lineR -> lineR) : circ := with_lst c (fupd (lst c) l (g (lst c l))).

Definition outs_of (c : circ) n := n_outs (nst c n).
Definition ins_of (c : circ) n := n_ins (nst c n).
Definition out_at (c : circ) n p : option nat := nth p (outs_of c n) None.
Definition in_at (c : circ) n p : option nat := nth p (ins_of c n) None.
Definition kind_of (c : circ) n := n_kind (nst c n).
Definition name_of (c : circ) n := n_name (nst c n).

(** ** GrowingList (circuit.py:19-26) *)
Fixpoint set_nth {A} (n : nat) (v : A) (l : list A) {struct l} : list A :=
  match l, n with
  | [], _ => []
  | _ :: r, O => v :: r
  | y :: r, S n' => y :: set_nth n' v r
  end.
Fixpoint remove_nth {A} (n : nat) (l : list A) {struct l} : list A :=
  match l, n with
  | [], _ => []
  | _ :: r, O => r
  | y :: r, S n' => y :: remove_nth n' r
  end.
(* __setitem__: extend with None up to the index, then store *)
Fixpoint gset {A} (l : list (option A)) (i : nat) (v : option A) : list (option A) :=
  match l, i with
  | [], O => [v]
  | [], S i' => None :: gset [] i' v
  | _ :: r, O => v :: r
  | y :: r, S i' => y :: gset r i' v
  end.
(* free_index: first None entry, else the length *)
Fixpoint free_index {A} (l : list (option A)) : nat :=
  match l with [] => 0 | None :: _ => 0 | Some _ :: r => S (free_index r) end.

(** ** IndexList.__delitem__ (circuit.py:29-36): (new list, moved element) ; None = IndexError *)
Definition idel (l : list nat) (i : nat) : option (list nat * option nat) :=
  match l with
  | [] => None                                              (* pop from empty list *)
  | _ =>
    if Nat.eqb i (List.length l - 1) then Some (removelast l, None)
    else let rep := last l 0 in
         if Nat.ltb i (List.length l - 1) then Some (set_nth i rep (removelast l), Some rep)
         else None                                          (* list assignment index out of range *)
  end.

(** ** dicts in insertion order *)
Fixpoint dget (k : string) (d : list (string * nat)) : option nat :=
  match d with [] => None | (k', v) :: r => if String.eqb k k' then Some v else dget k r end.
Fixpoint ddel (k : string) (d : list (string * nat)) : option (list (string * nat)) :=
  match d with
  | [] => None                                              (* KeyError *)
  | (k', v) :: r => if String.eqb k k' then Some r else option_map (cons (k', v)) (ddel k r)
  end.

(** ** Node.__init__ (circuit.py:45-84) *)
Definition add_node (c : circ) (name kind : string) : option (circ * nat) :=
  let id := nnext c in
  let reg :=
    if is_fork kind then
      match dget name (forks c) with Some _ => None | None => Some (with_forks c (forks c ++ [(name, id)])) end
    else
      match dget name (cells c) with Some _ => None | None => Some (with_cells c (cells c ++ [(name, id)])) end in
  match reg with
  | None => None                                            (* assert: name already in circuit *)
  | Some c1 =>
      let nodes' := nodes c1 ++ [id] in
      let r := mkN name kind (List.length nodes' - 1) [] [] true in
      Some (mkC (fupd (nst c1) id r) (S id) (lst c1) (lnext c1) nodes' (lines c1) (io c1) (cells c1) (forks c1), id)
  end.

(** ** Node.remove (circuit.py:96-110) *)
Definition del_node_at (c : circ) (i : nat) : option circ :=
  match idel (nodes c) i with
  | None => None
  | Some (l', None) => Some (with_nodes c l')
  | Some (l', Some rep) => Some (with_nodes (upd_node c rep (fun r => nset_index r i)) l')
  end.
Definition node_remove (c : circ) (n : nat) : option circ :=
  let r := nst c n in
  if n_alive r then
    match del_node_at c (n_index r) with
    | None => None
    | Some c1 =>
        let c2 := if is_fork (n_kind r)
                  then option_map (with_forks c1) (ddel (n_name r) (forks c1))
                  else option_map (with_cells c1) (ddel (n_name r) (cells c1)) in
        match c2 with
        | None => None                                      (* KeyError *)
        | Some c2 => Some (upd_node c2 n (fun r => nset_alive r false))
        end
    end
  else Some c.

(** ** Line.__init__ (circuit.py:138-171); pins: [None] = implicit (first free pin), [Some p] = explicit tuple *)
Definition add_line (c : circ) (d : nat) (dp : option nat) (r : nat) (rp : option nat) : circ * nat :=
  let id := lnext c in
  let lines' := lines c ++ [id] in
  let dpin := match dp with Some p => p | None => free_index (outs_of c d) end in
  let rpin := match rp with Some p => p | None => free_index (ins_of c r) end in
  let rec := mkL (List.length lines' - 1) (Some d) dpin (Some r) rpin true in
  let c1 := mkC (nst c) (nnext c) (fupd (lst c) id rec) (S id) (nodes c) lines' (io c) (cells c) (forks c) in
  let c2 := upd_node c1 d (fun x => nset_outs x (gset (n_outs x) dpin (Some id))) in
  let c3 := upd_node c2 r (fun x => nset_ins x (gset (n_ins x) rpin (Some id))) in
  (c3, id).

(** ** Line.remove (circuit.py:173-188) *)
(* for i, l in enumerate(self.driver.outs): l.driver_pin = i   -- AttributeError on a None entry *)
Fixpoint renumber (c : circ) (o : list (option nat)) (i : nat) : option circ :=
  match o with
  | [] => Some c
  | None :: _ => None
  | Some l2 :: r => renumber (upd_line c l2 (fun x => lset_dpin x i)) r (S i)
  end.
Definition del_line_at (c : circ) (i : nat) : option circ :=
  match idel (lines c) i with
  | None => None
  | Some (l', None) => Some (with_lines c l')
  | Some (l', Some rep) => Some (with_lines (upd_line c rep (fun r => lset_index r i)) l')
  end.
Definition line_remove (c : circ) (l : nat) : option circ :=
  let L := lst c l in
  let s1 :=
    match l_drv L with
    | None => Some c
    | Some d =>
        let c1 := upd_node c d (fun x => nset_outs x (gset (n_outs x) (l_dpin L) None)) in
        if is_fork (kind_of c1 d) then
          let o := remove_nth (l_dpin L) (outs_of c1 d) in
          renumber (upd_node c1 d (fun x => nset_outs x o)) o 0
        else Some c1
    end in
  match s1 with
  | None => None
  | Some c2 =>
      let c3 := match l_rdr L with
                | None => c2
                | Some r => upd_node c2 r (fun x => nset_ins x (gset (n_ins x) (l_rpin L) None))
                end in
      let s4 := if l_alive L then del_line_at c3 (l_index L) else Some c3 in
      match s4 with
      | None => None
      | Some c4 => Some (upd_line c4 l (fun x => lset_alive (lset_rdr (lset_drv x None (l_dpin x)) None (l_rpin x)) false))
      end
  end.

(** ** io_nodes[pos] = n (GrowingList); io_nodes.append(n) is pos = len *)
Definition set_io (c : circ) (pos n : nat) : circ := with_io c (gset (io c) pos (Some n)).

(** ** get_or_add_fork (circuit.py:334) *)
Definition get_or_add_fork (c : circ) (name : string) : option (circ * nat) :=
  match dget name (forks c) with Some n => Some (c, n) | None => add_node c name FORK end.

(** ** Node.__eq__/__hash__: (name, kind);  `n in set(io_nodes)` *)
Definition node_eqb (c1 : circ) (a : nat) (c2 : circ) (b : nat) : bool :=
  String.eqb (name_of c1 a) (name_of c2 b) && String.eqb (kind_of c1 a) (kind_of c2 b).
Definition in_ios (c : circ) (n : nat) : bool :=
  existsb (fun e => match e with Some m => node_eqb c n c m | None => false end) (io c).

(* `any(n is x for n in io_nodes)`: membership by object identity *)
Definition io_mem (c : circ) (x : nat) : bool :=
  existsb (fun e => match e with Some m => Nat.eqb m x | None => false end) (io c).

(** ** remove_dangling_nodes (circuit.py:337-346); fuel bounds the recursion depth (one level per removed line) *)
Fixpoint somes {A} (l : list (option A)) : list A :=
  match l with [] => [] | Some x :: r => x :: somes r | None :: r => somes r end.
Fixpoint fold_opt {A B} (f : A -> B -> option A) (l : list B) (a : A) : option A :=
  match l with [] => Some a | x :: r => match f a x with Some a' => fold_opt f r a' | None => None end end.
Fixpoint all_somes {A} (l : list (option A)) : option (list A) :=
  match l with
  | [] => Some []
  | Some x :: r => option_map (cons x) (all_somes r)
  | None :: _ => None
  end.
Fixpoint remove_dangling (fuel : nat) (c : circ) (root : nat) : option circ :=
  match fuel with
  | O => None
  | S fuel' =>
      match somes (outs_of c root) with
      | _ :: _ => Some c
      | [] =>
        if io_mem c root then Some c            (* ports stay: `any(n is root_node for n in self.io_nodes)` *)
        else
          let ls := somes (ins_of c root) in
          match all_somes (map (fun l => l_drv (lst c l)) ls) with   (* a None driver: AttributeError in the recursive call *)
          | None => None
          | Some drivers =>
              match node_remove c root with
              | None => None
              | Some c1 =>
                  match fold_opt line_remove ls c1 with
                  | None => None
                  | Some c2 => fold_opt (remove_dangling fuel') drivers c2
                  end
              end
          end
      end
  end.
Definition dangling_fuel (c : circ) : nat := S (S (lnext c)).

(** ** eliminate_1to1_forks (circuit.py:348-373) *)
(* `if len(n.ins) < 1 or n.ins[0] is None: continue` (fix of D38): a fork without driver is not a 1:1 fork and is left alone; the
   test is made BEFORE anything is removed.  [elim_one_old] below keeps the code before that fix (`in_line = n.ins[0]`: IndexError
   for ins = [], AttributeError on None half-way through the mutation) for the refuted companion C10_eliminate_driverless_fork_kept. *)
Definition elim_one (c : circ) (n : nat) : option circ :=
  if in_ios c n then Some c
  else match outs_of c n with
       | [oo] =>
           match ins_of c n with
           | [] => Some c                                   (* len(n.ins) < 1: continue *)
           | None :: _ => Some c                            (* n.ins[0] is None: continue *)
           | Some in_line :: _ =>
               match oo with
               | None => None                               (* out_line.reader: AttributeError *)
               | Some out_line =>
                   let out_reader := l_rdr (lst c out_line) in
                   let out_reader_pin := l_rpin (lst c out_line) in
                   match node_remove c n with
                   | None => None
                   | Some c1 =>
                       match line_remove c1 out_line with
                       | None => None
                       | Some c2 =>
                           match out_reader with
                           | Some rd =>
                               let c3 := upd_line c2 in_line (fun x => lset_rdr x (Some rd) out_reader_pin) in
                               Some (upd_node c3 rd (fun x => nset_ins x (gset (n_ins x) out_reader_pin (Some in_line))))
                           | None => None                   (* in_line.reader.ins: AttributeError on None *)
                           end
                       end
                   end
               end
           end
       | _ => Some c
       end.
Definition eliminate_1to1 (c : circ) : option circ := fold_opt elim_one (map snd (forks c)) c.
(* the loop body before the fix of D38 *)
Definition elim_one_old (c : circ) (n : nat) : option circ :=
  if in_ios c n then Some c
  else match outs_of c n with
       | [oo] =>
           match ins_of c n with
           | [] => None                                     (* n.ins[0]: IndexError *)
           | oi :: _ =>
               match oo with
               | None => None                               (* out_line.reader: AttributeError *)
               | Some out_line =>
                   let out_reader := l_rdr (lst c out_line) in
                   let out_reader_pin := l_rpin (lst c out_line) in
                   match node_remove c n with
                   | None => None
                   | Some c1 =>
                       match line_remove c1 out_line with
                       | None => None
                       | Some c2 =>
                           match oi, out_reader with
                           | Some in_line, Some rd =>
                               let c3 := upd_line c2 in_line (fun x => lset_rdr x (Some rd) out_reader_pin) in
                               Some (upd_node c3 rd (fun x => nset_ins x (gset (n_ins x) out_reader_pin (Some in_line))))
                           | _, _ => None                   (* AttributeError on None *)
                           end
                       end
                   end
               end
           end
       | _ => Some c
       end.
Definition eliminate_1to1_old (c : circ) : option circ := fold_opt elim_one_old (map snd (forks c)) c.

(** ** copy (circuit.py:450-466), __getstate__/__setstate__ (468-489) *)
Definition lookup_by_kind (c : circ) (name kind : string) : option nat :=
  if is_fork kind then dget name (forks c) else dget name (cells c).
Definition copy_node (src : circ) (c : circ) (n : nat) : option circ :=
  option_map fst (add_node c (name_of src n) (kind_of src n)).
Definition copy_line (src : circ) (c : circ) (l : nat) : option circ :=
  let L := lst src l in
  match l_drv L, l_rdr L with
  | Some d, Some r =>
      match lookup_by_kind c (name_of src d) (kind_of src d), lookup_by_kind c (name_of src r) (kind_of src r) with
      | Some d', Some r' => Some (fst (add_line c d' (Some (l_dpin L)) r' (Some (l_rpin L))))
      | _, _ => None                                        (* KeyError *)
      end
  | _, _ => None                                            (* AttributeError: None.kind *)
  end.
Definition copy_io (src : circ) (c : circ) (e : option nat) : option circ :=
  match e with
  | None => None                                            (* AttributeError: None.kind *)
  | Some n => match lookup_by_kind c (name_of src n) (kind_of src n) with
              | Some n' => Some (with_io c (io c ++ [Some n']))
              | None => None
              end
  end.
Definition copy (src : circ) : option circ :=
  match fold_opt (copy_node src) (nodes src) empty with
  | None => None
  | Some c1 => match fold_opt (copy_line src) (lines src) c1 with
               | None => None
               | Some c2 => fold_opt (copy_io src) (io src) c2
               end
  end.

Definition pstate := (list (string * string) * list (nat * nat * nat * nat) * list nat)%type.
Definition getstate (c : circ) : option pstate :=
  let nds := map (fun n => (name_of c n, kind_of c n)) (nodes c) in
  match all_somes (map (fun l => let L := lst c l in
                        match l_drv L, l_rdr L with
                        | Some d, Some r => Some (n_index (nst c d), l_dpin L, n_index (nst c r), l_rpin L)
                        | _, _ => None end) (lines c)),
        all_somes (map (option_map (fun n => n_index (nst c n))) (io c)) with
  | Some ls, Some ios => Some (nds, ls, ios)
  | _, _ => None
  end.
Definition set_node (c : circ) (s : string * string) : option circ := option_map fst (add_node c (fst s) (snd s)).
Definition set_line (c : circ) (q : nat * nat * nat * nat) : option circ :=
  let '(d, dp, r, rp) := q in
  match nth_error (nodes c) d, nth_error (nodes c) r with
  | Some d', Some r' => Some (fst (add_line c d' (Some dp) r' (Some rp)))
  | _, _ => None                                            (* IndexError *)
  end.
Definition set_ionode (c : circ) (i : nat) : option circ :=
  match nth_error (nodes c) i with Some n => Some (with_io c (io c ++ [Some n])) | None => None end.
Definition setstate (s : pstate) : option circ :=
  let '(nds, ls, ios) := s in
  match fold_opt set_node nds empty with
  | None => None
  | Some c1 => match fold_opt set_line ls c1 with
               | None => None
               | Some c2 => fold_opt set_ionode ios c2
               end
  end.
Definition pickle_roundtrip (c : circ) : option circ :=
  match getstate c with Some s => setstate s | None => None end.
(* canonical form: names/kinds by index, lines as (driver index, pin, reader index, pin) by index, io indices *)
Definition canon (c : circ) : option pstate := getstate c.

(** ** substitute (circuit.py:373-439).  [node_map] is keyed by the id of the implementation node (Python: by
    (name, kind), which identifies a node of a circuit whose names are unique per dict). *)
Fixpoint mget (k : nat) (m : list (nat * nat)) : option nat :=
  match m with [] => None | (k', v) :: r => if Nat.eqb k k' then Some v else mget k r end.
Fixpoint mset (k v : nat) (m : list (nat * nat)) : list (nat * nat) :=
  match m with [] => [(k, v)] | (k', v') :: r => if Nat.eqb k k' then (k, v) :: r else (k', v') :: mset k v r end.

Fixpoint find_designated (fuel : nat) (impl : circ) (n : nat) : option nat :=
  match fuel with
  | O => None                                               (* the Python loop would not terminate *)
  | S f =>
      if is_fork (kind_of impl n) && negb (in_ios impl n) then
        match ins_of impl n with
        | Some l :: _ => match l_drv (lst impl l) with Some d => find_designated f impl d | None => None end
        | _ => None                                         (* IndexError / AttributeError *)
        end
      else Some n
  end.

Definition pad {A} (l : list (option A)) (n : nat) : list (option A) := l ++ repeat None (n - List.length l).
Definition tilde (a b : string) : string := String.append a (String.append "~"%string b).

Definition subst_add_nodes (impl : circ) (iname : string) (desig : option nat)
           (st : circ * list (nat * nat)) (n : nat) : option (circ * list (nat * nat)) :=
  let '(c, m) := st in
  let mk kind := match add_node c (tilde iname (name_of impl n)) kind with
                 | Some (c', id) => Some (c', mset n id m) | None => None end in
  if negb (in_ios impl n) then
    match desig with
    | None => None              (* n != None evaluates Node.__eq__(n, None): AttributeError *)
    | Some dc => if negb (node_eqb impl n impl dc) then mk (kind_of impl n) else Some (c, m)
    end
  else if (0 <? List.length (outs_of impl n)) && (0 <? List.length (ins_of impl n)) then mk FORK
  else if (List.length (ins_of impl n) =? 0) && negb (List.length (outs_of impl n) =? 1) then mk FORK
  else Some (c, m).

Definition subst_add_line (impl : circ) (m : list (nat * nat)) (c : circ) (l : nat) : option circ :=
  let L := lst impl l in
  match l_rdr L, l_drv L with
  | Some r, Some d =>
      match mget r m, mget d m with
      | Some r', Some d' => Some (fst (add_line c d' (Some (l_dpin L)) r' (Some (l_rpin L))))
      | _, _ => Some c
      end
  | _, _ => Some c
  end.

Fixpoint zip {A B} (a : list A) (b : list B) : list (A * B) :=
  match a, b with x :: a', y :: b' => (x, y) :: zip a' b' | _, _ => [] end.

Definition subst_conn_in (impl : circ) (m : list (nat * nat)) (c : circ) (p : nat * option nat) : option circ :=
  let '(inn, oll) := p in
  match oll with
  | None => Some c
  | Some ll =>
      let tgt :=
        match outs_of impl inn with
        | [o] => match o with
                 | Some l => match l_rdr (lst impl l) with
                             | Some r => match mget r m with Some r' => Some (r', l_rpin (lst impl l)) | None => None end
                             | None => None end             (* KeyError: None not in node_map *)
                 | None => None end                         (* AttributeError *)
        | _ => match mget inn m with Some f => Some (f, 0) | None => None end     (* KeyError *)
        end in
      match tgt with
      | None => None
      | Some (rd, pin) =>
          let c1 := upd_line c ll (fun x => lset_rdr x (Some rd) pin) in
          Some (upd_node c1 rd (fun x => nset_ins x (gset (n_ins x) pin (Some ll))))
      end
  end.

(* [defer = true] is the code: nodes below an unconnected instance output are collected and removed only after ALL
   outputs are connected.  [defer = false] is the code before commit 119be80 (clean-up inside the loop), kept only as the
   subject of the refutation witness in Proofs/CircuitSubst.v. *)
Definition subst_conn_out (defer : bool) (impl : circ) (m : list (nat * nat)) (st : circ * list nat)
           (p : option nat * option nat) : option (circ * list nat) :=
  let '(c, dl) := st in
  let '(ol, oll) := p in
  match ol with
  | None => None                                            (* l.driver / l.reader on None: AttributeError *)
  | Some l =>
      let L := lst impl l in
      match oll with
      | None =>
          match l_drv L with
          | Some d => match mget d m with
                      | Some d' => if defer then Some (c, dl ++ [d'])
                                   else option_map (fun c' => (c', dl)) (remove_dangling (dangling_fuel c) c d')
                      | None => Some (c, dl) end
          | None => Some (c, dl)
          end
      | Some ll =>
          match l_rdr L with
          | None => None
          | Some r =>
              let tgt :=
                if 0 <? List.length (outs_of impl r)
                then match mget r m with Some f => Some (f, List.length (outs_of impl r)) | None => None end
                else match l_drv L with
                     | Some d => match mget d m with Some d' => Some (d', l_dpin L) | None => None end
                     | None => None end in
              match tgt with
              | None => None
              | Some (dn, pin) =>
                  let c1 := upd_line c ll (fun x => lset_drv x (Some dn) pin) in
                  Some (upd_node c1 dn (fun x => nset_outs x (gset (n_outs x) pin (Some ll))), dl)
              end
          end
      end
  end.

Definition substitute_gen (defer : bool) (c : circ) (node : nat) (impl : circ) : option circ :=
  match all_somes (io impl) with
  | None => None                                            (* len(None.ins) *)
  | Some ios =>
      let impl_in_nodes := filter (fun n => List.length (ins_of impl n) =? 0) ios in
      let impl_out_lines := map (fun n => nth 0 (ins_of impl n) None)
                                (filter (fun n => 0 <? List.length (ins_of impl n)) ios) in
      let desig :=
        match impl_out_lines with
        | [] => Some None
        | None :: _ => None
        | Some l0 :: _ => match l_drv (lst impl l0) with
                          | Some d => option_map Some (find_designated (S (nnext impl)) impl d)
                          | None => None end
        end in
      match desig with
      | None => None
      | Some desig =>
          let node_in_lines := pad (ins_of c node) (List.length impl_in_nodes) in
          let node_out_lines := pad (outs_of c node) (List.length impl_out_lines) in
          if negb ((List.length node_in_lines =? List.length impl_in_nodes) &&
                   (List.length node_out_lines =? List.length impl_out_lines)) then None    (* assert *)
          else
            let iname := name_of c node in
            let s0 := match desig with
                      | Some dc =>
                          Some (upd_node c node (fun x => nset_outs (nset_ins (nset_kind x (kind_of impl dc)) []) []),
                                [(dc, node)])
                      | None => option_map (fun c' => (c', [])) (node_remove c node)
                      end in
            match s0 with
            | None => None
            | Some st0 =>
                match fold_opt (subst_add_nodes impl iname desig) (nodes impl) st0 with
                | None => None
                | Some (c1, m) =>
                    match fold_opt (subst_add_line impl m) (lines impl) c1 with
                    | None => None
                    | Some c2 =>
                        match fold_opt (subst_conn_in impl m) (zip impl_in_nodes node_in_lines) c2 with
                        | None => None
                        | Some c3 =>
                            match fold_opt (subst_conn_out defer impl m) (zip impl_out_lines node_out_lines) (c3, []) with
                            | None => None
                            | Some (c4, dl) => fold_opt (fun c' d => remove_dangling (dangling_fuel c') c' d) dl c4
                            end
                        end
                    end
                end
            end
      end
  end.
Definition substitute := substitute_gen true.

(** resolve_tlib_cells (circuit.py:445-453): tlib = kind -> implementation.  The loop runs over a snapshot of the node list;
    `n.circuit is not None` ([n_alive]) skips an instance that the clean-up of an earlier substitution has removed.
    [resolve_one_old] / [resolve_tlib_old] is the code before commit 11c77ac (no such test), kept only as the subject of the
    refutation witness in Proofs/CircuitResolve.v. *)
Fixpoint tlib_get (k : string) (t : list (string * circ)) : option circ :=
  match t with [] => None | (k', v) :: r => if String.eqb k k' then Some v else tlib_get k r end.
Definition resolve_one_old (t : list (string * circ)) (c : circ) (n : nat) : option circ :=
  match tlib_get (kind_of c n) t with Some impl => substitute c n impl | None => Some c end.
Definition resolve_one (t : list (string * circ)) (c : circ) (n : nat) : option circ :=
  if n_alive (nst c n) then resolve_one_old t c n else Some c.
Definition resolve_tlib_old (c : circ) (t : list (string * circ)) : option circ := fold_opt (resolve_one_old t) (nodes c) c.
Definition resolve_tlib (c : circ) (t : list (string * circ)) : option circ := fold_opt (resolve_one t) (nodes c) c.

(** ** stats (circuit.py:309-332) *)
Definition lower_ascii (a : ascii) : ascii :=
  let n := N_of_ascii a in if (N.leb 65 n && N.leb n 90)%bool then ascii_of_N (n + 32) else a.
Fixpoint lower (s : string) : string :=
  match s with EmptyString => EmptyString | String a r => String (lower_ascii a) (lower r) end.
Fixpoint has_substr (p s : string) : bool :=
  String.prefix p s || match s with EmptyString => false | String _ r => has_substr p r end.
Definition is_dff (k : string) : bool := has_substr "dff" (lower k).
Definition is_latch (k : string) : bool := negb (is_dff k) && has_substr "latch" (lower k).
Definition is_comb (k : string) : bool :=
  negb (has_substr "dff" (lower k)) && negb (has_substr "latch" (lower k)) && negb (has_substr "put" (lower k)).
Definition count_kind (p : string -> bool) (c : circ) (l : list nat) : nat :=
  List.length (filter (fun n => p (kind_of c n)) l).

Record statsR := mkS { s_node : nat; s_cell : nat; s_fork : nat; s_io : nat; s_line : nat;
                       s_dff : nat; s_latch : nat; s_comb : nat; s_seq : nat }.
Definition stats (c : circ) : statsR :=
  let vals := map snd (cells c) in
  let d := count_kind is_dff c vals in
  let l := count_kind is_latch c vals in
  mkS (List.length (nodes c)) (List.length (cells c)) (List.length (forks c)) (List.length (io c)) (List.length (lines c))
      d l (count_kind is_comb c vals) (d + l).
(* stats[kind] for a cell kind *)
Definition stats_kind (c : circ) (k : string) : nat := count_kind (String.eqb k) c (map snd (cells c)).

(** ** the public edit operations *)
Inductive op :=
| AddNode (name kind : string)
| AddLine (d : nat) (dp : option nat) (r : nat) (rp : option nat)
| RemoveLine (l : nat)
| RemoveNode (n : nat)
| SetIO (pos n : nat)
| GetOrAddFork (name : string)
| RemoveDangling (n : nat)
| Eliminate1to1
| Substitute (n : nat) (impl : circ)
| ResolveTlib (t : list (string * circ))
| Copy
| PickleRoundTrip.

Definition step (c : circ) (o : op) : option circ :=
  match o with
  | AddNode name kind => option_map fst (add_node c name kind)
  | AddLine d dp r rp => Some (fst (add_line c d dp r rp))
  | RemoveLine l => line_remove c l
  | RemoveNode n => node_remove c n
  | SetIO pos n => Some (set_io c pos n)
  | GetOrAddFork name => option_map fst (get_or_add_fork c name)
  | RemoveDangling n => remove_dangling (dangling_fuel c) c n
  | Eliminate1to1 => eliminate_1to1 c
  | Substitute n impl => substitute c n impl
  | ResolveTlib t => resolve_tlib c t
  | Copy => copy c
  | PickleRoundTrip => pickle_roundtrip c
  end.

Fixpoint run_from (c : circ) (ops : list op) : option circ :=
  match ops with [] => Some c | o :: r => match step c o with Some c' => run_from c' r | None => None end end.
Definition run_hist (ops : list op) : option circ := run_from empty ops.
