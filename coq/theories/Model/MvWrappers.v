(** The array layer of logic.py on the shape-polymorphic array model (Model/NdArray.v).  Definitions only.

    - the kernels _mv_not / _mv_or / _mv_and / _mv_xor as they run for the public two-operand wrappers
      (logic.py:123-201, loops unrolled for ins = (x1, x2)), numpy call by numpy call, with the shape check of each call;
    - the wrappers mv_not / mv_or / mv_and / mv_xor / mv_transition (logic.py:128-137, 153-163, 180-190, 204-214, 241-258);
    - mv_to_bp / bp_to_mv / bparray at any rank (logic.py:261-280).
    Arrays are uint8 (values < 256); [None] = the call raises (the partial update of a caller-supplied out= before the
    exception is not modelled).

    [ip] selects how the kernels accumulate the masks any_unknown / any_one / any_zero over the operands:
    [false] = [any_unknown = any_unknown | (inp == UNKNOWN) | (inp == UNASSIGNED)] -- THE CODE AS IT IS since the repair
    666613e; [true] = in place, [any_unknown |= ...] -- the code before the repair, kept for the witness
    C12_wrapper_broadcast_refuted (it raised whenever x2 did not stretch to x1.shape). *)
From Coq Require Import List Arith Bool Lia.
From KV Require Import Model.Encodings Model.NdArray.
Import ListNotations.
Local Open Scope list_scope.

Notation "x <- e ;; f" := (obind e (fun x => f)) (at level 61, e at next level, right associativity).

(** x == c  (a bool array, stored as 0 / 1) *)
Definition eqc (x : nd) (c : nat) : nd := nd_map (fun v => Nat.b2n (v =? c)) x.
(** ~m on a bool array *)
Definition lnot (m : nd) : nd := nd_map (fun v => Nat.b2n (v =? 0)) m.
(** (x == UNKNOWN) | (x == UNASSIGNED) *)
Definition unk_mask (x : nd) : option nd := ufunc2 Nat.lor (eqc x UNKNOWN) (eqc x UNASSIGNED).
(** acc |= e   (before the repair)   or   acc = acc | e.  When ins[0] is 0-d, [ins[0] == c] is a numpy SCALAR (np.bool_),
    which has no in-place operators: [acc |= e] then rebinds acc to the fresh [acc | e] *)
Definition acc_or (ip : bool) (acc e : nd) : option nd :=
  if ip && negb (rank acc =? 0) then ufunc2_out Nat.lor acc e None acc else ufunc2 Nat.lor acc e.
(** any_unknown = any_unknown | (inp == UNKNOWN) | (inp == UNASSIGNED)     (Python groups this to the left)
    before the repair: any_unknown |= (inp == UNKNOWN) | (inp == UNASSIGNED) *)
Definition acc_unk (ip : bool) (au0 x2 : nd) : option nd :=
  if ip then u2 <- unk_mask x2 ;; acc_or true au0 u2
  else t <- ufunc2 Nat.lor au0 (eqc x2 UNKNOWN) ;; ufunc2 Nat.lor t (eqc x2 UNASSIGNED).

(** * kernels *)
(** np.bitwise_xor(inp, 0b11, out=out); np.putmask(out, (inp == UNKNOWN), UNKNOWN) *)
Definition k_mv_not (out inp : nd) : option nd :=
  o <- ufunc2_out Nat.lxor inp (scalar0 3) None out ;;
  putmask o (eqc inp UNKNOWN) UNKNOWN.

Definition k_mv_or (ip : bool) (out x1 x2 : nd) : option nd :=
  au0 <- unk_mask x1 ;;
  au <- acc_unk ip au0 x2 ;;
  ao <- acc_or ip (eqc x1 ONE) (eqc x2 ONE) ;;
  o <- putmask (nd_fill out ZERO) ao ONE ;;
  o <- ufunc2_out Nat.lor o x1 (Some (lnot ao)) o ;;
  o <- ufunc2_out Nat.lor o x2 (Some (lnot ao)) o ;;
  m <- ufunc2 Nat.land au (lnot ao) ;;
  putmask o m UNKNOWN.

Definition k_mv_and (ip : bool) (out x1 x2 : nd) : option nd :=
  au0 <- unk_mask x1 ;;
  au <- acc_unk ip au0 x2 ;;
  az <- acc_or ip (eqc x1 ZERO) (eqc x2 ZERO) ;;
  o <- putmask (nd_fill out ONE) az ZERO ;;
  o <- ufunc2_out Nat.land o (nd_map (fun v => Nat.lor v 4) x1) (Some (lnot az)) o ;;
  o <- ufunc2_out Nat.lor o (nd_map (fun v => Nat.land v 4) x1) (Some (lnot az)) o ;;
  o <- ufunc2_out Nat.land o (nd_map (fun v => Nat.lor v 4) x2) (Some (lnot az)) o ;;
  o <- ufunc2_out Nat.lor o (nd_map (fun v => Nat.land v 4) x2) (Some (lnot az)) o ;;
  m <- ufunc2 Nat.land au (lnot az) ;;
  putmask o m UNKNOWN.

Definition k_mv_xor (ip : bool) (out x1 x2 : nd) : option nd :=
  au0 <- unk_mask x1 ;;
  au <- acc_unk ip au0 x2 ;;
  let o := nd_fill out ZERO in
  o <- ufunc2_out Nat.lxor o (nd_map (fun v => Nat.land v 3) x1) None o ;;
  o <- ufunc2_out Nat.lor o (nd_map (fun v => Nat.land v 4) x1) None o ;;
  o <- ufunc2_out Nat.lxor o (nd_map (fun v => Nat.land v 3) x2) None o ;;
  o <- ufunc2_out Nat.lor o (nd_map (fun v => Nat.land v 4) x2) None o ;;
  putmask o au UNKNOWN.

(** what one element of the result is, as a function of the two operand elements (the same steps on one byte) *)
Definition b2 (b : bool) : nat := Nat.b2n b.
Definition unk_s (a : nat) : nat := Nat.lor (b2 (a =? UNKNOWN)) (b2 (a =? UNASSIGNED)).
Definition not_s (a : nat) : nat := if b2 (a =? UNKNOWN) =? 0 then Nat.lxor a 3 else UNKNOWN.
Definition or_s (a b : nat) : nat :=
  let au := Nat.lor (Nat.lor (unk_s a) (b2 (b =? UNKNOWN))) (b2 (b =? UNASSIGNED)) in
  let ao := Nat.lor (b2 (a =? ONE)) (b2 (b =? ONE)) in
  let w := negb (b2 (ao =? 0) =? 0) in
  let o := if ao =? 0 then ZERO else ONE in
  let o := if w then Nat.lor o a else o in
  let o := if w then Nat.lor o b else o in
  if Nat.land au (b2 (ao =? 0)) =? 0 then o else UNKNOWN.
Definition and_s (a b : nat) : nat :=
  let au := Nat.lor (Nat.lor (unk_s a) (b2 (b =? UNKNOWN))) (b2 (b =? UNASSIGNED)) in
  let az := Nat.lor (b2 (a =? ZERO)) (b2 (b =? ZERO)) in
  let w := negb (b2 (az =? 0) =? 0) in
  let o := if az =? 0 then ONE else ZERO in
  let o := if w then Nat.land o (Nat.lor a 4) else o in
  let o := if w then Nat.lor o (Nat.land a 4) else o in
  let o := if w then Nat.land o (Nat.lor b 4) else o in
  let o := if w then Nat.lor o (Nat.land b 4) else o in
  if Nat.land au (b2 (az =? 0)) =? 0 then o else UNKNOWN.
Definition xor_s (a b : nat) : nat :=
  let au := Nat.lor (Nat.lor (unk_s a) (b2 (b =? UNKNOWN))) (b2 (b =? UNASSIGNED)) in
  let o := Nat.lxor ZERO (Nat.land a 3) in
  let o := Nat.lor o (Nat.land a 4) in
  let o := Nat.lxor o (Nat.land b 3) in
  let o := Nat.lor o (Nat.land b 4) in
  if au =? 0 then o else UNKNOWN.

(** * the public wrappers: out = out if out is not None else np.empty(np.broadcast(x1, x2).shape); kernel; return out *)
Inductive mvop := MvOr | MvAnd | MvXor.
Definition kernel2 (op : mvop) := match op with MvOr => k_mv_or | MvAnd => k_mv_and | MvXor => k_mv_xor end.
Definition elem2 (op : mvop) := match op with MvOr => or_s | MvAnd => and_s | MvXor => xor_s end.

Definition mvw_not (junk : nat -> nat) (x1 : nd) (out : option nd) : option nd :=
  let o := match out with Some o => o | None => np_empty junk (nd_shape x1) end in
  k_mv_not o x1.
Definition mvw_bin (ip : bool) (op : mvop) (junk : nat -> nat) (x1 x2 : nd) (out : option nd) : option nd :=
  o <- match out with
       | Some o => Some o
       | None => option_map (np_empty junk) (broadcast2 (nd_shape x1) (nd_shape x2))
       end ;;
  kernel2 op ip o x1 x2.
(** the code as it is *)
Definition mvw_or := mvw_bin false MvOr.
Definition mvw_and := mvw_bin false MvAnd.
Definition mvw_xor := mvw_bin false MvXor.

(** * mv_to_bp / bp_to_mv / bparray *)
(** if mva.ndim == 1: mva = mva[..., np.newaxis]
    np.packbits(unpackbits(mva)[...,:3], axis=-2, bitorder='little').swapaxes(-1,-2) *)
Definition mv_to_bp (mva : nd) : option nd :=
  let mva := if rank mva =? 1 then NdA (nd_shape mva ++ [1]) (nd_data mva) else mva in
  p <- packbits_axis2 (unpack_new_axis 3 mva) ;;
  swap_last2 p.
(** packbits(np.unpackbits(bpa, axis=-1, bitorder='little').swapaxes(-1,-2)) *)
Definition bp_to_mv (bpa : nd) : option nd :=
  u <- unpackbits_last bpa ;;
  s <- swap_last2 u ;;
  packbits_u8_last s.

(** mvarray(args) as a flat array: Model/Encodings.mvarray gives the shape and the nested list at any rank *)
Definition mvarray_nd (a : list pv) : option nd :=
  match mvarray a with Some (sh, t) => Some (NdA sh (leaves t)) | None => None end.
Definition bparray_nd (a : list pv) : option nd := m <- mvarray_nd a ;; mv_to_bp m.
