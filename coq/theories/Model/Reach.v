(** Paths of lines in a netlist, and the position order of a traversal: the vocabulary of the fan-in theorems
    (Proofs/FaninProofs.v).  Definitions only. *)
From Coq Require Import List Arith Bool.
From KV Require Import Model.Prims Model.Netlist Model.NetlistWf.
Import ListNotations.
Local Open Scope list_scope.

(** [reaches c n o]: there is a path of lines from node [n] to node [o] (length >= 0) *)
Inductive reaches (c : netlist) : nat -> nat -> Prop :=
| reaches_refl n : reaches c n n
| reaches_step l o : l < List.length (c_lines c) -> reaches c (l_rdr (get_line c l)) o ->
                     reaches c (l_drv (get_line c l)) o.

(** [comb_reaches c n o]: a path from [n] to [o] on which every node except the end point [o] is combinational
    (neither flip-flop nor latch) *)
Inductive comb_reaches (c : netlist) : nat -> nat -> Prop :=
| comb_reaches_refl n : comb_reaches c n n
| comb_reaches_step l o : l < List.length (c_lines c) -> is_seq (get_node c (l_drv (get_line c l))) = false ->
                          comb_reaches c (l_rdr (get_line c l)) o -> comb_reaches c (l_drv (get_line c l)) o.

(** [a] is yielded strictly before [b] in the sequence [l] *)
Definition before (l : list nat) (a b : nat) : Prop :=
  exists j i, index_of a l = Some j /\ index_of b l = Some i /\ j < i.

(** the step of [fanin]'s loop (circuit.py:558-564), named: [fanin] is the fold of this step over [rtopo_order] *)
Definition fanin_marks0 (c : netlist) (origins : list nat) : list bool :=
  map (fun i => existsb (Nat.eqb i) origins) (seq 0 (List.length (c_nodes c))).
Definition fanin_step (c : netlist) (st : list bool * list nat) (n : nat) : list bool * list nat :=
  let '(marks, acc) := st in
  let m := nth n marks false ||
           existsb (fun ln => nth (l_rdr (get_line c ln)) marks false) (somes (n_outs (get_node c n))) in
  let marks' := map (fun im => if Nat.eqb (fst im) n then m else snd im) (combine (seq 0 (List.length marks)) marks) in
  (marks', if m then n :: acc else acc).
