(** Vocabulary of the translated source of the pure-Python CUDA launcher (Gen/LaunchSrc.v, written by
    translate/gen_launch.py from kyupy/__init__.py class MockCuda).  Definitions only.

    The launcher's state is the pair (outer.x, outer.y) that cuda.grid() returns; a statement is an action on
    that state that also yields the kernel instances it starts, each recorded as the state at the moment of the
    call (= what the kernel reads through cuda.grid(2)). *)
From Coq Require Import List Arith.
Import ListNotations.

Definition lstate := (nat * nat)%type.
Definition act := lstate -> list lstate * lstate.

Definition py_setx (e : nat) : act := fun st => ([], (e, snd st)).      (* outer.x = e *)
Definition py_sety (e : nat) : act := fun st => ([], (fst st, e)).      (* outer.y = e *)
Definition py_call : act := fun st => ([st], st).                        (* the kernel call self.func( *args, **kwargs ) *)
Definition py_skip : act := fun st => ([], st).
Definition py_seq (a b : act) : act :=                                   (* a ; b *)
  fun st => let '(t1, st1) := a st in let '(t2, st2) := b st1 in (t1 ++ t2, st2).
(** for v in range(n): body   is   py_for (seq 0 n) (fun v => body) *)
Fixpoint py_for (l : list nat) (body : nat -> act) : act :=
  fun st => match l with
            | [] => ([], st)
            | v :: r => let '(t1, st1) := body v st in let '(t2, st2) := py_for r body st1 in (t1 ++ t2, st2)
            end.
