(** C10 vocabulary.  (1) [pin_equiv]: two netlists are the same up to trailing unconnected pins (what copy / pickle
    guarantee: a GrowingList of the original may end in [None]s that the rebuilt circuit does not have).
    (2) An ID-BASED gate-by-gate semantics of an edit-model state: a valuation [v] of line IDS and a stimulus [stim]
    keyed by node ID (ids are stable across edits, so no renaming is needed when nodes / lines are removed and the
    IndexLists are re-packed).  [gate_ok] is NetlistSem.node_ok with the node's attributes passed explicitly; [csol] is
    NetlistSem.solution read off the circuit object graph instead of the index-based netlist view.  Definitions only. *)
From Coq Require Import List NArith Bool Arith String.
From KV Require Model.Prims Model.Netlist Model.SimOps Model.NetlistSem Gen.SimTables.
From KV Require Import Model.Circuit Model.CircuitInv Model.CircuitView.
Import ListNotations.
Local Open Scope list_scope.

(** ** netlists equal up to trailing [None] pins *)
Definition pin_equiv (a b : Netlist.netlist) : Prop :=
  List.length (Netlist.c_nodes a) = List.length (Netlist.c_nodes b) /\
  map Netlist.n_kind (Netlist.c_nodes a) = map Netlist.n_kind (Netlist.c_nodes b) /\
  Netlist.c_lines a = Netlist.c_lines b /\
  Netlist.c_io a = Netlist.c_io b /\
  (forall n k, SimOps.pin (Netlist.n_ins (Netlist.get_node a n)) k = SimOps.pin (Netlist.n_ins (Netlist.get_node b n)) k) /\
  (forall n k, SimOps.pin (Netlist.n_outs (Netlist.get_node a n)) k = SimOps.pin (Netlist.n_outs (Netlist.get_node b n)) k).

(** ** kind predicates exactly as NetlistSem / Netlist read them off a node *)
Definition kind_is_dff (k : string) : bool := Prims.contains "dff" (Prims.lower k).
Definition kind_is_latch (k : string) : bool := Prims.contains "latch" (Prims.lower k).
Definition kind_is_fork (k : string) : bool := String.eqb (Prims.lower k) "__fork__".
Definition kind_port_wire (k : string) (ins : list (option nat)) : bool :=
  String.eqb k "__fork__" && Netlist.is_some (SimOps.pin ins 0).

Section CSem.
  Context {V : Type} (sem : N -> V -> V -> V -> V -> V) (zero : V).

  (** what a node of kind [kind] with pin lists [ins]/[outs] demands of the valuation [v]; [ifc] = [Some s] for an
      interface node (port that is not a wire, flip-flop, latch) that is assigned the stimulus value [s] *)
  Definition gate_ok (kind : string) (ins outs : list (option nat)) (ifc : option V) (v : nat -> V) : Prop :=
    match ifc with
    | Some s =>
        (forall o, SimOps.pin outs 0 = Some o -> v o = sem (SimOps.lutv "BUF1") s zero zero zero) /\
        (if kind_is_dff kind
         then forall o, SimOps.pin outs 1 = Some o -> v o = sem (SimOps.lutv "INV1") s zero zero zero
         else forall k o, 0 < k -> SimOps.pin outs k = Some o -> v o = sem (SimOps.lutv "BUF1") s zero zero zero)
    | None =>
        if kind_is_fork kind then
          forall k o, SimOps.pin outs k = Some o ->
            v o = sem (SimOps.lutv "BUF1") (NetlistSem.pinv zero v ins 0) (NetlistSem.pinv zero v ins 1)
                      (NetlistSem.pinv zero v ins 2) (NetlistSem.pinv zero v ins 3)
        else
          match Prims.select_lut SimTables.kind_prefixes kind
                                 (negb (Netlist.is_some (SimOps.pin ins 2))) (negb (Netlist.is_some (SimOps.pin ins 3))) with
          | Some sp => forall o, SimOps.pin outs 0 = Some o ->
                         v o = sem sp (NetlistSem.pinv zero v ins 0) (NetlistSem.pinv zero v ins 1)
                                   (NetlistSem.pinv zero v ins 2) (NetlistSem.pinv zero v ins 3)
          | None => True
          end
    end.

  (** interface nodes of a circuit state: members of s_nodes that are not port wires *)
  Definition ciface (c : circ) (n : nat) : bool :=
    negb (kind_port_wire (kind_of c n) (ins_of c n)) && mem n (s_node_ids c).

  Definition cnode_ok (c : circ) (stim : nat -> V) (v : nat -> V) (n : nat) : Prop :=
    gate_ok (kind_of c n) (ins_of c n) (outs_of c n) (if ciface c n then Some (stim n) else None) v.

  (** [v] (line id -> value) is a solution of the circuit state [c] for the stimulus [stim] (node id -> value) *)
  Definition csol (c : circ) (stim : nat -> V) (v : nat -> V) : Prop := forall n, In n (nodes c) -> cnode_ok c stim v n.

  (** the value observed at input pin [k] of node [m] (for a port / state element: what it captures) *)
  Definition obs (c : circ) (v : nat -> V) (m k : nat) : V := NetlistSem.pinv zero v (ins_of c m) k.
End CSem.

(** io_nodes as ids *)
Definition io_ids (c : circ) : list nat := map (fun o => match o with Some n => n | None => 0 end) (io c).
Definition node_is_dff (c : circ) (n : nat) : bool := kind_is_dff (kind_of c n).
Definition node_is_latch (c : circ) (n : nat) : bool := kind_is_latch (kind_of c n).

(** transport between ids and indices *)
Definition stim_by_pos {V} (c : circ) (stim : nat -> V) : nat -> V := fun p => stim (nth p (s_node_ids c) 0).
Definition val_by_idx {V} (c : circ) (v : nat -> V) : nat -> V := fun i => v (nth i (lines c) 0).
Definition val_by_id {V} (c : circ) (w : nat -> V) : nat -> V := fun l => w (line_idx c l).
Definition stim_by_id {V} (zero : V) (c : circ) (stim : nat -> V) : nat -> V :=
  fun n => match NetlistSem.iface_pos (view c) (node_idx c n) with Some p => stim p | None => zero end.

(** sufficient condition for eliminate_1to1_forks to keep the order of s_nodes: every state element precedes, in
    Circuit.nodes, every fork that the loop removes *)
Definition node_is_state (c : circ) (n : nat) : bool := node_is_dff c n || node_is_latch c n.
Definition removable (c : circ) (n : nat) : bool :=
  is_fork (kind_of c n) && negb (in_ios c n) && Nat.eqb (List.length (outs_of c n)) 1.
Definition state_first (c : circ) : Prop :=
  forall i j s f, nth_error (nodes c) i = Some s -> nth_error (nodes c) j = Some f ->
                  node_is_state c s = true -> removable c f = true -> i < j.
Definition state_first_b (c : circ) : bool :=
  let rem := map (removable c) (nodes c) in
  forallb_i (fun i s => negb (node_is_state c s) || forallb_i (fun j (r : bool) => negb r || Nat.ltb i j) 0 rem) 0 (nodes c).
