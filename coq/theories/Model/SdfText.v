(** TEXT level of the SDF front end: an executable transcription of what
    `Lark(sdf.GRAMMAR, parser=`lalr`)` (sdf.py:168-202, lark 0.12, contextual lexer) accepts and of the tree it hands to
    SdfTransformer, followed by the conversion of that tree into the tree type of Model/Sdf.v.

      start: `(DELAYFILE` ( `(SDFVERSION` _NOB `)` | `(DESIGN` DQ NAME DQ `)` | `(DATE` _NOB `)` | `(VENDOR` _NOB `)`
           | `(PROGRAM` _NOB `)` | `(VERSION` _NOB `)` | `(DIVIDER` _NOB `)` | `(VOLTAGE` _NOB `)` | `(PROCESS` _NOB? `)`
           | `(TEMPERATURE` _NOB `)` | `(TIMESCALE` _NOB `)` | cell )* `)`
      cell: `(CELL` ( `(CELLTYPE` _NOB `)` | `(INSTANCE` ID? `)` | `(TIMINGCHECK` _ignore* `)` | delay )* `)`
      delay: `(DELAY` `(ABSOLUTE` (interconnect | iopath)* `)` `)`
      interconnect: `(INTERCONNECT` ID ID triple* `)`       iopath: `(IOPATH` ID_OR_EDGE ID_OR_EDGE triple* `)`
      NAME: /[^DQ]+/     ID_OR_EDGE: ( /[^()\s]+/ | `(` /[^)]+/ `)` )     ID: ( /[^DQ()\s]+/ | DQ /[^DQ]+/ DQ )
      triple: `(` ( /[-.0-9]*:/ /[-.0-9]*:/ /[-.0-9]*\)/ | `)` )
      _ignore: `(` _NOB? _ignore* `)` _NOB?       _NOB: /[^()]+/       COMMENT: `//` /[^\n]*/
      %ignore ( /\r?\n/ | COMMENT )+              %ignore /[\t\f ]+/

    (literals are written between backquotes, DQ is the double quote character)

    How lark lexes this grammar (read off lark/lexer.py and the LALR table, confirmed by running the real parser;
    harness/sdf_text.py keeps the probes).  The contextual lexer builds one scanner per parser state from the terminals
    acceptable there plus the two ignore terminals IGNORE_0 = (//[^\n]*|\r?\n)+ and IGNORE_1 = [\t\f ]+ .  A scanner is ONE
    alternation in the order (priority, maximal width, length of the pattern source, name): all regular expressions come
    before all string literals, and among the regular expressions the order is
          ID_OR_EDGE, ID, IGNORE_0, `[-.0-9]*\)`, `[-.0-9]*:`, _NOB, IGNORE_1, NAME.
    Python takes the FIRST alternative that matches (not the longest).  Consequences:
    * where only string literals are acceptable (keywords, parentheses, the quote of DESIGN), any run of blanks, tabs, form
      feeds, `\n`, `\r\n` and `//` comments is skipped; a lone `\r` or `/` raises.  Keywords are plain prefixes (no word
      boundary): `(DELAY(ABSOLUTE`, `(DATEx)` and `(DESIGN`top`)` are accepted, `(CELLTYPE` directly below DELAYFILE is
      read as `(CELL` followed by garbage.
    * where ID (resp. ID_OR_EDGE) is acceptable it is tried FIRST at every position.  Since fix d9c2c16 a plain name is
      [^`()\s]+ (resp. [^()\s]+; ` = double quote): any white-space character ends it, and a name starts at any other character
      except parentheses (and the quote, which opens the quoted form) -- so `//` directly in front of a name position is read
      as a NAME, not as a comment.  Where the name does not match, one ignore token is skipped and the name is tried again:
      IGNORE_1 = the run [\t\f ]+, or IGNORE_0, which here can only start with a line break and then takes line breaks and
      `//` comments greedily (so a comment IS skipped directly after a line break).  Other \s characters (\v, \x1c-\x1f,
      \x85, \xa0, lone \r) are neither name nor ignored: they raise.  A quoted ID keeps its quotes; `(..)` of ID_OR_EDGE
      extends to the first `)`.
    * where _NOB is acceptable, IGNORE_0 is tried first, then _NOB, which takes everything up to the next parenthesis
      (blanks, newlines and later `//` included).  So `(DATE` NEWLINE `)` raises (nothing is left for _NOB) while `(DATE )`
      is accepted, and a `//` comment at the very beginning of such a region hides parentheses up to the end of the line.
    * NAME comes last: ignored text after the opening quote of DESIGN is skipped, then NAME runs to the next quote.
    * inside a triple ignored text may precede each of the three number tokens (which include their `:` / `)`), not
      follow the digits: `( 1: 2: 3)` is accepted, `(1 :2:3)` and `(1:2:3 )` raise.
    * kept in the tree: NAME, ID, ID_OR_EDGE and the three number tokens; _NOB and the string literals are filtered out.

    Domain of the model: texts whose code points are < 256 (one Coq [ascii] per code point; none of the patterns is
    case- or locale-dependent, a code point >= 128 is an ordinary name / _NOB character).  [None] = lark raises
    (UnexpectedCharacters / UnexpectedToken / UnexpectedEOF). *)
From Coq Require Import List ZArith NArith Bool Arith String Ascii.
From KV Require Import Model.Sdf.
Import ListNotations.
Local Open Scope list_scope.

(** * The tree lark produces (number tokens as text, their final ":" / ")" removed) *)
Definition xtriple := list string.                      (* [] for "()", else three texts *)
Inductive xentry := XEntry (io : bool) (a b : string) (ts : list xtriple).   (* io = true: IOPATH *)
Inductive xcarg := XName (s : string) | XDelay (es : list xentry).
Inductive xsarg := XSName (s : string) | XSCell (args : list xcarg).

(** * characters *)
Definition c_tab : ascii := ascii_of_N 9.
Definition c_nl : ascii := ascii_of_N 10.
Definition c_ff : ascii := ascii_of_N 12.
Definition c_cr : ascii := ascii_of_N 13.
Definition c_sp : ascii := ascii_of_N 32.
Definition c_quote : ascii := ascii_of_N 34.
Definition c_lpar : ascii := ascii_of_N 40.
Definition c_rpar : ascii := ascii_of_N 41.
Definition c_slash : ascii := ascii_of_N 47.
Definition c_colon : ascii := ascii_of_N 58.
Definition c_minus : ascii := ascii_of_N 45.
Definition c_dot : ascii := ascii_of_N 46.

Definition is_b1 (c : ascii) : bool := Ascii.eqb c c_tab || Ascii.eqb c c_ff || Ascii.eqb c c_sp.     (* [\t\f ] *)
Definition is_paren (c : ascii) : bool := Ascii.eqb c c_lpar || Ascii.eqb c c_rpar.
Definition not_paren (c : ascii) : bool := negb (is_paren c).                                        (* [^()] *)
Definition not_quote (c : ascii) : bool := negb (Ascii.eqb c c_quote).                               (* not DQ *)
Definition not_rpar (c : ascii) : bool := negb (Ascii.eqb c c_rpar).                                 (* [^)] *)
(* Python's \s on str patterns restricted to code points < 256: \t \n \v \f \r, FS GS RS US (28..31), blank, NEL (133), NBSP (160) *)
Definition is_ws (c : ascii) : bool :=
  let n := N_of_ascii c in (((9 <=? n) && (n <=? 13)) || ((28 <=? n) && (n <=? 32)) || (n =? 133) || (n =? 160))%N.
Definition ide_char (c : ascii) : bool := negb (is_paren c || is_ws c).                              (* [^()\s]  (since fix d9c2c16) *)
Definition id_char (c : ascii) : bool := ide_char c && not_quote c.                                  (* none of DQ ( ) \s *)
Definition is_digit (c : ascii) : bool := let n := N_of_ascii c in ((48 <=? n) && (n <=? 57))%N.
Definition is_numc (c : ascii) : bool := is_digit c || Ascii.eqb c c_minus || Ascii.eqb c c_dot.     (* [-.0-9] *)

(** * scanners *)
(* the maximal prefix of ignored text: [b1 = true] both ignore terminals (any order, any number),
   [b1 = false] IGNORE_0 alone; [cm]: inside a comment *)
Fixpoint skip_go (b1 cm : bool) (s : string) : string :=
  match s with
  | EmptyString => EmptyString
  | String c r =>
      if cm then (if Ascii.eqb c c_nl then skip_go b1 false r else skip_go b1 true r)
      else if (b1 && is_b1 c) || Ascii.eqb c c_nl then skip_go b1 false r
      else if Ascii.eqb c c_cr then
        match r with
        | String c2 r2 => if Ascii.eqb c2 c_nl then skip_go b1 false r2 else s
        | EmptyString => s
        end
      else if Ascii.eqb c c_slash then
        match r with
        | String c2 r2 => if Ascii.eqb c2 c_slash then skip_go b1 true r2 else s
        | EmptyString => s
        end
      else s
  end.
Definition skip_ign : string -> string := skip_go true false.
Definition skip0 : string -> string := skip_go false false.

(* greedy character class: (maximal prefix, rest) *)
Fixpoint span (p : ascii -> bool) (s : string) : string * string :=
  match s with
  | EmptyString => (EmptyString, EmptyString)
  | String c r => if p c then (let '(a, b) := span p r in (String c a, b)) else (EmptyString, s)
  end.

(* a string literal in a state where only literals are acceptable *)
Definition expect (p s : string) : option string := drop_prefix p (skip_ign s).

(* a state accepting _NOB: IGNORE_0 first, then _NOB up to the next parenthesis; (was there a _NOB token, rest) *)
Definition scan_nob (s : string) : bool * string :=
  let '(w, r) := span not_paren (skip0 s) in (match w with EmptyString => false | _ => true end, r).

(* a state accepting ID / ID_OR_EDGE: the name (a run of characters other than DQ ( ) \s, DQ allowed for ID_OR_EDGE, or the quoted / parenthesised form) is tried FIRST at every
   position; where it does not match, one ignore token is skipped and the name is tried again: IGNORE_1 takes the run [\t\f ]+ ; IGNORE_0 can
   only START with a line break here (a `//` would already have been taken as a name) and then takes line breaks AND comments greedily *)
Fixpoint id_skip_go (fuel : nat) (s : string) : string :=
  match fuel with
  | O => s
  | S f =>
      match s with
      | String c r =>
          if is_b1 c then id_skip_go f (snd (span is_b1 s))
          else if Ascii.eqb c c_nl then id_skip_go f (skip0 s)
          else if Ascii.eqb c c_cr then
            match r with
            | String c2 _ => if Ascii.eqb c2 c_nl then id_skip_go f (skip0 s) else s
            | EmptyString => s
            end
          else s
      | EmptyString => s
      end
  end.
Definition id_skip (s : string) : string := id_skip_go (S (String.length s)) s.
Definition q1 : string := String c_quote EmptyString.
(* [o]: the character that opens the quoted / parenthesised form, [inner]: its body, [cl]: the closing character (the only
   one outside [inner]); [plain]: the characters of the plain form *)
Definition scan_name (o cl : ascii) (inner plain : ascii -> bool) (s : string) : option (string * string) :=
  match id_skip s with
  | EmptyString => None
  | String c r =>
      if Ascii.eqb c o then
        match span inner r with
        | (String x b, String _ r2) => Some (String o (String x b ++ String cl EmptyString)%string, r2)
        | _ => None
        end
      else if plain c then Some (span plain (String c r))
      else None
  end.
Definition scan_id : string -> option (string * string) := scan_name c_quote c_quote not_quote id_char.
Definition scan_ide : string -> option (string * string) := scan_name c_lpar c_rpar not_rpar ide_char.

(* /[-.0-9]*:/ resp. /[-.0-9]*\)/ after ignored text; the token text without its last character *)
Definition scan_num (endc : ascii) (s : string) : option (string * string) :=
  match span is_numc (skip_ign s) with
  | (n, String c r) => if Ascii.eqb c endc then Some (n, r) else None
  | _ => None
  end.

(** * parser (recursive descent; every loop iteration consumes at least one character, so the length of the text
    is enough fuel) *)
(* after the "(" of a triple *)
Definition parse_triple_body (s : string) : option (xtriple * string) :=
  match drop_prefix ")" (skip_ign s) with
  | Some r => Some ([], r)
  | None =>
      match scan_num c_colon s with
      | Some (a, r1) =>
          match scan_num c_colon r1 with
          | Some (b, r2) =>
              match scan_num c_rpar r2 with
              | Some (c, r3) => Some ([a; b; c], r3)
              | None => None
              end
          | None => None
          end
      | None => None
      end
  end.
(* items ")" : ignored text, then ")" or an item (every loop of the grammar has this shape; the items begin with "(") *)
Fixpoint loop {X} (item : string -> option (list X * string)) (fuel : nat) (s : string) : option (list X * string) :=
  match fuel with
  | O => None
  | S f =>
      let s1 := skip_ign s in
      match drop_prefix ")" s1 with
      | Some r => Some ([], r)
      | None =>
          match item s1 with
          | Some (a, r2) => match loop item f r2 with Some (l, r3) => Some (a ++ l, r3) | None => None end
          | None => None
          end
      end
  end.
Definition fuel_of (s : string) : nat := S (String.length s).
Definition parse_triple_item (s1 : string) : option (list xtriple * string) :=
  match s1 with
  | String c r =>
      if Ascii.eqb c c_lpar then
        match parse_triple_body r with Some (t, r2) => Some ([t], r2) | None => None end
      else None
  | EmptyString => None
  end.
(* triple* ")" *)
Definition parse_triples : nat -> string -> option (list xtriple * string) := loop parse_triple_item.
(* after "(INTERCONNECT" / "(IOPATH" *)
Definition parse_entry (io : bool) (s : string) : option (list xentry * string) :=
  let sc := if io then scan_ide else scan_id in
  match sc s with
  | Some (a, r1) =>
      match sc r1 with
      | Some (b, r2) =>
          match parse_triples (fuel_of r2) r2 with
          | Some (ts, r3) => Some ([XEntry io a b ts], r3)
          | None => None
          end
      | None => None
      end
  | None => None
  end.
Definition parse_entry_item (s1 : string) : option (list xentry * string) :=
  match drop_prefix "(INTERCONNECT" s1 with
  | Some r => parse_entry false r
  | None => match drop_prefix "(IOPATH" s1 with Some r => parse_entry true r | None => None end
  end.
(* (interconnect | iopath)* ")" *)
Definition parse_entries : nat -> string -> option (list xentry * string) := loop parse_entry_item.

(* _ignore* ")" after "(TIMINGCHECK": [s] stands at a parenthesis; after every parenthesis inside, a state accepting _NOB *)
Fixpoint ign_loop (fuel depth : nat) (s : string) : option string :=
  match fuel with
  | O => None
  | S f =>
      match s with
      | String c r =>
          if Ascii.eqb c c_lpar then ign_loop f (S depth) (snd (scan_nob r))
          else if Ascii.eqb c c_rpar then
            match depth with O => Some r | S d => ign_loop f d (snd (scan_nob r)) end
          else None
      | EmptyString => None
      end
  end.
Definition parse_ignores (s : string) : option string := ign_loop (fuel_of s) 0 (skip_ign s).

(* "(KEYWORD" _NOB ")" : the rest after the ")" *)
Definition parse_nob_item (required : bool) (s : string) : option string :=
  let '(had, r) := scan_nob s in
  if required && negb had then None else drop_prefix ")" r.

(* "(INSTANCE" ID? ")" *)
Definition parse_instance (s : string) : option (list xcarg * string) :=
  match scan_id s with
  | Some (n, r) => match expect ")" r with Some r2 => Some ([XName n], r2) | None => None end
  | None => match expect ")" s with Some r2 => Some ([], r2) | None => None end
  end.
(* "(DELAY" "(ABSOLUTE" entries ")" ")" *)
Definition parse_delay (s : string) : option (list xcarg * string) :=
  match expect "(ABSOLUTE" s with
  | Some r =>
      match parse_entries (fuel_of r) r with
      | Some (es, r2) => match expect ")" r2 with Some r3 => Some ([XDelay es], r3) | None => None end
      | None => None
      end
  | None => None
  end.
Definition parse_cell_item (s1 : string) : option (list xcarg * string) :=
  match drop_prefix "(TIMINGCHECK" s1 with
  | Some r => match parse_ignores r with Some r2 => Some ([], r2) | None => None end
  | None =>
  match drop_prefix "(CELLTYPE" s1 with
  | Some r => match parse_nob_item true r with Some r2 => Some ([], r2) | None => None end
  | None =>
  match drop_prefix "(INSTANCE" s1 with
  | Some r => parse_instance r
  | None =>
  match drop_prefix "(DELAY" s1 with
  | Some r => parse_delay r
  | None => None
  end end end end.
(* cell items ")" *)
Definition parse_cell : nat -> string -> option (list xcarg * string) := loop parse_cell_item.

Local Open Scope string_scope.
(* the header entries with a mandatory _NOB, in scanner order (none is a prefix of another) *)
Definition hdr_kws : list string :=
  ["(TEMPERATURE"; "(SDFVERSION"; "(TIMESCALE"; "(PROGRAM"; "(VERSION"; "(DIVIDER"; "(VOLTAGE"; "(VENDOR"; "(DATE"].
Local Close Scope string_scope.
Fixpoint first_prefix (kws : list string) (s : string) : option string :=
  match kws with
  | [] => None
  | k :: r => match drop_prefix k s with Some x => Some x | None => first_prefix r s end
  end.
(* "(DESIGN" DQ NAME DQ ")" *)
Definition parse_design (s : string) : option (list xsarg * string) :=
  match expect q1 s with
  | Some r =>
      match span not_quote (skip_ign r) with
      | (String x n, String c2 r2) =>                                              (* c2 is the closing quote *)
          match expect ")" r2 with Some r3 => Some ([XSName (String x n)], r3) | None => None end
      | _ => None
      end
  | None => None
  end.
Definition parse_top_item (s1 : string) : option (list xsarg * string) :=
  match first_prefix hdr_kws s1 with
  | Some r => match parse_nob_item true r with Some r2 => Some ([], r2) | None => None end
  | None =>
  match drop_prefix "(PROCESS" s1 with
  | Some r => match parse_nob_item false r with Some r2 => Some ([], r2) | None => None end
  | None =>
  match drop_prefix "(DESIGN" s1 with
  | Some r => parse_design r
  | None =>
  match drop_prefix "(CELL" s1 with
  | Some r => match parse_cell (fuel_of r) r with Some (args, r2) => Some ([XSCell args], r2) | None => None end
  | None => None
  end end end end.
Definition parse_top : nat -> string -> option (list xsarg * string) := loop parse_top_item.

(** the children of lark's [start] tree; [None] = lark raises *)
Definition parse_sdf (s : string) : option (list xsarg) :=
  match expect "(DELAYFILE" s with
  | Some r =>
      match parse_top (fuel_of r) r with
      | Some (l, r2) => match skip_ign r2 with EmptyString => Some l | _ => None end
      | None => None
      end
  | None => None
  end.

(** * from lark's tree to the tree of Model/Sdf.v: the numbers *)
(* float() of a token text over [-.0-9], times 8, when that is exact: an optional "-", digits with at most one "." and at
   least one digit (anything else: ValueError), at most 15 digits and a value that is a multiple of 1/8 (then the
   correctly rounded float() is exact).  [dec_valid] alone says whether float() accepts the text. *)
Fixpoint dec_go (s : string) (dot : bool) (m : Z) (k nd : nat) : option (Z * nat * nat) :=
  match s with
  | EmptyString => match nd with O => None | _ => Some (m, k, nd) end
  | String c r =>
      if is_digit c then dec_go r dot (10 * m + Z.of_N (N_of_ascii c - 48))%Z (if dot then S k else k) (S nd)
      else if Ascii.eqb c c_dot then (if dot then None else dec_go r true m k nd)
      else None
  end.
Definition dec_body (s : string) : bool * string :=
  match s with
  | String c r => if Ascii.eqb c c_minus then (true, r) else (false, s)
  | EmptyString => (false, s)
  end.
Definition dec_valid (s : string) : bool :=
  match dec_go (snd (dec_body s)) false 0%Z 0 0 with Some _ => true | None => false end.
Definition dec8 (s : string) : option Z :=
  let '(neg, body) := dec_body s in
  match dec_go body false 0%Z 0 0 with
  | Some (m, k, nd) =>
      let p := (10 ^ Z.of_nat k)%Z in
      if (nd <=? 15) && Z.eqb ((8 * m) mod p) 0 then Some (if neg then (- (8 * m / p))%Z else (8 * m / p)%Z) else None
  | None => None
  end.

Fixpoint omap {A B} (f : A -> option B) (l : list A) : option (list B) :=
  match l with
  | [] => Some []
  | x :: r => match f x with
              | Some y => match omap f r with Some ys => Some (y :: ys) | None => None end
              | None => None
              end
  end.
(* [float(a.value[:-1]) if len(a.value) > 1 else 0.0]: the empty text is the token of length 1 *)
Definition num_of (s : string) : option (option Z) :=
  match s with
  | EmptyString => Some None
  | _ => match dec8 s with Some z => Some (Some z) | None => None end
  end.
Definition triple_of_x (t : xtriple) : option ttriple := omap num_of t.
Definition entry_of_x (e : xentry) : option tentry :=
  let 'XEntry io a b ts := e in
  match omap triple_of_x ts with Some l => Some (TEntry io a b l) | None => None end.
Definition carg_of_x (a : xcarg) : option tcarg :=
  match a with
  | XName s => Some (CName s)
  | XDelay es => match omap entry_of_x es with Some l => Some (CDelay l) | None => None end
  end.
Definition sarg_of_x (a : xsarg) : option tsarg :=
  match a with
  | XSName s => Some (SName s)
  | XSCell args => match omap carg_of_x args with Some l => Some (SCell l) | None => None end
  end.
(** [None]: some number is outside the exact domain (not a decimal denoting k/8 with at most 15 digits) *)
Definition tree_of_x (x : list xsarg) : option (list tsarg) := omap sarg_of_x x.

(** sdf.parse from the text: [None] = lark raises or a number is outside the exact domain *)
Definition tree_of_text (s : string) : option (list tsarg) :=
  match parse_sdf s with Some x => tree_of_x x | None => None end.
Definition delayfile_of_text (s : string) : option (res delayfile) :=
  match tree_of_text s with Some t => Some (start_cb t) | None => None end.

(** * printer *)
Local Open Scope string_scope.
Definition sp1 : string := String c_sp EmptyString.
Definition nl1 : string := String c_nl EmptyString.
Definition print_triple (t : xtriple) : string :=
  match t with
  | [a; b; c] => "(" ++ a ++ ":" ++ b ++ ":" ++ c ++ ")"
  | _ => "()"
  end.
Fixpoint print_triples (ts : list xtriple) : string :=
  match ts with [] => "" | t :: r => " " ++ print_triple t ++ print_triples r end.
Definition print_entry (e : xentry) : string :=
  let 'XEntry io a b ts := e in
  (if io then "(IOPATH " else "(INTERCONNECT ") ++ a ++ " " ++ b ++ print_triples ts ++ ")".
Fixpoint print_entries (es : list xentry) : string :=
  match es with [] => "" | e :: r => nl1 ++ "    " ++ print_entry e ++ print_entries r end.
Definition print_carg (a : xcarg) : string :=
  match a with
  | XName s => nl1 ++ "  (INSTANCE " ++ s ++ ")"
  | XDelay es => nl1 ++ "  (DELAY (ABSOLUTE" ++ print_entries es ++ "))"
  end.
Fixpoint print_cargs (l : list xcarg) : string :=
  match l with [] => "" | a :: r => print_carg a ++ print_cargs r end.
Definition print_sarg (a : xsarg) : string :=
  match a with
  | XSName s => nl1 ++ "(DESIGN " ++ q1 ++ s ++ q1 ++ ")"
  | XSCell args => nl1 ++ "(CELL" ++ print_cargs args ++ ")"
  end.
Fixpoint print_sargs (l : list xsarg) : string :=
  match l with [] => "" | a :: r => print_sarg a ++ print_sargs r end.
Definition print_sdf (l : list xsarg) : string := "(DELAYFILE" ++ print_sargs l ++ nl1 ++ ")" ++ nl1.
Local Close Scope string_scope.

(** * well-formed trees (exactly the trees lark can produce) *)
Definition sall (p : ascii -> bool) (s : string) : bool := str_forall p s.
Definition nonempty (s : string) : bool := match s with EmptyString => false | _ => true end.
(* NAME: non-empty, no quote, does not begin with ignored text *)
Definition starts_ign (s : string) : bool :=
  match s with
  | EmptyString => false
  | String c r =>
      is_b1 c || Ascii.eqb c c_nl ||
      match r with
      | String c2 _ => (Ascii.eqb c c_cr && Ascii.eqb c2 c_nl) || (Ascii.eqb c c_slash && Ascii.eqb c2 c_slash)
      | EmptyString => false
      end
  end.
Definition wf_name (s : string) : bool := nonempty s && sall not_quote s && negb (starts_ign s).
(* ID / ID_OR_EDGE as lark returns them: the quoted / parenthesised form (a non-empty body without the closing character, then
   the closing character), or the plain form (the conjunct [negb (is_b1 c)] dates from before fix d9c2c16 and is now implied by
   [id_char] / [ide_char], which exclude every white-space character) *)
Definition wf_wrapped (inner : ascii -> bool) (r : string) : bool :=
  match span inner r with (String _ _, String _ EmptyString) => true | _ => false end.
Definition wf_id (s : string) : bool :=
  match s with
  | String c r => if Ascii.eqb c c_quote then wf_wrapped not_quote r else sall id_char s && negb (is_b1 c)
  | EmptyString => false
  end.
Definition wf_ide (s : string) : bool :=
  match s with
  | String c r => if Ascii.eqb c c_lpar then wf_wrapped not_rpar r else sall ide_char s && negb (is_b1 c)
  | EmptyString => false
  end.
Definition wf_triple (t : xtriple) : bool :=
  match t with
  | [] => true
  | [a; b; c] => sall is_numc a && sall is_numc b && sall is_numc c
  | _ => false
  end.
Definition wf_entry (e : xentry) : bool :=
  let 'XEntry io a b ts := e in
  (if io then wf_ide a && wf_ide b else wf_id a && wf_id b) && forallb wf_triple ts.
Definition wf_carg (a : xcarg) : bool :=
  match a with XName s => wf_id s | XDelay es => forallb wf_entry es end.
Definition wf_sarg (a : xsarg) : bool :=
  match a with XSName s => wf_name s | XSCell args => forallb wf_carg args end.
Definition wf_tree (l : list xsarg) : bool := forallb wf_sarg l.

(** * concrete syntax: the ways of writing a file that the theorems of Proofs/SdfTextProofs.v cover
    (ignored text wherever the grammar ignores it, header entries, CELLTYPE, TIMINGCHECK payloads) *)
Inductive ign := IgSpace | IgTab | IgFf | IgNl | IgCrNl | IgComment (body : string).
Definition sep := list ign.
Definition no_newline (s : string) : bool := sall (fun c => negb (Ascii.eqb c c_nl)) s.
Definition ign_ok (i : ign) : bool := match i with IgComment b => no_newline b | _ => true end.
Definition sep_ok (s : sep) : bool := forallb ign_ok s.
Local Open Scope string_scope.
Definition ign_text (i : ign) : string :=
  match i with
  | IgSpace => sp1
  | IgTab => String c_tab ""
  | IgFf => String c_ff ""
  | IgNl => nl1
  | IgCrNl => String c_cr nl1
  | IgComment b => "//" ++ b ++ nl1
  end.
Fixpoint sep_text (l : sep) : string := match l with [] => "" | i :: r => ign_text i ++ sep_text r end.
(* In front of a name (a scanner state that accepts ID / ID_OR_EDGE; the name is tried first at every position): any ignored text in which
   every comment directly follows a line break or another comment (there IGNORE_0 is running and takes it; anywhere else -- first, or directly
   after a blank / tab / form feed -- the `//` is lexed as a NAME).  [cm_ok nl s]: [nl] = IGNORE_0 is running; [ends0 nl s]: it is still
   running at the end of [s] -- then a following `//` is one more comment, so a name written there must not begin with `//` ([bef_ok]). *)
Definition b1_only (i : ign) : bool := match i with IgSpace | IgTab | IgFf => true | _ => false end.
Definition ign0 (i : ign) : bool := match i with IgNl | IgCrNl | IgComment _ => true | _ => false end.        (* a piece of IGNORE_0 *)
Fixpoint cm_ok (nl : bool) (s : sep) : bool :=
  match s with
  | [] => true
  | IgComment _ :: r => nl && cm_ok true r
  | i :: r => cm_ok (ign0 i) r
  end.
Fixpoint ends0 (nl : bool) (s : sep) : bool := match s with [] => nl | i :: r => ends0 (ign0 i) r end.
Definition slash2 (s : string) : bool :=
  match s with String c (String c2 _) => Ascii.eqb c c_slash && Ascii.eqb c2 c_slash | _ => false end.
Definition idsep_ok (s : sep) : bool := sep_ok s && cm_ok false s.
Definition bef_ok (s : sep) (n : string) : bool := idsep_ok s && negb (ends0 false s && slash2 n).
(* after a plain name: nothing (a parenthesis follows), or any ignored text that does not begin with a comment (a `//` directly after a
   name is part of the name); after the quoted / parenthesised form ([opens]) any ignored text *)
Definition aftsep_ok (s : sep) : bool := sep_ok s && match s with IgComment _ :: _ => false | _ => true end.
Definition opens (o : ascii) (n : string) : bool := match n with String c _ => Ascii.eqb c o | EmptyString => false end.
Definition open_of (io : bool) : ascii := if io then c_lpar else c_quote.
Definition aft_ok (o : ascii) (n : string) (s : sep) : bool := sep_ok s && (opens o n || aftsep_ok s).
(* between two names: non-empty ignored text, or one of the two is in the quoted / parenthesised form (`"a""b c"`, `(posedge CK)Q`, `A(negedge B)`) *)
Definition touch_ok (o : ascii) (a : string) (s : sep) (b : string) : bool :=
  match s with [] => opens o a || opens o b | _ => true end.

(* items, each preceded by ignored text *)
Fixpoint items_text {X} (f : X -> string) (l : list (sep * X)) : string :=
  match l with [] => "" | (s, x) :: r => sep_text s ++ f x ++ items_text f r end.
Definition items_ok {X} (ok : X -> bool) (l : list (sep * X)) : bool := forallb (fun p => sep_ok (fst p) && ok (snd p)) l.
Definition first_sep {X} (l : list (sep * X)) (sf : sep) : sep := match l with (s, _) :: _ => s | [] => sf end.

Inductive ctriple := CT0 (s : sep) | CT3 (s1 : sep) (a : string) (s2 : sep) (b : string) (s3 : sep) (c : string).
Definition ctriple_text (t : ctriple) : string :=
  match t with
  | CT0 s => "(" ++ sep_text s ++ ")"
  | CT3 s1 a s2 b s3 c => "(" ++ sep_text s1 ++ a ++ ":" ++ sep_text s2 ++ b ++ ":" ++ sep_text s3 ++ c ++ ")"
  end.
Definition ctriple_ok (t : ctriple) : bool :=
  match t with
  | CT0 s => sep_ok s
  | CT3 s1 a s2 b s3 c => sep_ok s1 && sall is_numc a && sep_ok s2 && sall is_numc b && sep_ok s3 && sall is_numc c
  end.
Definition ctriple_abs (t : ctriple) : xtriple := match t with CT0 _ => [] | CT3 _ a _ b _ c => [a; b; c] end.

Inductive centry := CE (io : bool) (s1 : sep) (a : string) (s2 : sep) (b : string) (ts : list (sep * ctriple)) (sf : sep).
Definition centry_text (e : centry) : string :=
  let 'CE io s1 a s2 b ts sf := e in
  (if io then "(IOPATH" else "(INTERCONNECT") ++ sep_text s1 ++ a ++ sep_text s2 ++ b ++ items_text ctriple_text ts ++ sep_text sf ++ ")".
Definition centry_ok (e : centry) : bool :=
  let 'CE io s1 a s2 b ts sf := e in
  bef_ok s1 a && bef_ok s2 b && touch_ok (open_of io) a s2 b && (if io then wf_ide a && wf_ide b else wf_id a && wf_id b) &&
  items_ok ctriple_ok ts && sep_ok sf && aft_ok (open_of io) b (first_sep ts sf).
Definition centry_abs (e : centry) : xentry :=
  let 'CE io _ a _ b ts _ := e in XEntry io a b (map (fun p => ctriple_abs (snd p)) ts).

(* text in a place where _NOB is acceptable and a parenthesis follows: no parenthesis, and the ignored text at its beginning
   does not end inside a comment ([nob_go false]); the header entries other than PROCESS need a non-empty _NOB *)
Fixpoint nob_go (cm : bool) (w : string) : bool :=
  match w with
  | EmptyString => negb cm
  | String c r =>
      if cm then (if Ascii.eqb c c_nl then nob_go false r else nob_go true r)
      else if Ascii.eqb c c_nl then nob_go false r
      else if Ascii.eqb c c_cr then
        match r with String c2 r2 => if Ascii.eqb c2 c_nl then nob_go false r2 else true | EmptyString => true end
      else if Ascii.eqb c c_slash then
        match r with String c2 r2 => if Ascii.eqb c2 c_slash then nob_go true r2 else true | EmptyString => true end
      else true
  end.
Definition nob_ok (required : bool) (w : string) : bool :=
  sall not_paren w && nob_go false w && (negb required || nonempty (skip0 w)).
(* the payload of TIMINGCHECK: parentheses (true = opening), each followed by such a text; balanced *)
Fixpoint bal (d : nat) (l : list (bool * string)) : bool :=
  match l with
  | [] => Nat.eqb d 0
  | (true, _) :: r => bal (S d) r
  | (false, _) :: r => match d with O => false | S d' => bal d' r end
  end.
Fixpoint pay_text (l : list (bool * string)) : string :=
  match l with [] => "" | (o, w) :: r => (if o then "(" else ")") ++ w ++ pay_text r end.
Definition pay_ok (l : list (bool * string)) : bool := bal 0 l && forallb (fun p => nob_ok false (snd p)) l.

Inductive ccitem :=
| CCType (w : string)
| CCInst0 (s : sep)
| CCInst (s1 : sep) (n : string) (s2 : sep)
| CCTiming (s : sep) (pay : list (bool * string))
| CCDelay (s1 : sep) (es : list (sep * centry)) (sf s3 : sep).
Definition ccitem_text (c : ccitem) : string :=
  match c with
  | CCType w => "(CELLTYPE" ++ w ++ ")"
  | CCInst0 s => "(INSTANCE" ++ sep_text s ++ ")"
  | CCInst s1 n s2 => "(INSTANCE" ++ sep_text s1 ++ n ++ sep_text s2 ++ ")"
  | CCTiming s pay => "(TIMINGCHECK" ++ sep_text s ++ pay_text pay ++ ")"
  | CCDelay s1 es sf s3 => "(DELAY" ++ sep_text s1 ++ "(ABSOLUTE" ++ items_text centry_text es ++ sep_text sf ++ ")" ++ sep_text s3 ++ ")"
  end.
Definition ccitem_ok (c : ccitem) : bool :=
  match c with
  | CCType w => nob_ok true w
  | CCInst0 s => idsep_ok s
  | CCInst s1 n s2 => bef_ok s1 n && wf_id n && aft_ok c_quote n s2
  | CCTiming s pay => sep_ok s && pay_ok pay
  | CCDelay s1 es sf s3 => sep_ok s1 && items_ok centry_ok es && sep_ok sf && sep_ok s3
  end.
Definition ccitem_abs (c : ccitem) : list xcarg :=
  match c with
  | CCInst _ n _ => [XName n]
  | CCDelay _ es _ _ => [XDelay (map (fun p => centry_abs (snd p)) es)]
  | _ => []
  end.

Inductive ctitem :=
| CTHdr (kw w : string)
| CTProcess (w : string)
| CTDesign (s1 s2 : sep) (n : string) (s3 : sep)
| CTCell (items : list (sep * ccitem)) (sf : sep).
Definition ctitem_text (t : ctitem) : string :=
  match t with
  | CTHdr kw w => kw ++ w ++ ")"
  | CTProcess w => "(PROCESS" ++ w ++ ")"
  | CTDesign s1 s2 n s3 => "(DESIGN" ++ sep_text s1 ++ q1 ++ sep_text s2 ++ n ++ q1 ++ sep_text s3 ++ ")"
  | CTCell items sf => "(CELL" ++ items_text ccitem_text items ++ sep_text sf ++ ")"
  end.
Definition ctitem_ok (t : ctitem) : bool :=
  match t with
  | CTHdr kw w => existsb (String.eqb kw) hdr_kws && nob_ok true w
  | CTProcess w => nob_ok false w
  | CTDesign s1 s2 n s3 => sep_ok s1 && sep_ok s2 && wf_name n && sep_ok s3
  | CTCell items sf => items_ok ccitem_ok items && sep_ok sf
  end.
Definition ctitem_abs (t : ctitem) : list xsarg :=
  match t with
  | CTDesign _ _ n _ => [XSName n]
  | CTCell items _ => [XSCell (flat_map (fun p => ccitem_abs (snd p)) items)]
  | _ => []
  end.

(* a file: ignored text, "(DELAYFILE", the items, ")", ignored text, possibly a last comment without newline *)
Record cfile := { cf_s0 : sep; cf_items : list (sep * ctitem); cf_sf : sep; cf_s1 : sep; cf_tail : option string }.
Definition tail_text (t : option string) : string := match t with Some b => "//" ++ b | None => "" end.
Definition cfile_text (f : cfile) : string :=
  sep_text (cf_s0 f) ++ "(DELAYFILE" ++ items_text ctitem_text (cf_items f) ++ sep_text (cf_sf f) ++ ")" ++ sep_text (cf_s1 f) ++ tail_text (cf_tail f).
Definition cfile_ok (f : cfile) : bool :=
  sep_ok (cf_s0 f) && items_ok ctitem_ok (cf_items f) && sep_ok (cf_sf f) && sep_ok (cf_s1 f) &&
  match cf_tail f with Some b => no_newline b | None => true end.
Definition cfile_abs (f : cfile) : list xsarg := flat_map (fun p => ctitem_abs (snd p)) (cf_items f).
(* the same file without header entries, CELLTYPE, empty INSTANCE and TIMINGCHECK *)
Definition keeps_c (p : sep * ccitem) : bool := match snd p with CCInst _ _ _ | CCDelay _ _ _ _ => true | _ => false end.
Definition strip_titem (t : ctitem) : ctitem :=
  match t with CTCell items sf => CTCell (filter keeps_c items) sf | _ => t end.
Definition keeps_t (p : sep * ctitem) : bool := match snd p with CTDesign _ _ _ _ | CTCell _ _ => true | _ => false end.
Definition strip_file (f : cfile) : cfile :=
  {| cf_s0 := cf_s0 f; cf_items := map (fun p => (fst p, strip_titem (snd p))) (filter keeps_t (cf_items f));
     cf_sf := cf_sf f; cf_s1 := cf_s1 f; cf_tail := cf_tail f |}.
Local Close Scope string_scope.

(* the way print_sdf writes a tree *)
Definition ctriple_of (t : xtriple) : ctriple :=
  match t with [a; b; c] => CT3 [] a [] b [] c | _ => CT0 [] end.
Definition centry_of (e : xentry) : centry :=
  let 'XEntry io a b ts := e in CE io [IgSpace] a [IgSpace] b (map (fun t => ([IgSpace], ctriple_of t)) ts) [].
Definition ind4 : sep := [IgNl; IgSpace; IgSpace; IgSpace; IgSpace].
Definition ind2 : sep := [IgNl; IgSpace; IgSpace].
Definition ccitem_of (a : xcarg) : ccitem :=
  match a with
  | XName s => CCInst [IgSpace] s []
  | XDelay es => CCDelay [IgSpace] (map (fun e => (ind4, centry_of e)) es) [] []
  end.
Definition ctitem_of (a : xsarg) : ctitem :=
  match a with
  | XSName s => CTDesign [IgSpace] [] s []
  | XSCell args => CTCell (map (fun a => (ind2, ccitem_of a)) args) []
  end.
Definition cfile_of (l : list xsarg) : cfile :=
  {| cf_s0 := []; cf_items := map (fun a => ([IgNl], ctitem_of a)) l; cf_sf := [IgNl]; cf_s1 := [IgNl]; cf_tail := None |}.

(** * vocabulary of the statements "from the text to the DelayFile" *)
(* the instance a CELL of lark's tree belongs to: its first INSTANCE name (None: an instance-less cell) *)
Fixpoint xcell_key (args : list xcarg) : option string :=
  match args with [] => None | XName s :: _ => Some s | _ :: r => xcell_key r end.
Definition ccell_key (items : list (sep * ccitem)) : option string := xcell_key (flat_map (fun p => ccitem_abs (snd p)) items).
(* the entry is in the DelayFile under that instance (instance-less: in the interconnect list) *)
Definition kept_in (df : delayfile) (k : option string) (e : entry) : Prop :=
  match k with
  | None => exists l, df_ic df = Some l /\ In e l
  | Some n => exists l, In (n, l) (df_cells df) /\ In e l
  end.

(** * comparison helpers for the generated cases (harness/sdf_text.py) *)
Definition sl_eqb := leqb String.eqb.
Definition xentry_eqb (x y : xentry) : bool :=
  let 'XEntry io a b ts := x in let 'XEntry io' a' b' ts' := y in
  Bool.eqb io io' && String.eqb a a' && String.eqb b b' && leqb sl_eqb ts ts'.
Definition xcarg_eqb (x y : xcarg) : bool :=
  match x, y with
  | XName s, XName s' => String.eqb s s'
  | XDelay es, XDelay es' => leqb xentry_eqb es es'
  | _, _ => false
  end.
Definition xsarg_eqb (x y : xsarg) : bool :=
  match x, y with
  | XSName s, XSName s' => String.eqb s s'
  | XSCell a, XSCell a' => leqb xcarg_eqb a a'
  | _, _ => false
  end.
(* what lark did with the text: its tree, or None if it raised *)
Definition sdftext_case (text : string) (got : option (list xsarg)) : bool :=
  oeqb (leqb xsarg_eqb) (parse_sdf text) got.
(* a tree the real parser produced is well-formed, prints to [text] and (checked on the Python side) lark reads that back *)
Definition sdfprint_case (t : list xsarg) (text : string) : bool := wf_tree t && String.eqb (print_sdf t) text.
(* a structured rendering (harness/sdf_text.py gen_cfile): [text] is the text of the value [f]; [ok] says whether it was generated inside the
   conditions of the theorems ([cfile_ok]) or with ONE defect next to a name (misplaced comment, comment directly after a plain name, two
   plain names touching, a `//` name after a line break); [got] is what lark did with the text.  parse_sdf agrees with lark, and lark returns
   the content of the value exactly when the conditions hold *)
Definition cfile_case (f : cfile) (text : string) (ok : bool) (got : option (list xsarg)) : bool :=
  String.eqb (cfile_text f) text && Bool.eqb (cfile_ok f) ok && oeqb (leqb xsarg_eqb) (parse_sdf text) got &&
  Bool.eqb (oeqb (leqb xsarg_eqb) (Some (cfile_abs f)) got) ok.
(* float(): [valid] = it does not raise; [v8] = 8 * value when that is an integer and the text has at most 15 digits *)
Definition dec_case (s : string) (valid : bool) (v8 : option Z) : bool :=
  Bool.eqb (dec_valid s) valid && oeqb Z.eqb (dec8 s) v8.
(* the tree in the form Model/Sdf.v consumes (numbers scaled by 8); None = lark raises or a number outside the exact domain *)
Definition tentry_eqb (x y : tentry) : bool :=
  let 'TEntry io a b ts := x in let 'TEntry io' a' b' ts' := y in
  Bool.eqb io io' && String.eqb a a' && String.eqb b b' && leqb (leqb (oeqb Z.eqb)) ts ts'.
Definition tcarg_eqb (x y : tcarg) : bool :=
  match x, y with
  | CName s, CName s' => String.eqb s s'
  | CDelay es, CDelay es' => leqb tentry_eqb es es'
  | _, _ => false
  end.
Definition tsarg_eqb (x y : tsarg) : bool :=
  match x, y with
  | SName s, SName s' => String.eqb s s'
  | SCell a, SCell a' => leqb tcarg_eqb a a'
  | _, _ => false
  end.
Definition sdftree_case (text : string) (exp : option (list tsarg)) : bool :=
  oeqb (leqb tsarg_eqb) (tree_of_text text) exp.
