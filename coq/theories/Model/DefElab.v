(** Model of the transformer callbacks of kyupy/def_file.py (C20): the parse tree as lark hands it to
    [DefTransformer] (one constructor per alternative of def_file.GRAMMAR, token texts as strings) and an executable
    transcription of every callback, producing the containers [DefFile] / [DefNet] / [DefWire] / [DefVia] / [DefPin] hold.
    [route_of_dwire] maps a [DefWire] to the routing statement Model/DefRoute.v starts from, so that

        def_of_tree  :=  callbacks ; DefRoute          ([elab] ; [dnet_wires] / [dnet_vias])

    How lark shapes the tree (lark 0.12, `Lark(GRAMMAR, parser="lalr", transformer=DefTransformer())`): callbacks run
    bottom-up in text order while the LALR parser reduces; anonymous string tokens ("DESIGN", ";", "-", "+", "(", "DO" ...)
    are filtered out, regular-expression tokens (/UNITS/, /ROW/, /ROUTED/, /\*/ ...) and named terminals (ID, NUMBER,
    SIGNED_NUMBER, STRING, ORIENTATION) are kept; `?file_stmt` / `?design_stmt` are inlined when they have one child
    (design / vias / comp / pins / nets ... sections); rules without a callback (propdef, nondef, comp, pins, vias,
    spnets, nets, pinprop, spwire_opt, wire_opt and their statements) become [Tree] objects the callbacks never look into.

    Token texts: a NUMBER / SIGNED_NUMBER token is kept as its text; [py_int] is Python's int() on such a text
    (digits with an optional sign; "1.5" / "1e3" raise ValueError; more than 4300 digits raise ValueError, Python >= 3.11).
    The ORIENTATION token (/F?[NWES]/ followed by ONE white-space character) is stored without that character:
    points_via applies .strip(), which removes exactly it.
    [None] = the callback raises (only int() can). *)
From Coq Require Import List ZArith NArith Bool String Ascii Arith.
From KV Require Import Model.DefRoute.
Import ListNotations.
Local Open Scope list_scope.
Local Open Scope string_scope.

(** * Python helpers *)
Definition is_digit (c : ascii) : bool := let n := N_of_ascii c in ((48 <=? n) && (n <=? 57))%N.
Fixpoint digits_val (s : string) (acc : Z) : option Z :=
  match s with
  | EmptyString => Some acc
  | String c r => if is_digit c then digits_val r (10 * acc + (Z.of_N (N_of_ascii c) - 48))%Z else None
  end.
Definition int_of_digits (s : string) : option Z :=
  match s with
  | EmptyString => None
  | _ => if (4300 <? N.of_nat (String.length s))%N then None else digits_val s 0%Z
  end.
(* int(token text) *)
Definition py_int (s : string) : option Z :=
  match s with
  | String "+" r => int_of_digits r
  | String "-" r => option_map Z.opp (int_of_digits r)
  | _ => int_of_digits s
  end.

Fixpoint mapM {A B} (f : A -> option B) (l : list A) : option (list B) :=
  match l with
  | [] => Some []
  | x :: r => match f x with
              | Some y => match mapM f r with Some ys => Some (y :: ys) | None => None end
              | None => None
              end
  end.
Fixpoint fold_opt {A S} (f : S -> A -> option S) (l : list A) (s : S) : option S :=
  match l with
  | [] => Some s
  | x :: r => match f s x with Some s' => fold_opt f r s' | None => None end
  end.

(* a Python dict: insertion ordered; assignment to an existing key keeps its position *)
Definition pdict (A : Type) := list (string * A).
Fixpoint pd_set {A} (k : string) (v : A) (d : pdict A) : pdict A :=
  match d with
  | [] => [(k, v)]
  | (k', v') :: r => if String.eqb k k' then (k, v) :: r else (k', v') :: pd_set k v r
  end.
Fixpoint pd_get {A} (k : string) (d : pdict A) : option A :=
  match d with
  | [] => None
  | (k', v) :: r => if String.eqb k k' then Some v else pd_get k r
  end.
Definition pd_build {A} (es : list (string * A)) (d : pdict A) : pdict A :=
  fold_left (fun d e => pd_set (fst e) (snd e) d) es d.

(** * The parse tree *)
Inductive coord := CStar | CNum (s : string).
(* point: "(" (NUMBER|/\*/) (NUMBER|/\*/) NUMBER? ")" *)
Record tpoint := mkTP { tp_x : coord; tp_y : coord; tp_z : option string }.
(* do_step: "DO" NUMBER "BY" NUMBER "STEP" (NUMBER|SIGNED_NUMBER) (NUMBER|SIGNED_NUMBER) *)
Record tdostep := mkDS { ds_n : string; ds_m : string; ds_dx : string; ds_dy : string }.

Inductive via_opt :=
| VOViarule (id : string) | VOCutsize (a b : string) | VOLayers (a b c : string) | VOCutspacing (a b : string)
| VOEnclosure (a b c d : string) | VORowcol (a b : string) | VOPattern (id : string).
Record via_stmt := mkVS { vs_name : string; vs_opts : list via_opt }.

Inductive nondef_opt := NOHardspacing | NOLayer (id w s : string) | NOVia (id : string).
Record nondef_stmt := mkNDS { nds_name : string; nds_opts : list nondef_opt }.

(* comp_stmt: "-" ID ID "+" "PLACED" point ID ";" *)
Record comp_stmt := mkCS { cs_name : string; cs_kind : string; cs_pt : tpoint; cs_orient : string }.

Inductive pin_opt :=
| PONet (id : string) | POSpecial | PODirection (id : string) | POUse (id : string) | POPort
| POLayer (id : string) (p1 p2 : tpoint) | POPlaced (p : tpoint) (orient : string).
Record pins_stmt := mkPS { ps_name : string; ps_opts : list pin_opt }.

(* wiring keywords (regular-expression tokens, kept): the callbacks use .lower() of the text *)
Inductive wkw := KCover | KFixed | KRouted | KNoshield.
Inductive okw := KUse | KNondefaultrule.
Definition wkw_text (k : wkw) : string :=
  match k with KCover => "COVER" | KFixed => "FIXED" | KRouted => "ROUTED" | KNoshield => "NOSHIELD" end.
Definition wkw_lower (k : wkw) : string :=
  match k with KCover => "cover" | KFixed => "fixed" | KRouted => "routed" | KNoshield => "noshield" end.
Definition okw_text (k : okw) : string := match k with KUse => "USE" | KNondefaultrule => "NONDEFAULTRULE" end.
Definition okw_lower (k : okw) : string := match k with KUse => "use" | KNondefaultrule => "nondefaultrule" end.

(* spwire: ID NUMBER spwire_opt* sppoints;  sppoints: point ( point | sppoints_via )+;  sppoints_via: ID do_step? *)
Inductive spw_opt := SWShape (id : string) | SWStyle (id : string).
Inductive spelem := SPPoint (p : tpoint) | SPVia (name : string) (ds : option tdostep).
Record spwire := mkSW { sw_layer : string; sw_width : string; sw_opts : list spw_opt; sw_first : tpoint; sw_rest : list spelem }.

(* wire: ID wire_opt points;  wire_opt: ( "TAPER" | "TAPERRULE" ID )? ("STYLE" ID)?;  points_via: ID ORIENTATION? *)
(* "TAPER" / "TAPERRULE" / "STYLE" are anonymous string tokens (filtered): the wire_opt node holds the 0..2 ID tokens only *)
Inductive relem := RPoint (p : tpoint) | RVia (name : string) (orient : option string).
Record rwire := mkRW { rw_layer : string; rw_opt : list string; rw_first : tpoint; rw_rest : list relem }.

(* ( net_pin | net_opt | [sp]net_wires )*;  [sp]net_wires: "+" keyword wire ( "NEW" wire )*  (at least one wire) *)
Inductive net_item (W : Type) :=
| NIPin (comp pin : string) | NIOpt (k : okw) (v : string) | NIWires (k : wkw) (w : W) (ws : list W).
Arguments NIPin {W}. Arguments NIOpt {W}. Arguments NIWires {W}.
Record spnet_stmt := mkSN { sn_name : string; sn_items : list (net_item spwire) }.
Record net_stmt := mkNN { nn_name : string; nn_items : list (net_item rwire) }.

Inductive design_stmt :=
| SUnits (a b n : string)                                  (* /UNITS/ ID ID NUMBER ";" *)
| SDiearea (p : tpoint) (ps : list tpoint)                 (* /DIEAREA/ point+ ";" *)
| SRow (name site x y orient : string) (ds : tdostep)      (* /ROW/ ID ID NUMBER NUMBER ID do_step ";" *)
| STracks (dir start num step layer : string)              (* /TRACKS/ /[XY]/ NUMBER "DO" NUMBER "STEP" NUMBER "LAYER" ID ";" *)
| SPropdef (l : list (string * string))                    (* propdef_stmt: /COMPONENTPIN/ ID ID ";" *)
| SVias (n : string) (l : list via_stmt)
| SNondef (n : string) (s : nondef_stmt) (l : list nondef_stmt)   (* nondef_stmt+ *)
| SComp (n : string) (l : list comp_stmt)
| SPins (n : string) (l : list pins_stmt)
| SPinprop (n : string) (l : list (string * string * string))     (* "-" "PIN" ID "+" "PROPERTY" ID STRING ";" *)
| SSpnets (n : string) (l : list spnet_stmt)
| SNets (n : string) (l : list net_stmt).

Inductive file_stmt :=
| FVersion (id : string)        (* /VERSION/ ID ";" *)
| FDividerchar (s : string)     (* /DIVIDERCHAR/ STRING ";"   (token text with its quotes) *)
| FBusbitchars (s : string)
| FDesign (name : string) (l : list design_stmt).

(* start: /#[^\n]*/? file_stmt* *)
Record tree := mkTree { t_comment : option string; t_stmts : list file_stmt }.

(** * What the callbacks build *)
(* point(): tuple of 2 or 3, None for '*' ([rp_z = None]: the tuple has two elements) *)
Record rpoint := mkRP { rp_x : option Z; rp_y : option Z; rp_z : option Z }.
(* an element of DefWire.points: a point tuple or (via name, parameter) *)
Inductive dpoint := DPt (p : rpoint) | DVia (name : string) (p : vparam).
Record dwire := mkDW { dw_layer : string; dw_width : option string; dw_points : list dpoint }.

Inductive vval := VStr (s : string) | VStrs (l : list string) | VInts (l : list Z).
Record dvia := mkDV { dv_name : string; dv_attrs : pdict vval }.                  (* vars(DefVia) minus name *)
Inductive pinval := PVStr (s : string) | PVLayer (name : string) (p1 p2 : rpoint) | PVEmpty.
Definition pplace := (option Z * option Z * string)%type.
Record dpin := mkDP { dp_name : string; dp_points : list pplace; dp_attrs : pdict pinval }.
Inductive nval := NStr (s : string) | NWires (l : list dwire).
Record dnet := mkDN { dn_name : string; dn_pins : list (string * string); dn_attrs : pdict nval }.   (* attrs: vars() from 'routed' on *)
Definition dcomp := (string * rpoint * string)%type.

Record deffile := mkDF {
  df_version : option string; df_dividerchar : option string; df_busbitchars : option string; df_design : option string;
  df_units : list (string * string * Z);
  df_diearea : option (list rpoint);
  df_rows : list def_row;
  df_tracks : list def_track;
  df_vias : pdict dvia;
  df_components : pdict dcomp;
  df_pins : pdict dpin;
  df_specialnets : pdict dnet;
  df_nets : pdict dnet }.
Definition df_empty : deffile := mkDF None None None None [] None [] [] [] [] [] [] [].

(** * Callbacks on leaves *)
Definition int_coord (c : coord) : option (option Z) :=
  match c with CStar => Some None | CNum s => option_map Some (py_int s) end.
(* def point(self, args): return tuple(int(arg.value) if arg != '*' else None for arg in args) *)
Definition cb_point (p : tpoint) : option rpoint :=
  match int_coord (tp_x p), int_coord (tp_y p), match tp_z p with None => Some None | Some s => option_map Some (py_int s) end with
  | Some x, Some y, Some z => Some (mkRP x y z)
  | _, _, _ => None
  end.
(* def do_step(self, args): return tuple(map(int, args)) *)
Definition cb_do_step (d : tdostep) : option (Z * Z * Z * Z) :=
  match py_int (ds_n d), py_int (ds_m d), py_int (ds_dx d), py_int (ds_dy d) with
  | Some n, Some m, Some dx, Some dy => Some (n, m, dx, dy)
  | _, _, _, _ => None
  end.
Definition array_param (t : Z * Z * Z * Z) : vparam :=
  let '(n, m, dx, dy) := t in VArray (Z.to_nat n) (Z.to_nat m) dx dy.
(* def sppoints_via(self, args): return (args[0].value, None) if len(args) == 1 else (args[0].value, args[1]) *)
Definition cb_sppoints_via (name : string) (ds : option (Z * Z * Z * Z)) : dpoint :=
  match ds with None => DVia name VNone | Some t => DVia name (array_param t) end.
(* def points_via(self, args): return (args[0].value, 'N') if len(args) == 1 else (args[0].value, args[1].value.strip()) *)
Definition cb_points_via (name : string) (o : option string) : dpoint :=
  match o with None => DVia name (VOrient "N") | Some s => DVia name (VOrient s) end.
(* def spwire(self, args): wire.layer = args[0].value; wire.width = args[1].value; wire.points = args[-1] *)
Definition cb_spwire (layer width : string) (pts : list dpoint) : dwire := mkDW layer (Some width) pts.
(* def wire(self, args): wire.layer = args[0].value; wire.points = args[-1] *)
Definition cb_wire (layer : string) (pts : list dpoint) : dwire := mkDW layer None pts.

(* what net_pin / net_opt / [sp]net_wires return: ('__pin__', (a, b)) / (kw.lower(), text) / (kw.lower(), [wires]) *)
Inductive nitem := NPin (a b : string) | NAttr (k v : string) | NWiring (k : string) (ws : list dwire).
Definition cb_net_pin (a b : string) : nitem := NPin a b.
Definition cb_net_opt (k : okw) (v : string) : nitem := NAttr (okw_lower k) v.
Definition cb_net_wires (k : wkw) (ws : list dwire) : nitem := NWiring (wkw_lower k) ws.

(** * Elaboration of the sub-trees (child callbacks first, as lark calls them) *)
Definition elab_spelem (e : spelem) : option dpoint :=
  match e with
  | SPPoint p => option_map DPt (cb_point p)
  | SPVia nm None => Some (cb_sppoints_via nm None)
  | SPVia nm (Some d) => match cb_do_step d with Some t => Some (cb_sppoints_via nm (Some t)) | None => None end
  end.
Definition elab_spwire (w : spwire) : option dwire :=
  match cb_point (sw_first w), mapM elab_spelem (sw_rest w) with
  | Some p, Some r => Some (cb_spwire (sw_layer w) (sw_width w) (DPt p :: r))
  | _, _ => None
  end.
Definition elab_relem (e : relem) : option dpoint :=
  match e with
  | RPoint p => option_map DPt (cb_point p)
  | RVia nm o => Some (cb_points_via nm o)
  end.
Definition elab_rwire (w : rwire) : option dwire :=
  match cb_point (rw_first w), mapM elab_relem (rw_rest w) with
  | Some p, Some r => Some (cb_wire (rw_layer w) (DPt p :: r))
  | _, _ => None
  end.
Definition elab_item {W} (ew : W -> option dwire) (it : net_item W) : option nitem :=
  match it with
  | NIPin a b => Some (cb_net_pin a b)
  | NIOpt k v => Some (cb_net_opt k v)
  | NIWires k w ws => option_map (cb_net_wires k) (mapM ew (w :: ws))
  end.

(** * spnets_stmt / nets_stmt
      dnet = DefNet(args[0].value)                                  # pins = [], routed = []
      for arg in args[1:]:
          if arg[0] == '__pin__': dnet.pins.append(arg[1])
          elif isinstance(arg[1], list): dnet.__dict__.setdefault(arg[0], []).extend(arg[1])
          else: setattr(dnet, arg[0], arg[1])                                                   *)
Fixpoint nd_extend (k : string) (ws : list dwire) (d : pdict nval) : pdict nval :=
  match d with
  | [] => [(k, NWires ws)]
  | (k', v) :: r =>
      if String.eqb k k' then (k', match v with NWires l => NWires (l ++ ws) | NStr s => NStr s end) :: r  (* a text is never stored under a wiring keyword *)
      else (k', v) :: nd_extend k ws r
  end.
Definition apply_item (n : dnet) (it : nitem) : dnet :=
  match it with
  | NPin a b => mkDN (dn_name n) (dn_pins n ++ [(a, b)]) (dn_attrs n)
  | NWiring k ws => mkDN (dn_name n) (dn_pins n) (nd_extend k ws (dn_attrs n))
  | NAttr k v => mkDN (dn_name n) (dn_pins n) (pd_set k (NStr v) (dn_attrs n))
  end.
Definition dnet_new (name : string) : dnet := mkDN name [] [("routed", NWires [])].
Definition cb_net_stmt (name : string) (items : list nitem) : dnet := fold_left apply_item items (dnet_new name).
Definition elab_spnet (s : spnet_stmt) : option (string * dnet) :=
  option_map (fun its => (sn_name s, cb_net_stmt (sn_name s) its)) (mapM (elab_item elab_spwire) (sn_items s)).
Definition elab_net (s : net_stmt) : option (string * dnet) :=
  option_map (fun its => (nn_name s, cb_net_stmt (nn_name s) its)) (mapM (elab_item elab_rwire) (nn_items s)).

(** * vias_opt / vias_stmt
      opt = args[0].lower()
      if opt in ['viarule', 'pattern']: val = args[1].value
      elif opt in ['layers']: val = [arg.value for arg in args[1:]]
      else: val = [int(arg) for arg in args[1:]]
      via = DefVia(name)  (rowcol = [1, 1], cutspacing = [0, 0]);  [setattr(via, opt, val) ...] *)
Definition cb_vias_opt (o : via_opt) : option (string * vval) :=
  match o with
  | VOViarule id => Some ("viarule", VStr id)
  | VOPattern id => Some ("pattern", VStr id)
  | VOLayers a b c => Some ("layers", VStrs [a; b; c])
  | VOCutsize a b => option_map (fun l => ("cutsize", VInts l)) (mapM py_int [a; b])
  | VOCutspacing a b => option_map (fun l => ("cutspacing", VInts l)) (mapM py_int [a; b])
  | VOEnclosure a b c d => option_map (fun l => ("enclosure", VInts l)) (mapM py_int [a; b; c; d])
  | VORowcol a b => option_map (fun l => ("rowcol", VInts l)) (mapM py_int [a; b])
  end.
Definition dvia_new (name : string) : dvia := mkDV name [("rowcol", VInts [1; 1]%Z); ("cutspacing", VInts [0; 0]%Z)].
Definition cb_vias_stmt (name : string) (opts : list (string * vval)) : dvia :=
  mkDV name (pd_build opts (dv_attrs (dvia_new name))).
Definition elab_via (s : via_stmt) : option (string * dvia) :=
  option_map (fun os => (vs_name s, cb_vias_stmt (vs_name s) os)) (mapM cb_vias_opt (vs_opts s)).

(** * comp_stmt:  components[name] = (kind, point, orientation) *)
Definition cb_comp_stmt (name kind : string) (p : rpoint) (orient : string) : string * dcomp := (name, (kind, p, orient)).
Definition elab_comp (c : comp_stmt) : option (string * dcomp) :=
  option_map (fun p => cb_comp_stmt (cs_name c) (cs_kind c) p (cs_orient c)) (cb_point (cs_pt c)).

(** * pins_opt / pins_stmt
      if opt in ['net', 'direction', 'use']: val = args[1].value
      elif opt in ['layer']: val = [args[1].value] + args[2:]
      elif opt in ['placed']: val = (args[1][0], args[1][1], args[2].value)
      else: val = []
      [pin.points.append(val) if opt == 'placed' else setattr(pin, opt, val) for opt, val in args[1:]] *)
(* what pins_opt receives: the keyword token and the children (points already transformed) *)
Inductive pinopt_arg :=
| PANet (id : string) | PASpecial | PADirection (id : string) | PAUse (id : string) | PAPort
| PALayer (id : string) (p1 p2 : rpoint) | PAPlaced (p : rpoint) (orient : string).
(* what it returns: (opt, val); 'placed' values go to pin.points, the others become attributes *)
Inductive pinopt_val := PPlaced (p : pplace) | PAttr (k : string) (v : pinval).
Definition cb_pins_opt (o : pinopt_arg) : pinopt_val :=
  match o with
  | PANet id => PAttr "net" (PVStr id)
  | PADirection id => PAttr "direction" (PVStr id)
  | PAUse id => PAttr "use" (PVStr id)
  | PASpecial => PAttr "special" PVEmpty
  | PAPort => PAttr "port" PVEmpty
  | PALayer id a b => PAttr "layer" (PVLayer id a b)
  | PAPlaced r o => PPlaced (rp_x r, rp_y r, o)
  end.
Definition pinopt_children (o : pin_opt) : option pinopt_arg :=
  match o with
  | PONet id => Some (PANet id)
  | PODirection id => Some (PADirection id)
  | POUse id => Some (PAUse id)
  | POSpecial => Some PASpecial
  | POPort => Some PAPort
  | POLayer id p1 p2 => match cb_point p1, cb_point p2 with Some a, Some b => Some (PALayer id a b) | _, _ => None end
  | POPlaced p o => option_map (fun r => PAPlaced r o) (cb_point p)
  end.
Definition elab_pin_opt (o : pin_opt) : option pinopt_val := option_map cb_pins_opt (pinopt_children o).
Definition apply_pinopt (p : dpin) (o : pinopt_val) : dpin :=
  match o with
  | PPlaced v => mkDP (dp_name p) (dp_points p ++ [v]) (dp_attrs p)
  | PAttr k v => mkDP (dp_name p) (dp_points p) (pd_set k v (dp_attrs p))
  end.
Definition cb_pins_stmt (name : string) (opts : list pinopt_val) : dpin := fold_left apply_pinopt opts (mkDP name [] []).
Definition elab_pin (s : pins_stmt) : option (string * dpin) :=
  option_map (fun os => (ps_name s, cb_pins_stmt (ps_name s) os)) (mapM elab_pin_opt (ps_opts s)).

(** * design_stmt (UNITS / DIEAREA / ROW / TRACKS branches) and the section statements *)
Definition elab_units (a b n : string) : option (string * string * Z) := option_map (fun z => (a, b, z)) (py_int n).
(* the ROW branch receives the do_step tuple already transformed *)
Definition cb_row (name site x y orient : string) (t : Z * Z * Z * Z) : option def_row :=
  let '(n, m, dx, dy) := t in
  match py_int x, py_int y with
  | Some x', Some y' => Some (row_tuple name site x' y' orient n m dx dy)
  | _, _ => None
  end.
Definition elab_row (name site x y orient : string) (ds : tdostep) : option def_row :=
  match cb_do_step ds with Some t => cb_row name site x y orient t | None => None end.
Definition elab_track (dir start num step layer : string) : option def_track :=
  match py_int start, py_int num, py_int step with
  | Some a, Some b, Some c => Some (track_entry dir a b c layer)
  | _, _, _ => None
  end.

Definition set_units d v := mkDF (df_version d) (df_dividerchar d) (df_busbitchars d) (df_design d) v (df_diearea d) (df_rows d) (df_tracks d) (df_vias d) (df_components d) (df_pins d) (df_specialnets d) (df_nets d).
Definition set_diearea d v := mkDF (df_version d) (df_dividerchar d) (df_busbitchars d) (df_design d) (df_units d) v (df_rows d) (df_tracks d) (df_vias d) (df_components d) (df_pins d) (df_specialnets d) (df_nets d).
Definition set_rows d v := mkDF (df_version d) (df_dividerchar d) (df_busbitchars d) (df_design d) (df_units d) (df_diearea d) v (df_tracks d) (df_vias d) (df_components d) (df_pins d) (df_specialnets d) (df_nets d).
Definition set_tracks d v := mkDF (df_version d) (df_dividerchar d) (df_busbitchars d) (df_design d) (df_units d) (df_diearea d) (df_rows d) v (df_vias d) (df_components d) (df_pins d) (df_specialnets d) (df_nets d).
Definition set_vias d v := mkDF (df_version d) (df_dividerchar d) (df_busbitchars d) (df_design d) (df_units d) (df_diearea d) (df_rows d) (df_tracks d) v (df_components d) (df_pins d) (df_specialnets d) (df_nets d).
Definition set_components d v := mkDF (df_version d) (df_dividerchar d) (df_busbitchars d) (df_design d) (df_units d) (df_diearea d) (df_rows d) (df_tracks d) (df_vias d) v (df_pins d) (df_specialnets d) (df_nets d).
Definition set_pins d v := mkDF (df_version d) (df_dividerchar d) (df_busbitchars d) (df_design d) (df_units d) (df_diearea d) (df_rows d) (df_tracks d) (df_vias d) (df_components d) v (df_specialnets d) (df_nets d).
Definition set_specialnets d v := mkDF (df_version d) (df_dividerchar d) (df_busbitchars d) (df_design d) (df_units d) (df_diearea d) (df_rows d) (df_tracks d) (df_vias d) (df_components d) (df_pins d) v (df_nets d).
Definition set_nets d v := mkDF (df_version d) (df_dividerchar d) (df_busbitchars d) (df_design d) (df_units d) (df_diearea d) (df_rows d) (df_tracks d) (df_vias d) (df_components d) (df_pins d) (df_specialnets d) v.
Definition set_design d v := mkDF (df_version d) (df_dividerchar d) (df_busbitchars d) v (df_units d) (df_diearea d) (df_rows d) (df_tracks d) (df_vias d) (df_components d) (df_pins d) (df_specialnets d) (df_nets d).
Definition set_version d v := mkDF v (df_dividerchar d) (df_busbitchars d) (df_design d) (df_units d) (df_diearea d) (df_rows d) (df_tracks d) (df_vias d) (df_components d) (df_pins d) (df_specialnets d) (df_nets d).
Definition set_dividerchar d v := mkDF (df_version d) v (df_busbitchars d) (df_design d) (df_units d) (df_diearea d) (df_rows d) (df_tracks d) (df_vias d) (df_components d) (df_pins d) (df_specialnets d) (df_nets d).
Definition set_busbitchars d v := mkDF (df_version d) (df_dividerchar d) v (df_design d) (df_units d) (df_diearea d) (df_rows d) (df_tracks d) (df_vias d) (df_components d) (df_pins d) (df_specialnets d) (df_nets d).

(* one design_stmt (the statement callbacks of a section run one after the other, each storing its entry) *)
Definition elab_design_stmt (d : deffile) (s : design_stmt) : option deffile :=
  match s with
  | SUnits a b n => option_map (fun u => set_units d (df_units d ++ [u])) (elab_units a b n)
  | SDiearea p ps => option_map (fun l => set_diearea d (Some l)) (mapM cb_point (p :: ps))
  | SRow name site x y orient ds => option_map (fun r => set_rows d (df_rows d ++ [r])) (elab_row name site x y orient ds)
  | STracks dir start num step layer => option_map (fun t => set_tracks d (df_tracks d ++ [t])) (elab_track dir start num step layer)
  | SPropdef _ => Some d
  | SNondef _ _ _ => Some d
  | SPinprop _ _ => Some d
  | SVias _ l => option_map (fun es => set_vias d (pd_build es (df_vias d))) (mapM elab_via l)
  | SComp _ l => option_map (fun es => set_components d (pd_build es (df_components d))) (mapM elab_comp l)
  | SPins _ l => option_map (fun es => set_pins d (pd_build es (df_pins d))) (mapM elab_pin l)
  | SSpnets _ l => option_map (fun es => set_specialnets d (pd_build es (df_specialnets d))) (mapM elab_spnet l)
  | SNets _ l => option_map (fun es => set_nets d (pd_build es (df_nets d))) (mapM elab_net l)
  end.

(* def file_stmt(self, args): value = args[1].value; value = value[1:-1] if value[0] == DOUBLE-QUOTE else value; setattr(...) *)
Fixpoint drop_last (s : string) : string :=
  match s with
  | EmptyString => EmptyString
  | String c EmptyString => EmptyString
  | String c r => String c (drop_last r)
  end.
Definition unquote (v : string) : string :=
  match v with String """" r => drop_last r | _ => v end.
(* def design(self, args): self.def_file.design = args[0].value      (runs after the statements of the block) *)
Definition elab_file_stmt (d : deffile) (f : file_stmt) : option deffile :=
  match f with
  | FVersion v => Some (set_version d (Some (unquote v)))
  | FDividerchar v => Some (set_dividerchar d (Some (unquote v)))
  | FBusbitchars v => Some (set_busbitchars d (Some (unquote v)))
  | FDesign name l => option_map (fun d' => set_design d' (Some name)) (fold_opt elab_design_stmt l d)
  end.
(* def start(self, args): return self.def_file *)
Definition elab (t : tree) : option deffile := fold_opt elab_file_stmt (t_stmts t) df_empty.

(** * callbacks ; DefRoute *)
Definition elem_of_dpoint (p : dpoint) : elem :=
  match p with DPt r => EPt (rp_x r) (rp_y r) (rp_z r) | DVia n v => EVia n v end.
(* the routing statement Model/DefRoute.v starts from; None = outside its domain (first point with '*', or a
   special-net width that is not an integer: DefNet.wires raises in int(dw.width)) *)
Definition route_of_dwire (w : dwire) : option wire :=
  match dw_points w with
  | DPt (mkRP (Some x) (Some y) z) :: rest =>
      match dw_width w with
      | None => Some (mkWire (dw_layer w) None (x, y, z) (map elem_of_dpoint rest))
      | Some s => option_map (fun wd => mkWire (dw_layer w) (Some wd) (x, y, z) (map elem_of_dpoint rest)) (py_int s)
      end
  | _ => None
  end.
Definition dnet_wiring (k : string) (n : dnet) : list dwire :=
  match pd_get k (dn_attrs n) with Some (NWires l) => l | _ => [] end.
Definition dnet_routed (n : dnet) : list dwire := dnet_wiring "routed" n.
(* DefNet.wires / DefNet.vias of an extracted net *)
Definition dnet_wires (n : dnet) : option (dd wseg) := option_map net_wires (mapM route_of_dwire (dnet_routed n)).
Definition dnet_vias (n : dnet) : option (dd vplace) := option_map net_vias (mapM route_of_dwire (dnet_routed n)).

(* the wiring statements of a net as written, as (lower-case keyword, wires) *)
Definition wiring_of_items (its : list nitem) : list (string * list dwire) :=
  flat_map (fun it => match it with NWiring k ws => [(k, ws)] | _ => [] end) its.
Definition pins_of_items (its : list nitem) : list (string * string) :=
  flat_map (fun it => match it with NPin a b => [(a, b)] | _ => [] end) its.
Definition attrs_of_items (its : list nitem) : list (string * string) :=
  flat_map (fun it => match it with NAttr k v => [(k, v)] | _ => [] end) its.
Definition collect_dw (kw : string) (stmts : list (string * list dwire)) : list dwire :=
  flat_map (fun s => if String.eqb (fst s) kw then snd s else []) stmts.

(** * The statements of a tree, in text order *)
Definition design_stmts (t : tree) : list design_stmt :=
  flat_map (fun f => match f with FDesign _ l => l | _ => [] end) (t_stmts t).
Definition comps_of_stmt (s : design_stmt) := match s with SComp _ l => l | _ => [] end.
Definition pins_of_stmt (s : design_stmt) := match s with SPins _ l => l | _ => [] end.
Definition vias_of_stmt (s : design_stmt) := match s with SVias _ l => l | _ => [] end.
Definition spnets_of_stmt (s : design_stmt) := match s with SSpnets _ l => l | _ => [] end.
Definition nets_of_stmt (s : design_stmt) := match s with SNets _ l => l | _ => [] end.
Definition units_of_stmt (s : design_stmt) : list (option (string * string * Z)) :=
  match s with SUnits a b n => [elab_units a b n] | _ => [] end.
Definition rows_of_stmt (s : design_stmt) : list (option def_row) :=
  match s with SRow name site x y orient ds => [elab_row name site x y orient ds] | _ => [] end.
Definition tracks_of_stmt (s : design_stmt) : list (option def_track) :=
  match s with STracks dir start num step layer => [elab_track dir start num step layer] | _ => [] end.
Definition comps_of (t : tree) : list comp_stmt := flat_map comps_of_stmt (design_stmts t).
Definition pins_of (t : tree) : list pins_stmt := flat_map pins_of_stmt (design_stmts t).
Definition vias_of (t : tree) : list via_stmt := flat_map vias_of_stmt (design_stmts t).
Definition spnets_of (t : tree) : list spnet_stmt := flat_map spnets_of_stmt (design_stmts t).
Definition nets_of (t : tree) : list net_stmt := flat_map nets_of_stmt (design_stmts t).
Definition units_of (t : tree) := flat_map units_of_stmt (design_stmts t).
Definition rows_of (t : tree) := flat_map rows_of_stmt (design_stmts t).
Definition tracks_of (t : tree) := flat_map tracks_of_stmt (design_stmts t).

(** * Comparison helpers for the correspondence cases *)
Definition oz_eqb' := oz_eqb.
Definition ostr_eqb (a b : option string) : bool :=
  match a, b with Some x, Some y => String.eqb x y | None, None => true | _, _ => false end.
Definition rpoint_eqb (a b : rpoint) : bool :=
  oz_eqb (rp_x a) (rp_x b) && oz_eqb (rp_y a) (rp_y b) && oz_eqb (rp_z a) (rp_z b).
Definition vparam_eqb (a b : vparam) : bool :=
  match a, b with
  | VNone, VNone => true
  | VOrient x, VOrient y => String.eqb x y
  | VArray n m dx dy, VArray n' m' dx' dy' => Nat.eqb n n' && Nat.eqb m m' && Z.eqb dx dx' && Z.eqb dy dy'
  | _, _ => false
  end.
Definition dpoint_eqb (a b : dpoint) : bool :=
  match a, b with
  | DPt p, DPt q => rpoint_eqb p q
  | DVia n p, DVia m q => String.eqb n m && vparam_eqb p q
  | _, _ => false
  end.
Definition dwire_eqb (a b : dwire) : bool :=
  String.eqb (dw_layer a) (dw_layer b) && ostr_eqb (dw_width a) (dw_width b) && dl_eqb dpoint_eqb (dw_points a) (dw_points b).
Definition pd_eqb {A} (eqb : A -> A -> bool) (a b : pdict A) : bool :=
  dl_eqb (fun p q => String.eqb (fst p) (fst q) && eqb (snd p) (snd q)) a b.
Definition nval_eqb (a b : nval) : bool :=
  match a, b with NStr x, NStr y => String.eqb x y | NWires x, NWires y => dl_eqb dwire_eqb x y | _, _ => false end.
Definition spair_eqb (a b : string * string) : bool := String.eqb (fst a) (fst b) && String.eqb (snd a) (snd b).
Definition dnet_eqb (a b : dnet) : bool :=
  String.eqb (dn_name a) (dn_name b) && dl_eqb spair_eqb (dn_pins a) (dn_pins b) && pd_eqb nval_eqb (dn_attrs a) (dn_attrs b).
Definition vval_eqb (a b : vval) : bool :=
  match a, b with
  | VStr x, VStr y => String.eqb x y
  | VStrs x, VStrs y => dl_eqb String.eqb x y
  | VInts x, VInts y => dl_eqb Z.eqb x y
  | _, _ => false
  end.
Definition dvia_eqb (a b : dvia) : bool := String.eqb (dv_name a) (dv_name b) && pd_eqb vval_eqb (dv_attrs a) (dv_attrs b).
Definition pinval_eqb (a b : pinval) : bool :=
  match a, b with
  | PVStr x, PVStr y => String.eqb x y
  | PVLayer n p q, PVLayer n' p' q' => String.eqb n n' && rpoint_eqb p p' && rpoint_eqb q q'
  | PVEmpty, PVEmpty => true
  | _, _ => false
  end.
Definition pplace_eqb (a b : pplace) : bool :=
  oz_eqb (fst (fst a)) (fst (fst b)) && oz_eqb (snd (fst a)) (snd (fst b)) && String.eqb (snd a) (snd b).
Definition dpin_eqb (a b : dpin) : bool :=
  String.eqb (dp_name a) (dp_name b) && dl_eqb pplace_eqb (dp_points a) (dp_points b) && pd_eqb pinval_eqb (dp_attrs a) (dp_attrs b).
Definition dcomp_eqb (a b : dcomp) : bool :=
  String.eqb (fst (fst a)) (fst (fst b)) && rpoint_eqb (snd (fst a)) (snd (fst b)) && String.eqb (snd a) (snd b).
Definition unit_eqb (a b : string * string * Z) : bool :=
  String.eqb (fst (fst a)) (fst (fst b)) && String.eqb (snd (fst a)) (snd (fst b)) && Z.eqb (snd a) (snd b).
Definition olist_eqb {A} (eqb : A -> A -> bool) (a b : option (list A)) : bool :=
  match a, b with Some x, Some y => dl_eqb eqb x y | None, None => true | _, _ => false end.
Definition deffile_eqb (a b : deffile) : bool :=
  ostr_eqb (df_version a) (df_version b) && ostr_eqb (df_dividerchar a) (df_dividerchar b) &&
  ostr_eqb (df_busbitchars a) (df_busbitchars b) && ostr_eqb (df_design a) (df_design b) &&
  dl_eqb unit_eqb (df_units a) (df_units b) && olist_eqb rpoint_eqb (df_diearea a) (df_diearea b) &&
  dl_eqb row_eqb (df_rows a) (df_rows b) && dl_eqb track_eqb (df_tracks a) (df_tracks b) &&
  pd_eqb dvia_eqb (df_vias a) (df_vias b) && pd_eqb dcomp_eqb (df_components a) (df_components b) &&
  pd_eqb dpin_eqb (df_pins a) (df_pins b) && pd_eqb dnet_eqb (df_specialnets a) (df_specialnets b) &&
  pd_eqb dnet_eqb (df_nets a) (df_nets b).
Definition opt_eqb' {A} (eqb : A -> A -> bool) (a b : option A) : bool :=
  match a, b with Some x, Some y => eqb x y | None, None => true | _, _ => false end.

(* whole file: the DefFile the real transformer returned for this tree (None = it raised) *)
Definition defelab_case (t : tree) (exp : option deffile) : bool := opt_eqb' deffile_eqb (elab t) exp.
(* single callbacks: what the real callback received (already transformed children) and returned *)
Definition cb_point_case (p : tpoint) (exp : option rpoint) : bool := opt_eqb' rpoint_eqb (cb_point p) exp.
Definition z4_eqb (a b : Z * Z * Z * Z) : bool :=
  let '(a1, a2, a3, a4) := a in let '(b1, b2, b3, b4) := b in Z.eqb a1 b1 && Z.eqb a2 b2 && Z.eqb a3 b3 && Z.eqb a4 b4.
Definition cb_do_step_case (d : tdostep) (exp : option (Z * Z * Z * Z)) : bool := opt_eqb' z4_eqb (cb_do_step d) exp.
(* the via tuple as Python holds it: (name, None | orientation text | 4-tuple) *)
Inductive pyvia := PyNone | PyStr (s : string) | PyTuple (t : Z * Z * Z * Z).
Definition via_matches (d : dpoint) (name : string) (p : pyvia) : bool :=
  match d, p with
  | DVia n VNone, PyNone => String.eqb n name
  | DVia n (VOrient o), PyStr s => String.eqb n name && String.eqb o s
  | DVia n (VArray a b dx dy), PyTuple (a', b', dx', dy') =>
      String.eqb n name && Z.eqb (Z.of_nat a) a' && Z.eqb (Z.of_nat b) b' && Z.eqb dx dx' && Z.eqb dy dy'
  | _, _ => false
  end.
Definition cb_sppoints_via_case (name : string) (ds : option (Z * Z * Z * Z)) (rname : string) (rp : pyvia) : bool :=
  via_matches (cb_sppoints_via name ds) rname rp.
Definition cb_points_via_case (name : string) (o : option string) (rname : string) (rp : pyvia) : bool :=
  via_matches (cb_points_via name o) rname rp.
Definition cb_spwire_case (layer width : string) (pts : list dpoint) (exp : dwire) : bool := dwire_eqb (cb_spwire layer width pts) exp.
Definition cb_wire_case (layer : string) (pts : list dpoint) (exp : dwire) : bool := dwire_eqb (cb_wire layer pts) exp.
Definition nitem_eqb (a b : nitem) : bool :=
  match a, b with
  | NPin x y, NPin x' y' => String.eqb x x' && String.eqb y y'
  | NAttr k v, NAttr k' v' => String.eqb k k' && String.eqb v v'
  | NWiring k ws, NWiring k' ws' => String.eqb k k' && dl_eqb dwire_eqb ws ws'
  | _, _ => false
  end.
Definition cb_net_wires_case (k : wkw) (ws : list dwire) (exp : nitem) : bool := nitem_eqb (cb_net_wires k ws) exp.
Definition cb_net_opt_case (k : okw) (v : string) (exp : nitem) : bool := nitem_eqb (cb_net_opt k v) exp.
Definition cb_net_pin_case (a b : string) (exp : nitem) : bool := nitem_eqb (cb_net_pin a b) exp.
Definition cb_net_stmt_case (name : string) (its : list nitem) (exp : dnet) : bool := dnet_eqb (cb_net_stmt name its) exp.
Definition vopt_eqb (a b : string * vval) : bool := String.eqb (fst a) (fst b) && vval_eqb (snd a) (snd b).
Definition cb_vias_opt_case (o : via_opt) (exp : option (string * vval)) : bool := opt_eqb' vopt_eqb (cb_vias_opt o) exp.
Definition cb_vias_stmt_case (name : string) (opts : list (string * vval)) (exp : dvia) : bool := dvia_eqb (cb_vias_stmt name opts) exp.
Definition pinopt_eqb (a b : pinopt_val) : bool :=
  match a, b with
  | PPlaced p, PPlaced q => pplace_eqb p q
  | PAttr k v, PAttr k' v' => String.eqb k k' && pinval_eqb v v'
  | _, _ => false
  end.
Definition cb_pins_opt_case (o : pinopt_arg) (exp : pinopt_val) : bool := pinopt_eqb (cb_pins_opt o) exp.
Definition cb_pins_stmt_case (name : string) (opts : list pinopt_val) (exp : dpin) : bool := dpin_eqb (cb_pins_stmt name opts) exp.
Definition cb_comp_stmt_case (name kind : string) (p : rpoint) (orient : string) (exp : string * dcomp) : bool :=
  String.eqb (fst (cb_comp_stmt name kind p orient)) (fst exp) && dcomp_eqb (snd (cb_comp_stmt name kind p orient)) (snd exp).
Definition cb_row_case (name site x y orient : string) (t : Z * Z * Z * Z) (exp : option def_row) : bool :=
  opt_eqb' row_eqb (cb_row name site x y orient t) exp.
Definition cb_track_case (dir start num step layer : string) (exp : option def_track) : bool :=
  opt_eqb' track_eqb (elab_track dir start num step layer) exp.
Definition cb_units_case (a b n : string) (exp : option (string * string * Z)) : bool := opt_eqb' unit_eqb (elab_units a b n) exp.
Definition unquote_case (v exp : string) : bool := String.eqb (unquote v) exp.
(* composition with DefRoute: DefNet.wires / DefNet.vias of an extracted net *)
Definition dnet_listing_case (n : dnet) (exp_wires : option (dd wseg)) (exp_vias : option (dd vplace)) : bool :=
  opt_eqb' (dd_eqb wseg_eqb) (dnet_wires n) exp_wires && opt_eqb' (dd_eqb vplace_eqb) (dnet_vias n) exp_vias.
Definition deffile_listing_case (d : deffile) (special : bool) (name : string) (ew : option (dd wseg)) (ev : option (dd vplace)) : bool :=
  match pd_get name (if special then df_specialnets d else df_nets d) with Some n => dnet_listing_case n ew ev | None => false end.
