(** WaveSim (wave_sim.py) on top of SimOps: one lane of s_to_c / c_prop / c_to_s over a flat waveform
    memory addressed through c_locs / c_caps, with weighted switching activity accumulation. *)
From Coq Require Import List NArith ZArith Bool Arith String.
From KV Require Import Model.Prims Model.Netlist Model.Heap Model.SimOps Model.Time Model.WaveEval.
Import ListNotations.
Local Open Scope list_scope.

Definition wmem := list time.
Definition locZ (so : simops) (idx : nat) : option nat :=
  let z := nth idx (so_locs so) (-1)%Z in if (0 <=? z)%Z then Some (Z.to_nat z) else None.
Definition capN (so : simops) (idx : nat) : nat := N.to_nat (nth idx (so_caps so) 0%N).
Definition region (m : wmem) (loc len : nat) : list time := firstn len (skipn loc m).
Fixpoint write_at (m : wmem) (loc : nat) (vs : list time) : wmem :=
  match loc, m with
  | O, _ => (fix ow (m : wmem) (vs : list time) := match vs, m with
                                                    | [], _ => m
                                                    | _, [] => []
                                                    | v :: vr, _ :: mr => v :: ow mr vr end) m vs
  | S l, x :: r => x :: write_at r l vs
  | S _, [] => []
  end.

(** input waveforms from (initial value, transition time, final value): choices 0 R F 1 *)
Definition assign_wave (i : bool) (t : time) (f : bool) : list time :=
  match i, f with
  | false, false => [MaxInf; MaxInf; MaxInf]
  | false, true => [t; MaxInf; MaxInf]
  | true, false => [MinInf; t; MaxInf]
  | true, true => [MinInf; MaxInf; MaxInf]
  end.

Definition w_s_to_c (so : simops) (s : list (bool * time * bool)) (m : wmem) : wmem :=
  fold_left (fun m' (iv : nat * (bool * time * bool)) =>
      match locZ so (so_nlines so + 3 + fst iv) with
      | Some l => let '(i, t, f) := snd iv in write_at m' l (assign_wave i t f)
      | None => m' end)
    (combine (seq 0 (so_slen so)) s) m.

Definition operand (so : simops) (m : wmem) (idx : nat) : list time :=
  match locZ so idx with Some l => region m l (capN so idx) | None => [] end.

(** one op on one lane: new memory, (nrise, nfall) *)
Definition wprop1 (so : simops) (delays : list dtab) (m : wmem) (o : sop) : option (wmem * (nat * nat)) :=
  match locZ so (s_out o) with
  | None => None
  | Some zl =>
      let idxs := [s_i0 o; s_i1 o; s_i2 o; s_i3 o] in
      match wave_eval (s_lut o) (map (operand so m) idxs) (map (fun k => nth k delays dzero) idxs)
                      (region m zl (capN so (s_out o))) with
      | None => None
      | Some r => Some (write_at m zl (r_z r), (r_rise r, r_fall r))
      end
  end.

(** a_ctrl: per op (accumulator index or -1, rise weight, fall weight) *)
Fixpoint addZ_at (l : list Z) (i : nat) (d : Z) : list Z :=
  match l, i with [], _ => [] | x :: r, O => (x + d)%Z :: r | x :: r, S i' => x :: addZ_at r i' d end.

Definition w_c_prop (so : simops) (delays : list dtab) (actrl : list (Z * Z * Z)) (m : wmem) (abuf : list Z)
  : option (wmem * list Z) :=
  fold_left (fun (st : option (wmem * list Z)) (io : nat * sop) =>
      match st with
      | None => None
      | Some (m', ab) =>
          match wprop1 so delays m' (snd io) with
          | None => None
          | Some (m2, (nr, nf)) =>
              let '(ai, wr, wf) := nth (fst io) actrl ((-1)%Z, 0%Z, 0%Z) in
              Some (m2, if (0 <=? ai)%Z then addZ_at ab (Z.to_nat ai) (Z.of_nat nr * wr + Z.of_nat nf * wf)%Z else ab)
          end
      end) (combine (seq 0 (List.length (so_ops so))) (so_ops so)) (Some (m, abuf)).

(** capture at every s_node that owns a PPO slot: Some (init, eat, lst, final, val, ovl) *)
Definition w_c_to_s (so : simops) (m : wmem) (tcap : time) : list (option (bool * time * time * bool * bool * bool)) :=
  map (fun i =>
      let idx := so_nlines so + 3 + so_slen so + i in
      match locZ so idx with
      | None => None
      | Some l => let '(ini, a) := capture (region m l (capN so idx)) tcap in
                  Some (ini, k_eat a, k_lst a, k_fin a, k_val a, k_ovl a)
      end) (seq 0 (so_slen so)).

Record wsim_result := { w_mem : wmem; w_abuf : list Z; w_capt : list (option (bool * time * time * bool * bool * bool)) }.

Definition wsim_case (c : netlist) (caps : list N) (reuse strip : bool) (delays : list dtab) (actrl_of_ops : list (Z * Z * Z))
           (abuf_len : nat) (s : list (bool * time * bool)) (extra : list (nat * list time)) (tcap : time) : option wsim_result :=
  match build c caps 4%N reuse strip with
  | None => None
  | Some so =>
      let m0 := repeat MaxInf (N.to_nat (so_len so)) in
      let m1 := w_s_to_c so s m0 in
      (* multi-transition stimuli written directly into the memory of PI/PPI slots *)
      let m2 := fold_left (fun m (e : nat * list time) =>
                   match locZ so (so_nlines so + 3 + fst e) with Some l => write_at m l (snd e) | None => m end) extra m1 in
      match w_c_prop so delays actrl_of_ops m2 (repeat 0%Z abuf_len) with
      | None => None
      | Some (m3, ab) => Some {| w_mem := m3; w_abuf := ab; w_capt := w_c_to_s so m3 tcap |}
      end
  end.
