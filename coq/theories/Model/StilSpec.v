(** Specification vocabulary for property C18 (STIL patterns map scan data onto flip-flops by chain order
    and inversion): what a chain, a cell position and the documented value mappings are -- written
    independently of the loops transcribed in Model/Stil.v. *)
From Coq Require Import List Arith Bool String Ascii.
From KV Require Import Model.Prims Model.Logic Model.Netlist Model.Stil.
Import ListNotations.
Local Open Scope list_scope.

(** ** chains: a chain list is [scan_in; item ...; scan_out], an item is a cell name or the marker "!" *)
Definition is_cell (s : string) : bool := negb (is_marker s).
Definition cells (l : list string) : list string := filter is_cell l.
Definition ncell (l : list string) : nat := List.length (cells l).           (* number of cells among the items *)
Definition nmark (l : list string) : nat := List.length (filter is_marker l). (* number of inversion markers *)
Definition chain_cells (ch : list string) : list string := cells (chain_mid ch).
Definition all_cells (chs : list (list string)) : list string := flat_map chain_cells chs.

(** what a STIL file + netlist pair of a scan design satisfies: the interface names (ports, flip-flops,
    latches) are pairwise different, every scan-in / scan-out port belongs to exactly one chain, every scan
    cell sits at one place of one chain *)
Record wf_scan (chains : sdict (list string)) (c : scircuit) : Prop := {
  wf_names : NoDup (map sn_name (interface c));
  wf_ports : NoDup (map chain_si (map snd chains) ++ map chain_so (map snd chains));
  wf_cells : NoDup (all_cells (map snd chains)) }.

(** ** documented value mappings on the numeric codes 0='0' 1='X' 2='-' 3='1' 4='P' 5='R' 6='F' 7='N' *)
(** value a scan cell gets from a load character of code [v] that passed an odd ([inv]) / even number of
    inversion markers: unknown and unassigned are untouched, everything else is inverted (0<->1, R<->F, P<->N) *)
Definition load_value (v : nat) (inv : bool) : nat := if is_unk v then v else if inv then Nat.lxor v ONE else v.
(** value reported for an unload character: as above, but mv_xor reports unassigned as unknown *)
Definition unload_value (v : nat) (inv : bool) : nat := if is_unk v then UNKNOWN else if inv then Nat.lxor v ONE else v.

Definition nat_of_code (c : code) : nat :=
  match c with Zero => 0 | Unk => 1 | Una => 2 | One => 3 | PP => 4 | Rise => 5 | Fall => 6 | NP => 7 end.
(** mv_transition as documented (logic.py:242-244): from the INITIAL value of [i] to the FINAL value of [f]
    (so pulses are ignored); any unknown/unassigned operand gives unknown; both unassigned gives unassigned *)
Definition spec_transition (i f : code) : code :=
  if code_eqb i Una && code_eqb f Una then Una
  else if unknownish i || unknownish f then Unk
  else code_of_bits (fin f) (ini i) (xorb (ini i) (fin f)).

(** one pattern of tests_loc: init column, launch column, mv_transition of the two *)
Definition tests_loc_col (m : maps) (sis : list string) (p : pattern) (sim : list nat) : option (list nat) :=
  match loc_init_col m sis p, loc_launch_col m sis p sim with
  | Some i, Some l => Some (map (fun ab => mv_transition1 (fst ab) (snd ab)) (combine i l))
  | _, _ => None
  end.

(** the same circuit as a Model/Netlist.netlist (kinds only), to compare with Netlist.s_nodes *)
Definition netlist_of (c : scircuit) : netlist :=
  {| c_nodes := map (fun n => {| n_kind := sn_kind n; n_ins := []; n_outs := [] |}) (sc_nodes c);
     c_lines := []; c_io := sc_io c |}.

(** ** a small scan design used by the Examples: ports si a so z, flip-flops f0 f1 f2, a latch;
    chain si -> f0 -> ! -> f1 -> f2 -> so *)
Local Open Scope string_scope.
Definition ex_circuit : scircuit :=
  {| sc_nodes := [ {| sn_name := "si"; sn_kind := "input" |}; {| sn_name := "f1"; sn_kind := "SDFFX1" |};
                   {| sn_name := "a"; sn_kind := "input" |}; {| sn_name := "la"; sn_kind := "LATCHX1" |};
                   {| sn_name := "f0"; sn_kind := "sdffarx1" |}; {| sn_name := "so"; sn_kind := "output" |};
                   {| sn_name := "z"; sn_kind := "output" |}; {| sn_name := "f2"; sn_kind := "SDFFX1" |};
                   {| sn_name := "g"; sn_kind := "XOR2" |} ];
     sc_io := [0; 2; 5; 6] |}.
Definition ex_groups : sdict (list string) := [("_po", ["z"; "so"]); ("_pi", ["a"; "si"])].
Definition ex_chains : sdict (list string) := [("1", ["si"; "f0"; "!"; "f1"; "f2"; "so"])].
Definition ex_pattern : pattern :=
  {| p_load := [("si", "001")]; p_launch := [("_pi", "1P")]; p_capture := [("_pi", "0P"); ("_po", "LH")];
     p_unload := [("so", "LLH")] |}.
(** the same design with upper-case kinds only and no latch (so that the pinned-tree interface is complete) *)
Definition ex_circuit0 : scircuit :=
  {| sc_nodes := [ {| sn_name := "si"; sn_kind := "input" |}; {| sn_name := "f1"; sn_kind := "SDFFX1" |};
                   {| sn_name := "a"; sn_kind := "input" |};
                   {| sn_name := "f0"; sn_kind := "SDFFARX1" |}; {| sn_name := "so"; sn_kind := "output" |};
                   {| sn_name := "z"; sn_kind := "output" |}; {| sn_name := "f2"; sn_kind := "SDFFX1" |};
                   {| sn_name := "g"; sn_kind := "XOR2" |} ];
     sc_io := [0; 2; 4; 5] |}.
