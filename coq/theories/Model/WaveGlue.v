(** Vocabulary of the end-to-end statement for the timing simulator (Proofs/WaveSimGlue.v): what [wsim_case] is compared with.
    [lcap]      capacity of a signal index at line level, from the c_caps vector handed to WaveSim (SimOps: max(4, c_caps[line]);
                the zero / scratch / PI / PPI slots have 4 entries);
    [stim_wave] the input waveform of s_node position p: what s_to_c (s[0..2]) and the direct multi-transition writes leave in
                the 4-entry region of the PI/PPI slot, read up to its terminator;
    [wacc_alias] switching-activity accumulation along an op list whose operands are read through an alias (stem) map;
    [wglue_pred] the line-level prediction for every s_node position: capture of the waveform of the line feeding it.
    Definitions only. *)
From Coq Require Import List ZArith NArith Bool Arith.
From KV Require Import Model.Prims Model.Netlist Model.Heap Model.SimOps Model.AllocCheck Model.NetlistSem Model.CycleSem Model.Time
     Model.WaveEval Model.WaveSpec Model.WaveOps Model.WaveSimModel Model.WaveAcc Model.WaveStripModel.
Import ListNotations.
Local Open Scope list_scope.

Definition lcap (nl : nat) (caps : list N) (k : nat) : nat :=
  if Nat.ltb k nl then N.to_nat (N.max 4 (nth k caps 0%N)) else 4.

Definition stim_region (s : list (bool * time * bool)) (extra : list (nat * list time)) (p : nat) : list time :=
  fold_left (fun r (e : nat * list time) => if Nat.eqb (fst e) p then write_at r 0 (snd e) else r) extra
            (match nth_error s p with
             | Some (i, t, f) => write_at (repeat MaxInf 4) 0 (assign_wave i t f)
             | None => repeat MaxInf 4
             end).
Definition stim_wave (s : list (bool * time * bool)) (extra : list (nat * list time)) (p : nat) : list time :=
  upto_end (stim_region s extra p).

(** the line-level start environment: constant 0 at lines and special slots, the input waveforms at the PI/PPI slots *)
Definition wenv0 (c : netlist) (s : list (bool * time * bool)) (extra : list (nat * list time)) : wenv :=
  init_env wzero c (stim_wave s extra).

Section WaccAlias.
  Variable delays : nat -> dtab.
  Variable cap : nat -> nat.
  Variable actrl : list (Z * Z * Z).
  Variable al : nat -> nat.

  Definition wop_alias_counts (e : wenv) (o : sop) : nat * nat :=
    match wave_eval (s_lut o) [e (al (s_i0 o)); e (al (s_i1 o)); e (al (s_i2 o)); e (al (s_i3 o))]
                    (map delays [s_i0 o; s_i1 o; s_i2 o; s_i3 o]) (repeat MaxInf (cap (s_out o))) with
    | Some r => (r_rise r, r_fall r)
    | None => (0, 0)
    end.
  Fixpoint wacc_alias_from (i : nat) (ops : list sop) (e : wenv) (ab : list Z) : wenv * list Z :=
    match ops with
    | [] => (e, ab)
    | o :: r => wacc_alias_from (S i) r (wstep_alias delays cap al e o) (acc_add actrl ab i (wop_alias_counts e o))
    end.
  Definition wacc_alias (ops : list sop) (e : wenv) (ab : list Z) : list Z := snd (wacc_alias_from 0 ops e ab).
End WaccAlias.

(** what c_to_s must deliver at s_node position p for a line-level environment [ef] (None: no data line, no PPO slot) *)
Definition wglue_pred (c : netlist) (ef : wenv) (tcap : time) : list (option (bool * time * time * bool * bool * bool)) :=
  map (fun p => match snode_in c p with Some l0 => Some (six (capture (ef l0) tcap)) | None => None end)
      (seq 0 (List.length (s_nodes c))).
