(** Vocabulary for statements about waveforms (C03, C04, C05, C13).  Definitions only. *)
From Coq Require Import List ZArith NArith Bool Arith.
From KV Require Import Model.Time Model.WaveEval.
Import ListNotations.
Local Open Scope list_scope.

(** number of transitions = index of the first terminator (or the length if there is none) *)
Fixpoint ntrans (w : list time) : nat :=
  match w with [] => 0 | t :: r => if is_end t then 0 else S (ntrans r) end.
(** the transitions proper *)
Definition body (w : list time) : list time := firstn (ntrans w) w.

Definition init_val (w : list time) : bool := match wget w 0 with MinInf => true | _ => false end.
Definition final_val (w : list time) : bool := Nat.odd (ntrans w).

(** well-formed: a terminator exists; TMIN may only be the very first entry *)
Definition wf_wave (w : list time) : Prop :=
  ntrans w < List.length w /\ forall i, 0 < i -> i < ntrans w -> wget w i <> MinInf.
Definition is_fin (t : time) : bool := match t with Fin _ => true | _ => false end.
Definition has_finite (w : list time) : bool := existsb is_fin (body w).
Definition strictly_increasing (w : list time) : Prop :=
  forall i j, i < j -> j < ntrans w -> tltb (wget w i) (wget w j) = true.

(** LUT row addressed by four operand values (operand k = bit k) *)
Definition row_of (vs : list bool) : N :=
  fold_right (fun (b : bool) acc => (N.b2n b + 2 * acc)%N) 0%N vs.
Definition lut_at (lut : N) (vs : list bool) : bool := N.testbit lut (row_of vs).

Definition dtab_nonneg (d : dtab) : Prop := (0 <= d00 d /\ 0 <= d01 d /\ 0 <= d10 d /\ 0 <= d11 d)%Z.
Definition dtab_polfree (d : dtab) : Prop := d00 d = d01 d /\ d01 d = d10 d /\ d10 d = d11 d.

(** rising / falling transitions encoded by a waveform: every body entry toggles the value; a leading
    TMIN only says that the signal starts at 1 *)
Fixpoint count_edges (w : list time) (v : bool) : nat * nat :=
  match w with
  | [] => (0, 0)
  | t :: r => if is_end t then (0, 0)
              else let '(a, b) := count_edges r (negb v) in if v then (a, S b) else (S a, b)
  end.
Definition edges (w : list time) : nat * nat :=
  match w with MinInf :: r => count_edges r true | _ => count_edges w false end.

Definition shift (delta : Z) (t : time) : time := match t with Fin z => Fin (z + delta) | _ => t end.
Definition terminator (w : list time) : time := wget w (ntrans w).
