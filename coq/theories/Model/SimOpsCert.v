(** The certificates of Model/AllocCheck.v instantiated for a SimOps result. *)
From Coq Require Import List NArith ZArith Bool Arith.
From KV Require Import Model.Netlist Model.SimOps Model.AllocCheck.
Import ListNotations.
Local Open Scope list_scope.

Definition so_loc (so : simops) (x : nat) : option nat :=
  let z := nth x (so_locs so) (-1)%Z in if (0 <=? z)%Z then Some (Z.to_nat z) else None.
Definition so_ppi (so : simops) := so_nlines so + 3.
Definition so_ppo (so : simops) := so_nlines so + 3 + so_slen so.
(** a stripped fan-out branch stands for its stem; a PPO slot stands for the (stem of the) line feeding the s_node *)
Definition so_alias (c : netlist) (so : simops) (x : nat) : nat :=
  if Nat.leb (so_ppo so) x then
    match n_ins (get_node c (nth (x - so_ppo so) (s_nodes c) 0)) with
    | Some l0 :: _ => stemmed (so_stems so) l0
    | _ => x
    end
  else stemmed (so_stems so) x.
Definition so_init (so : simops) : list nat :=
  so_nlines so :: filter (fun x => match so_loc so x with Some _ => true | None => false end)
                         (map (fun i => so_ppi so + i) (seq 0 (so_slen so))).
Definition so_final (so : simops) : list nat :=
  filter (fun x => match so_loc so x with Some _ => true | None => false end) (map (fun i => so_ppo so + i) (seq 0 (so_slen so))).
Definition simops_cert (c : netlist) (so : simops) : bool :=
  map_check (so_loc so) (so_alias c so) (so_init so) (so_final so) (so_ops so) &&
  sched_check (so_alias c so) (so_nlines so + 1) (split_levels (so_level_starts so) (so_ops so) 0).
Definition cert_case (c : netlist) (caps : list N) (cmin : N) (reuse strip : bool) : bool :=
  match build c caps cmin reuse strip with Some so => simops_cert c so | None => false end.
