(** Model of the logic-value encodings of kyupy (logic.py: interpret, mvarray, mv_str, mv_to_bp, bparray, bp_to_mv,
    unpackbits, packbits; __init__.py: popcount).  Definitions only; transcribed from the code, numpy primitives are
    separate small functions (their semantics are ASSUMPTIONS validated by the correspondence check of C15).

    Arrays: uint8 data are [nat]; an n-D array is a nested list.  Where the code looks at [ndim]/[shape] the model takes
    or computes the shape explicitly (a nested list alone cannot tell shape (0,2) from (0,)). *)
From Coq Require Import List ZArith NArith Bool Arith Ascii Lia.
Import ListNotations.
Local Open Scope list_scope.

(** * the eight values *)
Definition ZERO := 0.
Definition UNKNOWN := 1.
Definition UNASSIGNED := 2.
Definition ONE := 3.
Definition PPULSE := 4.
Definition RISE := 5.
Definition FALL := 6.
Definition NPULSE := 7.

(** * interpret *)
(** Python scalars that reach the [value in [...]] tests; characters are code points *)
Inductive atom := AChr (c : N) | ABool (b : bool) | ANone | AInt (z : Z).
Definition ch (a : ascii) : atom := AChr (N_of_ascii a).

(** Python's [==] on these: bool is an int, a str never equals a number or None *)
Definition atom_num (a : atom) : option Z :=
  match a with ABool b => Some (if b then 1 else 0)%Z | AInt z => Some z | _ => None end.
Definition atom_eqb (a b : atom) : bool :=
  match a, b with
  | AChr x, AChr y => N.eqb x y
  | ANone, ANone => true
  | _, _ => match atom_num a, atom_num b with Some x, Some y => Z.eqb x y | _, _ => false end
  end.
Definition py_in (v : atom) (l : list atom) : bool := existsb (atom_eqb v) l.

(** lines 92-99 of logic.py *)
Definition interp_atom (value : atom) : nat :=
  if py_in value [AInt 0; ch "0"; ABool false; ch "L"; ch "l"] then ZERO else
  if py_in value [AInt 1; ch "1"; ABool true; ch "H"; ch "h"] then ONE else
  if py_in value [ANone; ch "-"; ch "Z"; ch "z"] then UNASSIGNED else
  if py_in value [ch "R"; ch "r"; ch "/"] then RISE else
  if py_in value [ch "F"; ch "f"; ch "\"] then FALL else
  if py_in value [ch "P"; ch "p"; ch "^"] then PPULSE else
  if py_in value [ch "N"; ch "n"; ch "v"] then NPULSE else
  UNKNOWN.
Definition interp_cp (c : N) : nat := interp_atom (AChr c).

(** Python argument values: scalars, strings (lists of code points), other iterables *)
Inductive pv := PAtom (a : atom) | PStr (s : list N) | PSeq (l : list pv).
(** nested Python lists of logic constants *)
Inductive tr := Lf (v : nat) | Nd (l : list tr).

(** a str of length one is a character, i.e. a scalar; every other iterable is traversed *)
Fixpoint interpret (value : pv) : tr :=
  match value with
  | PAtom a => Lf (interp_atom a)
  | PStr [c] => Lf (interp_cp c)
  | PStr s => Nd (map (fun c => Lf (interp_cp c)) s)
  | PSeq l => Nd (map interpret l)
  end.

(** * np.array(nested list): shape or failure (ragged / mixed depth raise ValueError) *)
Fixpoint nat_list_eqb (a b : list nat) : bool :=
  match a, b with
  | [], [] => true
  | x :: a', y :: b' => (x =? y) && nat_list_eqb a' b'
  | _, _ => false
  end.
Definition all_shape (s : list nat) (l : list (option (list nat))) : bool :=
  forallb (fun o => match o with Some s' => nat_list_eqb s' s | None => false end) l.
Fixpoint shape_of (t : tr) : option (list nat) :=
  match t with
  | Lf _ => Some []
  | Nd l => match map shape_of l with
            | [] => Some [0]
            | Some s :: r => if all_shape s r then Some (S (List.length r) :: s) else None
            | None :: _ => None
            end
  end.

Definition kids (t : tr) : list tr := match t with Nd l => l | Lf _ => [] end.
Fixpoint leaves (t : tr) : list nat := match t with Lf v => [v] | Nd l => flat_map leaves l end.
(** apply [f] to every sub-array [k] axes down *)
Fixpoint at_depth (k : nat) (f : tr -> tr) (t : tr) : tr :=
  match k with 0 => f t | S k' => Nd (map (at_depth k' f) (kids t)) end.
(** swapaxes(-1,-2) of a 2-D array with [c] columns *)
Definition tr_transp (c : nat) (t : tr) : tr :=
  Nd (map (fun j => Nd (map (fun row => nth j (kids row) (Lf 0)) (kids t))) (seq 0 c)).
Definition swap_last2 (sh : list nat) : list nat :=
  let n := List.length sh in firstn (n - 2) sh ++ [nth (n - 1) sh 0; nth (n - 2) sh 0].

(** * mvarray: (shape, data) or failure *)
Definition mvarray (a : list pv) : option (list nat * tr) :=
  let mva := Nd (map interpret a) in
  match shape_of mva with
  | None => None                                         (* np.array raises *)
  | Some sh =>
    let nd := List.length sh in
    if nd <? 2 then Some (sh, mva)
    else if 1 <? nth (nd - 2) sh 0
    then Some (swap_last2 sh, at_depth (nd - 2) (tr_transp (nth (nd - 1) sh 0)) mva)
    else if nth (nd - 2) sh 0 =? 0 then None             (* mva[..., 0, :] raises IndexError *)
    else Some (firstn (nd - 2) sh ++ [nth (nd - 1) sh 0], at_depth (nd - 2) (fun m => nth 0 (kids m) (Nd [])) mva)
  end.

(** * mv_str *)
Definition render_chars : list N := map N_of_ascii ["0"; "X"; "-"; "1"; "P"; "R"; "F"; "N"]%char.
Definition render (v : nat) : N := nth v render_chars 0%N.
Fixpoint join (d : list N) (ss : list (list N)) : list N :=
  match ss with [] => [] | [s] => s | s :: r => s ++ d ++ join d r end.
(** the pattern strings of a 2-D array with [p] columns: string j is column j *)
Definition mv_str_lines (p : nat) (t : tr) : list (list N) :=
  map (fun j => map (fun row => render (nth j (leaves row) 0)) (kids t)) (seq 0 p).
(** np.choose raises on entries >= 8; >2-D arrays make ''.join fail unless an axis is empty *)
Definition mv_str (sh : list nat) (mva : tr) (delim : list N) : option (list N) :=
  if negb (forallb (fun v => v <? 8) (leaves mva)) then None else
  match sh with
  | [] | [_] => Some (map render (leaves mva))
  | [_; p] => Some (join delim (mv_str_lines p mva))
  | _ => let sw := swap_last2 sh in
         if nth 0 sw 0 =? 0 then Some []
         else if nth 1 sw 0 =? 0 then Some (join delim (repeat [] (nth 0 sw 0)))
         else None                                       (* TypeError *)
  end.

(** * bits *)
Fixpoint nbits (n : nat) (x : nat) : list bool :=
  match n with 0 => [] | S n' => Nat.odd x :: nbits n' (Nat.div2 x) end.
Fixpoint nat_of_bits (l : list bool) : nat :=
  match l with [] => 0 | b :: r => Nat.b2n b + 2 * nat_of_bits r end.

(** np.unpackbits(bytes, bitorder='little') along the last axis *)
Definition np_unpackbits_le (bytes : list nat) : list bool := flat_map (nbits 8) bytes.
(** np.packbits(bits, bitorder='little') along the last axis: groups of eight, the last group zero-padded *)
Fixpoint np_packbits_le (l : list bool) : list nat :=
  match l with
  | b0 :: b1 :: b2 :: b3 :: b4 :: b5 :: b6 :: b7 :: r => nat_of_bits [b0; b1; b2; b3; b4; b5; b6; b7] :: np_packbits_le r
  | [] => []
  | _ => [nat_of_bits l]
  end.

(** swapaxes(-1,-2) of a matrix with [c] columns *)
Definition transp {A} (d : A) (c : nat) (M : list (list A)) : list (list A) :=
  map (fun j => map (fun r => nth j r d) M) (seq 0 c).
Definition cdiv (a b : nat) : nat := (a + b - 1) / b.
(** np.packbits(M, axis=-2, bitorder='little') of a matrix with [c] columns *)
Definition np_packbits_axis2 (c : nat) (M : list (list bool)) : list (list nat) :=
  transp 0 (cdiv (List.length M) 8) (map np_packbits_le (transp false c M)).

(** * generic unpackbits / packbits over integer dtypes *)
Record dtype := DT { dt_bytes : nat; dt_signed : bool }.
Definition dtypes : list dtype :=
  [DT 1 true; DT 2 true; DT 4 true; DT 8 true; DT 1 false; DT 2 false; DT 4 false; DT 8 false].
Definition dt_bits (dt : dtype) : nat := 8 * dt_bytes dt.
Definition in_range (dt : dtype) (x : Z) : Prop :=
  if dt_signed dt then (- 2 ^ (Z.of_nat (dt_bits dt) - 1) <= x < 2 ^ (Z.of_nat (dt_bits dt) - 1))%Z
  else (0 <= x < 2 ^ Z.of_nat (dt_bits dt))%Z.
Definition in_rangeb (dt : dtype) (x : Z) : bool :=
  if dt_signed dt then ((- 2 ^ (Z.of_nat (dt_bits dt) - 1) <=? x) && (x <? 2 ^ (Z.of_nat (dt_bits dt) - 1)))%Z
  else ((0 <=? x) && (x <? 2 ^ Z.of_nat (dt_bits dt)))%Z.

(** a.view(np.uint8) of one item on a little-endian host: byte k of the two's complement representation *)
Definition view_u8 (dt : dtype) (x : Z) : list nat :=
  map (fun k => Z.to_nat ((x / 2 ^ (8 * Z.of_nat k)) mod 256)) (seq 0 (dt_bytes dt)).
Definition unpackbits (dt : dtype) (x : Z) : list bool := np_unpackbits_le (view_u8 dt x).

(** bytes.view(dtype) *)
Fixpoint of_bytes (bs : list nat) : Z :=
  match bs with [] => 0%Z | b :: r => (Z.of_nat b + 256 * of_bytes r)%Z end.
Definition view_dt (dt : dtype) (bs : list nat) : Z :=
  let u := of_bytes bs in
  if dt_signed dt && (2 ^ (Z.of_nat (dt_bits dt) - 1) <=? u)%Z then (u - 2 ^ Z.of_nat (dt_bits dt))%Z else u.
(** packbits(a, dtype) on the last axis [a]; None where np.pad(..., 'edge') raises on an empty axis *)
Definition packbits (dt : dtype) (a : list bool) : option Z :=
  let bits := dt_bits dt in
  let a := firstn bits a in
  if List.length a <? bits then
    if dt_signed dt
    then match a with
         | [] => None
         | _ => Some (view_dt dt (np_packbits_le (a ++ repeat (last a false) (bits - List.length a))))
         end
    else Some (view_dt dt (np_packbits_le (a ++ repeat false (bits - List.length a))))
  else Some (view_dt dt (np_packbits_le a)).
Definition U8 := DT 1 false.
Definition packbits_u8 (a : list bool) : nat :=
  match packbits U8 a with Some z => Z.to_nat z | None => 0 end.
Definition unpackbits_u8 (x : nat) : list bool := unpackbits U8 (Z.of_nat x).

(** * mv <-> bp on a (signals x patterns) matrix; the signal axis is a batch axis of every numpy call involved *)
(** np.packbits(unpackbits(mva)[...,:3], axis=-2, bitorder='little').swapaxes(-1,-2) *)
Definition mv_to_bp_row (row : list nat) : list (list nat) :=
  transp 0 3 (np_packbits_axis2 3 (map (fun x => firstn 3 (unpackbits_u8 x)) row)).
Definition mv_to_bp_mat (m : list (list nat)) : list (list (list nat)) := map mv_to_bp_row m.
(** if mva.ndim == 1: mva = mva[..., np.newaxis] *)
Definition mv_to_bp_vec (v : list nat) : list (list (list nat)) := mv_to_bp_mat (map (fun x => [x]) v).

(** packbits(np.unpackbits(bpa, axis=-1, bitorder='little').swapaxes(-1,-2)) *)
Definition bp_to_mv_row (planes : list (list nat)) : list nat :=
  let bits := map np_unpackbits_le planes in
  map packbits_u8 (transp false (List.length (hd [] bits)) bits).
Definition bp_to_mv_mat (b : list (list (list nat))) : list (list nat) := map bp_to_mv_row b.

(** any number of leading batch axes *)
Fixpoint tens (A : Type) (n : nat) : Type := match n with 0 => A | S n' => list (tens A n') end.
Fixpoint tmap {A B : Type} (n : nat) (f : A -> B) : tens A n -> tens B n :=
  match n with 0 => f | S n' => map (tmap n' f) end.
Fixpoint tall {A : Type} (n : nat) (P : A -> Prop) : tens A n -> Prop :=
  match n with 0 => P | S n' => Forall (tall n' P) end.
Definition mat := list (list nat).
Definition bpmat := list (list (list nat)).
Definition mv_to_bp_nd (n : nat) : tens mat n -> tens bpmat n := tmap n mv_to_bp_mat.
Definition bp_to_mv_nd (n : nat) : tens bpmat n -> tens mat n := tmap n bp_to_mv_mat.

(** shapes *)
Definition mv_to_bp_shape (sh : list nat) : list nat :=
  match sh with
  | [s] => [s; 3; 1]
  | _ => let n := List.length sh in firstn (n - 1) sh ++ [3; cdiv (nth (n - 1) sh 0) 8]
  end.
Definition bp_to_mv_shape (sh : list nat) : list nat :=
  let n := List.length sh in firstn (n - 2) sh ++ [8 * nth (n - 1) sh 0].

(** the pattern axis padded with ZERO to the next multiple of eight *)
Definition pad8 (row : list nat) : list nat := row ++ repeat ZERO (8 * cdiv (List.length row) 8 - List.length row).

(** * bparray = mv_to_bp (mvarray ...) for results of at most two dimensions *)
Definition tr_vec (t : tr) : list nat := leaves t.
Definition tr_mat (t : tr) : list (list nat) := map leaves (kids t).
Definition bparray (a : list pv) : option (list nat * bpmat) :=
  match mvarray a with
  | Some ([s], t) => Some ([s; 3; 1], mv_to_bp_vec (tr_vec t))
  | Some ([s; p], t) => Some ([s; 3; cdiv p 8], mv_to_bp_mat (tr_mat t))
  | _ => None
  end.

(** * popcount: np.sum(_pop_count_lut[a]) *)
Definition popcount (lut : list nat) (a : list nat) : nat := fold_right (fun b acc => nth b lut 0 + acc) 0 a.
Definition count_ones (l : list bool) : nat := List.length (filter (fun b => b) l).
