(** LogicSim (logic_sim.py) on top of SimOps: one lane of s_to_c / c_prop / c_to_s / s_ppo_to_ppi /
    cycle over a flat signal memory addressed through c_locs, for any value domain V. *)
From Coq Require Import List NArith ZArith Bool Arith String.
From KV Require Import Model.Prims Model.Logic Model.OpSem Model.Netlist Model.Heap Model.SimOps Gen.SimTables.
Import ListNotations.
Local Open Scope list_scope.

(** opcode (LUT constant) -> primitive, through the regenerated table *)
Definition prim_of_lut (l : N) : option prim :=
  find (fun p => match assoc (prim_name p) lut_table with Some v => N.eqb v l | None => false end) all_prims.

Section Mem.
  Context {V : Type} (dflt : V) (sem : prim -> V -> V -> V -> V -> V).

  Definition mem := list V.                       (* index = memory location *)
  Fixpoint mset (m : mem) (i : nat) (v : V) : mem :=
    match m, i with [], _ => [] | _ :: r, O => v :: r | x :: r, S i' => x :: mset r i' v end.
  Definition loc_of (so : simops) (idx : nat) : option nat :=
    let z := nth idx (so_locs so) (-1)%Z in if (0 <=? z)%Z then Some (Z.to_nat z) else None.
  Definition rd (so : simops) (m : mem) (idx : nat) : V :=
    match loc_of so idx with Some l => nth l m dflt | None => dflt end.

  Definition ppi_off (so : simops) := so_nlines so + 3.
  Definition ppo_off (so : simops) := so_nlines so + 3 + so_slen so.

  (** s_to_c: every s_node that owns a PPI slot gets its assigned value *)
  Definition s_to_c (so : simops) (s0 : list V) (m : mem) : mem :=
    fold_left (fun m' (iv : nat * V) =>
        match loc_of so (ppi_off so + fst iv) with Some l => mset m' l (snd iv) | None => m' end)
      (combine (seq 0 (so_slen so)) s0) m.

  Definition prop1 (so : simops) (m : mem) (o : sop) : mem :=
    match prim_of_lut (s_lut o), loc_of so (s_out o) with
    | Some p, Some lo => mset m lo (sem p (rd so m (s_i0 o)) (rd so m (s_i1 o)) (rd so m (s_i2 o)) (rd so m (s_i3 o)))
    | _, _ => m
    end.
  Definition c_prop (so : simops) (m : mem) : mem := fold_left (prop1 so) (so_ops so) m.

  (** with the fault-injection callback: applied to the fresh value of every op whose output is a line *)
  Definition prop1_cb (cb : nat -> V -> V) (so : simops) (m : mem) (o : sop) : mem :=
    match prim_of_lut (s_lut o), loc_of so (s_out o) with
    | Some p, Some lo =>
        let v := sem p (rd so m (s_i0 o)) (rd so m (s_i1 o)) (rd so m (s_i2 o)) (rd so m (s_i3 o)) in
        mset m lo (if Nat.ltb (s_out o) (so_nlines so) then cb (s_out o) v else v)
    | _, _ => m
    end.
  Definition c_prop_cb cb (so : simops) (m : mem) : mem := fold_left (prop1_cb cb so) (so_ops so) m.
  Definition cb_lines (so : simops) : list nat :=
    filter (fun k => Nat.ltb k (so_nlines so)) (map s_out (so_ops so)).

  (** c_to_s: every s_node that owns a PPO slot is captured, the others keep their old entry *)
  Definition c_to_s (so : simops) (m : mem) (s1 : list V) : list V :=
    map (fun (iv : nat * V) => match loc_of so (ppo_off so + fst iv) with Some l => nth l m dflt | None => snd iv end)
        (combine (seq 0 (so_slen so)) s1).
End Mem.

(** one propagation from a cleared memory *)
Definition simulate {V} (dflt : V) sem (so : simops) (s0 s1 : list V) : list V :=
  let m0 := repeat dflt (N.to_nat (so_len so)) in
  c_to_s dflt so (c_prop dflt sem so (s_to_c so s0 m0)) s1.

(** s_ppo_to_ppi for 2-/4-valued logic: state elements (positions >= number of ports) take the captured value *)
Definition ppo_to_ppi {V} (n_io : nat) (s0 s1 : list V) : list V :=
  map (fun (ivw : nat * (V * V)) => if Nat.leb n_io (fst ivw) then snd (snd ivw) else fst (snd ivw))
      (combine (seq 0 (List.length s0)) (combine s0 s1)).

Fixpoint cycles {V} (k : nat) (dflt : V) sem (so : simops) (n_io : nat) (m : list V) (s0 s1 : list V) : list V * list V * list V :=
  match k with
  | O => (m, s0, s1)
  | S k' =>
      let m' := c_prop dflt sem so (s_to_c so s0 m) in
      let s1' := c_to_s dflt so m' s1 in
      cycles k' dflt sem so n_io m' (ppo_to_ppi n_io s0 s1') s1'
  end.

Definition sem2 : prim -> bool -> bool -> bool -> bool -> bool := prim_fn.
Definition sem8 : prim -> code -> code -> code -> code -> code := spec_prim.

(** correspondence entry points *)
Definition sim_case2 (c : netlist) (reuse strip : bool) (k : nat) (s0 s1 : list bool) : option (list bool * list bool) :=
  match build c (repeat 1%N (List.length (c_lines c) + 3)) 1%N reuse strip with
  | None => None
  | Some so => let '(_, s0', s1') := cycles k false sem2 so (List.length (c_io c)) (repeat false (N.to_nat (so_len so))) s0 s1 in
               Some (s0', s1')
  end.
Definition sim_case8 (c : netlist) (reuse strip : bool) (s0 s1 : list code) : option (list code) :=
  match build c (repeat 1%N (List.length (c_lines c) + 3)) 1%N reuse strip with
  | None => None
  | Some so => Some (simulate Zero sem8 so s0 s1)
  end.

(** fault injection: line [il] is overwritten with [iv] when it is evaluated; returns the callback's
    call sequence (line indices) and the captured results *)
Definition sim_case8_cb (c : netlist) (reuse strip : bool) (s0 s1 : list code) (il : nat) (iv : code)
  : option (list nat * list code) :=
  match build c (repeat 1%N (List.length (c_lines c) + 3)) 1%N reuse strip with
  | None => None
  | Some so =>
      let m0 := repeat Zero (N.to_nat (so_len so)) in
      let cb k v := if Nat.eqb k il then iv else v in
      Some (cb_lines so, c_to_s Zero so (c_prop_cb Zero sem8 cb so (s_to_c so s0 m0)) s1)
  end.
