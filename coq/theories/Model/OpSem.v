(** Line-level semantics of a scheduled op list, for an arbitrary value domain V
    (one lane of 2-valued, 4-/8-valued logic, or anything else).  An op row is
    (primitive, output index, four operand indices); indices address lines and the special
    slots (zero, tmp, PI/PPI) exactly as in SimOps.ops / c_locs. *)
From Coq Require Import List NArith Bool Arith.
From KV Require Import Model.Prims Model.Logic.
Import ListNotations.

Record op := { o_prim : prim; o_out : nat; o_i0 : nat; o_i1 : nat; o_i2 : nat; o_i3 : nat }.

Definition env (V : Type) := nat -> V.
Definition upd {V} (e : env V) (k : nat) (v : V) : env V := fun j => if Nat.eqb j k then v else e j.

Section Exec.
  Context {V : Type} (sem : prim -> V -> V -> V -> V -> V).
  Definition exec1 (e : env V) (o : op) : env V :=
    upd e (o_out o) (sem (o_prim o) (e (o_i0 o)) (e (o_i1 o)) (e (o_i2 o)) (e (o_i3 o))).
  Definition exec_ops (ops : list op) (e : env V) : env V := fold_left exec1 ops e.

  (** with a fault-injection callback: [cb k v] may replace the fresh value of output k *)
  Definition exec1_cb (cb : nat -> V -> V) (e : env V) (o : op) : env V :=
    upd e (o_out o) (cb (o_out o) (sem (o_prim o) (e (o_i0 o)) (e (o_i1 o)) (e (o_i2 o)) (e (o_i3 o)))).
  Definition exec_ops_cb cb (ops : list op) (e : env V) : env V := fold_left (exec1_cb cb) ops e.
End Exec.

(** the documented composition of multi-valued operators per primitive (C02) *)
Definition spec_prim (p : prim) (a b c d : code) : code :=
  match p with
  | BUF1 => a                                   (* plain copy *)
  | INV1 => spec_not a
  | AND2 => spec_and [a; b] | AND3 => spec_and [a; b; c] | AND4 => spec_and [a; b; c; d]
  | NAND2 => spec_not (spec_and [a; b]) | NAND3 => spec_not (spec_and [a; b; c])
  | NAND4 => spec_not (spec_and [a; b; c; d])
  | OR2 => spec_or [a; b] | OR3 => spec_or [a; b; c] | OR4 => spec_or [a; b; c; d]
  | NOR2 => spec_not (spec_or [a; b]) | NOR3 => spec_not (spec_or [a; b; c])
  | NOR4 => spec_not (spec_or [a; b; c; d])
  | XOR2 => spec_xor [a; b] | XOR3 => spec_xor [a; b; c] | XOR4 => spec_xor [a; b; c; d]
  | XNOR2 => spec_not (spec_xor [a; b]) | XNOR3 => spec_not (spec_xor [a; b; c])
  | XNOR4 => spec_not (spec_xor [a; b; c; d])
  | AO21 => spec_or [spec_and [a; b]; c]
  | AO22 => spec_or [spec_and [a; b]; spec_and [c; d]]
  | OA21 => spec_and [spec_or [a; b]; c]
  | OA22 => spec_and [spec_or [a; b]; spec_or [c; d]]
  | AOI21 => spec_not (spec_or [spec_and [a; b]; c])
  | AOI22 => spec_not (spec_or [spec_and [a; b]; spec_and [c; d]])
  | OAI21 => spec_not (spec_and [spec_or [a; b]; c])
  | OAI22 => spec_not (spec_and [spec_or [a; b]; spec_or [c; d]])
  | AO211 => spec_or [spec_and [a; b]; c; d]
  | OA211 => spec_and [spec_or [a; b]; c; d]
  | AOI211 => spec_not (spec_or [spec_and [a; b]; c; d])
  | OAI211 => spec_not (spec_and [spec_or [a; b]; c; d])
  | MUX21 => spec_or [spec_and [a; spec_not c]; spec_and [b; c]]
  end.

Definition known (c : code) : bool := negb (unknownish c).
(** a 0/1 completion of a multi-valued operand: plain 0 / 1 are fixed, everything else is free *)
Definition completes (c : code) (b : bool) : bool :=
  match c with Zero => negb b | One => b | _ => true end.
