(** Line-level (value-level) semantics of the timing simulator over an op list: every signal index carries its
    waveform up to and including the terminator; an op merges its four operand waveforms with the delays of the
    operand LINES into a fresh output region of the op's capacity.  Definitions only. *)
From Coq Require Import List ZArith NArith Bool Arith.
From KV Require Import Model.Prims Model.Logic Model.OpSem Model.SimOps Model.Time Model.WaveEval Model.WaveSpec Gen.SimTables.
Import ListNotations.
Local Open Scope list_scope.

Definition wenv := nat -> list time.
Definition wupd (e : wenv) (k : nat) (w : list time) : wenv := fun j => if Nat.eqb j k then w else e j.

Section WaveOps.
  (** delays of a signal index (zero for interface / special slots) and capacity of an output *)
  Variable delays : nat -> dtab.
  Variable cap : nat -> nat.

  Definition wop (e : wenv) (o : sop) : list time :=
    let idxs := [s_i0 o; s_i1 o; s_i2 o; s_i3 o] in
    match wave_eval (s_lut o) (map e idxs) (map delays idxs) (repeat MaxInf (cap (s_out o))) with
    | Some r => upto_end (r_z r)
    | None => [MaxInf]
    end.
  Definition wstep (e : wenv) (o : sop) : wenv := wupd e (s_out o) (wop e o).
  Definition wexec (ops : list sop) (e : wenv) : wenv := fold_left wstep ops e.
End WaveOps.

(** Boolean line-level execution with the LUT semantics (one value per signal) *)
Definition lut_sem (l : N) (a b c d : bool) : bool := lut_bit l a b c d.
Definition bstep (e : nat -> bool) (o : sop) : nat -> bool :=
  fun j => if Nat.eqb j (s_out o) then lut_sem (s_lut o) (e (s_i0 o)) (e (s_i1 o)) (e (s_i2 o)) (e (s_i3 o)) else e j.
Definition bexec (ops : list sop) (e : nat -> bool) : nat -> bool := fold_left bstep ops e.

(** 8-valued line-level execution through the opcode table *)
Definition prim_of (l : N) : option prim :=
  find (fun p => match assoc (prim_name p) lut_table with Some v => N.eqb v l | None => false end) all_prims.
Definition cstep (e : nat -> code) (o : sop) : nat -> code :=
  fun j => if Nat.eqb j (s_out o)
           then match prim_of (s_lut o) with
                | Some p => spec_prim p (e (s_i0 o)) (e (s_i1 o)) (e (s_i2 o)) (e (s_i3 o))
                | None => e j
                end
           else e j.
Definition cexec (ops : list sop) (e : nat -> code) : nat -> code := fold_left cstep ops e.

(** static timing analysis over the op list: earliest / latest possible arrival per signal (None = never switches) *)
Definition win := option (Z * Z).
Definition dmin (d : dtab) : Z := Z.min (Z.min (d00 d) (d01 d)) (Z.min (d10 d) (d11 d)).
Definition dmax (d : dtab) : Z := Z.max (Z.max (d00 d) (d01 d)) (Z.max (d10 d) (d11 d)).
Definition wjoin (a b : win) : win :=
  match a, b with
  | None, x | x, None => x
  | Some (l1, h1), Some (l2, h2) => Some (Z.min l1 l2, Z.max h1 h2)
  end.
Definition wshift (delays : nat -> dtab) (e : nat -> win) (k : nat) : win :=
  match e k with None => None | Some (l, h) => Some ((l + dmin (delays k))%Z, (h + dmax (delays k))%Z) end.
Definition sta_step (delays : nat -> dtab) (e : nat -> win) (o : sop) : nat -> win :=
  fun j => if Nat.eqb j (s_out o)
           then fold_left wjoin (map (wshift delays e) [s_i0 o; s_i1 o; s_i2 o; s_i3 o]) None
           else e j.
Definition sta (delays : nat -> dtab) (ops : list sop) (e : nat -> win) : nat -> win := fold_left (sta_step delays) ops e.
Definition in_win (w : win) (t : Z) : Prop := match w with Some (l, h) => (l <= t <= h)%Z | None => False end.
(** the window of a waveform's own finite entries *)
Definition covers (w : win) (wf : list time) : Prop := forall t, In (Fin t) (body wf) -> in_win w t.
