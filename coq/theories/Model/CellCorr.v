(** Correspondence cases for Model/CellCircuit.v (harness/cell_corr.py): the implementation circuit of every library cell
    definition against TechLib.cells, the one-instance host and its resolved form against the real resolve_tlib_cells, the
    names of the s_nodes and the 2-valued evaluator against LogicSim captures.  Monomorphic constructors (the generated case
    files are large).  Definitions only. *)
From Coq Require Import List Arith Bool String.
From KV Require Model.Netlist Model.SimOps.
From KV Require Import Model.TechCell Model.Circuit Model.CircuitInv Model.CircuitView Model.CellCircuit Gen.TechLibs.
Import ListNotations.
Local Open Scope list_scope.

Inductive nk := NK (name kind : string).
Inductive ln := LN (d dp r rp : nat).
(* canonical structure: names/kinds by index, lines (driver index, pin, reader index, pin) by index, io indices; PNone = raised *)
Inductive pst := PNone | PS (ns : list nk) (ls : list ln) (ios : list nat).

Definition pst_ok (c : option circ) (e : pst) : bool :=
  match c, e with
  | None, PNone => true
  | Some c, PS ns ls ios =>
      canon_eqb (canon c) (Some (map (fun x => let '(NK a b) := x in (a, b)) ns,
                                 map (fun x => let '(LN a b c' d) := x in (a, b, c', d)) ls, ios))
  | _, _ => false
  end.

Definition dummy_cell : tcell :=
  {| t_pattern := ""; t_names := []; t_ins := []; t_outs := []; t_gates := []; t_stmts := [] |}.
Definition get_cell (lib j : nat) : tcell := nth j (snd (nth lib all_libs (EmptyString, []))) dummy_cell.

(* one definition: canonical form of TechLib.cells[name][0] and the pin dict (input / output pin names by index) *)
Inductive icase := IC (lib j : nat) (impl : pst) (ins outs : list string).
Definition icase_ok (x : icase) : bool :=
  let '(IC lib j e ins outs) := x in
  let cell := get_cell lib j in
  let impl := impl_of_tcell cell in
  pst_ok impl e &&
  match impl with
  | Some c => list_eqb String.eqb (fst (pin_names c)) ins && list_eqb String.eqb (snd (pin_names c)) outs &&
              list_eqb String.eqb (t_ins cell) ins && list_eqb String.eqb (t_outs cell) outs
  | None => true
  end.

(* one stimulus row over the s_nodes of the resolved host: captured values per s_node position (0 / 1; 2 = no capture slot) *)
Inductive trow := TR (stim : list bool) (exp : list nat).
Definition cap (v : Netlist.netlist) (env : nat -> bool) (i : nat) : nat :=
  match SimOps.pin (Netlist.n_ins (Netlist.get_node v i)) 0 with Some l => if env l then 1 else 0 | None => 2 end.
Definition tt_ok (v : Netlist.netlist) (trs : list trow) : bool :=
  let env := sim_env v in
  let sn := Netlist.s_nodes v in
  forallb (fun x => let '(TR stim exp) := x in let e := env stim in list_eqb Nat.eqb (map (cap v e) sn) exp) trs.

(* one instance: host as built by instance_circuit, result of copy + resolve_tlib_cells(tlib), its s_nodes names, captures *)
Inductive ccase := CC (lib j : nat) (name : string) (ci co : list bool) (host res : pst) (snames : list string) (trs : list trow).
Definition ccase_ok (x : ccase) : bool :=
  let '(CC lib j name ci co eh er snames trs) := x in
  let cell := get_cell lib j in
  existsb (String.eqb name) (t_names cell) &&
  match impl_of_tcell cell with
  | None => false
  | Some impl =>
      match host_of_pins name (t_ins cell) (t_outs cell) ci co with
      | None => false
      | Some (host, u) =>
          pst_ok (Some host) eh &&
          let r := resolved name host impl in
          pst_ok r er &&
          match r with
          | None => true
          | Some r => list_eqb String.eqb (s_names r) snames && tt_ok (view r) trs
          end
      end
  end.

Fixpoint failing {A} (f : A -> bool) (l : list A) (i : nat) : list nat :=
  match l with [] => [] | x :: r => if f x then failing f r (S i) else i :: failing f r (S i) end.
