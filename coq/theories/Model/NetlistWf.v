(** Well-formedness of the static netlist view (what C09's invariant guarantees for every Circuit),
    combinational acyclicity, and the reversed graph.  Definitions only. *)
From Coq Require Import List Arith Bool String.
From KV Require Import Model.Prims Model.Netlist.
Import ListNotations.
Local Open Scope list_scope.

Definition wf_netlist (c : netlist) : Prop :=
  (forall l, l < List.length (c_lines c) ->
     let ln := get_line c l in
     l_drv ln < List.length (c_nodes c) /\ l_rdr ln < List.length (c_nodes c) /\
     nth_error (n_outs (get_node c (l_drv ln))) (l_dpin ln) = Some (Some l) /\
     nth_error (n_ins (get_node c (l_rdr ln))) (l_rpin ln) = Some (Some l)) /\
  (forall n k l, n < List.length (c_nodes c) -> nth_error (n_outs (get_node c n)) k = Some (Some l) ->
     l < List.length (c_lines c) /\ l_drv (get_line c l) = n /\ l_dpin (get_line c l) = k) /\
  (forall n k l, n < List.length (c_nodes c) -> nth_error (n_ins (get_node c n)) k = Some (Some l) ->
     l < List.length (c_lines c) /\ l_rdr (get_line c l) = n /\ l_rpin (get_line c l) = k).

(** the combinational part (cut at state elements) is acyclic: a rank exists that grows along every
    line into a non-sequential reader *)
Definition comb_acyclic (c : netlist) : Prop :=
  exists rank : nat -> nat, forall l, l < List.length (c_lines c) ->
    is_seq (get_node c (l_rdr (get_line c l))) = false ->
    rank (l_drv (get_line c l)) < rank (l_rdr (get_line c l)).
(** mirror: acyclic when cut at sequential DRIVERS (used for the reversed traversal) *)
Definition comb_acyclic_rev (c : netlist) : Prop :=
  exists rank : nat -> nat, forall l, l < List.length (c_lines c) ->
    is_seq (get_node c (l_drv (get_line c l))) = false ->
    rank (l_rdr (get_line c l)) < rank (l_drv (get_line c l)).

(** the reversed graph: every line turned around *)
Definition rev_node (n : node) : node := {| n_kind := n_kind n; n_ins := n_outs n; n_outs := n_ins n |}.
Definition rev_line (l : line) : line := {| l_drv := l_rdr l; l_dpin := l_rpin l; l_rdr := l_drv l; l_rpin := l_dpin l |}.
Definition rev_netlist (c : netlist) : netlist :=
  {| c_nodes := map rev_node (c_nodes c); c_lines := map rev_line (c_lines c); c_io := c_io c |}.

Definition drivers (c : netlist) (n : nat) : list nat := map (fun l => l_drv (get_line c l)) (somes (n_ins (get_node c n))).
Definition readers (c : netlist) (n : nat) : list nat := map (fun l => l_rdr (get_line c l)) (somes (n_outs (get_node c n))).
Definition is_source (c : netlist) (n : nat) : bool :=
  Nat.eqb (connected (n_ins (get_node c n))) 0 || is_seq (get_node c n).
Fixpoint index_of (x : nat) (l : list nat) : option nat :=
  match l with [] => None | y :: r => if Nat.eqb x y then Some 0 else option_map S (index_of x r) end.
