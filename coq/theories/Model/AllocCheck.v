(** Checkable certificates for a schedule (op list + level partition) and a memory map, and the
    semantics they are about.  Definitions only; soundness is proved in Proofs/AllocProofs.v.
    An op row is (lut, out, i0..i3) over signal indices; [alias] resolves stripped fan-out branches and
    PPO slots to the signal they stand for; [loc] is the memory location of an index (c_locs, capacity 1). *)
From Coq Require Import List NArith Bool Arith.
From KV Require Import Model.SimOps.
Import ListNotations.
Local Open Scope list_scope.

Definition reads (alias : nat -> nat) (o : sop) : list nat := map alias [s_i0 o; s_i1 o; s_i2 o; s_i3 o].

Section Sem.
  Context {V : Type} (sem : N -> V -> V -> V -> V -> V).

  (** line-level: an environment over signal indices *)
  Definition ienv := nat -> V.
  Definition iupd (e : ienv) (k : nat) (v : V) : ienv := fun j => if Nat.eqb j k then v else e j.
  Definition istep (alias : nat -> nat) (e : ienv) (o : sop) : ienv :=
    iupd e (s_out o) (sem (s_lut o) (e (alias (s_i0 o))) (e (alias (s_i1 o))) (e (alias (s_i2 o))) (e (alias (s_i3 o)))).
  Definition iexec alias (ops : list sop) (e : ienv) : ienv := fold_left (istep alias) ops e.

  (** memory-level: a flat memory addressed through loc (None = not allocated: the access is dropped / reads default) *)
  Definition fmem := nat -> V.
  Definition fupd (m : fmem) (l : nat) (v : V) : fmem := fun j => if Nat.eqb j l then v else m j.
  Definition mread (dflt : V) (loc : nat -> option nat) (m : fmem) (idx : nat) : V :=
    match loc idx with Some l => m l | None => dflt end.
  Definition mstep (dflt : V) (loc : nat -> option nat) (m : fmem) (o : sop) : fmem :=
    match loc (s_out o) with
    | Some lo => fupd m lo (sem (s_lut o) (mread dflt loc m (s_i0 o)) (mread dflt loc m (s_i1 o))
                                          (mread dflt loc m (s_i2 o)) (mread dflt loc m (s_i3 o)))
    | None => m
    end.
  Definition mexec dflt loc (ops : list sop) (m : fmem) : fmem := fold_left (mstep dflt loc) ops m.
End Sem.

(** ---- memory-map certificate: ownership simulation ------------------------------------------------
    [owner] maps a location to the signal index whose current value it holds. *)
Definition owner_map := list (nat * nat).     (* association list location -> index *)
Fixpoint oget (w : owner_map) (l : nat) : option nat :=
  match w with [] => None | (l', x) :: r => if Nat.eqb l l' then Some x else oget r l end.
Definition oset (w : owner_map) (l x : nat) : owner_map := (l, x) :: w.

(** index x can be read correctly now: its (aliased) location is allocated and still holds x *)
Definition readable (loc : nat -> option nat) (alias : nat -> nat) (w : owner_map) (x : nat) : bool :=
  match loc x with
  | Some l => match oget w l with Some y => Nat.eqb y (alias x) | None => false end
  | None => false
  end.

(** the aliasing is consistent with the map: an index and the signal it stands for share the location *)
Definition alias_ok (loc : nat -> option nat) (alias : nat -> nat) (x : nat) : bool :=
  match loc x, loc (alias x) with Some a, Some b => Nat.eqb a b | _, _ => false end.

Fixpoint own_run (loc : nat -> option nat) (alias : nat -> nat) (w : owner_map) (ops : list sop) : option owner_map :=
  match ops with
  | [] => Some w
  | o :: r =>
      if forallb (fun x => readable loc alias w x && alias_ok loc alias x) [s_i0 o; s_i1 o; s_i2 o; s_i3 o]
         && Nat.eqb (alias (s_out o)) (s_out o)
      then match loc (s_out o) with
           | Some lo => own_run loc alias (oset w lo (s_out o)) r
           | None => None
           end
      else None
  end.

(** [init]: indices that hold defined values before propagation (PI/PPI slots, the zero slot), each in its own
    location; [final]: indices observed afterwards (PPO slots, ports) *)
Definition own_init (loc : nat -> option nat) (init : list nat) : option owner_map :=
  fold_left (fun acc x => match acc, loc x with
                          | Some w, Some l => match oget w l with None => Some (oset w l x) | Some _ => None end
                          | _, _ => None end) init (Some []).
Definition map_check (loc : nat -> option nat) (alias : nat -> nat) (init final : list nat) (ops : list sop) : bool :=
  forallb (fun x => Nat.eqb (alias x) x) init &&
  match own_init loc init with
  | None => false
  | Some w0 =>
      match own_run loc alias w0 ops with
      | None => false
      | Some w => forallb (fun x => readable loc alias w x && alias_ok loc alias x) final
      end
  end.

(** ---- schedule certificate --------------------------------------------------------------------------
    levels as a list of op lists.  Inside a level no op reads or overwrites another op's output. *)
(** [scratch]: the single slot that gates without output line write to; its content is schedule dependent and never read *)
Definition indep (alias : nat -> nat) (scratch : nat) (a b : sop) : bool :=
  negb (existsb (Nat.eqb (s_out a)) (reads alias b)) && negb (existsb (Nat.eqb (s_out b)) (reads alias a)) &&
  (negb (Nat.eqb (s_out a) (s_out b)) || (Nat.eqb (s_out a) scratch && Nat.eqb (s_out b) scratch)).
Fixpoint level_ok (alias : nat -> nat) (scratch : nat) (lv : list sop) : bool :=
  match lv with [] => true | o :: r => forallb (indep alias scratch o) r && level_ok alias scratch r end.
(** no op anywhere reads the scratch slot *)
Definition sched_check (alias : nat -> nat) (scratch : nat) (levels : list (list sop)) : bool :=
  forallb (level_ok alias scratch) levels &&
  forallb (fun o => negb (existsb (Nat.eqb scratch) (reads alias o))) (concat levels).
