(** Vocabulary of the translated source of Circuit.eliminate_1to1_forks (Gen/CircuitElimSrc.v, written by
    translate/gen_circuit_elim.py), on top of Model/CircuitPrimsSrcLib.v.  Definitions only.

    What is TRUSTED here (the reading of Python's object model the translator emits):

      set(io_nodes)        a set of Node objects (and possibly None) is represented by the list of references it was built from; the
                           set is never modified afterwards (the translator only accepts it as the right operand of `in`)
      n in ios             Node.__hash__ = hash((name, kind)) and Node.__eq__ = same name and same kind are PINNED by the translator,
                           so `n in ios` holds iff some member is a node of the same name and kind ([py_node_eq] on the current
                           state: the translator checks that no method that runs inside the loop writes .name / .kind, so the hashes
                           stored in the set are the hashes of the current attribute values); a None member equals no node
                           (assumption: hash(None) differs from the hash of every (str, str) tuple that occurs)
      list(d.values())     the values of a dict in insertion order, as a list that later changes of the dict do not affect *)
From Coq Require Import List Arith Bool String.
From KV Require Import Model.Circuit.
Import ListNotations.
Local Open Scope list_scope.

Definition py_node_eq (c : circ) (a b : nat) : bool :=
  String.eqb (n_name (nst c a)) (n_name (nst c b)) && String.eqb (n_kind (nst c a)) (n_kind (nst c b)).
Definition py_set_of (l : list (option nat)) : list (option nat) := l.
Definition py_in_set (c : circ) (n : nat) (s : list (option nat)) : bool :=
  existsb (fun e => match e with Some m => py_node_eq c n m | None => false end) s.
Definition py_dict_values (d : list (string * nat)) : list nat := map snd d.
