(** Vocabulary of the translated source of the data-extraction properties of kyupy/def_file.py
    (Gen/DefRouteSrc.v, written by translate/gen_def_route.py): DefWire.wire_points, DefWire.vias, DefNet.wires, DefNet.vias.

    The code is dynamically typed (an element of DefWire.points is a 2- or 3-tuple of int / None, or a pair
    (via name, None | orientation string | 4-tuple of int)), so the translated code computes on Python VALUES:

      [pyv]       None | int (unbounded: Z) | str | tuple | list          (no bool / float / dict values occur)
      [dwire_s]   vars(DefWire): layer, width, points (each a value)
      [dnet_s]    the attribute of DefNet the properties read: routed (a Python list of DefWire objects)
      [pydd]      collections.defaultdict(list): insertion ordered association list key -> list of values

    Every operation that can raise (TypeError, IndexError, ValueError) or that leaves the modelled universe (string
    indexing, sequence repetition, comparison of non-integers ...) is a function into [option]; the translator binds
    each of them in evaluation order and keeps Python's laziness (conditional expressions, loops that do not run), so
    [None] means "the statement raised / left the universe here".  Truthiness ([py_truthy]) is Python's own rule for
    each value of the universe: it is NOT identified with "is not None" (0, '' and () are false).  Definitions only. *)
From Coq Require Import List ZArith Bool String Ascii Arith.
From KV Require Import Model.DefRoute Model.DefElab.
Import ListNotations.
Local Open Scope list_scope.
Local Open Scope Z_scope.

Inductive pyv : Type :=
| PNone
| PInt (z : Z)
| PStr (s : string)
| PTup (l : list pyv)
| PList (l : list pyv).

Record dwire_s := mkDWs { s_layer : pyv; s_width : pyv; s_points : pyv }.
Record dnet_s := mkDNs { s_routed : list dwire_s }.

(** * tests *)
Definition py_is_none (v : pyv) : bool := match v with PNone => true | _ => false end.          (* v is None *)
Definition py_is_str (v : pyv) : bool := match v with PStr _ => true | _ => false end.          (* isinstance(v, str) *)
Definition py_is_tuple (v : pyv) : bool := match v with PTup _ => true | _ => false end.        (* isinstance(v, tuple) *)
(* bool(v) *)
Definition py_truthy (v : pyv) : bool :=
  match v with
  | PNone => false
  | PInt z => negb (z =? 0)
  | PStr s => negb (String.eqb s "")
  | PTup l | PList l => match l with [] => false | _ => true end
  end.
(* a or c  for a constant c *)
Definition py_or (a c : pyv) : pyv := if py_truthy a then a else c.

(** * sequences *)
Definition py_seq (v : pyv) : option (list pyv) :=                      (* iter(v) of a tuple / list *)
  match v with PTup l | PList l => Some l | _ => None end.
(* v[i] for an integer constant i (negative: from the end); IndexError / TypeError = None *)
Definition py_index (v : pyv) (i : Z) : option pyv :=
  match py_seq v with
  | Some l => let n := Z.of_nat (List.length l) in
              if 0 <=? i then nth_error l (Z.to_nat i)
              else if 0 <=? n + i then nth_error l (Z.to_nat (n + i)) else None
  | None => None
  end.
(* v[i:] for a constant i >= 0: keeps the kind of the sequence *)
Definition py_slice_from (v : pyv) (i : nat) : option pyv :=
  match v with PTup l => Some (PTup (skipn i l)) | PList l => Some (PList (skipn i l)) | _ => None end.
(* tuple(v) *)
Definition py_tuple (v : pyv) : option pyv := option_map PTup (py_seq v).
(* len(v) *)
Definition py_len (v : pyv) : option pyv :=
  match v with
  | PTup l | PList l => Some (PInt (Z.of_nat (List.length l)))
  | PStr s => Some (PInt (Z.of_nat (String.length s)))
  | _ => None
  end.
(* l.append(v) on a list object that has no other name (the translator checks that) *)
Definition py_append (l v : pyv) : option pyv := match l with PList x => Some (PList (x ++ [v])) | _ => None end.
(* range(v) *)
Definition py_range (v : pyv) : option (list pyv) :=
  match v with PInt z => Some (map (fun i => PInt (Z.of_nat i)) (seq 0 (Z.to_nat z))) | _ => None end.
(* a, b = v   and   a, b, c, d = v  (ValueError on any other length) *)
Definition py_unpack2 (v : pyv) : option (pyv * pyv) :=
  match py_seq v with Some [a; b] => Some (a, b) | _ => None end.
Definition py_unpack4 (v : pyv) : option (pyv * pyv * pyv * pyv) :=
  match py_seq v with Some [a; b; c; d] => Some (a, b, c, d) | _ => None end.

(** * arithmetic *)
Definition py_add (a b : pyv) : option pyv :=
  match a, b with
  | PInt x, PInt y => Some (PInt (x + y))
  | PTup x, PTup y => Some (PTup (x ++ y))
  | PList x, PList y => Some (PList (x ++ y))
  | PStr x, PStr y => Some (PStr (String.append x y))
  | _, _ => None
  end.
Definition py_mul (a b : pyv) : option pyv :=
  match a, b with PInt x, PInt y => Some (PInt (x * y)) | _, _ => None end.
(* int(v): on a string Python's int() as Model/DefElab.v transcribes it for token texts *)
Definition py_int_v (v : pyv) : option pyv :=
  match v with PInt z => Some (PInt z) | PStr s => option_map PInt (py_int s) | _ => None end.
(* a > b on integers *)
Definition py_gt (a b : pyv) : option bool :=
  match a, b with PInt x, PInt y => Some (y <? x) | _, _ => None end.

(** * defaultdict(list) *)
Fixpoint pyv_eqb (a b : pyv) {struct a} : bool :=
  match a, b with
  | PNone, PNone => true
  | PInt x, PInt y => x =? y
  | PStr x, PStr y => String.eqb x y
  | PTup x, PTup y =>
      (fix go (x y : list pyv) {struct x} : bool :=
         match x, y with [], [] => true | u :: x', w :: y' => pyv_eqb u w && go x' y' | _, _ => false end) x y
  | PList x, PList y =>
      (fix go (x y : list pyv) {struct x} : bool :=
         match x, y with [], [] => true | u :: x', w :: y' => pyv_eqb u w && go x' y' | _, _ => false end) x y
  | _, _ => false
  end.
Fixpoint py_hashable (v : pyv) : bool :=
  match v with
  | PList _ => false
  | PTup l => (fix go (l : list pyv) : bool := match l with [] => true | u :: r => py_hashable u && go r end) l
  | _ => true
  end.
Definition pydd := list (pyv * list pyv).
Fixpoint pdd_upd (k : pyv) (vs : list pyv) (d : pydd) : pydd :=        (* d[k] += vs ; a missing key is created, even for [] *)
  match d with
  | [] => [(k, vs)]
  | (k', l) :: r => if pyv_eqb k k' then (k', l ++ vs) :: r else (k', l) :: pdd_upd k vs r
  end.
Definition py_dd_append (k v : pyv) (d : pydd) : option pydd :=        (* d[k].append(v) *)
  if py_hashable k then Some (pdd_upd k [v] d) else None.
Definition py_dd_extend (k vs : pyv) (d : pydd) : option pydd :=       (* d[k].extend(vs) *)
  if py_hashable k then match py_seq vs with Some l => Some (pdd_upd k l d) | None => None end else None.
Definition py_dd_items (d : pydd) : list (pyv * pyv) := map (fun kv => (fst kv, PList (snd kv))) d.   (* d.items() *)

(** * How the values of Model/DefRoute.v look as Python values *)
Definition enc_oz (o : option Z) : pyv := match o with Some z => PInt z | None => PNone end.
Definition enc_ext (o : option Z) : list pyv := match o with Some z => [PInt z] | None => [] end.
Definition enc_pt (p : pt) : pyv := PTup (PInt (px p) :: PInt (py p) :: enc_ext (pext p)).
Definition enc_vparam (p : vparam) : pyv :=
  match p with
  | VNone => PNone
  | VOrient o => PStr o
  | VArray n m dx dy => PTup [PInt (Z.of_nat n); PInt (Z.of_nat m); PInt dx; PInt dy]
  end.
Definition enc_elem (e : elem) : pyv :=
  match e with
  | EPt x y ext => PTup (enc_oz x :: enc_oz y :: enc_ext ext)
  | EVia nm p => PTup [PStr nm; enc_vparam p]
  end.
Definition enc_points (w : wire) : pyv := PList (enc_pt (w_first w) :: map enc_elem (w_rest w)).
Definition enc_vplace (v : vplace) : pyv := PTup [PInt (fst (fst v)); PInt (snd (fst v)); PStr (snd v)].
Definition enc_wseg (s : wseg) : pyv := PTup [enc_oz (fst s); PList (map enc_pt (snd s))].
Definition enc_dd {A} (f : A -> pyv) (d : dd A) : pydd := map (fun kv => (PStr (fst kv), map f (snd kv))) d.
(* a DefWire object that holds the routing statement w: the width is an int, or a string int() reads as it
   (spwire stores the token text), or None for a regular wire *)
Definition width_enc (o : option Z) (v : pyv) : Prop :=
  match o with None => v = PNone | Some z => py_int_v v = Some (PInt z) end.
Definition wire_enc (w : wire) (d : dwire_s) : Prop :=
  s_layer d = PStr (w_layer w) /\ width_enc (w_width w) (s_width d) /\ s_points d = enc_points w.
Definition enc_wire (w : wire) : dwire_s := mkDWs (PStr (w_layer w)) (enc_oz (w_width w)) (enc_points w).

(* the DefWire / DefNet objects the callbacks of Model/DefElab.v build *)
Definition enc_dpoint (p : dpoint) : pyv :=
  match p with
  | DPt r => PTup (enc_oz (rp_x r) :: enc_oz (rp_y r) :: enc_ext (rp_z r))
  | DVia nm v => PTup [PStr nm; enc_vparam v]
  end.
Definition enc_dwire (w : dwire) : dwire_s :=
  mkDWs (PStr (dw_layer w)) (match dw_width w with Some s => PStr s | None => PNone end) (PList (map enc_dpoint (dw_points w))).
Definition enc_dnet (n : dnet) : dnet_s := mkDNs (map enc_dwire (dnet_routed n)).

(** * Comparison for the correspondence cases: the translated source on the objects as the implementation holds them *)
Definition opt_pyv_eqb (a : option pyv) (b : pyv) : bool := match a with Some x => pyv_eqb x b | None => false end.
Definition pydd_eqb (a : option pydd) (b : pyv) : bool :=               (* b = list(d.items()) *)
  match a with Some d => pyv_eqb (PList (map (fun kv => PTup [fst kv; snd kv]) (py_dd_items d))) b | None => false end.
Section SrcCase.
  Variable wire_points_s : dwire_s -> option pyv.
  Variable wire_vias_s : dwire_s -> option pydd.
  Variable net_wires_s net_vias_s : dnet_s -> option pydd.
  Definition defwire_src_case (w : dwire_s) (exp_pts exp_vias : pyv) : bool :=
    opt_pyv_eqb (wire_points_s w) exp_pts && pydd_eqb (wire_vias_s w) exp_vias.
  Definition defnet_src_case (n : dnet_s) (exp_wires exp_vias : pyv) : bool :=
    pydd_eqb (net_wires_s n) exp_wires && pydd_eqb (net_vias_s n) exp_vias.
End SrcCase.
