(** Vocabulary of Gen/LogicSimDriversSrc.v (written by translate/gen_logicsim_drivers.py from the DRIVER code of logic_sim.py:
    the four copies of the evaluation loop -- _prop_cpu, and the m = 2 (callback) / m = 4 / m = 8 loops of LogicSim.c_prop -- translated
    from their syntax trees, and -- pinned as exact syntax trees -- LogicSim.s_to_c / c_to_s / s_ppo_to_ppi / cycle).
    Definitions only; TRUSTED: this file fixes what the emitted data mean.

    Everything is stated for ONE LANE (one bit position of the packed uint8 arrays): c[loc] is a list of mdim planes (booleans),
    s[k, pos] a list of 3 planes.  numpy's `& | ^ ~` on uint8 arrays and the bp*v_* operators act on every bit position
    independently (lane lifting: C01_lanes / Proofs/BitsLift.v for the traced programs).

    Python / numpy facts assumed here: an integer index i on an axis of length n addresses element i (0 <= i < n) or n + i
    (-n <= i < 0) and raises IndexError otherwise -- an out-of-range read yields the stated default and an out-of-range write is
    dropped, i.e. such executions are OUTSIDE the abstraction; `c[o0] = <expression>` evaluates the right-hand side completely
    before it stores; `logic.bpXv_f(c[d], c[a1], .., c[ak])` writes into the view c[d] what the traced program of f (Gen/LogicOps.v)
    computes from the operand views -- this is what numpy does when the location of d differs from the locations of the operands, or
    when f is unary and d IS the operand (traced in place); any other overlap is outside the abstraction (the theorems carry the
    separation as a hypothesis); a fancy-index store `a[idx] = v` writes the listed positions in order (a later duplicate wins) after
    v has been evaluated completely; `inject_cb(line, c[o0])` receives a VIEW of c[o0]: what the callback leaves in it is what the
    simulation resumes with. *)
From Coq Require Import List ZArith NArith Bool Arith String.
From KV Require Import Model.Bits Model.Prims Gen.LogicOps Gen.SimTables Model.WaveDrvPrelude.
Import ListNotations.
Local Open Scope list_scope.
Local Open Scope Z_scope.

(** * Syntax emitted by the translator *)

(** the seven names a branch may mention: self.c[o0], self.c[i0] .. self.c[i3], self.c[t0], self.c[t1] *)
Inductive slot := So0 | Si0 | Si1 | Si2 | Si3 | St0 | St1.
Definition slot_eqb (a b : slot) : bool :=
  match a, b with
  | So0, So0 | Si0, Si0 | Si1, Si1 | Si2, Si2 | Si3, Si3 | St0, St0 | St1, St1 => true
  | _, _ => false
  end.
Definition all_slots := [So0; Si0; Si1; Si2; Si3; St0; St1].

(** right-hand sides of the 2-valued copies:  c[x]  ~e  a & b  a | b  a ^ b *)
Inductive bexp := EC (s : slot) | ENot (e : bexp) | EAnd (a b : bexp) | EOr (a b : bexp) | EXor (a b : bexp).

(** one statement of a branch:  c[d] = e   |   logic.f(c[d], c[a1], .., c[ak]) *)
Inductive bstmt := SAssign (d : slot) (e : bexp) | SCall (f : string) (d : slot) (args : list slot).

(** the if / elif chain as a decision list, in source order: (NAME of the guard `op == sim.NAME`, statements of the branch); the final
    `else: print(...)` changes nothing *)
Definition chain := list (string * list bstmt).

(** targets of the loop header `for op, o0, i0, i1, i2, i3 in ops[:, :6]` in order *)
Inductive hname := Hop | Hs (s : slot).
(** a name used after the re-mapping statement: it holds the op row's field (Pre: bound by the header, or `o_line = o0` before the
    re-mapping) or the memory location c_locs[field] (Post) *)
Inductive ixref := Pre (s : slot) | Post (s : slot).
(** `if [inject_cb is not None and] G < len(self.circuit.lines): inject_cb(self.circuit.lines[K], self.c[W])` *)
Record cbspec := { cb_test_none : bool; cb_guard : ixref; cb_line : ixref; cb_view : ixref }.

Record loop_src := {
  l_hdr : list hname;
  l_remap : list (slot * slot);     (* (target, source) pairs of  `o0, i0, .. = [c_locs[x] for x in (o0, i0, ..)]` *)
  l_chain : chain;
  l_cb : option cbspec
}.

(** * One lane of the signal memory *)
Definition planes := list bool.
Definition smem := list planes.                     (* index = memory location *)
Fixpoint pset {A} (m : list A) (i : nat) (v : A) : list A :=
  match m, i with [], _ => [] | _ :: r, O => v :: r | x :: r, S i' => x :: pset r i' v end.
Definition pdflt (mdim : nat) : planes := repeat false mdim.
Definition mrd (mdim : nat) (M : smem) (z : Z) : planes :=
  match pyidx (List.length M) z with Some j => nth j M (pdflt mdim) | None => pdflt mdim end.
Definition mwr (M : smem) (z : Z) (v : planes) : smem :=
  match pyidx (List.length M) z with Some j => pset M j v | None => M end.

(** plane-wise operators of the 2-valued copies *)
Fixpoint pzip (f : bool -> bool -> bool) (a b : planes) : planes :=
  match a, b with x :: a', y :: b' => f x y :: pzip f a' b' | _, _ => [] end.
Fixpoint eval_bexp (rd : slot -> planes) (e : bexp) : planes :=
  match e with
  | EC s => rd s
  | ENot a => map negb (eval_bexp rd a)
  | EAnd a b => pzip andb (eval_bexp rd a) (eval_bexp rd b)
  | EOr a b => pzip orb (eval_bexp rd a) (eval_bexp rd b)
  | EXor a b => pzip xorb (eval_bexp rd a) (eval_bexp rd b)
  end.

(** the traced program of a bit-parallel operator called with k operands; [inplace]: the output view is the (single) operand *)
Definition op_prog (f : string) (k : nat) (inplace : bool) : option prog :=
  let nary (fam : list prog) := if inplace then None else nth_error fam (k - 1) in
  let unary (fam fam_in : list prog) := if (k =? 1)%nat then nth_error (if inplace then fam_in else fam) 0 else None in
  if (f =? "bp4v_not")%string then unary bp4_not bp4_not_inplace
  else if (f =? "bp8v_not")%string then unary bp8_not bp8_not_inplace
  else if (k =? 0)%nat then None
  else if (f =? "bp4v_and")%string then nary bp4_and
  else if (f =? "bp4v_or")%string then nary bp4_or
  else if (f =? "bp4v_xor")%string then nary bp4_xor
  else if (f =? "bp8v_and")%string then nary bp8_and
  else if (f =? "bp8v_or")%string then nary bp8_or
  else if (f =? "bp8v_xor")%string then nary bp8_xor
  else None.
Definition call_sem (f : string) (inplace : bool) (args : list planes) : planes :=
  match op_prog f (List.length args) inplace with Some g => run_bool g (List.concat args) | None => [] end.

(** a statement on the names' current values (register view) and on the memory (the names hold locations) *)
Definition stmt_dst (st : bstmt) : slot := match st with SAssign d _ => d | SCall _ d _ => d end.
Definition stmt_val (rd : slot -> planes) (st : bstmt) : planes :=
  match st with
  | SAssign _ e => eval_bexp rd e
  | SCall f d args => call_sem f (existsb (slot_eqb d) args) (map rd args)
  end.
Definition exec_stmt (mdim : nat) (loc : slot -> Z) (M : smem) (st : bstmt) : smem :=
  mwr M (loc (stmt_dst st)) (stmt_val (fun s => mrd mdim M (loc s)) st).

(** * One iteration and the loop *)
Fixpoint hpos (h : hname -> bool) (hdr : list hname) (i : nat) : option nat :=
  match hdr with [] => None | x :: r => if h x then Some i else hpos h r (S i) end.
Definition is_hop (x : hname) : bool := match x with Hop => true | _ => false end.
Definition is_hs (s : slot) (x : hname) : bool := match x with Hs s' => slot_eqb s s' | _ => false end.
Definition field (hdr : list hname) (row : list Z) (h : hname -> bool) : Z :=
  match hpos h hdr 0 with Some i => nth i row 0 | None => 0 end.
Fixpoint remap_of (s : slot) (l : list (slot * slot)) : option slot :=
  match l with [] => None | (t, src) :: r => if slot_eqb s t then Some src else remap_of s r end.

(** the guard `op == sim.NAME`: NAME's value is read from the regenerated constant table of sim.py *)
Definition guard_matches (name : string) (op : Z) : bool :=
  match assoc name lut_table with Some v => Z.of_N v =? op | None => false end.
Definition chain_find (ch : chain) (op : Z) : option (list bstmt) :=
  match find (fun gb => guard_matches (fst gb) op) ch with Some gb => Some (snd gb) | None => None end.

Definition pre_of (L : loop_src) (row : list Z) (s : slot) : Z := field (l_hdr L) row (is_hs s).
Definition post_of (L : loop_src) (c_locs : list Z) (t0 t1 : Z) (row : list Z) (s : slot) : Z :=
  match s with
  | St0 => t0
  | St1 => t1
  | _ => match remap_of s (l_remap L) with Some src => zrd (-1) c_locs (pre_of L row src) | None => pre_of L row s end
  end.

Definition calls := list (nat * planes).          (* (index of the Line object, content of the view when the callback is entered) *)
Definition callback := nat -> planes -> planes.   (* what the callback leaves in the view *)

Definition iter_src (mdim : nat) (L : loop_src) (c_locs : list Z) (nlines : nat) (t0 t1 : Z) (cb : option callback)
           (st : smem * calls) (row : list Z) : smem * calls :=
  let '(M, tr) := st in
  let pre := pre_of L row in
  let post := post_of L c_locs t0 t1 row in
  let M1 := match chain_find (l_chain L) (field (l_hdr L) row is_hop) with
            | Some body => fold_left (exec_stmt mdim post) body M
            | None => M
            end in
  match l_cb L, cb with
  | Some spec, Some f =>
      let ref r := match r with Pre s => pre s | Post s => post s end in
      if ref (cb_guard spec) <? Z.of_nat nlines then
        match pyidx nlines (ref (cb_line spec)) with
        | Some li => let v := mrd mdim M1 (ref (cb_view spec)) in (mwr M1 (ref (cb_view spec)) (f li v), tr ++ [(li, v)])
        | None => (M1, tr)
        end
      else (M1, tr)
  | _, _ => (M1, tr)
  end.
Definition run_loop (mdim : nat) (L : loop_src) (c_locs : list Z) (nlines : nat) (t0 t1 : Z) (cb : option callback)
           (rows : list (list Z)) (M : smem) : smem * calls :=
  fold_left (iter_src mdim L c_locs nlines t0 t1 cb) rows (M, []).

(** LogicSim.c_prop (pinned skeleton):
      t0 = self.c_locs[self.tmp_idx] ; t1 = self.c_locs[self.tmp2_idx]
      if self.m == 2:
          if inject_cb is None: _prop_cpu(self.ops, self.c_locs, self.c)
          else: <loop 2cb>
      elif self.m == 4: <loop 4>
      else: <loop 8>
    _prop_cpu has no t0 / t1 (its chain mentions neither: checked by the translator) *)
Definition mdim_of (m : nat) : nat := if (m =? 2)%nat then 1%nat else if (m =? 4)%nat then 2%nat else 3%nat.
Definition c_prop_src (Lcpu L2 L4 L8 : loop_src) (m : nat) (c_locs : list Z) (nlines : nat) (tmp_idx tmp2_idx : Z)
           (cb : option callback) (rows : list (list Z)) (M : smem) : smem * calls :=
  let t0 := zrd (-1) c_locs tmp_idx in
  let t1 := zrd (-1) c_locs tmp2_idx in
  if (m =? 2)%nat then
    match cb with
    | None => run_loop 1 Lcpu c_locs nlines 0 0 None rows M
    | Some _ => run_loop 1 L2 c_locs nlines t0 t1 cb rows M
    end
  else if (m =? 4)%nat then run_loop 2 L4 c_locs nlines t0 t1 cb rows M
  else run_loop 3 L8 c_locs nlines t0 t1 cb rows M.

(* ------------------------------------------------------------------------------------------------------------------ *)
(** * Per-lane meaning of the PINNED vectorised methods (their syntax trees are compared on every run) *)

Record lsim := mk_lsim {
  ls_c : smem;                 (* c[:, :, lane] : per location mdim planes *)
  ls_s0 : list planes;         (* s[0, :, :, lane] : per position 3 planes *)
  ls_s1 : list planes          (* s[1, :, :, lane] *)
}.
Definition srd (S : list planes) (y : Z) : planes :=
  match pyidx (List.length S) y with Some j => nth j S (pdflt 3) | None => pdflt 3 end.
Definition swr (S : list planes) (y : Z) (v : planes) : list planes :=
  match pyidx (List.length S) y with Some j => pset S j v | None => S end.
(** a[:k] = v on a row of planes: the first k planes are replaced *)
Definition set_firstn (k : nat) (row v : planes) : planes := firstn k v ++ skipn k row.

(** LogicSim.s_to_c, pinned:   self.c[self.pippi_c_locs] = self.s[0, self.pippi_s_locs, :self.mdim]
    (index lists of SimOps.__init__ as in Model/WaveDrvPrelude.v: pippi_s_locs = slot_s_locs c_locs ppi_offset n_io s_len,
     pippi_c_locs = c_locs[ppi_offset + pippi_s_locs]) *)
Definition s_to_c_src (mdim : nat) (c_locs : list Z) (ppi_offset : Z) (n_io s_len : nat) (L : lsim) : lsim :=
  let ys := slot_s_locs c_locs ppi_offset n_io s_len in
  mk_lsim (fold_left (fun C y => mwr C (zrd (-1) c_locs (ppi_offset + y)) (firstn mdim (srd (ls_s0 L) y))) ys (ls_c L))
          (ls_s0 L) (ls_s1 L).

(** LogicSim.c_to_s, pinned:
      self.s[1, self.poppo_s_locs, :self.mdim] = self.c[self.poppo_c_locs]
      if self.mdim == 1:
          self.s[1, self.poppo_s_locs, 1:2] = self.c[self.poppo_c_locs] *)
Definition c_to_s_src (mdim : nat) (c_locs : list Z) (ppo_offset : Z) (n_io s_len : nat) (L : lsim) : lsim :=
  let ys := slot_s_locs c_locs ppo_offset n_io s_len in
  let cv y := mrd mdim (ls_c L) (zrd (-1) c_locs (ppo_offset + y)) in
  let S1 := fold_left (fun S y => swr S y (set_firstn mdim (srd S y) (cv y))) ys (ls_s1 L) in
  let S2 := if (mdim =? 1)%nat
            then fold_left (fun S y => swr S y (firstn 1 (srd S y) ++ firstn 1 (cv y) ++ skipn 2 (srd S y))) ys S1
            else S1 in
  mk_lsim (ls_c L) (ls_s0 L) S2.

(** LogicSim.s_ppo_to_ppi, pinned:
      if self.mdim < 3:
          self.s[0, self.ppio_s_locs] = self.s[1, self.ppio_s_locs]
      else:
          self.s[0, self.ppio_s_locs, 1] = self.s[0, self.ppio_s_locs, 0]
          self.s[0, self.ppio_s_locs, 0] = self.s[1, self.ppio_s_locs, 0]
          self.s[0, self.ppio_s_locs, 2] = self.s[0, self.ppio_s_locs, 0] ^ self.s[0, self.ppio_s_locs, 1]
    (ppio_s_locs = arange(n_io, s_len): distinct positions, so each store is position-wise) *)
Definition pl (k : nat) (row : planes) : bool := nth k row false.
Definition s_ppo_to_ppi_src (mdim : nat) (n_io s_len : nat) (L : lsim) : lsim :=
  let ys := ppio_s_locs n_io s_len in
  if (mdim <? 3)%nat then
    mk_lsim (ls_c L) (fold_left (fun S y => swr S y (srd (ls_s1 L) y)) ys (ls_s0 L)) (ls_s1 L)
  else
    let A := fold_left (fun S y => swr S y [pl 0 (srd S y); pl 0 (srd (ls_s0 L) y); pl 2 (srd S y)]) ys (ls_s0 L) in
    let B := fold_left (fun S y => swr S y [pl 0 (srd (ls_s1 L) y); pl 1 (srd S y); pl 2 (srd S y)]) ys A in
    let C := fold_left (fun S y => swr S y [pl 0 (srd S y); pl 1 (srd S y); xorb (pl 0 (srd B y)) (pl 1 (srd B y))]) ys B in
    mk_lsim (ls_c L) C (ls_s1 L).

(** LogicSim.cycle, pinned:
      for _ in range(cycles):
          self.s_to_c() ; self.c_prop(inject_cb) ; self.c_to_s() ; self.s_ppo_to_ppi()
    [prop]: one c_prop on the signal memory (the callback's trace is dropped here) *)
Fixpoint cycle_src (k : nat) (s_to_c c_to_s ppo_to_ppi : lsim -> lsim) (prop : smem -> smem) (L : lsim) : lsim :=
  match k with
  | O => L
  | S k' =>
      let L1 := s_to_c L in
      let L2 := mk_lsim (prop (ls_c L1)) (ls_s0 L1) (ls_s1 L1) in
      cycle_src k' s_to_c c_to_s ppo_to_ppi prop (ppo_to_ppi (c_to_s L2))
  end.
