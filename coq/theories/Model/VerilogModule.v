(** C11 -- VerilogTransformer.module (kyupy/verilog.py:108-212) transcribed statement by statement on top of the
    circuit-edit model of Model/Circuit.v: pass 0 (declarations, port position table; taken from Model/VerilogElab.v),
    pass 1 (cells and the forks their outputs drive; port cells, io_nodes, input forks), pass 1.5 (continuous assigns,
    retried until nothing changes), pass 2 (constants, undriven signals, one-bit buses, branch forks, reader lines) and
    the final output-port lines.

    The AST [vmodule] is what lark hands to [module] after the child transformers (name, range, sigsel, concat,
    declaration, namedpin, instantiation) ran:  args[0] = module name, args[1].children = port names, args[2:] =
    lists of SignalDeclaration | Instantiation(type, name, pins : dict) | Tree('assign', [lhs, rhs]).
    A signal expression is a [VerilogElab.sig]: a Python str ([SOne]) or a Python list of str ([SMany]).
    The pin dictionary of an Instantiation is the list of its items in dict order (keys are distinct: Python dict);
    a key is a pin name (named connection) or an int (positional connection).
    [tlib_pins] is TechLib.cells restricted to the pin tables: kind -> pin name -> (position, is_output).

    A Python exception (AssertionError of Node.__init__ / TechLib.pin_*, KeyError, TypeError: unhashable list,
    AttributeError: list has no startswith, IndexError) is the value [None].  Definitions only. *)
From Coq Require Import List ZArith NArith Bool String Ascii Arith.
From KV Require Model.VerilogElab.
From KV Require Import Model.Circuit Model.CircuitInv.
Import ListNotations.
Local Open Scope list_scope.
Module VE := KV.Model.VerilogElab.

(** ** the tree handed to [module] *)
Inductive pinkey := PName (p : string) | PPos (i : nat).
Inductive vstmt :=
| VDecl (ds : list VE.decl)                                  (* input / output / inout / wire / tri statement *)
| VInst (kind name : string) (pins : list (pinkey * VE.sig)) (* Instantiation(type, name, pins) *)
| VAssign (lhs rhs : VE.sig).                                (* Tree('assign', [lhs, rhs]) *)
Record vmodule := mkM { m_name : string; m_ports : list string; m_stmts : list vstmt }.

Definition pintab := list (string * (nat * bool)).
Definition tlib_pins := list (string * pintab).

(* TechLib.pin_index / pin_is_output: assert kind in self.cells; assert pin in self.cells[kind][1] *)
Definition lib_pin (lib : tlib_pins) (kind : string) (p : pinkey) : option (nat * bool) :=
  match VE.dget kind lib with
  | None => None
  | Some tab => match p with PName s => VE.dget s tab | PPos _ => None end
  end.

Definition decl_stmts (l : list vstmt) : list (list VE.decl) :=
  flat_map (fun s => match s with VDecl ds => [ds] | _ => [] end) l.
Definition decls_of (m : vmodule) : list (string * VE.decl) := VE.collect_decls (decl_stmts (m_stmts m)).
Definition kind_str (k : VE.skind) : string :=
  match k with VE.KInput => "input" | VE.KOutput => "output" | VE.KWire => "wire" end%string.

(** Line(c, driver, Node(c, name)): a new fork that is read from [d] (the driver expression is evaluated first) *)
Definition new_fork_from (c : circ) (d : nat) (dp : option nat) (name : string) : option (circ * nat) :=
  match add_node c name FORK with
  | None => None
  | Some (c1, f) => Some (fst (add_line c1 d dp f None), f)
  end.

(** ** pass 1 (verilog.py:125-136) *)
(* if s in sig_decls: s = sig_decls[s].names; a one-element list is unpacked, any other list is unhashable in Node() *)
Definition out_sig_name (decls : list (string * VE.decl)) (s : string) : option string :=
  match VE.dget s decls with
  | Some d => match VE.decl_names d with [x] => Some x | _ => None end
  | None => Some s
  end.
(* n.kind = stmt.type for the node that was just created *)
Definition p1_pin (lib : tlib_pins) (decls : list (string * VE.decl)) (kind : string) (n : nat) (c : circ)
           (ps : pinkey * VE.sig) : option circ :=
  match lib_pin lib kind (fst ps) with
  | None => None
  | Some (_, false) => Some c
  | Some (idx, true) =>
      match snd ps with
      | VE.SMany _ => None                                   (* `list in dict`: unhashable *)
      | VE.SOne s =>
          match out_sig_name decls s with
          | None => None
          | Some s' => option_map fst (new_fork_from c n (Some idx) s')
          end
      end
  end.
Definition p1_stmt (lib : tlib_pins) (decls : list (string * VE.decl)) (c : circ) (s : vstmt) : option circ :=
  match s with
  | VInst kind name pins =>
      match add_node c name kind with
      | None => None
      | Some (c1, n) => fold_opt (p1_pin lib decls kind n) pins c1
      end
  | _ => Some c
  end.

(** port cells, io_nodes and input forks (verilog.py:137-144) *)
Definition port_item (pos : list (string * nat)) (c : circ) (it : string * VE.skind) : option circ :=
  match add_node c (fst it) (kind_str (snd it)) with
  | None => None
  | Some (c1, n) =>
      let c2 := match VE.dget (fst it) pos with Some p => set_io c1 p n | None => c1 end in
      match snd it with
      | VE.KInput => option_map fst (new_fork_from c2 n None (fst it))
      | _ => Some c2
      end
  end.

(** ** pass 1.5 (verilog.py:145-178) *)
Definition expand (decls : list (string * VE.decl)) (s : VE.sig) : list string :=
  flat_map (fun x => match VE.dget x decls with Some d => VE.decl_names d | None => [x] end) (VE.sig_list s).
Definition assign_pairs (decls : list (string * VE.decl)) (l : list vstmt) : list (string * string) :=
  flat_map (fun s => match s with VAssign t r => combine (expand decls t) (expand decls r) | _ => [] end) l.

Definition is_const (s : string) : bool := String.prefix "1'b" s.
Definition chr (a : ascii) : string := String a EmptyString.
(* f'__const{s[3]}_{const_count}__', f'__const{s[3]}__' *)
Definition const_name (ch : ascii) (k : nat) : string :=
  ("__const" ++ chr ch ++ "_" ++ VE.dec (Z.of_nat k) ++ "__")%string.
Definition const_kind (ch : ascii) : string := ("__const" ++ chr ch ++ "__")%string.

Definition est := (circ * nat)%type.                         (* the circuit and const_count *)
Definition apair := (string * string)%type.

Definition asg_step (x : est * list apair) (ts : apair) : option (est * list apair) :=
  let '((c, k), deferred) := x in
  let (t, s) := ts in
  match dget t (forks c) with
  | Some ft =>
      match dget s (forks c) with
      | Some _ => None                                       (* assert: assignment between two driven signals *)
      | None => match new_fork_from c ft None s with
                | None => None
                | Some (c1, _) => Some ((c1, k), deferred)
                end
      end
  | None =>
      match dget s (forks c) with
      | Some fs => match new_fork_from c fs None t with
                   | None => None
                   | Some (c1, _) => Some ((c1, k), deferred)
                   end
      | None =>
          if is_const s then
            match String.get 3 s with
            | None => None                                   (* s[3]: IndexError *)
            | Some ch =>
                match add_node c (const_name ch k) (const_kind ch) with
                | None => None
                | Some (c1, cn) => match new_fork_from c1 cn None t with
                                   | None => None
                                   | Some (c2, _) => Some ((c2, S k), deferred)
                                   end
                end
            end
          else Some ((c, k), deferred ++ [ts])
      end
  end.
(* while len(pending) > 0: ...; if len(deferred) == len(pending): break; pending = deferred *)
Fixpoint asg_loop (fuel : nat) (st : est) (pending : list apair) : option est :=
  match pending with
  | [] => Some st
  | _ :: _ =>
      match fuel with
      | O => Some st                                         (* not reached: fuel = S (len pending) *)
      | S fuel' =>
          match fold_opt asg_step pending (st, []) with
          | None => None
          | Some (st', deferred) =>
              if Nat.eqb (List.length deferred) (List.length pending) then Some st'
              else asg_loop fuel' st' deferred
          end
      end
  end.

(** ** pass 2 (verilog.py:179-201) *)
(* a constant on a reader pin: a fresh constant cell and a fork of the same name *)
Definition p2_const (st : est) (s : string) : option (est * string) :=
  if is_const s then
    match String.get 3 s with
    | None => None
    | Some ch =>
        let cname := const_name ch (snd st) in
        match add_node (fst st) cname (const_kind ch) with
        | None => None
        | Some (c1, cn) => match new_fork_from c1 cn None cname with
                           | None => None
                           | Some (c2, _) => Some ((c2, S (snd st)), cname)
                           end
        end
    end
  else Some (st, s).
(* if s not in c.forks: (one-bit bus by its base name | Node(c, s));  fork = c.forks[s] *)
Definition p2_resolve (decls : list (string * VE.decl)) (c : circ) (s : string) : option (circ * nat) :=
  match dget s (forks c) with
  | Some f => Some (c, f)
  | None =>
      match VE.dget s decls with
      | Some d => match VE.decl_names d with
                  | [x] => match dget x (forks c) with Some f => Some (c, f) | None => add_node c s FORK end
                  | _ => add_node c s FORK
                  end
      | None => add_node c s FORK
      end
  end.
Definition branch_name (fork_name inst pin : string) : string := (fork_name ++ "~" ++ inst ++ "/" ++ pin)%string.
Definition p2_pin (lib : tlib_pins) (decls : list (string * VE.decl)) (bf : bool) (kind name : string) (st : est)
           (ps : pinkey * VE.sig) : option est :=
  match dget name (cells (fst st)) with
  | None => None                                             (* c.cells[stmt.name]: KeyError *)
  | Some n =>
      match lib_pin lib (kind_of (fst st) n) (fst ps) with
      | None => None
      | Some (_, true) => Some st
      | Some (_, false) =>
          match snd ps with
          | VE.SMany _ => None                               (* list has no attribute startswith *)
          | VE.SOne s0 =>
              match p2_const st s0 with
              | None => None
              | Some ((c1, k1), s) =>
                  match p2_resolve decls c1 s with
                  | None => None
                  | Some (c2, fork) =>
                      let bfr :=
                        if bf then
                          match fst ps with
                          | PName p => new_fork_from c2 fork None (branch_name (name_of c2 fork) (name_of c2 n) p)
                          | PPos _ => None
                          end
                        else Some (c2, fork) in
                      match bfr with
                      | None => None
                      | Some (c3, fk) =>
                          match lib_pin lib kind (fst ps) with      (* pin_index(stmt.type, p) *)
                          | None => None
                          | Some (idx, _) => Some (fst (add_line c3 fk None n (Some idx)), k1)
                          end
                      end
                  end
              end
          end
      end
  end.
Definition p2_stmt (lib : tlib_pins) (decls : list (string * VE.decl)) (bf : bool) (st : est) (s : vstmt) : option est :=
  match s with
  | VInst kind name pins => fold_opt (p2_pin lib decls bf kind name) pins st
  | _ => Some st
  end.

(** output ports (verilog.py:202-213).  The port cell is c.cells[name]; the fork is the one called name or, for a port
    that is driven through its bit 0 (`output z` with z[0] connected), the one called name[0]. *)
Definition out_item (c : circ) (it : string * VE.skind) : option circ :=
  match snd it with
  | VE.KOutput =>
      let name := fst it in
      let fork_name := match dget name (forks c) with
                       | Some _ => Some name
                       | None => match dget (name ++ "[0]")%string (forks c) with
                                 | Some _ => Some (name ++ "[0]")%string
                                 | None => None              (* Output not driven: continue *)
                                 end
                       end in
      match fork_name with
      | None => Some c
      | Some fn => match dget fn (forks c), dget name (cells c) with
                   | Some f, Some n => Some (fst (add_line c f None n None))
                   | _, _ => None                            (* KeyError *)
                   end
      end
  | _ => Some c
  end.
(* the loop before commit afee8a5: `name` itself was overwritten with name[0], so the CELL was looked up under the fork's
   name as well.  Kept only as the subject of the refutation witness in Proofs/VerilogModuleExamples.v. *)
Definition out_item_old (c : circ) (it : string * VE.skind) : option circ :=
  match snd it with
  | VE.KOutput =>
      let name := fst it in
      let name' := match dget name (forks c) with
                   | Some _ => Some name
                   | None => match dget (name ++ "[0]")%string (forks c) with
                             | Some _ => Some (name ++ "[0]")%string
                             | None => None
                             end
                   end in
      match name' with
      | None => Some c
      | Some nm => match dget nm (forks c), dget nm (cells c) with
                   | Some f, Some n => Some (fst (add_line c f None n None))
                   | _, _ => None                            (* c.cells[f'{name}[0]']: KeyError *)
                   end
      end
  | _ => Some c
  end.

(** ** module *)
Definition elab_pass1 (m : vmodule) (lib : tlib_pins) : option circ :=
  fold_opt (p1_stmt lib (decls_of m)) (m_stmts m) empty.
Definition elab_ports (m : vmodule) (lib : tlib_pins) : option circ :=
  match VE.port_name_lists (m_ports m) (decls_of m) with
  | None => None                                             (* sig_decls[intf_sig]: KeyError *)
  | Some nls =>
      match elab_pass1 m lib with
      | None => None
      | Some c1 => fold_opt (port_item (VE.positions_of nls)) (VE.io_items (decls_of m)) c1
      end
  end.
Definition elab_assigns (m : vmodule) (lib : tlib_pins) : option est :=
  match elab_ports m lib with
  | None => None
  | Some c2 => let pending := assign_pairs (decls_of m) (m_stmts m) in
               asg_loop (S (List.length pending)) (c2, 0) pending
  end.
Definition elab_readers (m : vmodule) (lib : tlib_pins) (bf : bool) : option est :=
  match elab_assigns m lib with
  | None => None
  | Some st3 => fold_opt (p2_stmt lib (decls_of m) bf) (m_stmts m) st3
  end.
Definition elab_module (m : vmodule) (lib : tlib_pins) (bf : bool) : option circ :=
  match elab_readers m lib bf with
  | None => None
  | Some (c4, _) => fold_opt out_item (VE.io_items (decls_of m)) c4
  end.
Definition elab_module_old (m : vmodule) (lib : tlib_pins) (bf : bool) : option circ :=
  match elab_readers m lib bf with
  | None => None
  | Some (c4, _) => fold_opt out_item_old (VE.io_items (decls_of m)) c4
  end.

(** ** well-formedness of the inputs that Python guarantees by construction: dict keys are distinct, TechLib numbers
    the input pins and the output pins of a cell separately and consecutively, no library cell is called __fork__ *)
Definition pinkey_eqb (a b : pinkey) : bool :=
  match a, b with PName x, PName y => String.eqb x y | PPos i, PPos j => Nat.eqb i j | _, _ => false end.
Fixpoint nodup_by {A} (eqb : A -> A -> bool) (l : list A) : bool :=
  match l with [] => true | x :: r => negb (existsb (eqb x) r) && nodup_by eqb r end.
Definition pins_nodup_b (m : vmodule) : bool :=
  forallb (fun s => match s with VInst _ _ pins => nodup_by pinkey_eqb (map fst pins) | _ => true end) (m_stmts m).
Definition pintab_inj_b (t : pintab) : bool :=
  nodup_by (fun a b => Nat.eqb (fst (snd a)) (fst (snd b)) && Bool.eqb (snd (snd a)) (snd (snd b))) t &&
  nodup_by String.eqb (map fst t).
Definition lib_ok_b (lib : tlib_pins) : bool :=
  forallb (fun kt => pintab_inj_b (snd kt) && negb (String.eqb (fst kt) FORK)) lib.
(* the port list names distinct bits and every port is declared input / output / inout *)
Definition ports_ok_b (m : vmodule) : bool :=
  match VE.port_name_lists (m_ports m) (decls_of m) with
  | None => false
  | Some nls => nodup_by String.eqb (List.concat nls) &&
                forallb (fun n => existsb (String.eqb n) (map fst (VE.io_items (decls_of m)))) (List.concat nls)
  end.

(** ** VerilogTransformer.instantiation (verilog.py:52-62): the pin dict of an Instantiation from the pin list of the
    parse tree -- a named pin without expression `.A()` is skipped, an unnamed pin gets its position as key, a repeated
    key keeps its first slot and takes the last value *)
Inductive rawpin := RNamed (p : string) (s : option VE.sig) | RPos (s : VE.sig).
Fixpoint pset (k : pinkey) (v : VE.sig) (d : list (pinkey * VE.sig)) : list (pinkey * VE.sig) :=
  match d with
  | [] => [(k, v)]
  | (k', v') :: r => if pinkey_eqb k k' then (k', v) :: r else (k', v') :: pset k v r
  end.
Definition inst_step (st : list (pinkey * VE.sig) * nat) (p : rawpin) : list (pinkey * VE.sig) * nat :=
  (match p with
   | RNamed n (Some s) => pset (PName n) s (fst st)
   | RNamed _ None => fst st
   | RPos s => pset (PPos (snd st)) s (fst st)
   end, S (snd st)).
Definition mk_pins (l : list rawpin) : list (pinkey * VE.sig) := fst (fold_left inst_step l ([], 0)).
Definition inst_case (l : list rawpin) (got : list (pinkey * VE.sig)) : bool :=
  VE.eqb_list (fun a b => pinkey_eqb (fst a) (fst b) && VE.sig_eqb (snd a) (snd b)) (mk_pins l) got &&
  nodup_by pinkey_eqb (map fst got).

(** ** the named view of a circuit (node = (name, is a fork), independent of ids and indices) and what "branchforks only
    inserts forks" means on it: both elaborations create the same nodes and lines in the same order, except that every
    reader line  fork --j--> (cell, idx)  of pass 2 is replaced by a new fork b and the two lines
    fork --j--> (b, 0),  b --0--> (cell, idx). *)
Definition nkey := (string * bool)%type.
Definition key_of (c : circ) (n : nat) : nkey := (name_of c n, is_fork (kind_of c n)).
Definition okey (c : circ) (o : option nat) : nkey := match o with Some n => key_of c n | None => (EmptyString, false) end.
Definition edge := (nkey * nat * nkey * nat)%type.
Definition edge_of (c : circ) (l : nat) : edge :=
  (okey c (l_drv (lst c l)), l_dpin (lst c l), okey c (l_rdr (lst c l)), l_rpin (lst c l)).
Definition nodesK (c : circ) : list (nkey * string) := map (fun n => (key_of c n, kind_of c n)) (nodes c).
Definition edges (c : circ) : list edge := map (edge_of c) (lines c).

Inductive BfRel : list (nkey * string) * list edge -> list (nkey * string) * list edge -> Prop :=
| BR_start : forall N E, BfRel (N, E) (N, E)
| BR_node : forall NF EF NT ET k, BfRel (NF, EF) (NT, ET) -> BfRel (NF ++ [k], EF) (NT ++ [k], ET)
| BR_edge : forall NF EF NT ET e, BfRel (NF, EF) (NT, ET) -> BfRel (NF, EF ++ [e]) (NT, ET ++ [e])
| BR_branch : forall NF EF NT ET f j b n idx, BfRel (NF, EF) (NT, ET) -> ~ In (b, true) (map fst NT) ->
    BfRel (NF, EF ++ [(f, j, n, idx)]) (NT ++ [((b, true), FORK)], ET ++ [(f, j, (b, true), 0); ((b, true), 0, n, idx)]).

(* no signal read by a cell pin and no declared bit is written with a '~' (generated branch forks are <fork>~<inst>/<pin>) *)
Fixpoint has_tilde (s : string) : bool :=
  match s with EmptyString => false | String a r => Ascii.eqb a "~"%char || has_tilde r end.
Definition no_tilde_b (m : vmodule) : bool :=
  forallb (fun s => match s with
                    | VInst _ _ pins => forallb (fun ps => match snd ps with VE.SOne x => negb (has_tilde x) | VE.SMany _ => true end) pins
                    | _ => true end) (m_stmts m) &&
  forallb (fun kd => forallb (fun x => negb (has_tilde x)) (VE.decl_names (snd kd))) (decls_of m).

(** ** what the correspondence check compares (harness/vlog_corr.py: module_case_of) *)
Definition mod_view := (list (string * string) * list (nat * nat * nat * nat) * list (option nat))%type.
Definition view_of (c : circ) : option mod_view :=
  match all_somes (map (fun l => let L := lst c l in
                        match l_drv L, l_rdr L with
                        | Some d, Some r => Some (n_index (nst c d), l_dpin L, n_index (nst c r), l_rpin L)
                        | _, _ => None end) (lines c)) with
  | Some ls => Some (map (fun n => (name_of c n, kind_of c n)) (nodes c), ls,
                     map (option_map (fun n => n_index (nst c n))) (io c))
  | None => None
  end.
Definition view_eqb (a b : mod_view) : bool :=
  let '(n1, l1, i1) := a in let '(n2, l2, i2) := b in
  VE.eqb_list (fun x y => String.eqb (fst x) (fst y) && String.eqb (snd x) (snd y)) n1 n2 &&
  VE.eqb_list (fun x y => let '(a1, b1, c1, d1) := x in let '(a2, b2, c2, d2) := y in
                          Nat.eqb a1 a2 && Nat.eqb b1 b2 && Nat.eqb c1 c2 && Nat.eqb d1 d2) l1 l2 &&
  VE.eqb_list (VE.eqb_opt Nat.eqb) i1 i2.
(* [got] = the real Circuit (None: module raised).  The model state is also run through the executable invariant of C09
   and the hypotheses of the C11 theorems are evaluated on the real tree / pin tables. *)
Definition module_case_gen (elab : vmodule -> tlib_pins -> bool -> option circ) (m : vmodule) (lib : tlib_pins) (bf : bool)
           (got : option mod_view) : bool :=
  match elab m lib bf, got with
  | None, None => true
  | Some c, Some v => match view_of c with Some w => view_eqb w v | None => false end
  | _, _ => false
  end.
Definition module_case (m : vmodule) (lib : tlib_pins) (bf : bool) (got : option mod_view) : bool :=
  pins_nodup_b m && lib_ok_b lib &&
  match elab_module m lib bf, got with
  | None, None => true
  | Some c, Some v => match view_of c with Some w => view_eqb w v | None => false end && cinv_b c
  | _, _ => false
  end.
