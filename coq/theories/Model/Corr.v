(** Helpers for the correspondence check: structural equality tests and the list of failing case
    numbers that a generated cases file prints. *)
From Coq Require Import List NArith ZArith Bool Arith.
From KV Require Import Model.Netlist Model.Heap Model.SimOps.
Import ListNotations.
Local Open Scope list_scope.

Fixpoint list_eqb {A} (eqb : A -> A -> bool) (a b : list A) : bool :=
  match a, b with
  | [], [] => true
  | x :: a', y :: b' => eqb x y && list_eqb eqb a' b'
  | _, _ => false
  end.
Definition opt_eqb {A} (eqb : A -> A -> bool) (a b : option A) : bool :=
  match a, b with Some x, Some y => eqb x y | None, None => true | _, _ => false end.
Definition pair_eqb {A B} (ea : A -> A -> bool) (eb : B -> B -> bool) (a b : A * B) : bool :=
  ea (fst a) (fst b) && eb (snd a) (snd b).

Fixpoint failing_from (i : nat) (l : list bool) : list nat :=
  match l with [] => [] | b :: r => if b then failing_from (S i) r else i :: failing_from (S i) r end.
Definition failing (l : list bool) : list nat := failing_from 0 l.

(** SimOps: what the implementation produced, as plain data *)
Definition simops_data := (list (N * list nat) * list nat * list Z * list N * N)%type.
Definition sop_row (o : sop) : N * list nat := (s_lut o, [s_out o; s_i0 o; s_i1 o; s_i2 o; s_i3 o]).
Definition simops_view (s : simops) : simops_data :=
  (map sop_row (so_ops s), so_level_starts s, so_locs s, so_caps s, so_len s).
Definition simops_data_eqb (a b : simops_data) : bool :=
  let '(o1, l1, c1, p1, n1) := a in let '(o2, l2, c2, p2, n2) := b in
  list_eqb (pair_eqb N.eqb (list_eqb Nat.eqb)) o1 o2 && list_eqb Nat.eqb l1 l2 &&
  list_eqb Z.eqb c1 c2 && list_eqb N.eqb p1 p2 && N.eqb n1 n2.

Definition simops_case (c : netlist) (caps : list N) (cmin : N) (reuse strip : bool) (exp : option simops_data) : bool :=
  opt_eqb simops_data_eqb (option_map simops_view (build c caps cmin reuse strip)) exp.

(** WaveSim results as plain data *)
From KV Require Import Model.Time Model.WaveEval Model.WaveSimModel.
Definition capt_eqb (a b : bool * time * time * bool * bool * bool) : bool :=
  let '(i1, e1, l1, f1, v1, o1) := a in let '(i2, e2, l2, f2, v2, o2) := b in
  Bool.eqb i1 i2 && teqb e1 e2 && teqb l1 l2 && Bool.eqb f1 f2 && Bool.eqb v1 v2 && Bool.eqb o1 o2.
Definition wsim_eqb (r : wsim_result) (exp : list time * list Z * list (option (bool * time * time * bool * bool * bool))) : bool :=
  let '(m, ab, cp) := exp in
  list_eqb teqb (w_mem r) m && list_eqb Z.eqb (w_abuf r) ab && list_eqb (opt_eqb capt_eqb) (w_capt r) cp.
Definition wsim_ok (r : option wsim_result) exp : bool :=
  match r, exp with Some x, Some e => wsim_eqb x e | None, None => true | _, _ => false end.

(** Heap histories: the full table after every step *)
Definition heap_view := (list (N * N) * list N * N * N)%type.
Definition heap_view_of (h : heap) : heap_view := (chunks h, released h, cur h, mx h).
Definition heap_view_eqb (a b : heap_view) : bool :=
  let '(c1, r1, u1, m1) := a in let '(c2, r2, u2, m2) := b in
  list_eqb (pair_eqb N.eqb N.eqb) c1 c2 && list_eqb N.eqb r1 r2 && N.eqb u1 u2 && N.eqb m1 m2.
(** each step: the op, the location the implementation returned (allocs), and its table afterwards *)
Fixpoint heap_case (h : heap) (steps : list (hop * N * heap_view)) : bool :=
  match steps with
  | [] => true
  | (HAlloc s, loc, v) :: r =>
      let '(l, h') := alloc h s in N.eqb l loc && heap_view_eqb (heap_view_of h') v && heap_case h' r
  | (HFree l, _, v) :: r =>
      match free h l with Some h' => heap_view_eqb (heap_view_of h') v && heap_case h' r | None => false end
  end.

(** traversals: (topological order, levels, line order, reversed order, fan-in of the given origins) *)
Definition trav_data := (list nat * list (nat * nat) * list nat * list nat * list nat)%type.
Definition trav_case (c : netlist) (origins : list nat) (exp : trav_data) : bool :=
  let '(t, lv, lo, rt, fi) := exp in
  list_eqb Nat.eqb (topo_order c) t && list_eqb (pair_eqb Nat.eqb Nat.eqb) (topo_levels c) lv &&
  list_eqb Nat.eqb (topo_line_order c) lo && list_eqb Nat.eqb (rtopo_order c) rt && list_eqb Nat.eqb (fanin c origins) fi.

(** prefix lookup results *)
From KV Require Import Model.Locs.
Fixpoint res_eqb (fuel : nat) (a b : res) : bool :=
  match fuel with
  | O => false
  | S f => match a, b with
           | RLeaf x, RLeaf y => Nat.eqb x y
           | RList l1, RList l2 => list_eqb (res_eqb f) l1 l2
           | _, _ => false
           end
  end.
Definition locs_case (prefix : String.string) (names : list String.string) (exp : option (option res)) : bool :=
  opt_eqb (opt_eqb (res_eqb 8)) (locs prefix names) exp.
