(** A library cell as written in techlib.py (bench-like): pins and gate assignments; evaluation of its
    combinational function with the simulator's own primitive selection and LUTs. *)
From Coq Require Import List NArith Bool Arith String.
From KV Require Import Model.Prims Gen.SimTables.
Import ListNotations.
Local Open Scope list_scope.

(* the statements of the cell body in the order of the library text (bench.py elaborates them in this order) *)
Inductive tstmt :=
| TIn (names : list string)                           (* input(...) *)
| TOut (names : list string)                          (* output(...) *)
| TGate (o k : string) (args : list string).          (* o = k(args) *)

Record tcell := {
  t_pattern : string;                 (* name pattern with {a,b} alternatives *)
  t_names : list string;              (* expanded names *)
  t_ins : list string;                (* input pins in declaration order *)
  t_outs : list string;               (* output pins in declaration order *)
  t_gates : list (string * string * list string);  (* signal = KIND(args) *)
  t_stmts : list tstmt                (* all statements, text order (t_ins / t_outs / t_gates are its projections) *)
}.

Fixpoint find_gate (g : list (string * string * list string)) (name : string) : option (string * list string) :=
  match g with [] => None | (o, k, a) :: r => if String.eqb o name then Some (k, a) else find_gate r name end.
Fixpoint pos_of (name : string) (l : list string) (i : nat) : option nat :=
  match l with [] => None | x :: r => if String.eqb x name then Some i else pos_of name r (S i) end.

Definition is_seq_kind (k : string) : bool := contains "dff" (lower k) || contains "latch" (lower k).
Definition cell_is_seq (c : tcell) : bool := existsb (fun g => is_seq_kind (snd (fst g))) (t_gates c).

(** value of a signal for an input row (fuel = number of gates + 1); None = undefined signal / unknown kind /
    sequential element / cyclic definition *)
Fixpoint eval_sig (fuel : nat) (c : tcell) (row : list bool) (name : string) : option bool :=
  match fuel with
  | O => None
  | S f =>
      match pos_of name (t_ins c) 0 with
      | Some i => Some (nth i row false)
      | None =>
          match find_gate (t_gates c) name with
          | None => None
          | Some (k, args) =>
              if is_seq_kind k then None else
              let vals := map (eval_sig f c row) args in
              if forallb (fun v => match v with Some _ => true | None => false end) vals then
                let v i := match nth i vals None with Some b => b | None => false end in
                let n := List.length args in
                match select_lut kind_prefixes k (Nat.ltb n 3) (Nat.ltb n 4) with
                | Some l => if Nat.leb n 4 then Some (lut_bit l (v 0) (v 1) (v 2) (v 3)) else None
                | None => None
                end
              else None
          end
      end
  end.
Definition eval_out (c : tcell) (row : list bool) (o : string) : option bool :=
  eval_sig (S (List.length (t_gates c))) c row o.

Fixpoint rows (n : nat) : list (list bool) :=
  match n with O => [[]] | S n' => flat_map (fun r => [false :: r; true :: r]) (rows n') end.

Fixpoint nodup_str (l : list string) : bool :=
  match l with [] => true | x :: r => negb (existsb (String.eqb x) r) && nodup_str r end.
(** structural consistency of one cell: every pin once; every output is an input-free defined signal;
    every gate operand is a pin or a defined signal; at least one name *)
Definition defined (c : tcell) (s : string) : bool :=
  existsb (String.eqb s) (t_ins c) || existsb (fun g => String.eqb (fst (fst g)) s) (t_gates c).
Definition cell_struct_ok (c : tcell) : bool :=
  nodup_str (t_ins c ++ t_outs c) &&
  nodup_str (map (fun g => fst (fst g)) (t_gates c)) &&
  forallb (fun o => existsb (fun g => String.eqb (fst (fst g)) o) (t_gates c)) (t_outs c) &&
  forallb (fun g => forallb (defined c) (snd g)) (t_gates c) &&
  negb (Nat.eqb (List.length (t_names c)) 0).
