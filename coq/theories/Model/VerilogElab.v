(** C11 -- executable transcription of the pure helpers of kyupy/verilog.py (VerilogTransformer.range,
    .sigsel incl. sized constants, .concat, SignalDeclaration.names, .declaration, pass 0 and the port
    position table / io_nodes of .module) and of kyupy/bench.py (BenchTransformer on top of the
    Circuit / Node / Line constructors of circuit.py).

    Passes 1, 1.5, 2 of VerilogTransformer.module (cell / fork / line construction for Verilog) and the TechLib pin
    lookups are transcribed in Model/VerilogModule.v on top of Model/Circuit.v (it reuses the declarations, pass 0 and
    the position table of this file).  NOT modelled: the lark grammars and lexers (text -> tree) and
    Circuit.substitute.  The full semantic theorem for Verilog elaboration would read

      verilog_sem : forall (m : module_ast) lib bf c, elab_verilog m lib bf = Some c ->
                    forall stim, netlist_sem (resolve lib c) stim = module_sem lib m stim

    and is out of scope; that link is covered by the differential oracle of harness/vlog_gen.py.

    Conventions: a Python exception (KeyError, ValueError, IndexError, AssertionError ...) is the value
    [None].  Numbers in ranges are non-negative in every tree the lexer can produce (/[0-9]+/); the
    functions are nevertheless total on Z. *)
From Coq Require Import List ZArith NArith Bool String Ascii Lia DecimalString.
Import ListNotations.
Local Open Scope list_scope.

(** ** f-string rendering of integers and bit names *)
Definition dec (z : Z) : string := NilZero.string_of_uint (N.to_uint (Z.to_N z)).
(* f'{base}[{i}]' *)
Definition bitname (base : string) (i : Z) : string := (base ++ "[" ++ dec i ++ "]")%string.

(** ** VerilogTransformer.range (verilog.py:64-67) *)
(* Python range(a, b) and range(a, b, -1) *)
Definition py_range_up (a b : Z) : list Z := map (fun k => (a + Z.of_nat k)%Z) (seq 0 (Z.to_nat (b - a))).
Definition py_range_down (a b : Z) : list Z := map (fun k => (a - Z.of_nat k)%Z) (seq 0 (Z.to_nat (a - b))).
Definition vrange (left : Z) (r : option Z) : list Z :=
  let right := match r with Some x => x | None => left end in
  if (left <=? right)%Z then py_range_up left (right + 1) else py_range_down left (right - 1).

(** ** sized constants (verilog.py:73-82) *)
Definition digit_val (c : ascii) : option N :=
  let n := N_of_ascii c in
  if (48 <=? n)%N && (n <=? 57)%N then Some (n - 48)%N
  else if (97 <=? n)%N && (n <=? 102)%N then Some (n - 87)%N
  else if (65 <=? n)%N && (n <=? 70)%N then Some (n - 55)%N
  else None.
(* int(s, base) for the digit strings the lexer accepts: non-empty, every digit < base, else ValueError *)
Fixpoint parse_digits_from (base acc : N) (s : string) : option N :=
  match s with
  | EmptyString => Some acc
  | String c r => match digit_val c with
                  | Some d => if (d <? base)%N then parse_digits_from base (acc * base + d)%N r else None
                  | None => None
                  end
  end.
Definition parse_digits (base : N) (s : string) : option N :=
  match s with EmptyString => None | _ => parse_digits_from base 0%N s end.

Definition quote : ascii := "'"%char.
(* s.split("'") *)
Fixpoint split_quote_from (cur : string) (s : string) : list string :=
  match s with
  | EmptyString => [cur]
  | String c r => if Ascii.eqb c quote then cur :: split_quote_from EmptyString r
                  else split_quote_from (cur ++ String c EmptyString)%string r
  end.
Definition split_quote (s : string) := split_quote_from EmptyString s.
Fixpoint has_quote (s : string) : bool :=
  match s with EmptyString => false | String c r => Ascii.eqb c quote || has_quote r end.

Definition lower_ascii (c : ascii) : ascii :=
  let n := N_of_ascii c in if (65 <=? n)%N && (n <=? 90)%N then ascii_of_N (n + 32) else c.
Definition base_of (c : ascii) : option N :=
  let l := lower_ascii c in
  if Ascii.eqb l "b"%char then Some 2%N else if Ascii.eqb l "d"%char then Some 10%N
  else if Ascii.eqb l "h"%char then Some 16%N else None.

(* the loop  for _ in range(width): l.insert(0, bit(const & 1)); const >>= 1 *)
Fixpoint const_loop (w : nat) (c : N) (l : list bool) : list bool :=
  match w with O => l | S w' => const_loop w' (N.shiftr c 1) (N.odd c :: l) end.
Definition const_bits (w : nat) (n : N) : list bool := const_loop w n [].
Definition bit_str (b : bool) : string := if b then "1'b1"%string else "1'b0"%string.

(** what sigsel / concat hand upwards: a single signal name or a list of names *)
Inductive sig := SOne (s : string) | SMany (l : list string).
(* l if len(l) > 1 else l[0] *)
Definition one_or_many (l : list string) : option sig :=
  match l with [] => None | [x] => Some (SOne x) | _ => Some (SMany l) end.

(* int(digits, base) also accepts the prefix of the base: "0b" / "0B" in front of binary digits is what a sized-constant token
   can carry (b is a hexadecimal digit: 1'b0b1 is ONE token and denotes 1'b1); "0x" only inside an escaped identifier *)
Definition py_int (base : N) (s : string) : option N :=
  match parse_digits base s with
  | Some n => Some n
  | None =>
      match s with
      | String z (String p r) =>
          if Ascii.eqb z "0"%char &&
             (((base =? 2)%N && Ascii.eqb (lower_ascii p) "b"%char) || ((base =? 16)%N && Ascii.eqb (lower_ascii p) "x"%char))
          then parse_digits base r else None
      | _ => None
      end
  end.
Definition sized_const (s : string) : option sig :=
  match split_quote s with
  | [w; rest] =>
      match parse_digits 10%N w, rest with
      | Some width, String b digits =>
          match base_of b with
          | Some base =>
              match py_int base digits with
              | Some n => one_or_many (map bit_str (const_bits (N.to_nat width) n))
              | None => None
              end
          | None => None
          end
      | _, _ => None
      end
  | _ => None
  end.

(** ** VerilogTransformer.sigsel (verilog.py:69-84): args[0] is a name (string) or the list made by
    concat; args[1], if present, the Python range *)
Inductive sigarg := AName (s : string) (r : option (list Z)) | AConcat (l : list string).
Definition sigsel (a : sigarg) : option sig :=
  match a with
  | AName s (Some rng) => one_or_many (map (bitname s) rng)
  | AName s None => if has_quote s then sized_const s else Some (SOne s)
  | AConcat l => if existsb (String.eqb "'"%string) l then None (* list has no .split *) else Some (SMany l)
  end.

(** ** VerilogTransformer.concat (verilog.py:86-93) *)
Definition concat_step (sigs : list string) (a : sig) : list string :=
  match a with SMany l => sigs ++ l | SOne s => sigs ++ [s] end.
Definition concat (args : list sig) : list string := fold_left concat_step args [].
Definition sig_list (a : sig) : list string := match a with SOne s => [s] | SMany l => l end.

(** ** SignalDeclaration / declaration (verilog.py:18-35, 95-105) *)
Inductive skind := KInput | KOutput | KWire.
Record decl := { d_kind : skind; d_base : string; d_rng : option (list Z) }.
Definition decl_names (d : decl) : list string :=
  match d_rng d with None => [d_base d] | Some r => map (bitname (d_base d)) r end.
Definition declaration (k : skind) (rng : option (list Z)) (names : list string) : list decl :=
  map (fun s => {| d_kind := k; d_base := s; d_rng := rng |}) names.

(** ** Python dict with string keys: insertion-ordered, assignment to an existing key keeps its slot *)
Fixpoint dget {A} (k : string) (m : list (string * A)) : option A :=
  match m with [] => None | (k', v) :: r => if String.eqb k k' then Some v else dget k r end.
Fixpoint dset {A} (k : string) (v : A) (m : list (string * A)) : list (string * A) :=
  match m with
  | [] => [(k, v)]
  | (k', v') :: r => if String.eqb k k' then (k', v) :: r else (k', v') :: dset k v r
  end.

(** pass 0 of module (verilog.py:113-118) *)
Definition is_wire (d : decl) := match d_kind d with KWire => true | _ => false end.
Definition add_decl (m : list (string * decl)) (d : decl) : list (string * decl) :=
  match dget (d_base d) m with
  | None => dset (d_base d) d m
  | Some old => if is_wire old then dset (d_base d) d m else m
  end.
Definition collect_decls (stmts : list (list decl)) : list (string * decl) :=
  fold_left (fun m ds => fold_left add_decl ds m) stmts [].

(** the position table (verilog.py:119-122); KeyError if a port has no declaration *)
Definition pos_step (st : list (string * nat) * nat) (name : string) : list (string * nat) * nat :=
  (dset name (snd st) (fst st), S (snd st)).
Fixpoint port_name_lists (ports : list string) (m : list (string * decl)) : option (list (list string)) :=
  match ports with
  | [] => Some []
  | p :: r => match dget p m, port_name_lists r m with
              | Some d, Some l => Some (decl_names d :: l)
              | _, _ => None
              end
  end.
Definition positions_of (nls : list (list string)) : list (string * nat) :=
  fst (fold_left (fun st names => fold_left pos_step names st) nls ([], 0)).

(** GrowingList.__setitem__ (circuit.py:19-23) *)
Fixpoint set_nth {A} (l : list (option A)) (i : nat) (v : A) : list (option A) :=
  match l, i with
  | [], O => [Some v]
  | [], S i' => None :: set_nth [] i' v
  | _ :: r, O => Some v :: r
  | x :: r, S i' => x :: set_nth r i' v
  end.

(** io_nodes as filled by verilog.py:136-141: one (name, kind) per slot, None where nothing was stored *)
Definition is_io (d : decl) := match d_kind d with KWire => false | _ => true end.
Definition io_items (m : list (string * decl)) : list (string * skind) :=
  flat_map (fun kd => if is_io (snd kd) then map (fun n => (n, d_kind (snd kd))) (decl_names (snd kd)) else []) m.
Definition io_fill (pos : list (string * nat)) (tbl : list (option (string * skind))) (it : string * skind) :=
  match dget (fst it) pos with Some k => set_nth tbl k it | None => tbl end.
Definition io_table (ports : list string) (stmts : list (list decl)) : option (list (option (string * skind))) :=
  let m := collect_decls stmts in
  match port_name_lists ports m with
  | None => None
  | Some nls => Some (fold_left (io_fill (positions_of nls)) (io_items m) [])
  end.

(** ** bench.py: Circuit / Node / Line constructors (circuit.py:45-84, 138-171, 334-335) and
    BenchTransformer (bench.py:16-32) *)
Record bnode := { bn_name : string; bn_kind : string; bn_ins : list (option nat); bn_outs : list (option nat) }.
Record bline := { bl_drv : nat; bl_dpin : nat; bl_rdr : nat; bl_rpin : nat }.
Record bcirc := { bc_nodes : list bnode; bc_lines : list bline; bc_io : list nat }.
Definition bempty := {| bc_nodes := []; bc_lines := []; bc_io := [] |}.
Definition fork_kind : string := "__fork__"%string.
Definition is_fork (n : bnode) := String.eqb (bn_kind n) fork_kind.

(* circuit.forks[name] / circuit.cells[name] as index into nodes *)
Fixpoint find_node_from (i : nat) (fork : bool) (name : string) (l : list bnode) : option nat :=
  match l with
  | [] => None
  | n :: r => if Bool.eqb (is_fork n) fork && String.eqb (bn_name n) name then Some i
              else find_node_from (S i) fork name r
  end.
Definition find_node (c : bcirc) (fork : bool) (name : string) := find_node_from 0 fork name (bc_nodes c).

(* Node(circuit, name, kind): assertion error if the name is taken in its namespace *)
Definition add_node (c : bcirc) (name kind : string) : option (bcirc * nat) :=
  match find_node c (String.eqb kind fork_kind) name with
  | Some _ => None
  | None => Some ({| bc_nodes := bc_nodes c ++ [{| bn_name := name; bn_kind := kind; bn_ins := []; bn_outs := [] |}];
                     bc_lines := bc_lines c; bc_io := bc_io c |}, List.length (bc_nodes c))
  end.
Definition get_or_add_fork (c : bcirc) (name : string) : bcirc * nat :=
  match find_node c true name with
  | Some i => (c, i)
  | None => ({| bc_nodes := bc_nodes c ++ [{| bn_name := name; bn_kind := fork_kind; bn_ins := []; bn_outs := [] |}];
                bc_lines := bc_lines c; bc_io := bc_io c |}, List.length (bc_nodes c))
  end.

(* GrowingList.free_index *)
Fixpoint free_index {A} (l : list (option A)) : nat :=
  match l with [] => 0 | None :: _ => 0 | Some _ :: r => S (free_index r) end.
Fixpoint upd_node (l : list bnode) (i : nat) (f : bnode -> bnode) : list bnode :=
  match l, i with
  | [], _ => []
  | n :: r, O => f n :: r
  | n :: r, S i' => n :: upd_node r i' f
  end.
Definition dnode := {| bn_name := ""%string; bn_kind := ""%string; bn_ins := []; bn_outs := [] |}.
(* Line(circuit, driver, reader) with implicit pins: first free pin of each *)
Definition add_line (c : bcirc) (d r : nat) : bcirc :=
  let li := List.length (bc_lines c) in
  let dpin := free_index (bn_outs (nth d (bc_nodes c) dnode)) in
  let nodes1 := upd_node (bc_nodes c) d (fun n => {| bn_name := bn_name n; bn_kind := bn_kind n; bn_ins := bn_ins n;
                                                      bn_outs := set_nth (bn_outs n) dpin li |}) in
  (* the reader's free pin is looked up before the driver's list is written; for d = r only outs changed *)
  let rpin := free_index (bn_ins (nth r (bc_nodes c) dnode)) in
  let nodes2 := upd_node nodes1 r (fun n => {| bn_name := bn_name n; bn_kind := bn_kind n;
                                                bn_ins := set_nth (bn_ins n) rpin li; bn_outs := bn_outs n |}) in
  {| bc_nodes := nodes2; bc_lines := bc_lines c ++ [{| bl_drv := d; bl_dpin := dpin; bl_rdr := r; bl_rpin := rpin |}];
     bc_io := bc_io c |}.

(* parameters: [get_or_add_fork(name) for name in args] *)
Definition forks_step (st : bcirc * list nat) (name : string) : bcirc * list nat :=
  let '(c', i) := get_or_add_fork (fst st) name in (c', snd st ++ [i]).
Definition forks_of (c : bcirc) (names : list string) : bcirc * list nat := fold_left forks_step names (c, []).

Inductive bstmt := BInterface (names : list string) | BAssign (name kind : string) (drivers : list string).
Definition elab_stmt (c : bcirc) (s : bstmt) : option bcirc :=
  match s with
  | BInterface names =>
      let '(c1, idx) := forks_of c names in
      Some {| bc_nodes := bc_nodes c1; bc_lines := bc_lines c1; bc_io := bc_io c1 ++ idx |}
  | BAssign name kind drivers =>
      let '(c1, ds) := forks_of c drivers in
      match add_node c1 name kind with
      | None => None
      | Some (c2, cell) =>
          let '(c3, f) := get_or_add_fork c2 name in
          Some (fold_left (fun c d => add_line c d cell) ds (add_line c3 cell f))
      end
  end.
Fixpoint elab_bench_from (c : bcirc) (l : list bstmt) : option bcirc :=
  match l with
  | [] => Some c
  | s :: r => match elab_stmt c s with Some c' => elab_bench_from c' r | None => None end
  end.
Definition elab_bench (l : list bstmt) : option bcirc := elab_bench_from bempty l.

(** ** comparison helpers for the correspondence cases (harness/vlog_corr.py) *)
Definition eqb_list {A} (eq : A -> A -> bool) :=
  fix go (a b : list A) : bool :=
    match a, b with [] , [] => true | x :: a', y :: b' => eq x y && go a' b' | _, _ => false end.
Definition eqb_opt {A} (eq : A -> A -> bool) (a b : option A) : bool :=
  match a, b with None, None => true | Some x, Some y => eq x y | _, _ => false end.
Definition sig_eqb (a b : sig) : bool :=
  match a, b with
  | SOne x, SOne y => String.eqb x y
  | SMany x, SMany y => eqb_list String.eqb x y
  | _, _ => false
  end.
Definition skind_eqb (a b : skind) : bool :=
  match a, b with KInput, KInput | KOutput, KOutput | KWire, KWire => true | _, _ => false end.

Definition range_case (l : Z) (r : option Z) (got : list Z) : bool := eqb_list Z.eqb (vrange l r) got.
Definition sigsel_case (a : sigarg) (got : option sig) : bool := eqb_opt sig_eqb (sigsel a) got.
Definition concat_case (args : list sig) (got : list string) : bool := eqb_list String.eqb (concat args) got.
Definition names_case (d : decl) (got : list string) : bool := eqb_list String.eqb (decl_names d) got.
Definition io_case (ports : list string) (stmts : list (list decl)) (got : option (list (option (string * skind)))) : bool :=
  eqb_opt (eqb_list (eqb_opt (fun a b => String.eqb (fst a) (fst b) && skind_eqb (snd a) (snd b)))) (io_table ports stmts) got.

Definition bench_view := (list (string * string) * list (nat * nat * nat * nat) * list nat)%type.
Definition view_of (c : bcirc) : bench_view :=
  (map (fun n => (bn_name n, bn_kind n)) (bc_nodes c),
   map (fun l => (bl_drv l, bl_dpin l, bl_rdr l, bl_rpin l)) (bc_lines c), bc_io c).
Definition pins_ok (c : bcirc) : bool :=
  (* every line is referenced from the pin lists it claims *)
  forallb (fun il => let '(i, l) := il in
     match nth (bl_dpin l) (bn_outs (nth (bl_drv l) (bc_nodes c) dnode)) None,
           nth (bl_rpin l) (bn_ins (nth (bl_rdr l) (bc_nodes c) dnode)) None with
     | Some a, Some b => Nat.eqb a i && Nat.eqb b i | _, _ => false end)
    (combine (seq 0 (List.length (bc_lines c))) (bc_lines c)).
Definition view_eqb (a b : bench_view) : bool :=
  let '(n1, l1, i1) := a in let '(n2, l2, i2) := b in
  eqb_list (fun x y => String.eqb (fst x) (fst y) && String.eqb (snd x) (snd y)) n1 n2 &&
  eqb_list (fun x y => let '(a1, b1, c1, d1) := x in let '(a2, b2, c2, d2) := y in
                       Nat.eqb a1 a2 && Nat.eqb b1 b2 && Nat.eqb c1 c2 && Nat.eqb d1 d2) l1 l2 &&
  eqb_list Nat.eqb i1 i2.
Definition bench_case (l : list bstmt) (got : option bench_view) : bool :=
  match elab_bench l, got with
  | None, None => true
  | Some c, Some v => view_eqb (view_of c) v && pins_ok c
  | _, _ => false
  end.
