(** Correspondence cases for C15: (input, what the implementation produced) compared with Model/Encodings.v. *)
From Coq Require Import List ZArith NArith Bool Arith.
From KV Require Import Model.Encodings Model.Corr Gen.LogicTables.
Import ListNotations.
Local Open Scope list_scope.

Fixpoint list_eqb {A} (e : A -> A -> bool) (a b : list A) : bool :=
  match a, b with
  | [], [] => true
  | x :: a', y :: b' => e x y && list_eqb e a' b'
  | _, _ => false
  end.
Fixpoint tr_eqb (a b : tr) : bool :=
  match a, b with
  | Lf x, Lf y => x =? y
  | Nd l, Nd m => (fix go (l m : list tr) : bool :=
                     match l, m with
                     | [], [] => true
                     | x :: l', y :: m' => tr_eqb x y && go l' m'
                     | _, _ => false
                     end) l m
  | _, _ => false
  end.
Definition opt_eqb {A} (e : A -> A -> bool) (a b : option A) : bool :=
  match a, b with Some x, Some y => e x y | None, None => true | _, _ => false end.
Fixpoint tens_eqb {A} (n : nat) (e : A -> A -> bool) : tens A n -> tens A n -> bool :=
  match n with 0 => e | S n' => list_eqb (tens_eqb n' e) end.
Definition shtr_eqb (a b : list nat * tr) : bool := list_eqb Nat.eqb (fst a) (fst b) && tr_eqb (snd a) (snd b).
Definition mat_eqb : mat -> mat -> bool := list_eqb (list_eqb Nat.eqb).
Definition bpmat_eqb : bpmat -> bpmat -> bool := list_eqb (list_eqb (list_eqb Nat.eqb)).

Inductive enc_case :=
| CInterp (v : pv) (r : tr)
| CMvarray (a : list pv) (r : option (list nat * tr))
| CMvStr (sh : list nat) (t : tr) (delim : list N) (r : option (list N))
| CMvToBp1 (v : list nat) (r : bpmat)
| CMvToBp (n : nat) (x : tens mat n) (r : tens bpmat n)
| CBpToMv (n : nat) (x : tens bpmat n) (r : tens mat n)
| CShapes (mv bp mv2 : list nat)                  (* mv shape -> bp shape -> shape of bp_to_mv *)
| CBparray (a : list pv) (r : option (list nat * bpmat))
| CUnpack (n : nat) (dt : dtype) (x : tens Z n) (r : tens (list bool) n)
| CPack (n : nat) (dt : dtype) (x : tens (list bool) n) (r : tens (option Z) n)
| CPop (a : list nat) (r : nat).

Definition enc_case_ok (c : enc_case) : bool :=
  match c with
  | CInterp v r => tr_eqb (interpret v) r
  | CMvarray a r => opt_eqb shtr_eqb (mvarray a) r
  | CMvStr sh t d r => opt_eqb (list_eqb N.eqb) (mv_str sh t d) r
  | CMvToBp1 v r => bpmat_eqb (mv_to_bp_vec v) r
  | CMvToBp n x r => tens_eqb n bpmat_eqb (mv_to_bp_nd n x) r
  | CBpToMv n x r => tens_eqb n mat_eqb (bp_to_mv_nd n x) r
  | CShapes mv bp mv2 => list_eqb Nat.eqb (mv_to_bp_shape mv) bp && list_eqb Nat.eqb (bp_to_mv_shape bp) mv2
  | CBparray a r => opt_eqb (fun x y => list_eqb Nat.eqb (fst x) (fst y) && bpmat_eqb (snd x) (snd y)) (bparray a) r
  | CUnpack n dt x r => tens_eqb n (list_eqb Bool.eqb) (tmap n (unpackbits dt) x) r
  | CPack n dt x r => tens_eqb n (opt_eqb Z.eqb) (tmap n (packbits dt) x) r
  | CPop a r => popcount pop_count_lut a =? r
  end.
Definition enc_failing (l : list enc_case) : list nat := failing (map enc_case_ok l).

(** compact notation for generated case files *)
Definition B (l : list nat) : list bool := map (fun x => negb (x =? 0)) l.
Definition S_ (l : list N) : pv := PStr l.
Definition I_ (z : Z) : pv := PAtom (AInt z).
Definition T_ : pv := PAtom (ABool true).
Definition F_ : pv := PAtom (ABool false).
Definition N_ : pv := PAtom ANone.
