(** Line-level switching-activity accumulation, overflow reachability and the vocabulary that relates the
    line-level semantics (Model/WaveOps.v: [wexec]) to the flat waveform memory (Model/WaveSimModel.v: [w_c_prop]).
    Definitions only. *)
From Coq Require Import List ZArith NArith Bool Arith.
From KV Require Import Model.Prims Model.Netlist Model.Heap Model.SimOps Model.Time Model.WaveEval Model.WaveSpec Model.WaveOps
     Model.WaveSimModel Model.Corr.
Import ListNotations.
Local Open Scope list_scope.

Section WaveAcc.
  Variable delays : nat -> dtab.
  Variable cap : nat -> nat.
  (** a_ctrl as SimOps attaches it to the ops: row i = (accumulator index or -1, rise weight, fall weight) of op i *)
  Variable actrl : list (Z * Z * Z).

  (** the evaluation [wop] performs, with everything it returns *)
  Definition wop_res (e : wenv) (o : sop) : option wres :=
    let idxs := [s_i0 o; s_i1 o; s_i2 o; s_i3 o] in
    wave_eval (s_lut o) (map e idxs) (map delays idxs) (repeat MaxInf (cap (s_out o))).
  (** (nrise, nfall) returned by the evaluation of op o in environment e; dropped transitions *)
  Definition wop_counts (e : wenv) (o : sop) : nat * nat :=
    match wop_res e o with Some r => (r_rise r, r_fall r) | None => (0, 0) end.
  Definition wop_dropped (e : wenv) (o : sop) : nat :=
    match wop_res e o with Some r => r_ovf r | None => 0 end.

  Definition actrl_at (i : nat) : Z * Z * Z := nth i actrl ((-1)%Z, 0%Z, 0%Z).
  (** level_eval_cpu: if a_loc >= 0: abuf[a_loc] += nrise*a_wr + nfall*a_wf *)
  Definition acc_add (ab : list Z) (i : nat) (rf : nat * nat) : list Z :=
    let '(ai, wr, wf) := actrl_at i in
    if (0 <=? ai)%Z then addZ_at ab (Z.to_nat ai) (Z.of_nat (fst rf) * wr + Z.of_nat (snd rf) * wf)%Z else ab.

  (** ops i, i+1, ... in order: environment and accumulation buffer afterwards *)
  Fixpoint wacc_from (i : nat) (ops : list sop) (e : wenv) (ab : list Z) : wenv * list Z :=
    match ops with
    | [] => (e, ab)
    | o :: r => wacc_from (S i) r (wstep delays cap e o) (acc_add ab i (wop_counts e o))
    end.
  Definition wacc (ops : list sop) (e : wenv) (ab : list Z) : list Z := snd (wacc_from 0 ops e ab).

  (** what op i contributes to accumulator a if its output waveform has the transition counts rf *)
  Definition weight (i a : nat) (rf : nat * nat) : Z :=
    let '(ai, wr, wf) := actrl_at i in
    if (0 <=? ai)%Z && Nat.eqb (Z.to_nat ai) a then (Z.of_nat (fst rf) * wr + Z.of_nat (snd rf) * wf)%Z else 0%Z.
  Definition zsum (l : list Z) : Z := fold_right Z.add 0%Z l.
  (** weighted transitions of the waveform each op stores AT THE TIME it is evaluated *)
  Fixpoint wsa_running (i : nat) (ops : list sop) (e : wenv) (a : nat) : Z :=
    match ops with
    | [] => 0%Z
    | o :: r => (weight i a (edges (wop delays cap e o)) + wsa_running (S i) r (wstep delays cap e o) a)%Z
    end.
  (** weighted transitions of the waveforms found in a (final) environment *)
  Definition wsa_final (i : nat) (ops : list sop) (ef : wenv) (a : nat) : Z :=
    zsum (map (fun io : nat * sop => weight (fst io) a (edges (ef (s_out (snd io))))) (combine (seq i (List.length ops)) ops)).

  (** every op either is the last writer of its output index or does not accumulate (a_loc < 0): what SimOps builds --
      only the scratch slot of output-less gates is written more than once and its a_ctrl row is -1 *)
  Fixpoint acc_once (i : nat) (ops : list sop) : Prop :=
    match ops with
    | [] => True
    | o :: r => (~ In (s_out o) (map s_out r) \/ (fst (fst (actrl_at i)) < 0)%Z) /\ acc_once (S i) r
    end.
  Fixpoint acc_once_b (i : nat) (ops : list sop) : bool :=
    match ops with
    | [] => true
    | o :: r => (negb (existsb (Nat.eqb (s_out o)) (map s_out r)) || (fst (fst (actrl_at i)) <? 0)%Z) && acc_once_b (S i) r
    end.

  (** overflow reachability: a signal is marked iff the op that produced it dropped a transition or one of its operands
      is marked (transitively: some evaluation in the fan-in dropped a transition, or a marked input reaches it) *)
  Definition ovf_step (e : wenv) (ov : nat -> bool) (o : sop) : nat -> bool :=
    fun j => if Nat.eqb j (s_out o)
             then Nat.ltb 0 (wop_dropped e o) || ov (s_i0 o) || ov (s_i1 o) || ov (s_i2 o) || ov (s_i3 o)
             else ov j.
  Fixpoint ovf_reach (ops : list sop) (e : wenv) (ov : nat -> bool) : nat -> bool :=
    match ops with
    | [] => ov
    | o :: r => ovf_reach r (wstep delays cap e o) (ovf_step e ov o)
    end.
  (** transitions dropped by all evaluations of a run *)
  Fixpoint dropped_total (ops : list sop) (e : wenv) : nat :=
    match ops with
    | [] => 0
    | o :: r => wop_dropped e o + dropped_total r (wstep delays cap e o)
    end.
End WaveAcc.

Definition is_ovl (t : time) : bool := match t with MaxOvl => true | _ => false end.
Definition ovf0 (e : wenv) : nat -> bool := fun k => is_ovl (terminator (e k)).
Definition no_fin (w : list time) : Prop := Forall (fun t => is_fin t = false) w.

(* ------------------------------------------------------------------ *)
(** * Flat memory <-> line level *)

Definition dl_of (delays : list dtab) : nat -> dtab := fun k => nth k delays dzero.
(** the waveform an index holds in the flat memory: its region read up to the terminator *)
Definition env_of (so : simops) (m : wmem) : wenv := fun k => upto_end (operand so m k).

(** One op is compatible with the memory map (P = the indices whose waveforms are tracked): operands and output are
    tracked, the output region lies inside the memory and is disjoint from the region of every OTHER tracked index. *)
Definition op_ok (so : simops) (P : nat -> Prop) (memlen : nat) (o : sop) : Prop :=
  P (s_out o) /\ P (s_i0 o) /\ P (s_i1 o) /\ P (s_i2 o) /\ P (s_i3 o) /\
  exists zl, locZ so (s_out o) = Some zl /\ zl + capN so (s_out o) <= memlen /\
    forall k, P k -> k <> s_out o ->
      match locZ so k with
      | None => True
      | Some l => l + capN so k <= zl \/ zl + capN so (s_out o) <= l
      end.
Definition regions_ok (so : simops) (P : nat -> Prop) (memlen : nat) : Prop :=
  forall o, In o (so_ops so) -> op_ok so P memlen o.

(** executable version for P k := k < n *)
Definition op_ok_b (so : simops) (n memlen : nat) (o : sop) : bool :=
  Nat.ltb (s_out o) n && Nat.ltb (s_i0 o) n && Nat.ltb (s_i1 o) n && Nat.ltb (s_i2 o) n && Nat.ltb (s_i3 o) n &&
  match locZ so (s_out o) with
  | None => false
  | Some zl =>
      Nat.leb (zl + capN so (s_out o)) memlen &&
      forallb (fun k => Nat.eqb k (s_out o) ||
                        match locZ so k with
                        | None => true
                        | Some l => Nat.leb (l + capN so k) zl || Nat.leb (zl + capN so (s_out o)) l
                        end) (seq 0 n)
  end.
Definition regions_ok_b (so : simops) (n memlen : nat) : bool := forallb (op_ok_b so n memlen) (so_ops so).

(** what c_to_s stores for one capture: (init, eat, lst, final, val, ovl) *)
Definition six (p : bool * cap_acc) : bool * time * time * bool * bool * bool :=
  let '(ini, a) := p in (ini, k_eat a, k_lst a, k_fin a, k_val a, k_ovl a).

(** number of tracked indices of a SimOps table: lines, zero/tmp/tmp2, PI/PPI slots (the PPO slots alias lines) *)
Definition n_tracked (so : simops) : nat := so_nlines so + 3 + so_slen so.

(* ------------------------------------------------------------------ *)
(** * Correspondence: the line-level semantics evaluated on what the implementation stored *)

(** the memory c_prop starts from (as in [wsim_case]) *)
Definition wsim_start (so : simops) (s : list (bool * time * bool)) (extra : list (nat * list time)) : wmem :=
  let m0 := repeat MaxInf (N.to_nat (so_len so)) in
  let m1 := w_s_to_c so s m0 in
  fold_left (fun m (e : nat * list time) =>
      match locZ so (so_nlines so + 3 + fst e) with Some l => write_at m l (snd e) | None => m end) extra m1.

(** entry k of the result is true iff comparison k holds:
    0: line-level [wacc] = the implementation's abuf
    1: line-level [wacc] = abuf of the flat-memory model [w_c_prop]
    2: (c_reuse off) every tracked index: [wexec] = the implementation's memory region read up to its terminator
    3: (c_reuse off) [regions_ok_b] holds for the memory map
    4: [acc_once_b]: an op whose output index is written again later does not accumulate *)
Definition wline_case (c : netlist) (caps : list N) (reuse strip : bool) (delays : list dtab) (actrl : list (Z * Z * Z))
           (abuf_len : nat) (s : list (bool * time * bool)) (extra : list (nat * list time))
           (exp_mem : list time) (exp_abuf : list Z) : list bool :=
  match build c caps 4%N reuse strip with
  | None => [false]
  | Some so =>
      let m2 := wsim_start so s extra in
      let e0 := env_of so m2 in
      let ab0 := repeat 0%Z abuf_len in
      let '(ef, abL) := wacc_from (dl_of delays) (capN so) actrl 0 (so_ops so) e0 ab0 in
      [ list_eqb Z.eqb abL exp_abuf;
        match w_c_prop so delays actrl m2 ab0 with Some (_, ab) => list_eqb Z.eqb abL ab | None => false end;
        reuse || forallb (fun k => list_eqb teqb (ef k) (env_of so exp_mem k)) (seq 0 (n_tracked so));
        reuse || regions_ok_b so (n_tracked so) (List.length m2);
        acc_once_b actrl 0 (so_ops so) ]
  end.
Definition wline_ok (l : list bool) : bool := forallb (fun b => b) l.
(** what a cases file prints: 32 * case number + (bit j set iff comparison j fails), for every case with a failing comparison *)
Fixpoint wline_code (l : list bool) : nat := match l with [] => 0 | b :: r => (if b then 0 else 1) + 2 * wline_code r end.
Definition wline_failing (rs : list (list bool)) : list nat :=
  flat_map (fun ir : nat * list bool => if wline_ok (snd ir) then [] else [32 * fst ir + wline_code (snd ir)])
           (combine (seq 0 (List.length rs)) rs).
