(** Model of the elaboration part of kyupy/def_file.py (C20): what the DefTransformer hands to
    [DefWire] / [DefNet] (the parsed routing statement) and what their properties compute from it.

      DefWire.wire_points  ->  [wire_points]     DefWire.vias  ->  [wire_vias]
      DefNet.wires         ->  [net_wires]       DefNet.vias   ->  [net_vias]
      design_stmt (ROW / TRACKS branch)  ->  [row_entry] / [track_entry]
      spnets_stmt / nets_stmt (how '+ ROUTED ...' statements are collected)  ->  [collect_routed]

    Transcribed against the REPAIRED code (finding D7): [wire_points] resolves '*' against the previous
    resolved point (as [vias] always did), a regular wire has width [None] instead of raising, a net
    starts with [routed = []] and several '+ ROUTED' statements accumulate.

    Domain: the first element of a routing statement is a fully specified point (what DEF requires
    and what the grammar rule [points: point (point | via)+] delivers unless the file writes '*' in
    the very first point, which DEF forbids); every later coordinate is [None] for '*'.
    Python ints are unbounded, so coordinates are [Z]; counts come from the unsigned NUMBER token, so [nat].
    The lark grammar / lexer (text -> these values) is NOT modelled. *)
From Coq Require Import List ZArith Bool String Ascii Arith.
Import ListNotations.
Local Open Scope list_scope.
Local Open Scope Z_scope.

(** * Parsed routing statement *)
Inductive vparam : Type :=
| VNone                                   (* special-net via without DO..BY..STEP: the transformer passes None *)
| VOrient (o : string)                    (* regular-net via: orientation, 'N' when the file has none *)
| VArray (n m : nat) (dx dy : Z).         (* special-net via with DO n BY m STEP dx dy *)

Inductive elem : Type :=
| EPt (x y : option Z) (ext : option Z)   (* ( x y [ext] ), None = '*' *)
| EVia (name : string) (p : vparam).

Definition pt := (Z * Z * option Z)%type.      (* resolved point; third component = optional extension value *)
Definition px (p : pt) : Z := fst (fst p).
Definition py (p : pt) : Z := snd (fst p).
Definition pext (p : pt) : option Z := snd p.
Definition pxy (p : pt) : Z * Z := fst p.

Record wire := mkWire { w_layer : string; w_width : option Z; w_first : pt; w_rest : list elem }.

Definition or_else (o : option Z) (d : Z) : Z := match o with Some v => v | None => d end.

(** * collections.defaultdict(list), insertion-ordered like every Python dict *)
Definition dd (A : Type) := list (string * list A).
Fixpoint dd_append {A} (k : string) (v : A) (d : dd A) : dd A :=     (* d[k].append(v) *)
  match d with
  | [] => [(k, [v])]
  | (k', l) :: r => if String.eqb k k' then (k', l ++ [v]) :: r else (k', l) :: dd_append k v r
  end.
Fixpoint dd_extend {A} (k : string) (vs : list A) (d : dd A) : dd A := (* d[k].extend(vs): creates the key even for [] *)
  match d with
  | [] => [(k, vs)]
  | (k', l) :: r => if String.eqb k k' then (k', l ++ vs) :: r else (k', l) :: dd_extend k vs r
  end.
Fixpoint dd_get {A} (k : string) (d : dd A) : list A :=              (* d[k] (empty list when missing) *)
  match d with
  | [] => []
  | (k', l) :: r => if String.eqb k k' then l else dd_get k r
  end.
Definition dd_keys {A} (d : dd A) : list string := map fst d.

(** * DefWire.wire_points (repaired)

      pts = [self.points[0]]
      for p in self.points[1:]:
          if isinstance(p[0], str): continue
          prev = pts[-1]
          pts.append((prev[0] if p[0] is None else p[0], prev[1] if p[1] is None else p[1]) + tuple(p[2:]))
      return pts if len(pts) > 1 else []                                                              *)
Definition resolve1 (prev : pt) (x y ext : option Z) : pt := (or_else x (px prev), or_else y (py prev), ext).
Definition wp_step (pts : list pt) (e : elem) : list pt :=
  match e with
  | EVia _ _ => pts
  | EPt x y ext => pts ++ [resolve1 (last pts (0, 0, None)) x y ext]
  end.
Definition wire_points_loop (w : wire) : list pt := fold_left wp_step (w_rest w) [w_first w].
Definition wire_points (w : wire) : list pt :=
  let pts := wire_points_loop w in if (1 <? List.length pts)%nat then pts else [].

(** * DefWire.vias

      loc = self.points[0]
      for p in self.points[1:]:
          if not isinstance(p[0], str): loc = (loc[0] if p[0] is None else p[0], loc[1] if p[1] is None else p[1]); continue
          vtype, param = p
          if isinstance(param, tuple):
              x_cnt, y_cnt, x_sp, y_sp = param
              [vv[vtype].append((loc[0] + x*x_sp, loc[1] + y*y_sp, 'N')) for x in range(x_cnt) for y in range(y_cnt)]
          else: vv[vtype].append((loc[0], loc[1], param or 'N'))                                       *)
Definition vplace := (Z * Z * string)%type.
Definition expand_array (x y : Z) (n m : nat) (dx dy : Z) : list vplace :=
  flat_map (fun i => map (fun j => (x + Z.of_nat i * dx, y + Z.of_nat j * dy, "N"%string)) (seq 0 m)) (seq 0 n).
Definition place (loc : Z * Z) (p : vparam) : list vplace :=
  match p with
  | VNone => [(fst loc, snd loc, "N"%string)]
  | VOrient o => [(fst loc, snd loc, if String.eqb o "" then "N"%string else o)]      (* param or 'N' *)
  | VArray n m dx dy => expand_array (fst loc) (snd loc) n m dx dy
  end.
Definition wv_step (st : (Z * Z) * dd vplace) (e : elem) : (Z * Z) * dd vplace :=
  let '(loc, vv) := st in
  match e with
  | EPt x y _ => ((or_else x (fst loc), or_else y (snd loc)), vv)
  | EVia nm p => (loc, fold_left (fun d v => dd_append nm v d) (place loc p) vv)
  end.
Definition wire_vias (w : wire) : dd vplace := snd (fold_left wv_step (w_rest w) (pxy (w_first w), [])).

(** * DefNet.wires (repaired: width None for regular wires) and DefNet.vias

      [ww[dw.layer].append((None if dw.width is None else int(dw.width), dw.wire_points)) for dw in self.routed if len(dw.wire_points) > 0]
      [vv[vtype].extend(locs) for dw in self.routed for vtype, locs in dw.vias.items()]                *)
Definition wseg := (option Z * list pt)%type.
Definition nw_step (d : dd wseg) (w : wire) : dd wseg :=
  match wire_points w with [] => d | ps => dd_append (w_layer w) (w_width w, ps) d end.
Definition net_wires (ws : list wire) : dd wseg := fold_left nw_step ws [].
Definition nv_step (d : dd vplace) (w : wire) : dd vplace :=
  fold_left (fun d' kv => dd_extend (fst kv) (snd kv) d') (wire_vias w) d.
Definition net_vias (ws : list wire) : dd vplace := fold_left nv_step ws [].

(** * spnets_stmt / nets_stmt (repaired): the wires of all '+ ROUTED' statements of a net, in file order;
      other wiring keywords (cover / fixed / noshield) go to their own attribute *)
Definition collect (kw : string) (stmts : list (string * list wire)) : list wire :=
  flat_map (fun s => if String.eqb (fst s) kw then snd s else []) stmts.
Definition collect_routed := collect "routed".

(** * design_stmt, ROW and TRACKS branches
      rows.append((name, site, (int x, int y), orient, max(n, m), max(dx, dy)));  tracks.append((dir, start, num, step, layer)) *)
Definition row_entry (n m dx dy : Z) : Z * Z := (Z.max n m, Z.max dx dy).
Definition def_row := (string * string * (Z * Z) * string * Z * Z)%type.
Definition row_tuple (name site : string) (x y : Z) (orient : string) (n m dx dy : Z) : def_row :=
  (name, site, (x, y), orient, fst (row_entry n m dx dy), snd (row_entry n m dx dy)).
Definition def_track := (string * Z * Z * Z * string)%type.
Definition track_entry (dir : string) (start num step : Z) (layer : string) : def_track := (dir, start, num, step, layer).

(** * Comparison helpers for the correspondence cases (what the implementation returned, as plain data) *)
Fixpoint dl_eqb {A} (eqb : A -> A -> bool) (a b : list A) : bool :=
  match a, b with
  | [], [] => true
  | x :: a', y :: b' => eqb x y && dl_eqb eqb a' b'
  | _, _ => false
  end.
Definition oz_eqb (a b : option Z) : bool :=
  match a, b with Some x, Some y => Z.eqb x y | None, None => true | _, _ => false end.
Definition pt_eqb (a b : pt) : bool := Z.eqb (px a) (px b) && Z.eqb (py a) (py b) && oz_eqb (pext a) (pext b).
Definition vplace_eqb (a b : vplace) : bool :=
  Z.eqb (fst (fst a)) (fst (fst b)) && Z.eqb (snd (fst a)) (snd (fst b)) && String.eqb (snd a) (snd b).
Definition dd_eqb {A} (eqb : A -> A -> bool) (a b : dd A) : bool :=
  dl_eqb (fun p q => String.eqb (fst p) (fst q) && dl_eqb eqb (snd p) (snd q)) a b.
Definition wseg_eqb (a b : wseg) : bool := oz_eqb (fst a) (fst b) && dl_eqb pt_eqb (snd a) (snd b).

(* one wire: .wire_points and list(.vias.items()) *)
Definition defwire_case (w : wire) (exp_pts : list pt) (exp_vias : dd vplace) : bool :=
  dl_eqb pt_eqb (wire_points w) exp_pts && dd_eqb vplace_eqb (wire_vias w) exp_vias.
(* one net, given as its wiring statements in file order: list(.wires.items()), list(.vias.items());
   None = the implementation raised (the repaired code never does) *)
Definition defnet_case (stmts : list (string * list wire)) (exp_wires : option (dd wseg)) (exp_vias : option (dd vplace)) : bool :=
  let ws := collect_routed stmts in
  match exp_wires, exp_vias with
  | Some ew, Some ev => dd_eqb wseg_eqb (net_wires ws) ew && dd_eqb vplace_eqb (net_vias ws) ev
  | _, _ => false
  end.
Definition row_eqb (a b : def_row) : bool :=
  let '(n1, s1, (x1, y1), o1, c1, w1) := a in let '(n2, s2, (x2, y2), o2, c2, w2) := b in
  String.eqb n1 n2 && String.eqb s1 s2 && Z.eqb x1 x2 && Z.eqb y1 y2 && String.eqb o1 o2 && Z.eqb c1 c2 && Z.eqb w1 w2.
Definition defrow_case (name site : string) (x y : Z) (orient : string) (n m dx dy : Z) (exp : def_row) : bool :=
  row_eqb (row_tuple name site x y orient n m dx dy) exp.
Definition track_eqb (a b : def_track) : bool :=
  let '(d1, s1, n1, p1, l1) := a in let '(d2, s2, n2, p2, l2) := b in
  String.eqb d1 d2 && Z.eqb s1 s2 && Z.eqb n1 n2 && Z.eqb p1 p2 && String.eqb l1 l2.
Definition deftrack_case (dir : string) (start num step : Z) (layer : string) (exp : def_track) : bool :=
  track_eqb (track_entry dir start num step layer) exp.
