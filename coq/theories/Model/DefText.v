(** TEXT level of the DEF front end (C20): an executable transcription of what
    `Lark(def_file.GRAMMAR, parser="lalr")` (lark 0.12, contextual lexer) accepts and of the parse tree it builds
    (Model/DefElab.v [tree]), for texts of code points < 256 (one Coq [ascii] per code point).

    How lark reads a DEF text (determined by running it; harness/def_text.py keeps the probes):
    * The lexer is CONTEXTUAL: the token at the current position is found with a scanner that contains only the terminals
      the LALR parser can use in the state reached after the PREVIOUS token ([accept sets] below, one per LALR state
      entered by a terminal; look-ahead sets are the merged LALR(1) ones, e.g. after the ")" of ANY point the scanner is
      the one of routing points).  A scanner tries, in this order: ORIENTATION (priority 2), SIGNED_NUMBER, NUMBER, STRING,
      ID, the comment terminal, then the keywords, longest first; the first that matches wins (not the longest match).
    * ID = /[^ \t\f\r\n+][^ \t\f\r\n]*/ takes a MAXIMAL run of non-blank characters.  Anonymous string tokens ("(", ";",
      "NEW", "DO") that the same scanner accepts are not scanned for: an ID whose WHOLE text equals one of them is retyped.
      Hence `( 10 20 )` needs its blanks inside routing statements (`(10` is a via name), `N;` is an ID, and a via cannot be
      called NEW.  In states that do not accept ID, keywords are matched as prefixes: `ENDDESIGN`, `(10 20)`, `100;` work.
    * ignored text: ONE blank [ \t\f\r\n] optionally followed by `#` up to the end of the line -- a comment is recognised
      only directly after a blank.  ORIENTATION = /F?[NWES]/ followed by one blank, which becomes part of the token:
      `via N #c` is not a comment.  A text may START with a comment without a blank (token of the start rule).
    * NUMBER (common.NUMBER: FLOAT | INT), SIGNED_NUMBER, STRING ("..." up to the first quote preceded by an even number of
      backslashes) are regular expressions; their matches are computed by [match_number] / [match_string].
    [None] = lark raises (UnexpectedCharacters / UnexpectedToken). *)
From Coq Require Import List NArith ZArith Bool String Ascii Arith.
From KV Require Import Model.DefRoute Model.DefElab.
Import ListNotations.
Local Open Scope list_scope.
Local Open Scope string_scope.

(** * characters and regular-expression terminals *)
Definition is_ws (c : ascii) : bool :=
  match N_of_ascii c with 9%N | 10%N | 12%N | 13%N | 32%N => true | _ => false end.
Definition is_nl (c : ascii) : bool := N.eqb (N_of_ascii c) 10.
Definition ch (c : ascii) : string := String c EmptyString.

(* (longest prefix of characters satisfying p, rest) *)
Fixpoint span (p : ascii -> bool) (s : string) : string * string :=
  match s with
  | EmptyString => (EmptyString, EmptyString)
  | String c r => if p c then let '(a, b) := span p r in (String c a, b) else (EmptyString, s)
  end.
Fixpoint strip_prefix (k s : string) : option string :=
  match k with
  | EmptyString => Some s
  | String a k' => match s with String b s' => if Ascii.eqb a b then strip_prefix k' s' else None | EmptyString => None end
  end.

(* [eE][+-]?[0-9]+ , optional *)
Definition is_e (c : ascii) : bool := Ascii.eqb c "e" || Ascii.eqb c "E".
Definition is_sign (c : ascii) : bool := Ascii.eqb c "+" || Ascii.eqb c "-".
Definition match_exp (s : string) : option (string * string) :=
  match s with
  | String e r =>
      if is_e e then
        match r with
        | String sg r' =>
            if is_sign sg then
              match span is_digit r' with
              | (EmptyString, _) => None
              | (ds, r'') => Some (String e (String sg ds), r'')
              end
            else match span is_digit r with (EmptyString, _) => None | (ds, r'') => Some (String e ds, r'') end
        | EmptyString => None
        end
      else None
  | EmptyString => None
  end.
Definition opt_exp (pre s : string) : string * string :=
  match match_exp s with Some (e, r) => (pre ++ e, r) | None => (pre, s) end.
(* common.NUMBER:  INT EXP | (INT "." INT? | "." INT) EXP? | INT   (first alternative that matches) *)
Definition match_number (s : string) : option (string * string) :=
  match span is_digit s with
  | (EmptyString, _) =>
      match s with
      | String "." r => match span is_digit r with (EmptyString, _) => None | (fs, r') => Some (opt_exp (String "." fs) r') end
      | _ => None
      end
  | (ds, r) =>
      match match_exp r with
      | Some (e, r') => Some (ds ++ e, r')
      | None =>
          match r with
          | String "." r1 => let '(fs, r2) := span is_digit r1 in Some (opt_exp (ds ++ String "." fs) r2)
          | _ => Some (ds, r)
          end
      end
  end.
(* common.SIGNED_NUMBER: ["+"|"-"] NUMBER *)
Definition match_signed (s : string) : option (string * string) :=
  match s with
  | String c r => if is_sign c then match match_number r with Some (v, r') => Some (String c v, r') | None => None end
                  else match_number s
  | EmptyString => None
  end.
(* STRING: "\"" /.*?/s /(?<!\\)(\\\\)*?/ "\"": up to the first quote preceded by an even number of backslashes *)
Fixpoint string_body (even : bool) (s : string) : option (string * string) :=
  match s with
  | EmptyString => None
  | String c r =>
      if Ascii.eqb c """" && even then Some (ch c, r)
      else match string_body (if Ascii.eqb c "\" then negb even else true) r with
           | Some (b, r') => Some (String c b, r')
           | None => None
           end
  end.
Definition match_string (s : string) : option (string * string) :=
  match s with
  | String """" r => match string_body true r with Some (b, r') => Some (String """" b, r') | None => None end
  | _ => None
  end.
(* ORIENTATION.2: /F?[NWES]/ WS  -- the value returned is without the blank (see Model/DefElab.v) *)
Definition is_nwes (c : ascii) : bool := Ascii.eqb c "N" || Ascii.eqb c "W" || Ascii.eqb c "E" || Ascii.eqb c "S".
Definition match_orient (s : string) : option (string * string) :=
  match s with
  | String a (String b r) =>
      if is_nwes a && is_ws b then Some (ch a, r)
      else if Ascii.eqb a "F" && is_nwes b then
        match r with String c r' => if is_ws c then Some (String a (ch b), r') else None | EmptyString => None end
      else None
  | _ => None
  end.
(* ID: /[^ \t\f\r\n+][^ \t\f\r\n]*/ *)
Definition match_id (s : string) : option (string * string) :=
  match s with
  | String c _ => if is_ws c || Ascii.eqb c "+" then None else Some (span (fun x => negb (is_ws x)) s)
  | EmptyString => None
  end.
(* /#[^\n]*/ *)
Definition match_comment (s : string) : option (string * string) :=
  match s with String "#" r => let '(b, r') := span (fun x => negb (is_nl x)) r in Some (String "#" b, r') | _ => None end.

(** * terminals, accept sets, scanners *)
Inductive term :=
| TmId | TmNumber | TmSigned | TmString | TmOrient | TmComment
| TmS (k : string)      (* anonymous string token "k" (filtered out of the tree; embedded in ID where both are accepted) *)
| TmR (k : string).     (* regular-expression literal /k/ with a fixed text (kept in the tree); /\*/ and the two texts of /[XY]/ *)
Inductive tok :=
| KEof | KKw (k : string) | KId (v : string) | KNum (v : string) | KStr (v : string) | KOrient (v : string) | KComment (v : string).

Definition has (t : term) (acc : list term) : bool :=
  existsb (fun x => match x, t with
                    | TmId, TmId | TmNumber, TmNumber | TmSigned, TmSigned | TmString, TmString | TmOrient, TmOrient | TmComment, TmComment => true
                    | _, _ => false end) acc.
Definition kw_text (t : term) : option string := match t with TmS k | TmR k => Some k | _ => None end.
(* the string tokens an ID is retyped to: those of the accept set that the ID expression matches completely (all but "+") *)
Definition embedded (acc : list term) : list string :=
  if has TmId acc then flat_map (fun t => match t with TmS k => match match_id k with Some (_, EmptyString) => [k] | _ => [] end | _ => [] end) acc
  else [].
(* the keywords scanned for, with the scanner's order: longest first *)
Definition scanned (acc : list term) : list string :=
  flat_map (fun t => match t with
                     | TmR k => [k]
                     | TmS k => if has TmId acc then match match_id k with Some (_, EmptyString) => [] | _ => [k] end else [k]
                     | _ => [] end) acc.
Fixpoint best_kw (ks : list string) (s : string) (best : option (string * string)) : option (string * string) :=
  match ks with
  | [] => best
  | k :: r =>
      match strip_prefix k s with
      | Some rest =>
          best_kw r s (match best with
                       | Some (k0, _) => if Nat.ltb (String.length k0) (String.length k) then Some (k, rest) else best
                       | None => Some (k, rest)
                       end)
      | None => best_kw r s best
      end
  end.
Definition mem_str (k : string) (l : list string) : bool := existsb (String.eqb k) l.

Definition try_t {A} (b : bool) (m : option (string * string)) (f : string -> tok) (k : option (tok * string)) (_ : A) : option (tok * string) :=
  if b then match m with Some (v, r) => Some (f v, r) | None => k end else k.
(* Scanner.match at a position that does not start with a blank *)
Definition scan (acc : list term) (s : string) : option (tok * string) :=
  match (if has TmOrient acc then match_orient s else None) with Some (v, r) => Some (KOrient v, r) | None =>
  match (if has TmSigned acc then match_signed s else None) with Some (v, r) => Some (KNum v, r) | None =>
  match (if has TmNumber acc then match_number s else None) with Some (v, r) => Some (KNum v, r) | None =>
  match (if has TmString acc then match_string s else None) with Some (v, r) => Some (KStr v, r) | None =>
  match (if has TmId acc then match_id s else None) with
  | Some (v, r) => Some (if mem_str v (embedded acc) then KKw v else KId v, r)
  | None =>
  match (if has TmComment acc then match_comment s else None) with Some (v, r) => Some (KComment v, r) | None =>
  match best_kw (scanned acc) s None with Some (k, r) => Some (KKw k, r) | None => None end
  end end end end end end.

(* %ignore WS (/#[^\n]*/)? : one blank, optionally followed by a comment; repeated *)
Inductive smode := MTok | MAfterWs | MComment.
Fixpoint skip_go (m : smode) (s : string) : string :=
  match s with
  | EmptyString => EmptyString
  | String c r =>
      match m with
      | MTok => if is_ws c then skip_go MAfterWs r else s
      | MAfterWs => if Ascii.eqb c "#" then skip_go MComment r else if is_ws c then skip_go MAfterWs r else s
      | MComment => if is_nl c then skip_go MAfterWs r else skip_go MComment r
      end
  end.
(* TraditionalLexer.next_token with the scanner of the accept set: ignored text, then one token; $END at the end *)
Definition next_token (acc : list term) (s : string) : option (tok * string) :=
  match skip_go MTok s with
  | EmptyString => Some (KEof, EmptyString)
  | s' => scan acc s'
  end.

(** * accept sets of the LALR states entered by a terminal (parse table of lark for def_file.GRAMMAR) *)
Definition A_start := [TmComment; TmR "BUSBITCHARS"; TmR "DIVIDERCHAR"; TmR "VERSION"; TmS "DESIGN"].
Definition A_file := [TmR "BUSBITCHARS"; TmR "DIVIDERCHAR"; TmR "VERSION"; TmS "DESIGN"].
Definition A_design := [TmR "DIEAREA"; TmR "ROW"; TmR "TRACKS"; TmR "UNITS"; TmS "COMPONENTS"; TmS "END"; TmS "NETS"; TmS "NONDEFAULTRULES";
                        TmS "PINPROPERTIES"; TmS "PINS"; TmS "PROPERTYDEFINITIONS"; TmS "SPECIALNETS"; TmS "VIAS"].
Definition A_id := [TmId].
Definition A_number := [TmNumber].
Definition A_numsig := [TmNumber; TmSigned].
Definition A_string := [TmString].
Definition A_s (k : string) := [TmS k].
Definition A_semi := A_s ";".
Definition A_lpar := A_s "(".
Definition A_rpar := A_s ")".
Definition A_end_minus := [TmS "END"; TmS "-"].
Definition A_plus_semi := [TmS "+"; TmS ";"].
Definition A_lps := [TmS "("; TmS "+"; TmS ";"].
Definition A_lpar_plus := [TmS "("; TmS "+"].
Definition A_pt1 := [TmR "*"; TmNumber].
Definition A_pt2 := [TmNumber; TmS ")"].
Definition A_pt_end := [TmId; TmS "("; TmS "NEW"; TmS "+"; TmS ";"].
Definition A_via_r := [TmId; TmS "("; TmS "NEW"; TmOrient; TmS "+"; TmS ";"].
Definition A_via_s := [TmS "DO"; TmId; TmS "("; TmS "NEW"; TmS "+"; TmS ";"].
Definition A_xy := [TmR "X"; TmR "Y"].
Definition A_propdef := [TmR "COMPONENTPIN"; TmS "END"].
Definition A_viasopt := [TmR "CUTSIZE"; TmR "CUTSPACING"; TmR "ENCLOSURE"; TmR "LAYERS"; TmR "PATTERN"; TmR "ROWCOL"; TmR "VIARULE"].
Definition A_nondefopt := [TmR "HARDSPACING"; TmR "LAYER"; TmR "VIA"].
Definition A_pinsopt := [TmR "DIRECTION"; TmR "LAYER"; TmR "NET"; TmR "PLACED"; TmR "PORT"; TmR "SPECIAL"; TmR "USE"].
Definition A_netopt := [TmR "COVER"; TmR "FIXED"; TmR "NONDEFAULTRULE"; TmR "NOSHIELD"; TmR "ROUTED"; TmR "USE"].
Definition A_spnetopt := [TmR "COVER"; TmR "FIXED"; TmR "NONDEFAULTRULE"; TmR "ROUTED"; TmR "USE"].
Definition A_spwireopt := [TmR "SHAPE"; TmR "STYLE"].
Definition A_wireopt := [TmS "("; TmS "STYLE"; TmS "TAPER"; TmS "TAPERRULE"].
Definition A_lpar_style := [TmS "("; TmS "STYLE"].

(** * the parser: recursive descent with one token of look-ahead, written as a program that only ASKS for tokens
      ([Next acc k]: "lex the next token with the scanner of accept set [acc], continue with [k]"); every request names the
      accept set of the LALR state the previous token led to.  [run] executes such a program on a text.
      Conventions: a parser [p_xxx] starts after the token that selected it; parsers that end in a loop return the
      look-ahead token they stopped at. *)
Inductive P (A : Type) : Type :=
| Ret (a : A)
| Fail
| Next (acc : list term) (k : tok -> P A).
Arguments Ret {A}. Arguments Fail {A}. Arguments Next {A}.
Fixpoint pbind {A B} (p : P A) (f : A -> P B) : P B :=
  match p with
  | Ret a => f a
  | Fail => Fail
  | Next acc k => Next acc (fun t => pbind (k t) f)
  end.
Fixpoint run {A} (p : P A) (s : string) : option (A * string) :=
  match p with
  | Ret a => Some (a, s)
  | Fail => None
  | Next acc k => match next_token acc s with Some (t, s') => run (k t) s' | None => None end
  end.
Notation "x <- e ;; f" := (pbind e (fun x => f)) (at level 61, e at next level, right associativity).
Notation "' p <- e ;; f" := (pbind e (fun p => f)) (at level 61, p pattern, e at next level, right associativity).

Definition tk (acc : list term) : P tok := Next acc Ret.
Definition is_kw (t : tok) (k : string) : bool := match t with KKw k' => String.eqb k k' | _ => false end.
Definition get_id : P string := Next A_id (fun t => match t with KId v => Ret v | _ => Fail end).
Definition get_num (acc : list term) : P string := Next acc (fun t => match t with KNum v => Ret v | _ => Fail end).
Definition get_str : P string := Next A_string (fun t => match t with KStr v => Ret v | _ => Fail end).
Definition expect (acc : list term) (k : string) : P unit := Next acc (fun t => if is_kw t k then Ret tt else Fail).
Definition expect_s (k : string) : P unit := expect (A_s k) k.

(* point: after "(" *)
Definition p_coord : P coord :=
  Next A_pt1 (fun t => match t with KNum v => Ret (CNum v) | KKw k => if String.eqb k "*" then Ret CStar else Fail | _ => Fail end).
Definition p_point : P tpoint :=
  x <- p_coord ;;
  y <- p_coord ;;
  Next A_pt2 (fun t => match t with
                       | KNum z => _ <- expect A_rpar ")" ;; Ret (mkTP x y (Some z))
                       | KKw k => if String.eqb k ")" then Ret (mkTP x y None) else Fail
                       | _ => Fail
                       end).
(* do_step: after "DO" *)
Definition p_do_step : P tdostep :=
  n <- get_num A_number ;;
  _ <- expect_s "BY" ;;
  m <- get_num A_number ;;
  _ <- expect_s "STEP" ;;
  dx <- get_num A_numsig ;;
  dy <- get_num A_numsig ;;
  Ret (mkDS n m dx dy).

(* ( point | points_via )* with look-ahead [t] (lexed with the scanner of routing points); stops at the first other token *)
Fixpoint p_relems (fuel : nat) (t : tok) : P (list relem * tok) :=
  match fuel with
  | O => Fail
  | S f =>
      if is_kw t "(" then
        p <- p_point ;;
        t' <- tk A_pt_end ;;
        '(es, t'') <- p_relems f t' ;;
        Ret (RPoint p :: es, t'')
      else
      match t with
      | KId nm =>
          t1 <- tk A_via_r ;;
          match t1 with
          | KOrient o =>
              t' <- tk A_pt_end ;;
              '(es, t'') <- p_relems f t' ;;
              Ret (RVia nm (Some o) :: es, t'')
          | _ =>
              '(es, t'') <- p_relems f t1 ;;
              Ret (RVia nm None :: es, t'')
          end
      | _ => Ret ([], t)
      end
  end.
Fixpoint p_spelems (fuel : nat) (t : tok) : P (list spelem * tok) :=
  match fuel with
  | O => Fail
  | S f =>
      if is_kw t "(" then
        p <- p_point ;;
        t' <- tk A_pt_end ;;
        '(es, t'') <- p_spelems f t' ;;
        Ret (SPPoint p :: es, t'')
      else
      match t with
      | KId nm =>
          t1 <- tk A_via_s ;;
          if is_kw t1 "DO" then
            d <- p_do_step ;;
            t' <- tk A_pt_end ;;
            '(es, t'') <- p_spelems f t' ;;
            Ret (SPVia nm (Some d) :: es, t'')
          else
            '(es, t'') <- p_spelems f t1 ;;
            Ret (SPVia nm None :: es, t'')
      | _ => Ret ([], t)
      end
  end.

(* wire: ID wire_opt points;  starts at the layer name; returns the look-ahead after the points *)
Definition p_wire_opt : P (list string * tok) :=
  t <- tk A_wireopt ;;
  '(ids, t1) <-
    (if is_kw t "TAPER" then t' <- tk A_lpar_style ;; Ret ([], t')
     else if is_kw t "TAPERRULE" then v <- get_id ;; t' <- tk A_lpar_style ;; Ret ([v], t')
     else Ret ([], t)) ;;
  if is_kw t1 "STYLE" then v <- get_id ;; t2 <- tk A_lpar ;; Ret ((ids ++ [v])%list, t2)
  else Ret (ids, t1).
Definition p_rwire (fuel : nat) : P (rwire * tok) :=
  layer <- get_id ;;
  '(ids, t) <- p_wire_opt ;;
  if is_kw t "(" then
    p <- p_point ;;
    t' <- tk A_pt_end ;;
    '(es, t'') <- p_relems fuel t' ;;
    match es with [] => Fail | _ => Ret (mkRW layer ids p es, t'') end
  else Fail.
(* spwire: ID NUMBER spwire_opt* sppoints *)
Fixpoint p_spwire_opts (fuel : nat) (t : tok) : P (list spw_opt * tok) :=
  match fuel with
  | O => Fail
  | S f =>
      if is_kw t "+" then
        k <- tk A_spwireopt ;;
        v <- get_id ;;
        t' <- tk A_lpar_plus ;;
        '(os, t'') <- p_spwire_opts f t' ;;
        if is_kw k "SHAPE" then Ret (SWShape v :: os, t'')
        else if is_kw k "STYLE" then Ret (SWStyle v :: os, t'')
        else Fail
      else Ret ([], t)
  end.
Definition p_spwire (fuel : nat) : P (spwire * tok) :=
  layer <- get_id ;;
  width <- get_num A_number ;;
  t0 <- tk A_lpar_plus ;;
  '(os, t) <- p_spwire_opts fuel t0 ;;
  if is_kw t "(" then
    p <- p_point ;;
    t' <- tk A_pt_end ;;
    '(es, t'') <- p_spelems fuel t' ;;
    match es with [] => Fail | _ => Ret (mkSW layer width os p es, t'') end
  else Fail.
(* wire ( "NEW" wire )* *)
Fixpoint p_more_wires {W} (pw : P (W * tok)) (fuel : nat) (t : tok) : P (list W * tok) :=
  match fuel with
  | O => Fail
  | S f =>
      if is_kw t "NEW" then
        '(w, t') <- pw ;;
        '(ws, t'') <- p_more_wires pw f t' ;;
        Ret (w :: ws, t'')
      else Ret ([], t)
  end.

Definition wkw_of (k : string) : option wkw :=
  if String.eqb k "COVER" then Some KCover else if String.eqb k "FIXED" then Some KFixed
  else if String.eqb k "ROUTED" then Some KRouted else if String.eqb k "NOSHIELD" then Some KNoshield else None.
Definition okw_of (k : string) : option okw :=
  if String.eqb k "USE" then Some KUse else if String.eqb k "NONDEFAULTRULE" then Some KNondefaultrule else None.

(* ( net_pin | net_opt | [sp]net_wires )* ";"  with look-ahead [t] *)
Fixpoint p_items {W} (optacc : list term) (pw : P (W * tok)) (fuel : nat) (t : tok) : P (list (net_item W)) :=
  match fuel with
  | O => Fail
  | S f =>
      if is_kw t ";" then Ret []
      else if is_kw t "(" then
        a <- get_id ;;
        b <- get_id ;;
        _ <- expect A_rpar ")" ;;
        t' <- tk A_lps ;;
        its <- p_items optacc pw f t' ;;
        Ret (NIPin a b :: its)
      else if is_kw t "+" then
        k <- tk optacc ;;
        match k with
        | KKw kw =>
            match okw_of kw with
            | Some ok =>
                v <- get_id ;;
                t' <- tk A_lps ;;
                its <- p_items optacc pw f t' ;;
                Ret (NIOpt ok v :: its)
            | None =>
                match wkw_of kw with
                | Some wk =>
                    '(w, t1) <- pw ;;
                    '(ws, t2) <- p_more_wires pw f t1 ;;
                    its <- p_items optacc pw f t2 ;;
                    Ret (NIWires wk w ws :: its)
                | None => Fail
                end
            end
        | _ => Fail
        end
      else Fail
  end.

(* sections: NUMBER ";" ( "-" stmt )* "END" KEYWORD ;  [p_stmt] starts after the "-" and ends with its ";" *)
Fixpoint p_stmts {A} (p_stmt : P A) (kw : string) (fuel : nat) (t : tok) : P (list A) :=
  match fuel with
  | O => Fail
  | S f =>
      if is_kw t "-" then
        x <- p_stmt ;;
        t' <- tk A_end_minus ;;
        xs <- p_stmts p_stmt kw f t' ;;
        Ret (x :: xs)
      else if is_kw t "END" then _ <- expect_s kw ;; Ret []
      else Fail
  end.
Definition p_section {A} (p_stmt : P A) (kw : string) (fuel : nat) : P (string * list A) :=
  n <- get_num A_number ;;
  _ <- expect A_semi ";" ;;
  t <- tk A_end_minus ;;
  xs <- p_stmts p_stmt kw fuel t ;;
  Ret (n, xs).

(* "-" ID option* ";" : [p_opt] starts after the "+" and ends with the option's last token *)
Fixpoint p_opts {A} (p_opt : P A) (fuel : nat) (t : tok) : P (list A) :=
  match fuel with
  | O => Fail
  | S f =>
      if is_kw t "+" then
        o <- p_opt ;;
        t' <- tk A_plus_semi ;;
        os <- p_opts p_opt f t' ;;
        Ret (o :: os)
      else if is_kw t ";" then Ret []
      else Fail
  end.

Definition p_via_opt : P via_opt :=
  k <- tk A_viasopt ;;
  if is_kw k "VIARULE" then v <- get_id ;; Ret (VOViarule v)
  else if is_kw k "PATTERN" then v <- get_id ;; Ret (VOPattern v)
  else if is_kw k "LAYERS" then a <- get_id ;; b <- get_id ;; c <- get_id ;; Ret (VOLayers a b c)
  else if is_kw k "CUTSIZE" then a <- get_num A_number ;; b <- get_num A_number ;; Ret (VOCutsize a b)
  else if is_kw k "CUTSPACING" then a <- get_num A_number ;; b <- get_num A_number ;; Ret (VOCutspacing a b)
  else if is_kw k "ROWCOL" then a <- get_num A_number ;; b <- get_num A_number ;; Ret (VORowcol a b)
  else if is_kw k "ENCLOSURE" then
    a <- get_num A_number ;; b <- get_num A_number ;; c <- get_num A_number ;; d <- get_num A_number ;; Ret (VOEnclosure a b c d)
  else Fail.
Definition p_via_stmt (fuel : nat) : P via_stmt :=
  name <- get_id ;;
  t <- tk A_plus_semi ;;
  os <- p_opts p_via_opt fuel t ;;
  Ret (mkVS name os).

Definition p_nondef_opt : P nondef_opt :=
  k <- tk A_nondefopt ;;
  if is_kw k "HARDSPACING" then Ret NOHardspacing
  else if is_kw k "VIA" then v <- get_id ;; Ret (NOVia v)
  else if is_kw k "LAYER" then
    id <- get_id ;; _ <- expect_s "WIDTH" ;; w <- get_num A_number ;; _ <- expect_s "SPACING" ;; sp <- get_num A_number ;; Ret (NOLayer id w sp)
  else Fail.
Definition p_nondef_stmt (fuel : nat) : P nondef_stmt :=
  name <- get_id ;;
  t <- tk A_plus_semi ;;
  os <- p_opts p_nondef_opt fuel t ;;
  Ret (mkNDS name os).

(* comp_stmt: "-" ID ID "+" "PLACED" point ID ";" *)
Definition p_comp_stmt : P comp_stmt :=
  name <- get_id ;;
  kind <- get_id ;;
  _ <- expect_s "+" ;;
  _ <- expect_s "PLACED" ;;
  _ <- expect A_lpar "(" ;;
  p <- p_point ;;
  Next A_pt_end (fun t => match t with KId o => _ <- expect A_semi ";" ;; Ret (mkCS name kind p o) | _ => Fail end).

(* pins_opt: the option after LAYER / PLACED ends in a point: the next token is lexed with the scanner of routing points *)
Definition p_pin_opt : P (pin_opt * tok) :=
  k <- tk A_pinsopt ;;
  if is_kw k "NET" then v <- get_id ;; t <- tk A_plus_semi ;; Ret (PONet v, t)
  else if is_kw k "DIRECTION" then v <- get_id ;; t <- tk A_plus_semi ;; Ret (PODirection v, t)
  else if is_kw k "USE" then v <- get_id ;; t <- tk A_plus_semi ;; Ret (POUse v, t)
  else if is_kw k "SPECIAL" then t <- tk A_plus_semi ;; Ret (POSpecial, t)
  else if is_kw k "PORT" then t <- tk A_plus_semi ;; Ret (POPort, t)
  else if is_kw k "LAYER" then
    id <- get_id ;;
    _ <- expect A_lpar "(" ;;
    p1 <- p_point ;;
    _ <- expect A_pt_end "(" ;;
    p2 <- p_point ;;
    t <- tk A_pt_end ;;
    Ret (POLayer id p1 p2, t)
  else if is_kw k "PLACED" then
    _ <- expect A_lpar "(" ;;
    p <- p_point ;;
    Next A_pt_end (fun t => match t with KId o => t' <- tk A_plus_semi ;; Ret (POPlaced p o, t') | _ => Fail end)
  else Fail.
Fixpoint p_pin_opts (fuel : nat) (t : tok) : P (list pin_opt) :=
  match fuel with
  | O => Fail
  | S f =>
      if is_kw t "+" then '(o, t') <- p_pin_opt ;; os <- p_pin_opts f t' ;; Ret (o :: os)
      else if is_kw t ";" then Ret []
      else Fail
  end.
Definition p_pins_stmt (fuel : nat) : P pins_stmt :=
  name <- get_id ;;
  t <- tk A_plus_semi ;;
  os <- p_pin_opts fuel t ;;
  Ret (mkPS name os).

(* pinprop_stmt: "-" "PIN" ID "+" "PROPERTY" ID STRING ";" *)
Definition p_pinprop_stmt : P (string * string * string) :=
  _ <- expect_s "PIN" ;;
  a <- get_id ;;
  _ <- expect_s "+" ;;
  _ <- expect_s "PROPERTY" ;;
  b <- get_id ;;
  c <- get_str ;;
  _ <- expect A_semi ";" ;;
  Ret (a, b, c).

Definition p_spnet_stmt (fuel : nat) : P spnet_stmt :=
  name <- get_id ;;
  t <- tk A_lps ;;
  its <- p_items A_spnetopt (p_spwire fuel) fuel t ;;
  Ret (mkSN name its).
Definition p_net_stmt (fuel : nat) : P net_stmt :=
  name <- get_id ;;
  t <- tk A_lps ;;
  its <- p_items A_netopt (p_rwire fuel) fuel t ;;
  Ret (mkNN name its).

(* /DIEAREA/ point+ ";" : after the first point *)
Fixpoint p_more_points (fuel : nat) : P (list tpoint) :=
  match fuel with
  | O => Fail
  | S f =>
      t <- tk A_pt_end ;;
      if is_kw t "(" then p <- p_point ;; ps <- p_more_points f ;; Ret (p :: ps)
      else if is_kw t ";" then Ret []
      else Fail
  end.
(* propdef: "PROPERTYDEFINITIONS" propdef_stmt* "END" "PROPERTYDEFINITIONS" *)
Fixpoint p_propdefs (fuel : nat) : P (list (string * string)) :=
  match fuel with
  | O => Fail
  | S f =>
      t <- tk A_propdef ;;
      if is_kw t "COMPONENTPIN" then
        a <- get_id ;; b <- get_id ;; _ <- expect A_semi ";" ;; l <- p_propdefs f ;; Ret ((a, b) :: l)
      else if is_kw t "END" then _ <- expect_s "PROPERTYDEFINITIONS" ;; Ret []
      else Fail
  end.

(* one design_stmt, selected by the keyword [k]; ends with its last token *)
Definition p_design_stmt (fuel : nat) (k : string) : P design_stmt :=
  if String.eqb k "UNITS" then
    a <- get_id ;; b <- get_id ;; n <- get_num A_number ;; _ <- expect A_semi ";" ;; Ret (SUnits a b n)
  else if String.eqb k "DIEAREA" then
    _ <- expect A_lpar "(" ;; p <- p_point ;; ps <- p_more_points fuel ;; Ret (SDiearea p ps)
  else if String.eqb k "ROW" then
    name <- get_id ;; site <- get_id ;; x <- get_num A_number ;; y <- get_num A_number ;; o <- get_id ;;
    _ <- expect_s "DO" ;; d <- p_do_step ;; _ <- expect A_pt_end ";" ;; Ret (SRow name site x y o d)
  else if String.eqb k "TRACKS" then
    Next A_xy (fun t => match t with
      | KKw d =>
          a <- get_num A_number ;; _ <- expect_s "DO" ;; b <- get_num A_number ;; _ <- expect_s "STEP" ;;
          c <- get_num A_number ;; _ <- expect_s "LAYER" ;; l <- get_id ;; _ <- expect A_semi ";" ;; Ret (STracks d a b c l)
      | _ => Fail end)
  else if String.eqb k "PROPERTYDEFINITIONS" then l <- p_propdefs fuel ;; Ret (SPropdef l)
  else if String.eqb k "VIAS" then '(n, l) <- p_section (p_via_stmt fuel) "VIAS" fuel ;; Ret (SVias n l)
  else if String.eqb k "NONDEFAULTRULES" then
    n <- get_num A_number ;;
    _ <- expect A_semi ";" ;;
    _ <- expect_s "-" ;;
    x <- p_nondef_stmt fuel ;;
    t <- tk A_end_minus ;;
    xs <- p_stmts (p_nondef_stmt fuel) "NONDEFAULTRULES" fuel t ;;
    Ret (SNondef n x xs)
  else if String.eqb k "COMPONENTS" then '(n, l) <- p_section p_comp_stmt "COMPONENTS" fuel ;; Ret (SComp n l)
  else if String.eqb k "PINS" then '(n, l) <- p_section (p_pins_stmt fuel) "PINS" fuel ;; Ret (SPins n l)
  else if String.eqb k "PINPROPERTIES" then '(n, l) <- p_section p_pinprop_stmt "PINPROPERTIES" fuel ;; Ret (SPinprop n l)
  else if String.eqb k "SPECIALNETS" then '(n, l) <- p_section (p_spnet_stmt fuel) "SPECIALNETS" fuel ;; Ret (SSpnets n l)
  else if String.eqb k "NETS" then '(n, l) <- p_section (p_net_stmt fuel) "NETS" fuel ;; Ret (SNets n l)
  else Fail.
(* design_stmt* "END" "DESIGN" *)
Fixpoint p_design_stmts (fuel : nat) : P (list design_stmt) :=
  match fuel with
  | O => Fail
  | S f =>
      Next A_design (fun t => match t with
        | KKw k =>
            if String.eqb k "END" then _ <- expect_s "DESIGN" ;; Ret []
            else x <- p_design_stmt f k ;; xs <- p_design_stmts f ;; Ret (x :: xs)
        | _ => Fail end)
  end.
(* one file_stmt, selected by the keyword [k] *)
Definition p_file_stmt (fuel : nat) (k : string) : P file_stmt :=
  if String.eqb k "VERSION" then v <- get_id ;; _ <- expect A_semi ";" ;; Ret (FVersion v)
  else if String.eqb k "DIVIDERCHAR" then v <- get_str ;; _ <- expect A_semi ";" ;; Ret (FDividerchar v)
  else if String.eqb k "BUSBITCHARS" then v <- get_str ;; _ <- expect A_semi ";" ;; Ret (FBusbitchars v)
  else if String.eqb k "DESIGN" then name <- get_id ;; _ <- expect A_semi ";" ;; l <- p_design_stmts fuel ;; Ret (FDesign name l)
  else Fail.
(* file_stmt* $END  with look-ahead [t] *)
Fixpoint p_file_stmts (fuel : nat) (t : tok) : P (list file_stmt) :=
  match fuel with
  | O => Fail
  | S f =>
      match t with
      | KEof => Ret []
      | KKw k =>
          x <- p_file_stmt f k ;;
          t' <- tk A_file ;;
          xs <- p_file_stmts f t' ;;
          Ret (x :: xs)
      | _ => Fail
      end
  end.
(* start: /#[^\n]*/? file_stmt* *)
Definition p_start (fuel : nat) : P tree :=
  Next A_start (fun t => match t with
    | KComment c => t' <- tk A_file ;; l <- p_file_stmts fuel t' ;; Ret (mkTree (Some c) l)
    | _ => l <- p_file_stmts fuel t ;; Ret (mkTree None l)
    end).
Definition parse_def (s : string) : option tree :=
  match run (p_start (S (String.length s))) s with Some (t, _) => Some t | None => None end.

(* def_file.parse up to the DefFile: text -> tree -> callbacks *)
Definition def_of_text (s : string) : option deffile := match parse_def s with Some t => elab t | None => None end.

(** * correspondence cases (harness/def_text.py) *)
Definition coord_eqb (a b : coord) : bool :=
  match a, b with CStar, CStar => true | CNum x, CNum y => String.eqb x y | _, _ => false end.
Definition tpoint_eqb (a b : tpoint) : bool :=
  coord_eqb (tp_x a) (tp_x b) && coord_eqb (tp_y a) (tp_y b) && ostr_eqb (tp_z a) (tp_z b).
Definition tdostep_eqb (a b : tdostep) : bool :=
  String.eqb (ds_n a) (ds_n b) && String.eqb (ds_m a) (ds_m b) && String.eqb (ds_dx a) (ds_dx b) && String.eqb (ds_dy a) (ds_dy b).
Definition sl_eqb := dl_eqb String.eqb.
Definition via_opt_eqb (a b : via_opt) : bool :=
  match a, b with
  | VOViarule x, VOViarule y | VOPattern x, VOPattern y => String.eqb x y
  | VOCutsize x1 x2, VOCutsize y1 y2 | VOCutspacing x1 x2, VOCutspacing y1 y2 | VORowcol x1 x2, VORowcol y1 y2 => sl_eqb [x1; x2] [y1; y2]
  | VOLayers x1 x2 x3, VOLayers y1 y2 y3 => sl_eqb [x1; x2; x3] [y1; y2; y3]
  | VOEnclosure x1 x2 x3 x4, VOEnclosure y1 y2 y3 y4 => sl_eqb [x1; x2; x3; x4] [y1; y2; y3; y4]
  | _, _ => false
  end.
Definition nondef_opt_eqb (a b : nondef_opt) : bool :=
  match a, b with
  | NOHardspacing, NOHardspacing => true
  | NOLayer x1 x2 x3, NOLayer y1 y2 y3 => sl_eqb [x1; x2; x3] [y1; y2; y3]
  | NOVia x, NOVia y => String.eqb x y
  | _, _ => false
  end.
Definition pin_opt_eqb (a b : pin_opt) : bool :=
  match a, b with
  | PONet x, PONet y | PODirection x, PODirection y | POUse x, POUse y => String.eqb x y
  | POSpecial, POSpecial | POPort, POPort => true
  | POLayer x p q, POLayer y p' q' => String.eqb x y && tpoint_eqb p p' && tpoint_eqb q q'
  | POPlaced p x, POPlaced p' y => tpoint_eqb p p' && String.eqb x y
  | _, _ => false
  end.
Definition wkw_eqb (a b : wkw) : bool := String.eqb (wkw_text a) (wkw_text b).
Definition okw_eqb (a b : okw) : bool := String.eqb (okw_text a) (okw_text b).
Definition spw_opt_eqb (a b : spw_opt) : bool :=
  match a, b with SWShape x, SWShape y | SWStyle x, SWStyle y => String.eqb x y | _, _ => false end.
Definition spelem_eqb (a b : spelem) : bool :=
  match a, b with
  | SPPoint p, SPPoint q => tpoint_eqb p q
  | SPVia n d, SPVia m e => String.eqb n m && opt_eqb' tdostep_eqb d e
  | _, _ => false
  end.
Definition spwire_eqb (a b : spwire) : bool :=
  String.eqb (sw_layer a) (sw_layer b) && String.eqb (sw_width a) (sw_width b) && dl_eqb spw_opt_eqb (sw_opts a) (sw_opts b) &&
  tpoint_eqb (sw_first a) (sw_first b) && dl_eqb spelem_eqb (sw_rest a) (sw_rest b).
Definition relem_eqb (a b : relem) : bool :=
  match a, b with
  | RPoint p, RPoint q => tpoint_eqb p q
  | RVia n o, RVia m o' => String.eqb n m && ostr_eqb o o'
  | _, _ => false
  end.
Definition rwire_eqb (a b : rwire) : bool :=
  String.eqb (rw_layer a) (rw_layer b) && sl_eqb (rw_opt a) (rw_opt b) && tpoint_eqb (rw_first a) (rw_first b) && dl_eqb relem_eqb (rw_rest a) (rw_rest b).
Definition net_item_eqb {W} (weqb : W -> W -> bool) (a b : net_item W) : bool :=
  match a, b with
  | NIPin x y, NIPin x' y' => String.eqb x x' && String.eqb y y'
  | NIOpt k v, NIOpt k' v' => okw_eqb k k' && String.eqb v v'
  | NIWires k w ws, NIWires k' w' ws' => wkw_eqb k k' && dl_eqb weqb (w :: ws) (w' :: ws')
  | _, _ => false
  end.
Definition s3_eqb (a b : string * string * string) : bool :=
  String.eqb (fst (fst a)) (fst (fst b)) && String.eqb (snd (fst a)) (snd (fst b)) && String.eqb (snd a) (snd b).
Definition design_stmt_eqb (a b : design_stmt) : bool :=
  match a, b with
  | SUnits x1 x2 x3, SUnits y1 y2 y3 => sl_eqb [x1; x2; x3] [y1; y2; y3]
  | SDiearea p ps, SDiearea q qs => dl_eqb tpoint_eqb (p :: ps) (q :: qs)
  | SRow x1 x2 x3 x4 x5 d, SRow y1 y2 y3 y4 y5 e => sl_eqb [x1; x2; x3; x4; x5] [y1; y2; y3; y4; y5] && tdostep_eqb d e
  | STracks x1 x2 x3 x4 x5, STracks y1 y2 y3 y4 y5 => sl_eqb [x1; x2; x3; x4; x5] [y1; y2; y3; y4; y5]
  | SPropdef l, SPropdef l' => dl_eqb spair_eqb l l'
  | SVias n l, SVias n' l' => String.eqb n n' && dl_eqb (fun v w => String.eqb (vs_name v) (vs_name w) && dl_eqb via_opt_eqb (vs_opts v) (vs_opts w)) l l'
  | SNondef n s l, SNondef n' s' l' =>
      String.eqb n n' && dl_eqb (fun v w => String.eqb (nds_name v) (nds_name w) && dl_eqb nondef_opt_eqb (nds_opts v) (nds_opts w)) (s :: l) (s' :: l')
  | SComp n l, SComp n' l' =>
      String.eqb n n' && dl_eqb (fun v w => sl_eqb [cs_name v; cs_kind v; cs_orient v] [cs_name w; cs_kind w; cs_orient w] && tpoint_eqb (cs_pt v) (cs_pt w)) l l'
  | SPins n l, SPins n' l' => String.eqb n n' && dl_eqb (fun v w => String.eqb (ps_name v) (ps_name w) && dl_eqb pin_opt_eqb (ps_opts v) (ps_opts w)) l l'
  | SPinprop n l, SPinprop n' l' => String.eqb n n' && dl_eqb s3_eqb l l'
  | SSpnets n l, SSpnets n' l' =>
      String.eqb n n' && dl_eqb (fun v w => String.eqb (sn_name v) (sn_name w) && dl_eqb (net_item_eqb spwire_eqb) (sn_items v) (sn_items w)) l l'
  | SNets n l, SNets n' l' =>
      String.eqb n n' && dl_eqb (fun v w => String.eqb (nn_name v) (nn_name w) && dl_eqb (net_item_eqb rwire_eqb) (nn_items v) (nn_items w)) l l'
  | _, _ => false
  end.
Definition file_stmt_eqb (a b : file_stmt) : bool :=
  match a, b with
  | FVersion x, FVersion y | FDividerchar x, FDividerchar y | FBusbitchars x, FBusbitchars y => String.eqb x y
  | FDesign n l, FDesign n' l' => String.eqb n n' && dl_eqb design_stmt_eqb l l'
  | _, _ => false
  end.
Definition tree_eqb (a b : tree) : bool := ostr_eqb (t_comment a) (t_comment b) && dl_eqb file_stmt_eqb (t_stmts a) (t_stmts b).

(* the tree lark built for the text (None: lark raised) *)
Definition deftext_case (text : string) (exp : option tree) : bool := opt_eqb' tree_eqb (parse_def text) exp.
(* def_file.parse(text) as a whole (None: it raised) *)
Definition deftext_file_case (text : string) (exp : option deffile) : bool := opt_eqb' deffile_eqb (def_of_text text) exp.

(* the accept sets the parser names, and what a scanner built from an accept set scans for, to compare with lark's tables *)
Definition all_accs : list (list term) :=
  [A_start; A_file; A_design; A_id; A_number; A_numsig; A_string; A_semi; A_lpar; A_rpar; A_end_minus; A_plus_semi; A_lps; A_lpar_plus;
   A_pt1; A_pt2; A_pt_end; A_via_r; A_via_s; A_xy; A_propdef; A_viasopt; A_nondefopt; A_pinsopt; A_netopt; A_spnetopt; A_spwireopt;
   A_wireopt; A_lpar_style; A_s "BY"; A_s "STEP"; A_s "DO"; A_s "LAYER"; A_s "WIDTH"; A_s "SPACING"; A_s "+"; A_s "-"; A_s "PLACED";
   A_s "PIN"; A_s "PROPERTY"; A_s "DESIGN"; A_s "VIAS"; A_s "NONDEFAULTRULES"; A_s "COMPONENTS"; A_s "PINS"; A_s "PINPROPERTIES";
   A_s "SPECIALNETS"; A_s "NETS"; A_s "PROPERTYDEFINITIONS"].
Definition term_eqb (a b : term) : bool :=
  match a, b with
  | TmId, TmId | TmNumber, TmNumber | TmSigned, TmSigned | TmString, TmString | TmOrient, TmOrient | TmComment, TmComment => true
  | TmS x, TmS y | TmR x, TmR y => String.eqb x y
  | _, _ => false
  end.
Definition subset_t (a b : list term) : bool := forallb (fun x => existsb (term_eqb x) b) a.
Definition same_set (a b : list term) : bool := subset_t a b && subset_t b a.
(* every accept set of the model is the accept set of some LALR state entered by a terminal (or of the start state) *)
Definition accsets_case (lark_sets : list (list term)) : bool := forallb (fun a => existsb (same_set a) lark_sets) all_accs.
(* lark's scanner for an accept set: the regular-expression terminals in scanner order, the keywords scanned for, the
   strings embedded in ID *)
Definition scan_order (acc : list term) : list string :=
  (if has TmOrient acc then ["ORIENTATION"] else []) ++ (if has TmSigned acc then ["SIGNED_NUMBER"] else []) ++
  (if has TmNumber acc then ["NUMBER"] else []) ++ (if has TmString acc then ["STRING"] else []) ++
  (if has TmId acc then ["ID"] else []) ++ (if has TmComment acc then ["COMMENT"] else []).
Definition sset_eqb (a b : list string) : bool :=
  Nat.eqb (List.length a) (List.length b) && forallb (fun x => mem_str x b) a && forallb (fun x => mem_str x a) b.
Definition scanner_case (acc : list term) (order kws emb : list string) : bool :=
  sl_eqb (scan_order acc) order && sset_eqb (scanned acc) kws && sset_eqb (embedded acc) emb.
(* int() on sign ++ n nines: Some true = it returns sign (10^n - 1); None = it raises *)
Fixpoint nines (n : nat) : string := match n with O => EmptyString | S k => String "9" (nines k) end.
Definition pyint_nines_case (sign : string) (n : nat) (exp : option bool) : bool :=
  match py_int (sign ++ nines n), exp with
  | Some z, Some true => Z.eqb z ((if String.eqb sign "-" then -1 else 1) * (10 ^ Z.of_nat n - 1))
  | None, None => true
  | _, _ => false
  end.
