(** C10, resolve_tlib_cells as ONE statement over its loop: vocabulary.  Definitions only.

    (1) [inst_ok]: the second half of [inst_sol] (Model/CircuitSubstSem.v) -- "the lines at the output pins of the node carry the
        outputs of SOME solution of the implementation whose input ports are fed with the lines at the node's input pins (an
        unconnected pin reads zero) and whose state elements are fed with the stimulus of their copies ([m])".
    (2) [rsol lib M c stim v]: the valuation [v] of the lines of [c] is a solution of [c] in which EVERY node whose kind is a key
        of the library table [lib] is read through its implementation ([inst_ok]; [M n] = where the state elements inside instance
        [n] get their stimulus from) and every other node through its own gate equation ([cnode_ok]).  With no library kind left
        [rsol] is [csol].
    (3) the hypotheses of the loop theorem as boolean checkers: [lib_ok_sem_b] (about the library table alone), [resolve_host_ok_b]
        (about the host: no library instance is a port, known finding D22 excluded at every instance) and [impl_total_b]
        (the implementation's view is combinationally acyclic, so it HAS a solution for every stimulus: needed because the
        clean-up below an unconnected output can delete a library instance that was never substituted).
    (4) the per-case tie [resolve_case] evaluated by the check on every compared resolve case. *)
From Coq Require Import List Arith Bool String NArith.
From KV Require Model.Prims Model.Netlist Model.NetlistWf Model.SimOps Model.NetlistSem.
From KV Require Import Model.Circuit Model.CircuitInv Model.CircuitView Model.CircuitSem Model.CircuitCorr
     Model.CircuitSubstSem Model.CircuitSubstSem2.
Import ListNotations.
Local Open Scope list_scope.

Section RSem.
  Context {V : Type} (sem : N -> V -> V -> V -> V -> V) (zero : V).

  Definition inst_ok (c : circ) (u : nat) (impl : circ) (m : list (nat * nat)) (stim : nat -> V) (v : nat -> V) : Prop :=
    exists w, csol sem zero impl (inst_stim zero c u impl m stim v) w /\
              forall k o ll, nth_error (impl_outs impl) k = Some o -> nth k (outs_of c u) None = Some ll ->
                             v ll = obs zero impl w o 0.

  Definition rnode_ok (lib : list (string * circ)) (M : nat -> list (nat * nat)) (c : circ)
             (stim : nat -> V) (v : nat -> V) (n : nat) : Prop :=
    match tlib_get (kind_of c n) lib with
    | Some impl => inst_ok c n impl (M n) stim v
    | None => cnode_ok sem zero c stim v n
    end.

  Definition rsol (lib : list (string * circ)) (M : nat -> list (nat * nat)) (c : circ)
             (stim : nat -> V) (v : nat -> V) : Prop :=
    forall n, In n (nodes c) -> rnode_ok lib M c stim v n.

  (* the implementation has a solution for every stimulus *)
  Definition impl_total (impl : circ) : Prop := forall st, exists w, csol sem zero impl st w.
  Definition lib_total (lib : list (string * circ)) : Prop := forall k impl, tlib_get k lib = Some impl -> impl_total impl.
End RSem.

(** ** hypotheses on the library table *)
Definition lib_keys_ok_b (lib : list (string * circ)) : bool := is_none (tlib_get FORK lib).
(* no implementation contains a library kind ("flat": resolving terminates after one pass, and no library instance remains) *)
Definition lib_flat_b (lib : list (string * circ)) : bool :=
  forallb (fun kv => forallb (fun x => is_none (tlib_get (kind_of (snd kv) x) lib)) (nodes (snd kv))) lib.
Definition lib_impl_ok_b (impl : circ) : bool :=
  cinv_b impl && io_ok_b impl && subst_shape_b impl && pure_ports_b impl.
Definition lib_ok_sem_b (lib : list (string * circ)) : bool :=
  lib_keys_ok_b lib && lib_flat_b lib && forallb (fun kv => lib_impl_ok_b (snd kv)) lib.

(** ** hypotheses on the host: every node of a library kind is no port and is outside known finding D22 *)
Definition resolve_host_ok_b (c : circ) (lib : list (string * circ)) : bool :=
  forallb (fun n => match tlib_get (kind_of c n) lib with
                    | Some impl => negb (io_mem c n) && d22_free_b c n impl
                    | None => true
                    end) (nodes c).

(** ** no library instance remains *)
Definition no_lib_kind_b (c : circ) (lib : list (string * circ)) : bool :=
  forallb (fun n => is_none (tlib_get (kind_of c n) lib)) (nodes c).

(** ** the loop with its trace: the visited instances with their implementation and node map, in order *)
Fixpoint resolve_trace (t : list (string * circ)) (ns : list nat) (c : circ)
  : option (circ * list (nat * circ * list (nat * nat))) :=
  match ns with
  | [] => Some (c, [])
  | n :: r =>
      if n_alive (nst c n) then
        match tlib_get (kind_of c n) t with
        | Some impl =>
            match substitute_pre c n impl with
            | Some (c4, dl, m) =>
                match cleanup dl c4 with
                | Some c1 => match resolve_trace t r c1 with
                             | Some (c', tr) => Some (c', (n, impl, m) :: tr)
                             | None => None
                             end
                | None => None
                end
            | None => None
            end
        | None => resolve_trace t r c
        end
      else resolve_trace t r c
  end.

(** ** correspondence: a resolve case = host as tables, the library table restricted to the kinds that occur, the real result.
    0 = everything holds; 1 the model raises / the trace version disagrees, 2 the result differs from the implementation's,
    3 a hypothesis of C10_resolve_function fails (cinv_b / io_ok_b of the host, lib_ok_sem_b, impl_total_b, resolve_host_ok_b -- the latter
    only demanded when the generator says the case is D22-free), 4 a conclusion that can be decided fails (result consistent, io
    unchanged, no library kind left), 5 the D22 flag of the generator differs from the checker, 6 the number of visited instances differs *)
(* = Proofs/WfCheck.acyclic_b (view impl) *)
Definition impl_total_b (impl : circ) : bool :=
  Nat.eqb (List.length (Netlist.topo_order (view impl))) (List.length (Netlist.c_nodes (view impl))).
Definition lib_total_b (lib : list (string * circ)) : bool := forallb (fun kv => impl_total_b (snd kv)) lib.

Definition resolve_case (c : circ) (lib : list (string * circ)) (v : cview) (d22free : bool) (visited : nat) : nat :=
  match resolve_tlib c lib, resolve_trace lib (nodes c) c with
  | Some c', Some (c'', tr) =>
      if negb (view_nl_ok c'' v && view_nl_ok c' v) then 2
      else if negb (cinv_b c && io_ok_b c && lib_ok_sem_b lib && lib_total_b lib) then 3
      else if negb (Bool.eqb (resolve_host_ok_b c lib) d22free) then 5
      else if negb (cinv_b c' && io_ok_b c' && olist_eqb (io c') (io c) && no_lib_kind_b c' lib) then 4
      else if negb (Nat.eqb (List.length tr) visited) then 6
      else 0
  | _, _ => 1
  end.
Inductive rcases := RN | RC (x : nat) (r : rcases).
Fixpoint of_rcases l := match l with RN => [] | RC x r => x :: of_rcases r end.
