(** Line-level semantics of the timing simulator for the two option clauses of C06 that concern it:
    (1) fork stripping: the op list without fork ops, every operand READ through the stem alias (c_locs[branch] = c_locs[stem],
        sim.py "copy memory location and capacity from stems to fanout lines") while the delay row is the one of the operand index
        written in the op (wave_sim.py: [cbuf[c_locs[a_idx] + ...] + delays[a_idx, ...]]);
    (2) selection of the delay dataset at the top of [_wave_eval] from [simctl_int[:, sim]] and the seed of [c_prop].
    Definitions only. *)
From Coq Require Import List ZArith NArith Bool Arith.
From KV Require Import Model.Prims Model.Netlist Model.Heap Model.SimOps Model.AllocCheck Model.NetlistSem Model.NetlistSemGen
     Model.Time Model.WaveEval Model.WaveSpec Model.WaveOps Model.WaveSimModel Model.WaveAcc Model.Corr.
Import ListNotations.
Local Open Scope list_scope.

(* ------------------------------------------------------------------ *)
(** * (1) op-list execution through an alias map *)

Section WaveAlias.
  Variable delays : nat -> dtab.
  Variable cap : nat -> nat.

  (** the meaning of one op as a function of its four operand WAVEFORMS: delays of the operand indices named in the op,
      capacity of the op's output index *)
  Definition wsem (o : sop) (a b cc d : list time) : list time :=
    match wave_eval (s_lut o) [a; b; cc; d] (map delays [s_i0 o; s_i1 o; s_i2 o; s_i3 o])
                    (repeat MaxInf (cap (s_out o))) with
    | Some r => upto_end (r_z r)
    | None => [MaxInf]
    end.

  Variable al : nat -> nat.
  Definition wop_alias (e : wenv) (o : sop) : list time :=
    wsem o (e (al (s_i0 o))) (e (al (s_i1 o))) (e (al (s_i2 o))) (e (al (s_i3 o))).
  Definition wstep_alias (e : wenv) (o : sop) : wenv := wupd e (s_out o) (wop_alias e o).
  Definition wexec_alias (ops : list sop) (e : wenv) : wenv := fold_left wstep_alias ops e.
End WaveAlias.

(** the constant-0 waveform as an environment entry (read up to its terminator) *)
Definition wzero : list time := [MaxInf].

(* ------------------------------------------------------------------ *)
(** * (2) delay-dataset selection *)

Section Select.
  (** mode 2 (the default): index = LCG(seed, z_idx, simctl_int[0]) mod len(delays); not modelled, kept as a parameter *)
  Variable pick2 : nat -> nat -> nat -> nat.

  (** wave_sim.py:168-179.  [nd] = len(delays); mode = simctl_int[1, sim]; ctl0 = simctl_int[0, sim]; seed = c_prop's seed;
      zidx = the op's output index (used by mode 2 only).  With a single dataset nothing is selected. *)
  Definition select_idx (nd mode seed ctl0 zidx : nat) : nat :=
    if Nat.ltb 1 nd then
      match mode with
      | 0 => seed
      | 1 => ctl0
      | _ => Nat.modulo (pick2 seed zidx ctl0) nd
      end
    else 0.
  Definition select_delays (D : list (list dtab)) (mode seed ctl0 zidx : nat) : list dtab :=
    nth (select_idx (List.length D) mode seed ctl0 zidx) D [].

  (** one lane of c_prop: EVERY op evaluation selects its dataset anew *)
  Definition wstep_sel (D : list (list dtab)) (cap : nat -> nat) (mode seed ctl0 : nat) (e : wenv) (o : sop) : wenv :=
    wupd e (s_out o) (wop (dl_of (select_delays D mode seed ctl0 (s_out o))) cap e o).
  Definition wexec_sel D cap mode seed ctl0 (ops : list sop) (e : wenv) : wenv :=
    fold_left (wstep_sel D cap mode seed ctl0) ops e.

  (** all lanes: lane l has its own column (ctl0, mode) of simctl_int and its own input waveforms *)
  Definition wexec_lanes D cap seed (ctl : list (nat * nat)) (ops : list sop) (es : list wenv) : list wenv :=
    map (fun ce : (nat * nat) * wenv => wexec_sel D cap (snd (fst ce)) seed (fst (fst ce)) ops (snd ce)) (combine ctl es).
End Select.

(* ------------------------------------------------------------------ *)
(** * Correspondence: both semantics evaluated on what the implementation stored *)

(** strip_forks = True, c_reuse off: [wexec_alias] through the stems SimOps computed, started from the memory c_prop starts
    from; every tracked index k must hold, in the implementation's final memory, the waveform the model has at the stem of k.
    Result: [built; waveforms agree; op list and stems are the ones the theorems are about] *)
Definition wstrip_case (c : netlist) (caps : list N) (delays : list dtab)
           (s : list (bool * time * bool)) (extra : list (nat * list time)) (exp_mem : list time) : list bool :=
  match build c caps 4%N false true with
  | None => [false]
  | Some so =>
      let m2 := wsim_start so s extra in
      let al := stemmed (so_stems so) in
      let ef := wexec_alias (dl_of delays) (capN so) al (so_ops so) (env_of so m2) in
      [ true;
        forallb (fun k => list_eqb teqb (ef (al k)) (env_of so exp_mem k)) (seq 0 (n_tracked so));
        match build_stems c true (List.length (so_locs so)) with
        | Some st => list_eqb Z.eqb st (so_stems so) && Nat.eqb (List.length (so_ops so)) (List.length (build_ops c true))
        | None => false
        end ]
  end.

(** delay datasets D, one lane with (mode, seed, simctl_int[0]); options off *)
Definition wsel_case (c : netlist) (caps : list N) (D : list (list dtab)) (mode seed ctl0 : nat)
           (s : list (bool * time * bool)) (extra : list (nat * list time)) (exp_mem : list time) : list bool :=
  match build c caps 4%N false false with
  | None => [false]
  | Some so =>
      let m2 := wsim_start so s extra in
      let ef := wexec_sel (fun _ _ _ => 0) D (capN so) mode seed ctl0 (so_ops so) (env_of so m2) in
      [ true; forallb (fun k => list_eqb teqb (ef k) (env_of so exp_mem k)) (seq 0 (n_tracked so)) ]
  end.
