(** Specification vocabulary for the TEXT level of the DEF front end (definitions only):
    ignored text, the WORD view of a text (token texts separated by ignored text, each followed by a blank), the token a whole
    word is under an accept set, the execution of a token-requesting program on a word list, the printer and the
    well-formedness of trees (every written token is a whole word where it is read). *)
From Coq Require Import List NArith Bool String Ascii Arith.
From KV Require Import Model.DefRoute Model.DefElab Model.DefText.
Import ListNotations.
Local Open Scope list_scope.
Local Open Scope string_scope.

(** * ignored text: one blank, optionally followed by a comment that runs to the end of its line *)
Inductive ign := IgWs (c : ascii) | IgComment (c : ascii) (body : string).
Fixpoint no_newline (s : string) : bool :=
  match s with EmptyString => true | String c r => negb (is_nl c) && no_newline r end.
Definition ign_ok (i : ign) : bool :=
  match i with IgWs c => is_ws c | IgComment c b => is_ws c && no_newline b end.
Definition nl : string := String (ascii_of_N 10) EmptyString.
Definition ign_text (i : ign) : string :=
  match i with IgWs c => ch c | IgComment c b => String c (String "#" (b ++ nl)) end.
Fixpoint igns_text (l : list ign) : string :=
  match l with [] => EmptyString | i :: r => ign_text i ++ igns_text r end.

(** * words *)
Fixpoint nows (w : string) : bool := match w with EmptyString => true | String c r => negb (is_ws c) && nows r end.
Definition first_ok (w : string) : bool :=
  match w with String c _ => negb (is_ws c) && negb (Ascii.eqb c "#") | EmptyString => false end.
Definition starts_plus (w : string) : bool := match w with String c _ => Ascii.eqb c "+" | EmptyString => false end.
Fixpoint all_digits (w : string) : bool := match w with EmptyString => true | String c r => is_digit c && all_digits r end.
Definition digits1 (w : string) : bool := match w with EmptyString => false | _ => all_digits w end.
Definition is_int_word (signed : bool) (w : string) : bool :=
  digits1 w || (signed && match w with String c r => is_sign c && digits1 r | EmptyString => false end).
Definition numlike_start (w : string) : bool :=
  match w with String c _ => is_digit c || Ascii.eqb c "." || is_sign c | EmptyString => false end.
Definition orient_words : list string := ["N"; "W"; "E"; "S"; "FN"; "FW"; "FE"; "FS"].
Definition orient_word (w : string) : bool := mem_str w orient_words.
(* a STRING token without quote or backslash inside *)
Fixpoint simple_body (s : string) : bool :=
  match s with
  | EmptyString => false
  | String c EmptyString => Ascii.eqb c """"
  | String c r => negb (Ascii.eqb c """") && negb (Ascii.eqb c "\") && simple_body r
  end.
Definition simple_string (w : string) : bool := match w with String """" r => simple_body r | _ => false end.
Definition wordlike (acc : list term) (w : string) : bool :=
  first_ok w && (nows w || (has TmString acc && simple_string w)).

(* the token a WHOLE word is under an accept set (None: the scanner would not take exactly the word; conservative) *)
Definition word_tok (acc : list term) (w : string) : option tok :=
  if negb (wordlike acc w) then None else
  if has TmOrient acc && orient_word w then Some (KOrient w) else
  if has TmSigned acc && is_int_word true w then Some (KNum w) else
  if has TmNumber acc && is_int_word false w then Some (KNum w) else
  if (has TmSigned acc || has TmNumber acc) && numlike_start w then None else
  if has TmString acc then (if simple_string w then Some (KStr w) else None) else
  if has TmId acc && negb (starts_plus w) then Some (if mem_str w (embedded acc) then KKw w else KId w) else
  if forallb nows (scanned acc) && mem_str w (scanned acc) then Some (KKw w) else None.

(** * running a program on a word list (an ORIENTATION needs a following word: it takes the blank after itself) *)
Definition wnext (acc : list term) (ws : list string) : option (tok * list string) :=
  match ws with
  | [] => Some (KEof, [])
  | w :: r =>
      match word_tok acc w with
      | Some (KOrient v) => match r with [] => None | _ => Some (KOrient v, r) end
      | Some t => Some (t, r)
      | None => None
      end
  end.
Fixpoint runs {A} (p : P A) (ws : list string) : option (A * list string) :=
  match p with
  | Ret a => Some (a, ws)
  | Fail => None
  | Next acc k => match wnext acc ws with Some (t, r) => runs (k t) r | None => None end
  end.

(** * a text as a way of writing a word list: [Tail T ws]: T follows a word, starts with a blank, then any ignored text, the
      next word ...; at the end ignored text only *)
Inductive Tail : string -> list string -> Prop :=
| Tail_nil c Y : is_ws c = true -> skip_go MAfterWs Y = EmptyString -> Tail (String c Y) []
| Tail_cons c g w T ws : is_ws c = true -> forallb ign_ok g = true -> Tail T ws -> Tail (String c (igns_text g ++ w ++ T)) (w :: ws).
Definition Rel (s : string) (ws : list string) : Prop :=
  match ws with
  | [] => skip_go MTok s = EmptyString
  | w :: r => exists g T, forallb ign_ok g = true /\ s = igns_text g ++ w ++ T /\ Tail T r
  end.

(** * the words of a tree and the printer (every word on its own line) *)
Definition w_coord (c : coord) : string := match c with CStar => "*" | CNum s => s end.
Definition w_point (p : tpoint) : list string :=
  "(" :: w_coord (tp_x p) :: w_coord (tp_y p) :: (match tp_z p with Some z => [z] | None => [] end) ++ [")"].
Definition w_do_step (d : tdostep) : list string := ["DO"; ds_n d; "BY"; ds_m d; "STEP"; ds_dx d; ds_dy d].
Definition w_relem (e : relem) : list string :=
  match e with RPoint p => w_point p | RVia nm None => [nm] | RVia nm (Some o) => [nm; o] end.
Definition w_spelem (e : spelem) : list string :=
  match e with SPPoint p => w_point p | SPVia nm None => [nm] | SPVia nm (Some d) => nm :: w_do_step d end.
(* the 0..2 ID tokens of a wire_opt node are written as TAPERRULE a [STYLE b] *)
Definition w_wire_opt (ids : list string) : list string :=
  match ids with [] => [] | [a] => ["TAPERRULE"; a] | a :: b :: _ => ["TAPERRULE"; a; "STYLE"; b] end.
Definition w_rwire (w : rwire) : list string :=
  rw_layer w :: w_wire_opt (rw_opt w) ++ w_point (rw_first w) ++ flat_map w_relem (rw_rest w).
Definition w_spw_opt (o : spw_opt) : list string := match o with SWShape v => ["+"; "SHAPE"; v] | SWStyle v => ["+"; "STYLE"; v] end.
Definition w_spwire (w : spwire) : list string :=
  sw_layer w :: sw_width w :: flat_map w_spw_opt (sw_opts w) ++ w_point (sw_first w) ++ flat_map w_spelem (sw_rest w).
Definition w_wires {W} (ww : W -> list string) (w : W) (ws : list W) : list string :=
  ww w ++ flat_map (fun x => "NEW" :: ww x) ws.
Definition w_item {W} (ww : W -> list string) (it : net_item W) : list string :=
  match it with
  | NIPin a b => ["("; a; b; ")"]
  | NIOpt k v => ["+"; okw_text k; v]
  | NIWires k w ws => "+" :: wkw_text k :: w_wires ww w ws
  end.
Definition w_via_opt (o : via_opt) : list string :=
  match o with
  | VOViarule v => ["+"; "VIARULE"; v] | VOPattern v => ["+"; "PATTERN"; v] | VOLayers a b c => ["+"; "LAYERS"; a; b; c]
  | VOCutsize a b => ["+"; "CUTSIZE"; a; b] | VOCutspacing a b => ["+"; "CUTSPACING"; a; b] | VORowcol a b => ["+"; "ROWCOL"; a; b]
  | VOEnclosure a b c d => ["+"; "ENCLOSURE"; a; b; c; d]
  end.
Definition w_nondef_opt (o : nondef_opt) : list string :=
  match o with
  | NOHardspacing => ["+"; "HARDSPACING"] | NOVia v => ["+"; "VIA"; v]
  | NOLayer id w s => ["+"; "LAYER"; id; "WIDTH"; w; "SPACING"; s]
  end.
Definition w_pin_opt (o : pin_opt) : list string :=
  match o with
  | PONet v => ["+"; "NET"; v] | PODirection v => ["+"; "DIRECTION"; v] | POUse v => ["+"; "USE"; v]
  | POSpecial => ["+"; "SPECIAL"] | POPort => ["+"; "PORT"]
  | POLayer id p1 p2 => "+" :: "LAYER" :: id :: w_point p1 ++ w_point p2
  | POPlaced p o => "+" :: "PLACED" :: w_point p ++ [o]
  end.
Definition w_stmt (name : string) (body : list string) : list string := "-" :: name :: body ++ [";"].
Definition w_section (kw n : string) (stmts : list string) : list string := kw :: n :: ";" :: stmts ++ ["END"; kw].
Definition w_design_stmt (s : design_stmt) : list string :=
  match s with
  | SUnits a b n => ["UNITS"; a; b; n; ";"]
  | SDiearea p ps => "DIEAREA" :: w_point p ++ flat_map w_point ps ++ [";"]
  | SRow name site x y o d => "ROW" :: name :: site :: x :: y :: o :: w_do_step d ++ [";"]
  | STracks d a b c l => ["TRACKS"; d; a; "DO"; b; "STEP"; c; "LAYER"; l; ";"]
  | SPropdef l => "PROPERTYDEFINITIONS" :: flat_map (fun ab => ["COMPONENTPIN"; fst ab; snd ab; ";"]) l ++ ["END"; "PROPERTYDEFINITIONS"]
  | SVias n l => w_section "VIAS" n (flat_map (fun v => w_stmt (vs_name v) (flat_map w_via_opt (vs_opts v))) l)
  | SNondef n x l => w_section "NONDEFAULTRULES" n (flat_map (fun v => w_stmt (nds_name v) (flat_map w_nondef_opt (nds_opts v))) (x :: l))
  | SComp n l => w_section "COMPONENTS" n (flat_map (fun c => w_stmt (cs_name c) (cs_kind c :: "+" :: "PLACED" :: w_point (cs_pt c) ++ [cs_orient c])) l)
  | SPins n l => w_section "PINS" n (flat_map (fun v => w_stmt (ps_name v) (flat_map w_pin_opt (ps_opts v))) l)
  | SPinprop n l => w_section "PINPROPERTIES" n (flat_map (fun v => ["-"; "PIN"; fst (fst v); "+"; "PROPERTY"; snd (fst v); snd v; ";"]) l)
  | SSpnets n l => w_section "SPECIALNETS" n (flat_map (fun v => w_stmt (sn_name v) (flat_map (w_item w_spwire) (sn_items v))) l)
  | SNets n l => w_section "NETS" n (flat_map (fun v => w_stmt (nn_name v) (flat_map (w_item w_rwire) (nn_items v))) l)
  end.
Definition w_file_stmt (f : file_stmt) : list string :=
  match f with
  | FVersion v => ["VERSION"; v; ";"]
  | FDividerchar v => ["DIVIDERCHAR"; v; ";"]
  | FBusbitchars v => ["BUSBITCHARS"; v; ";"]
  | FDesign name l => "DESIGN" :: name :: ";" :: flat_map w_design_stmt l ++ ["END"; "DESIGN"]
  end.
Definition words (t : tree) : list string := flat_map w_file_stmt (t_stmts t).
Fixpoint lines (ws : list string) : string := match ws with [] => EmptyString | w :: r => w ++ nl ++ lines r end.
Definition print_def (t : tree) : string :=
  match t_comment t with Some c => c ++ nl | None => EmptyString end ++ lines (words t).

(** * well-formed trees: every token text is a whole word of the right kind where it is read *)
Definition tok_eqb (a b : tok) : bool :=
  match a, b with
  | KEof, KEof => true
  | KKw x, KKw y | KId x, KId y | KNum x, KNum y | KStr x, KStr y | KOrient x, KOrient y | KComment x, KComment y => String.eqb x y
  | _, _ => false
  end.
Definition reads (acc : list term) (w : string) (t : tok) : bool :=
  match word_tok acc w with Some t' => tok_eqb t' t | None => false end.
Definition wf_id (w : string) : bool := reads A_id w (KId w).
Definition wf_num (w : string) : bool := digits1 w.
Definition wf_snum (w : string) : bool := is_int_word true w.
Definition wf_str (w : string) : bool := simple_string w.
(* an ID read after a point / a via of a routing statement: not one of the strings the scanner retypes, not an orientation *)
Definition wf_rvia (w : string) : bool := reads A_pt_end w (KId w) && reads A_via_r w (KId w).
Definition wf_spvia (w : string) : bool := reads A_pt_end w (KId w) && reads A_via_s w (KId w).
Definition wf_after_point (w : string) : bool := reads A_pt_end w (KId w).
Definition wf_coord (c : coord) : bool := match c with CStar => true | CNum s => wf_num s end.
Definition wf_point (p : tpoint) : bool :=
  wf_coord (tp_x p) && wf_coord (tp_y p) && match tp_z p with Some z => wf_num z | None => true end.
Definition wf_do_step (d : tdostep) : bool := wf_num (ds_n d) && wf_num (ds_m d) && wf_snum (ds_dx d) && wf_snum (ds_dy d).
Definition wf_relem (e : relem) : bool :=
  match e with
  | RPoint p => wf_point p
  | RVia nm None => wf_rvia nm
  | RVia nm (Some o) => wf_rvia nm && orient_word o
  end.
Definition wf_spelem (e : spelem) : bool :=
  match e with SPPoint p => wf_point p | SPVia nm None => wf_spvia nm | SPVia nm (Some d) => wf_spvia nm && wf_do_step d end.
Definition nonnil {A} (l : list A) : bool := match l with [] => false | _ => true end.
Definition wf_rwire (w : rwire) : bool :=
  wf_id (rw_layer w) && forallb wf_id (rw_opt w) && (List.length (rw_opt w) <=? 2)%nat &&
  wf_point (rw_first w) && forallb wf_relem (rw_rest w) && nonnil (rw_rest w).
Definition wf_spw_opt (o : spw_opt) : bool := match o with SWShape v | SWStyle v => wf_id v end.
Definition wf_spwire (w : spwire) : bool :=
  wf_id (sw_layer w) && wf_num (sw_width w) && forallb wf_spw_opt (sw_opts w) &&
  wf_point (sw_first w) && forallb wf_spelem (sw_rest w) && nonnil (sw_rest w).
Definition wf_item {W} (special : bool) (wfw : W -> bool) (it : net_item W) : bool :=
  match it with
  | NIPin a b => wf_id a && wf_id b
  | NIOpt k v => wf_id v
  | NIWires k w ws => forallb wfw (w :: ws) && negb (special && match k with KNoshield => true | _ => false end)
  end.
(* a net_pin "(" after routing would be read as a point (LALR shift): connections are written before the wiring *)
Fixpoint pins_first {W} (seen_wiring : bool) (its : list (net_item W)) : bool :=
  match its with
  | [] => true
  | NIPin _ _ :: r => negb seen_wiring && pins_first seen_wiring r
  | NIOpt _ _ :: r => pins_first seen_wiring r
  | NIWires _ _ _ :: r => pins_first true r
  end.
Definition wf_via_opt (o : via_opt) : bool :=
  match o with
  | VOViarule v | VOPattern v => wf_id v
  | VOLayers a b c => wf_id a && wf_id b && wf_id c
  | VOCutsize a b | VOCutspacing a b | VORowcol a b => wf_num a && wf_num b
  | VOEnclosure a b c d => wf_num a && wf_num b && wf_num c && wf_num d
  end.
Definition wf_nondef_opt (o : nondef_opt) : bool :=
  match o with NOHardspacing => true | NOVia v => wf_id v | NOLayer id w s => wf_id id && wf_num w && wf_num s end.
Definition wf_pin_opt (o : pin_opt) : bool :=
  match o with
  | PONet v | PODirection v | POUse v => wf_id v
  | POSpecial | POPort => true
  | POLayer id p1 p2 => wf_id id && wf_point p1 && wf_point p2
  | POPlaced p o => wf_point p && wf_after_point o
  end.
Definition wf_design_stmt (s : design_stmt) : bool :=
  match s with
  | SUnits a b n => wf_id a && wf_id b && wf_num n
  | SDiearea p ps => forallb wf_point (p :: ps)
  | SRow name site x y o d => wf_id name && wf_id site && wf_num x && wf_num y && wf_id o && wf_do_step d
  | STracks d a b c l => (String.eqb d "X" || String.eqb d "Y") && wf_num a && wf_num b && wf_num c && wf_id l
  | SPropdef l => forallb (fun ab => wf_id (fst ab) && wf_id (snd ab)) l
  | SVias n l => wf_num n && forallb (fun v => wf_id (vs_name v) && forallb wf_via_opt (vs_opts v)) l
  | SNondef n x l => wf_num n && forallb (fun v => wf_id (nds_name v) && forallb wf_nondef_opt (nds_opts v)) (x :: l)
  | SComp n l => wf_num n && forallb (fun c => wf_id (cs_name c) && wf_id (cs_kind c) && wf_point (cs_pt c) && wf_after_point (cs_orient c)) l
  | SPins n l => wf_num n && forallb (fun v => wf_id (ps_name v) && forallb wf_pin_opt (ps_opts v)) l
  | SPinprop n l => wf_num n && forallb (fun v => wf_id (fst (fst v)) && wf_id (snd (fst v)) && wf_str (snd v)) l
  | SSpnets n l => wf_num n && forallb (fun v => wf_id (sn_name v) && forallb (wf_item true wf_spwire) (sn_items v) && pins_first false (sn_items v)) l
  | SNets n l => wf_num n && forallb (fun v => wf_id (nn_name v) && forallb (wf_item false wf_rwire) (nn_items v) && pins_first false (nn_items v)) l
  end.
Definition wf_file_stmt (f : file_stmt) : bool :=
  match f with
  | FVersion v => wf_id v
  | FDividerchar v | FBusbitchars v => wf_str v
  | FDesign name l => wf_id name && forallb wf_design_stmt l
  end.
Definition wf_comment (c : string) : bool := match c with String "#" b => no_newline b | _ => false end.
Definition wf_tree (t : tree) : bool :=
  match t_comment t with Some c => wf_comment c | None => true end && forallb wf_file_stmt (t_stmts t).

(** * correspondence cases: the printer, and the well-formedness of the trees lark builds for the generated files *)
Definition print_case (t : tree) (text : string) (wf : bool) : bool :=
  String.eqb (print_def t) text && Bool.eqb (wf_tree t) wf.
