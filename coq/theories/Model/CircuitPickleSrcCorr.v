(** Correspondence helper for the translated pickle pair (Gen/CircuitPickleSrc.v): the state dict the REAL __getstate__ returned
    (rendered as a [pyval] literal by the harness) is compared with the translated __getstate__ on the model state, and the
    translated __setstate__ is run ON THE REAL DICT and compared with the real unpickled circuit (full view, classes of the three
    list attributes, name).  The translated functions are passed in by the generated case file, so that this file does not depend
    on generated code.  Definitions only. *)
From Coq Require Import List Arith Bool String ZArith.
From KV Require Import Model.Circuit Model.CircuitInv Model.CircuitCorr Model.CircuitPrimsSrcLib Model.CircuitPickleSrcLib.
Import ListNotations.
Local Open Scope list_scope.

Fixpoint pyval_eqb (a b : pyval) {struct a} : bool :=
  match a, b with
  | PNone, PNone => true
  | PInt x, PInt y => Z.eqb x y
  | PStr x, PStr y => String.eqb x y
  | PTuple x, PTuple y =>
      (fix go (x y : list pyval) {struct x} : bool :=
         match x, y with [], [] => true | p :: x', q :: y' => pyval_eqb p q && go x' y' | _, _ => false end) x y
  | PList x, PList y =>
      (fix go (x y : list pyval) {struct x} : bool :=
         match x, y with [], [] => true | p :: x', q :: y' => pyval_eqb p q && go x' y' | _, _ => false end) x y
  | PDict x, PDict y =>
      (fix go (x y : list (string * pyval)) {struct x} : bool :=
         match x, y with
         | [], [] => true
         | (k, p) :: x', (k', q) :: y' => String.eqb k k' && pyval_eqb p q && go x' y'
         | _, _ => false
         end) x y
  | _, _ => false
  end.
Definition lclass_eqb (a b : lclass) : bool :=
  match a, b with CList, CList | CGrowingList, CGrowingList | CIndexList, CIndexList => true | _, _ => false end.
Definition cmeta_eqb (a b : cmeta) : bool :=
  pyval_eqb (m_name a) (m_name b) && lclass_eqb (m_nodes_cls a) (m_nodes_cls b) && lclass_eqb (m_lines_cls a) (m_lines_cls b) &&
  lclass_eqb (m_io_cls a) (m_io_cls b).

(** what the implementation did: the dict (None: __getstate__ raised) and the unpickled object (None: __setstate__ raised) *)
Inductive pk_real :=
  | PKR (name : pyval) (st : option pyval) (res : option (cmeta * cview))
  | PKD (st : pyval) (res : option (cmeta * cview)).    (* a state dict handed to __setstate__ directly (damaged dicts) *)

Section PickleCase.
  Variable getstate_s : circ -> pyval -> option pyval.
  Variable setstate_s : pyval -> option (cmeta * circ).
  (** 0 = agreement; 1 = the state before is not reachable in the model; 2 = dict differs; 3 = unpickled object differs *)
  Definition setstate_code (lit : pyval) (res : option (cmeta * cview)) : nat :=
    match setstate_s lit, res with
    | Some (m, c'), Some (m', v) => if cmeta_eqb m m' && view_ok c' v then 0 else 3
    | None, None => 0
    | _, _ => 3
    end.
  Definition pickle_case (ops : list op) (r : pk_real) : nat :=
    match r with
    | PKD lit res => setstate_code lit res
    | PKR name st res =>
        match run_hist ops with
        | None => 1
        | Some c =>
            let g := match getstate_s c name, st with
                     | Some a, Some b => pyval_eqb a b
                     | None, None => true
                     | _, _ => false
                     end in
            if negb g then 2 else match st with None => 0 | Some lit => setstate_code lit res end
        end
    end.
End PickleCase.
Fixpoint failing_codes (i : nat) (l : list nat) : list (nat * nat) :=
  match l with [] => [] | 0 :: r => failing_codes (S i) r | k :: r => (i, k) :: failing_codes (S i) r end.
