(** The 33 simulation primitives with their Boolean functions, written from the comments in
    sim.py:7-40 and the documented gate names; LUT row index = i0 + 2 i1 + 4 i2 + 8 i3. *)
From Coq Require Import List NArith Bool String Ascii.
Import ListNotations.
Local Open Scope string_scope.

Inductive prim :=
| BUF1 | INV1
| AND2 | AND3 | AND4 | NAND2 | NAND3 | NAND4
| OR2 | OR3 | OR4 | NOR2 | NOR3 | NOR4
| XOR2 | XOR3 | XOR4 | XNOR2 | XNOR3 | XNOR4
| AO21 | AO22 | OA21 | OA22 | AOI21 | AOI22 | OAI21 | OAI22
| AO211 | OA211 | AOI211 | OAI211 | MUX21.

Definition all_prims := [BUF1; INV1; AND2; AND3; AND4; NAND2; NAND3; NAND4; OR2; OR3; OR4; NOR2; NOR3; NOR4;
  XOR2; XOR3; XOR4; XNOR2; XNOR3; XNOR4; AO21; AO22; OA21; OA22; AOI21; AOI22; OAI21; OAI22;
  AO211; OA211; AOI211; OAI211; MUX21].

Definition prim_name (p : prim) : string :=
  match p with
  | BUF1 => "BUF1" | INV1 => "INV1"
  | AND2 => "AND2" | AND3 => "AND3" | AND4 => "AND4" | NAND2 => "NAND2" | NAND3 => "NAND3" | NAND4 => "NAND4"
  | OR2 => "OR2" | OR3 => "OR3" | OR4 => "OR4" | NOR2 => "NOR2" | NOR3 => "NOR3" | NOR4 => "NOR4"
  | XOR2 => "XOR2" | XOR3 => "XOR3" | XOR4 => "XOR4" | XNOR2 => "XNOR2" | XNOR3 => "XNOR3" | XNOR4 => "XNOR4"
  | AO21 => "AO21" | AO22 => "AO22" | OA21 => "OA21" | OA22 => "OA22"
  | AOI21 => "AOI21" | AOI22 => "AOI22" | OAI21 => "OAI21" | OAI22 => "OAI22"
  | AO211 => "AO211" | OA211 => "OA211" | AOI211 => "AOI211" | OAI211 => "OAI211" | MUX21 => "MUX21"
  end.

(** the Boolean function each primitive denotes *)
Definition prim_fn (p : prim) (a b c d : bool) : bool :=
  match p with
  | BUF1 => a | INV1 => negb a
  | AND2 => a && b | AND3 => a && b && c | AND4 => a && b && c && d
  | NAND2 => negb (a && b) | NAND3 => negb (a && b && c) | NAND4 => negb (a && b && c && d)
  | OR2 => a || b | OR3 => a || b || c | OR4 => a || b || c || d
  | NOR2 => negb (a || b) | NOR3 => negb (a || b || c) | NOR4 => negb (a || b || c || d)
  | XOR2 => xorb a b | XOR3 => xorb (xorb a b) c | XOR4 => xorb (xorb (xorb a b) c) d
  | XNOR2 => negb (xorb a b) | XNOR3 => negb (xorb (xorb a b) c) | XNOR4 => negb (xorb (xorb (xorb a b) c) d)
  | AO21 => (a && b) || c | AO22 => (a && b) || (c && d)
  | OA21 => (a || b) && c | OA22 => (a || b) && (c || d)
  | AOI21 => negb ((a && b) || c) | AOI22 => negb ((a && b) || (c && d))
  | OAI21 => negb ((a || b) && c) | OAI22 => negb ((a || b) && (c || d))
  | AO211 => (a && b) || c || d | OA211 => (a || b) && c && d
  | AOI211 => negb ((a && b) || c || d) | OAI211 => negb ((a || b) && c && d)
  | MUX21 => if c then b else a
  end.

Definition row_index (a b c d : bool) : N :=
  (N.b2n a + 2 * N.b2n b + 4 * N.b2n c + 8 * N.b2n d)%N.
Definition lut_bit (lut : N) (a b c d : bool) : bool := N.testbit lut (row_index a b c d).

Definition bools := [false; true].
Definition rows16 : list (bool * bool * bool * bool) :=
  flat_map (fun a => flat_map (fun b => flat_map (fun c => map (fun d => (a, b, c, d)) bools) bools) bools) bools.

Fixpoint assoc {A} (k : string) (l : list (string * A)) : option A :=
  match l with [] => None | (k', v) :: r => if String.eqb k k' then Some v else assoc k r end.

(** string helpers for kind matching (kind.lower().startswith(prefix), 'dff' in kind.lower()) *)
Definition lower_ascii (c : ascii) : ascii :=
  let n := nat_of_ascii c in if (Nat.leb 65 n && Nat.leb n 90)%bool then ascii_of_nat (n + 32)%nat else c.
Fixpoint lower (s : string) : string :=
  match s with EmptyString => EmptyString | String c r => String (lower_ascii c) (lower r) end.
Fixpoint contains (sub s : string) : bool :=
  if prefix sub s then true else match s with EmptyString => false | String _ r => contains sub r end.

(** sim.py:207-215: first prefix (dict order) the lower-cased kind starts with; arity by the
    highest connected pin (i3 / i2 unconnected) *)
Fixpoint select_lut (tbl : list (string * (N * N * N))) (kind : string) (i2_unconn i3_unconn : bool) : option N :=
  match tbl with
  | [] => None
  | (pre, (l4, l3, l2)) :: r =>
      if prefix pre (lower kind) then Some (if i3_unconn then (if i2_unconn then l2 else l3) else l4)
      else select_lut r kind i2_unconn i3_unconn
  end.
