(** Correspondence helper for the translated primitives of circuit.py: an edit history is run with the primitive operations
    executed by the TRANSLATED SOURCE (Gen/CircuitPrimsSrc.v, passed in as [step_s] by the generated case file, so that this
    file does not depend on generated code) and the state after every step is compared with the implementation's
    ([view_ok], Model/CircuitCorr.v).  Definitions only. *)
From Coq Require Import List Arith Bool String.
From KV Require Import Model.Circuit Model.CircuitInv Model.CircuitCorr Model.CircuitPrimsSrcLib.
Import ListNotations.
Local Open Scope list_scope.

Section SrcHist.
  Variable step_s : circ -> op -> option circ.
  Fixpoint hist_fail_src (c : circ) (steps : list hstep) (k : nat) : option nat :=
    match steps with
    | [] => None
    | HS o _ v :: r =>
        match step_s c o with
        | Some c' => if view_ok c' v then hist_fail_src c' r (S k) else Some k
        | None => Some k
        end
    | HX o :: _ => match step_s c o with None => None | Some _ => Some k end
    end.
  Definition hist_case_src (steps : hsteps) : option nat := hist_fail_src empty (of_hsteps steps) 0.
End SrcHist.
