(** Vocabulary of the translated pure callbacks of kyupy/sdf.py (Gen/SdfCallbacksSrc.v, written by
    translate/gen_sdf_callbacks.py): SdfTransformer.triple, sanitize, SdfTransformer.interconnect / iopath.

      a lark Token           = its text ([string]; Token is a str subclass, .value and str() give the text)
      a float                = 8 * its value as an integer ([Z]); float(s) = [py_float8 s] = Model/SdfText.v [dec8]:
                               defined exactly when float() accepts s AND the value is a multiple of 1/8 with at most 15
                               digits (then the correctly rounded float is exact); [None] = ValueError or outside that grid
      an argument of the entry callbacks = a Token or the list of floats [triple] returned ([sval])

    Every operation that can raise is option-valued.  Definitions only. *)
From Coq Require Import List ZArith Bool String Ascii Arith.
From KV Require Import Model.Sdf Model.SdfText.
Import ListNotations.
Local Open Scope list_scope.

Inductive sval := SvTok (s : string) | SvNums (l : list Z).

(* s[:-1] *)
Fixpoint str_drop_last (s : string) : string :=
  match s with
  | EmptyString => EmptyString
  | String c EmptyString => EmptyString
  | String c r => String c (str_drop_last r)
  end.
Definition py_float8 (s : string) : option Z := dec8 s.
(* [f(a) for a in l] with a body that can raise *)
Fixpoint py_mapM {A B} (f : A -> option B) (l : list A) : option (list B) :=
  match l with
  | [] => Some []
  | x :: r => match f x with
              | Some y => match py_mapM f r with Some ys => Some (y :: ys) | None => None end
              | None => None
              end
  end.
(* l[i] for a constant i >= 0 *)
Definition py_lget {A} (i : nat) (l : list A) : option A := nth_error l i.
(* str(v): the text of a Token; the repr of a list of floats is outside the vocabulary *)
Definition py_str (v : sval) : option sval := match v with SvTok s => Some (SvTok s) | SvNums _ => None end.
(* NT( *l ) for a namedtuple NT with n fields: TypeError unless len(l) = n *)
Definition py_namedtuple {A} (n : nat) (l : list A) : option (list A) := if Nat.eqb (List.length l) n then Some l else None.

(** how the arguments of Model/Sdf.v look as values *)
Definition tok_of (body : string) (term : ascii) : string := String.append body (String term EmptyString).
Definition enc_entry_args (a b : string) (ts : list ttriple) : list sval := SvTok a :: SvTok b :: map (fun t => SvNums (triple_cb t)) ts.
Definition enc_entry (e : entry) : list sval := [SvTok (e_a e); SvTok (e_b e); SvNums (e_r e); SvNums (e_f e)].

(** comparison for the correspondence cases *)
Definition lz_eqb (a b : list Z) : bool := (Nat.eqb (List.length a) (List.length b)) && forallb (fun p => Z.eqb (fst p) (snd p)) (combine a b).
Definition sval_eqb (a b : sval) : bool :=
  match a, b with SvTok x, SvTok y => String.eqb x y | SvNums x, SvNums y => lz_eqb x y | _, _ => false end.
Definition svals_eqb (a b : list sval) : bool :=
  (Nat.eqb (List.length a) (List.length b)) && forallb (fun p => sval_eqb (fst p) (snd p)) (combine a b).
(* exp = None: the implementation raised *)
Definition triple_src_case (f : list string -> option (list Z)) (toks : list string) (exp : option (list Z)) : bool :=
  match f toks, exp with Some a, Some b => lz_eqb a b | None, None => true | _, _ => false end.
Definition entry_src_case (f : list sval -> option (list sval)) (args : list sval) (exp : option (list sval)) : bool :=
  match f args, exp with Some a, Some b => svals_eqb a b | None, None => true | _, _ => false end.
