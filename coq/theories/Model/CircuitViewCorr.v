(** C10 correspondence: on an edit history executed on the real kyupy Circuit, the model's netlist view [view c] equals the
    netlist rendered from the live objects (harness/circgen.coq_netlist), [s_names c] equals [n.name for n in c.s_nodes]
    and [Netlist.s_nodes (view c)] equals [n.index for n in c.s_nodes] at every observed step.  Definitions only. *)
From Coq Require Import List Arith Bool String.
From KV Require Model.Netlist.
From KV Require Import Model.Circuit Model.CircuitInv Model.CircuitView Model.CircuitCorr Model.CircuitSem.
Import ListNotations.
Local Open Scope list_scope.

Definition vnode_eqb (a b : Netlist.node) : bool :=
  String.eqb (Netlist.n_kind a) (Netlist.n_kind b) &&
  leqb (oeqb Nat.eqb) (Netlist.n_ins a) (Netlist.n_ins b) && leqb (oeqb Nat.eqb) (Netlist.n_outs a) (Netlist.n_outs b).
Definition vline_eqb (a b : Netlist.line) : bool :=
  Nat.eqb (Netlist.l_drv a) (Netlist.l_drv b) && Nat.eqb (Netlist.l_dpin a) (Netlist.l_dpin b) &&
  Nat.eqb (Netlist.l_rdr a) (Netlist.l_rdr b) && Nat.eqb (Netlist.l_rpin a) (Netlist.l_rpin b).
Definition netlist_eqb (a b : Netlist.netlist) : bool :=
  leqb vnode_eqb (Netlist.c_nodes a) (Netlist.c_nodes b) && leqb vline_eqb (Netlist.c_lines a) (Netlist.c_lines b) &&
  leqb Nat.eqb (Netlist.c_io a) (Netlist.c_io b).

(* what the implementation shows after a step: netlist, s_nodes names, s_nodes indices, whether every state element precedes
   every removable 1:1 fork in Circuit.nodes (the hypothesis [state_first] of C10_eliminate_order_kept, decided on the live objects);
   [VSkip] = not observed *)
Inductive vexp := VE (nl : Netlist.netlist) (names : list string) (sidx : list nat) (sf : bool) | VSkip.
Inductive vstep := VS (o : op) (e : vexp).

(* the model-side facts that the C10 theorems rely on are re-checked on every observed state: the executable invariant, the
   io precondition, and the closed form of s_nodes as ids (ports, then flip-flops, then latches in node-list order) *)
Definition vexp_ok (c : circ) (e : vexp) : bool :=
  match e with
  | VSkip => true
  | VE nl names sidx sf =>
      Bool.eqb (state_first_b c) sf && netlist_eqb (view c) nl && leqb String.eqb (s_names c) names && leqb Nat.eqb (Netlist.s_nodes (view c)) sidx &&
      cinv_b c && io_ok_b c &&
      leqb Nat.eqb (s_node_ids c) (io_ids c ++ filter (node_is_dff c) (nodes c) ++ filter (node_is_latch c) (nodes c))
  end.

Fixpoint vhist_fail (c : circ) (steps : list vstep) (k : nat) : option nat :=
  match steps with
  | [] => None
  | VS o e :: r =>
      match step c o with
      | None => Some k
      | Some c' => if vexp_ok c' e then vhist_fail c' r (S k) else Some k
      end
  end.
Definition vhist_case (steps : list vstep) : option nat := vhist_fail empty steps 0.

(* debugging: the model's observation after k steps *)
Fixpoint vstate_after (c : circ) (steps : list vstep) (k : nat) : option circ :=
  match k, steps with
  | O, _ => Some c
  | S k', VS o _ :: r => match step c o with Some c' => vstate_after c' r k' | None => None end
  | S _, [] => Some c
  end.
Definition vobserve (c : circ) := (view c, s_names c, Netlist.s_nodes (view c)).
