(** Vocabulary of the translated source of Circuit.__getstate__ / Circuit.__setstate__ (Gen/CircuitPickleSrc.v, written by
    translate/gen_circuit_pickle.py) on top of Model/CircuitPrimsSrcLib.v.  Definitions only.

    What is TRUSTED here (in addition to CircuitPrimsSrcLib.v):

      state dict        the value __getstate__ returns is a Python VALUE built from None / int / str / tuple / list / dict with
                        str keys ([pyval]); such a value shares no object with the circuit, pickling and unpickling it (or handing it
                        over directly) is the identity on [pyval], and no translated statement mutates a [pyval]
      d[KEY]            [py_getitem_key]: lookup of a constant str key in a dict; None = KeyError / TypeError (not a dict)
      for x in v        [py_iter]: the items of a list / tuple value in order; None = TypeError or a value whose iteration is
                        outside the modelled domain (str, dict)
      a, b, .. = v      [py_unpack]: a list / tuple value of exactly that length
      Node(self, *s)    [py_star_name_kind]: s is a sequence of one or two str items (the second one defaults to the default of
                        Node.__init__'s parameter kind); anything else is TypeError or outside the modelled domain (names / kinds
                        are str in the model)
      L[v]              an index / pin position taken from the state must be an int ([py_as_int]) and non-negative ([py_idx])
      new object        __setstate__ runs on an object created by object.__new__(Circuit): NO attribute exists.  The new
                        circuit is a state of its own ([empty]: ids start at 0; nothing of the pickled circuit is reachable from
                        it because the state dict holds str / int only); the translator checks that every attribute the model reads
                        (nodes, lines, io_nodes, cells, forks) and `name` is assigned before the first use, and RECORDS the class
                        each list attribute is created with ([cmeta]): circuit.nodes / circuit.lines must be IndexList and
                        circuit.io_nodes GrowingList for the translated primitives (Gen/CircuitPrimsSrc.v) to describe the methods
                        later calls dispatch to.
      self.name         the name of a circuit is an opaque Python value ([pyval]); it is carried, never inspected *)
From Coq Require Import List Arith Bool String ZArith.
From KV Require Import Model.Circuit Model.CircuitPrimsSrcLib.
Import ListNotations.
Local Open Scope list_scope.

Inductive pyval :=
  | PNone
  | PInt (z : Z)
  | PStr (s : string)
  | PTuple (l : list pyval)
  | PList (l : list pyval)
  | PDict (d : list (string * pyval)).

Fixpoint py_assoc (k : string) (d : list (string * pyval)) : option pyval :=
  match d with [] => None | (k', v) :: r => if String.eqb k k' then Some v else py_assoc k r end.
Definition py_getitem_key (v : pyval) (k : string) : option pyval :=
  match v with PDict d => py_assoc k d | _ => None end.
Definition py_iter (v : pyval) : option (list pyval) :=
  match v with PList l => Some l | PTuple l => Some l | _ => None end.
Definition py_unpack (n : nat) (v : pyval) : option (list pyval) :=
  match py_iter v with Some l => if Nat.eqb (List.length l) n then Some l else None | None => None end.
Definition py_as_int (v : pyval) : option Z := match v with PInt z => Some z | _ => None end.
Definition py_star_name_kind (default : string) (v : pyval) : option (string * string) :=
  match py_iter v with
  | Some [PStr a] => Some (a, default)
  | Some [PStr a; PStr b] => Some (a, b)
  | _ => None
  end.

(** [ELT for x in L]: the elements are evaluated in order, the first one that raises ends the comprehension *)
Fixpoint py_map_opt {A} (f : A -> option pyval) (l : list A) : option (list pyval) :=
  match l with
  | [] => Some []
  | x :: r => match f x with None => None | Some y => match py_map_opt f r with None => None | Some ys => Some (y :: ys) end end
  end.
Definition py_list_comp {A} (f : A -> option pyval) (l : list A) : option pyval := option_map PList (py_map_opt f l).

(** the class a list attribute of the circuit object was created with *)
Inductive lclass := CList | CGrowingList | CIndexList.
Record cmeta := mkM { m_name : pyval; m_nodes_cls : lclass; m_lines_cls : lclass; m_io_cls : lclass }.
Definition blank_meta : cmeta := mkM PNone CList CList CList.
Definition m_set_name (m : cmeta) v := mkM v (m_nodes_cls m) (m_lines_cls m) (m_io_cls m).
Definition m_set_nodes_cls (m : cmeta) k := mkM (m_name m) k (m_lines_cls m) (m_io_cls m).
Definition m_set_lines_cls (m : cmeta) k := mkM (m_name m) (m_nodes_cls m) k (m_io_cls m).
Definition m_set_io_nodes_cls (m : cmeta) k := mkM (m_name m) (m_nodes_cls m) (m_lines_cls m) k.
(** what Circuit.__init__ creates (pinned by translate/gen_circuit_prims.py: CIRCUIT_INIT_CONTAINERS) *)
Definition init_meta (name : pyval) : cmeta := mkM name CIndexList CIndexList CGrowingList.

(** ** the state dict of the hand model ([pstate] of Model/Circuit.v) as a Python value *)
Definition enc_node (s : string * string) : pyval := PTuple [PStr (fst s); PStr (snd s)].
Definition enc_line (q : nat * nat * nat * nat) : pyval :=
  let '(d, dp, r, rp) := q in PTuple [PInt (Z.of_nat d); PInt (Z.of_nat dp); PInt (Z.of_nat r); PInt (Z.of_nat rp)].
Definition enc_io (i : nat) : pyval := PInt (Z.of_nat i).
Definition enc_pstate (name : pyval) (s : pstate) : pyval :=
  let '(nds, ls, ios) := s in
  PDict [("name"%string, name); ("nodes"%string, PList (map enc_node nds)); ("lines"%string, PList (map enc_line ls));
         ("io_nodes"%string, PList (map enc_io ios))].

(** results of the translated __setstate__ compared up to [ceq] *)
Definition omceq (a b : option (cmeta * circ)) : Prop :=
  match a, b with Some (m, x), Some (m', y) => m = m' /\ ceq x y | None, None => True | _, _ => False end.
