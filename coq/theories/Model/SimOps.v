(** sim.SimOps.__init__ (sim.py:159-333) transcribed: op table, greedy levels, reference counts,
    allocation through Heap, aliasing of stripped fan-out branches and PPO slots. *)
From Coq Require Import List NArith ZArith Bool Arith String.
From KV Require Import Model.Prims Model.Netlist Model.Heap Gen.SimTables.
Import ListNotations.
Local Open Scope list_scope.

Record sop := { s_lut : N; s_out : nat; s_i0 : nat; s_i1 : nat; s_i2 : nat; s_i3 : nat }.

Record simops := {
  so_ops : list sop;
  so_level_starts : list nat;
  so_locs : list Z;          (* c_locs, -1 = not allocated *)
  so_caps : list N;          (* c_caps *)
  so_len : N;                (* c_len *)
  so_stems : list Z;
  so_nlines : nat;
  so_slen : nat
}.

Definition lutv (name : string) : N := match assoc name lut_table with Some v => v | None => 0%N end.

Fixpoint last_pos (x : nat) (l : list nat) (i : nat) (acc : option nat) : option nat :=
  match l with [] => acc | y :: r => last_pos x r (S i) (if Nat.eqb x y then Some i else acc) end.

Definition pin (l : list (option nat)) (k : nat) : option nat := match nth_error l k with Some (Some x) => Some x | _ => None end.
Definition pin_or (l : list (option nat)) (k d : nat) : nat := match pin l k with Some x => x | None => d end.

Definition node_ops (c : netlist) (snodes : list nat) (strip : bool) (zero tmp ppi : nat) (n : nat) : list sop :=
  let nd := get_node c n in
  let mk l o a b cc d := {| s_lut := l; s_out := o; s_i0 := a; s_i1 := b; s_i2 := cc; s_i3 := d |} in
  let port_wire := String.eqb (n_kind nd) "__fork__" && is_some (pin (n_ins nd) 0) in
  match (if port_wire then None else last_pos n snodes 0 None) with
  | Some pos =>
      let inp := ppi + pos in
      (match pin (n_outs nd) 0 with Some o => [mk (lutv "BUF1") o inp zero zero zero] | None => [] end) ++
      (if is_dff nd then
         match pin (n_outs nd) 1 with Some o => [mk (lutv "INV1") o inp zero zero zero] | None => [] end
       else map (fun o => mk (lutv "BUF1") o inp zero zero zero) (somes (tl (n_outs nd))))
  | None =>
      let o0 := pin_or (n_outs nd) 0 tmp in
      let i0 := pin_or (n_ins nd) 0 zero in let i1 := pin_or (n_ins nd) 1 zero in
      let i2 := pin_or (n_ins nd) 2 zero in let i3 := pin_or (n_ins nd) 3 zero in
      if String.eqb (lower (n_kind nd)) "__fork__" then
        if strip then [] else map (fun o => mk (lutv "BUF1") o i0 i1 i2 i3) (somes (n_outs nd))
      else
        match select_lut kind_prefixes (n_kind nd) (Nat.eqb i2 zero) (Nat.eqb i3 zero) with
        | Some sp => [mk sp o0 i0 i1 i2 i3]
        | None => []
        end
  end.

Definition build_ops (c : netlist) (strip : bool) : list sop :=
  let nl := List.length (c_lines c) in
  let sn := s_nodes c in
  flat_map (node_ops c sn strip nl (nl + 1) (nl + 3)) (topo_order c).

(** stems for fork stripping; None = the code raises (fork without input line) *)
Fixpoint stem_walk (fuel : nat) (c : netlist) (l : nat) : option nat :=
  match fuel with
  | O => None
  | S f => let d := get_node c (l_drv (get_line c l)) in
           if String.eqb (n_kind d) "__fork__" then
             match pin (n_ins d) 0 with Some l' => stem_walk f c l' | None => Some l end
           else Some l
  end.

Fixpoint setZ (l : list Z) (i : nat) (v : Z) : list Z :=
  match l, i with [], _ => [] | _ :: r, O => v :: r | x :: r, S i' => x :: setZ r i' v end.
Fixpoint setN (l : list N) (i : nat) (v : N) : list N :=
  match l, i with [], _ => [] | _ :: r, O => v :: r | x :: r, S i' => x :: setN r i' v end.

Definition build_stems (c : netlist) (strip : bool) (len : nat) : option (list Z) :=
  let init := repeat (-1)%Z len in
  if negb strip then Some init else
  fold_left (fun acc (f : node) =>
      match acc with None => None | Some st =>
        if String.eqb (n_kind f) "__fork__" then
          match pin (n_ins f) 0 with
          | None => Some st                (* input port modelled as fork: nothing to strip *)
          | Some l0 => match stem_walk (S (List.length (c_nodes c))) c l0 with
                       | None => None
                       | Some stem => Some (fold_left (fun s ol => setZ s ol (Z.of_nat stem)) (somes (n_outs f)) st)
                       end
          end
        else Some st end) (c_nodes c) (Some init).

Definition stemmed (stems : list Z) (i : nat) : nat :=
  let s := nth i stems (-1)%Z in if (0 <=? s)%Z then Z.to_nat s else i.

(** greedy levelisation and reference counts (sim.py:236-255) *)
Record lvl_state := { ls_levels : list nat; ls_ref : list Z; ls_starts : list nat (*reversed*); ls_cur : nat }.
Definition addZ (l : list Z) (i : nat) (d : Z) : list Z := setZ l i (nth i l 0%Z + d)%Z.

Definition level_step (stems : list Z) (st : lvl_state) (io : nat * sop) : lvl_state :=
  let '(i, o) := io in
  let a := stemmed stems (s_i0 o) in let b := stemmed stems (s_i1 o) in
  let cc := stemmed stems (s_i2 o) in let d := stemmed stems (s_i3 o) in
  let lv k := nth k (ls_levels st) 0 in
  let bump := Nat.leb (ls_cur st) (lv a) || Nat.leb (ls_cur st) (lv b) || Nat.leb (ls_cur st) (lv cc) || Nat.leb (ls_cur st) (lv d) in
  let cur' := if bump then S (ls_cur st) else ls_cur st in
  {| ls_levels := set_nat (ls_levels st) (s_out o) cur';
     ls_ref := addZ (addZ (addZ (addZ (ls_ref st) a 1) b 1) cc 1) d 1;
     ls_starts := if bump then i :: ls_starts st else ls_starts st;
     ls_cur := cur' |}.

Definition levelize (stems : list Z) (ops : list sop) (len : nat) : lvl_state :=
  fold_left (level_step stems) (combine (seq 0 (List.length ops)) ops)
            {| ls_levels := repeat 0 len; ls_ref := repeat 0%Z len; ls_starts := [0]; ls_cur := 1 |}.

Fixpoint split_levels (starts : list nat) (ops : list sop) (pos : nat) : list (list sop) :=
  match starts with
  | [] => []
  | _ :: rest =>
      let stop := match rest with s :: _ => s | [] => pos + List.length ops end in
      let n := stop - pos in
      firstn n ops :: split_levels rest (skipn n ops) stop
  end.

(** sorted insertion without duplicates: the level's free_set, iterated in ascending order *)
Fixpoint set_add (x : Z) (l : list Z) : list Z :=
  match l with
  | [] => [x]
  | y :: r => if (x <? y)%Z then x :: l else if (x =? y)%Z then l else y :: set_add x r
  end.

Record alloc_state := { a_heap : heap; a_locs : list Z; a_caps : list N; a_ref : list Z; a_ok : bool }.

Definition alloc_slot (cmin : N) (st : alloc_state) (idx : nat) (cap : N) : alloc_state :=
  let '(loc, h') := alloc (a_heap st) cap in
  {| a_heap := h'; a_locs := setZ (a_locs st) idx (Z.of_N loc); a_caps := setN (a_caps st) idx cap;
     a_ref := a_ref st; a_ok := a_ok st |}.

Definition op_alloc (tmp : nat) (stems : list Z) (caps : list N) (cmin : N) (stf : alloc_state * list Z) (o : sop)
  : alloc_state * list Z :=
  let '(st, fs) := stf in
  let opnds := map (stemmed stems) [s_i0 o; s_i1 o; s_i2 o; s_i3 o] in
  let ref' := fold_left (fun r k => addZ r k (-1)%Z) opnds (a_ref st) in
  let fs' := fold_left (fun f k => if (nth k ref' 0%Z <=? 0)%Z then set_add (nth k (a_locs st) (-1)%Z) f else f) opnds fs in
  if Nat.eqb (s_out o) tmp then
    ({| a_heap := a_heap st; a_locs := a_locs st; a_caps := a_caps st; a_ref := ref'; a_ok := a_ok st |}, fs')
  else
  match nth_error caps (s_out o) with
  | None => ({| a_heap := a_heap st; a_locs := a_locs st; a_caps := a_caps st; a_ref := ref'; a_ok := false |}, fs')
  | Some cp =>
      let st1 := {| a_heap := a_heap st; a_locs := a_locs st; a_caps := a_caps st; a_ref := ref'; a_ok := a_ok st |} in
      (alloc_slot cmin st1 (s_out o) (N.max cmin cp), fs')
  end.

Definition level_alloc (tmp : nat) (stems : list Z) (caps : list N) (cmin : N) (reuse : bool) (st : alloc_state) (lv : list sop)
  : alloc_state :=
  let '(st1, fs) := fold_left (op_alloc tmp stems caps cmin) lv (st, []) in
  if reuse then
    fold_left (fun s loc =>
        match (if (0 <=? loc)%Z then free (a_heap s) (Z.to_N loc) else None) with
        | Some h' => {| a_heap := h'; a_locs := a_locs s; a_caps := a_caps s; a_ref := a_ref s; a_ok := a_ok s |}
        | None => {| a_heap := a_heap s; a_locs := a_locs s; a_caps := a_caps s; a_ref := a_ref s; a_ok := false |}
        end) fs st1
  else st1.

Definition build (c : netlist) (caps : list N) (cmin : N) (reuse strip : bool) : option simops :=
  let nl := List.length (c_lines c) in
  let sn := s_nodes c in
  let slen := List.length sn in
  let zero := nl in let tmp := nl + 1 in let tmp2 := nl + 2 in
  let ppi := nl + 3 in let ppo := ppi + slen in let len := ppo + slen in
  let ops := build_ops c strip in
  match build_stems c strip len with
  | None => None
  | Some stems =>
      let ls := levelize stems ops len in
      let starts := rev (ls_starts ls) in
      let st0 := {| a_heap := hinit; a_locs := repeat (-1)%Z len; a_caps := repeat 0%N len; a_ref := ls_ref ls; a_ok := true |} in
      let pinref st k := {| a_heap := a_heap st; a_locs := a_locs st; a_caps := a_caps st;
                            a_ref := addZ (a_ref st) k 1; a_ok := a_ok st |} in
      let st1 := alloc_slot cmin st0 zero cmin in
      let st2 := alloc_slot cmin st1 tmp cmin in
      let st3 := alloc_slot cmin st2 tmp2 cmin in
      let st4 := pinref (pinref (pinref st3 zero) tmp) tmp2 in
      let st5 := fold_left (fun st (ip : nat * nat) =>
                    let '(i, n) := ip in
                    let nd := get_node c n in
                    let sta := if Nat.ltb 0 (List.length (n_outs nd))
                               then pinref (alloc_slot cmin st (ppi + i) cmin) (ppi + i) else st in
                    match n_ins nd with
                    | [] => sta
                    | Some l0 :: _ => pinref sta (stemmed stems l0)
                    | None :: _ => sta
                    end) (combine (seq 0 slen) sn) st4 in
      let st6 := fold_left (level_alloc tmp stems caps cmin reuse) (split_levels starts ops 0) st5 in
      (* copy location and capacity from stems to fan-out lines *)
      let '(locs7, caps7) := fold_left (fun (lc : list Z * list N) (i : nat) =>
                    let s := nth i stems (-1)%Z in
                    if (0 <=? s)%Z then (setZ (fst lc) i (nth (Z.to_nat s) (fst lc) (-1)%Z),
                                         setN (snd lc) i (nth (Z.to_nat s) (snd lc) 0%N))
                    else lc) (seq 0 len) (a_locs st6, a_caps st6) in
      (* PPO area *)
      let '(locs8, caps8, ok8) := fold_left (fun (lc : list Z * list N * bool) (ip : nat * nat) =>
                    let '(i, n) := ip in
                    match n_ins (get_node c n) with
                    | [] => lc
                    | Some l0 :: _ => (setZ (fst (fst lc)) (ppo + i) (nth l0 (fst (fst lc)) (-1)%Z),
                                       setN (snd (fst lc)) (ppo + i) (nth l0 (snd (fst lc)) 0%N), snd lc)
                    | None :: _ => lc
                    end) (combine (seq 0 slen) sn) (locs7, caps7, true) in
      if a_ok st6 && ok8 then
        Some {| so_ops := ops; so_level_starts := starts; so_locs := locs8; so_caps := caps8;
                so_len := mx (a_heap st6); so_stems := stems; so_nlines := nl; so_slen := slen |}
      else None
  end.
