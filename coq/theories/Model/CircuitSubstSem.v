(** C10, substitute on ARBITRARY implementation circuits: vocabulary.  Definitions only.

    (1) [substitute_pre]: Circuit.substitute split at the clean-up -- the state [c4] after all instance pins are re-attached,
        the list [dl] of nodes below unconnected instance outputs (for remove_dangling_nodes), and the node map [m]
        (Python: node_map) -- so that [substitute c u impl] = clean-up of [dl] on [c4] (Proofs/CircuitSubstSem.v).
    (2) [SubstGlue c u impl m c4]: WHERE every pin of every node of [c4] comes from -- host nodes keep their pins; the copy
        [y] of implementation node [x] ([mget x m = Some y]) carries, pin by pin, the copy of the implementation line, or the
        host line at the instance pin of the port the implementation line leads to, or nothing.  [subst_glue_b] decides it.
    (3) [inst_sol]: the reading "the instance computes the implementation's function of its input pins" as a predicate on
        a valuation of the HOST's lines (id-based semantics of Model/CircuitSem.v).
    (4) hypotheses as boolean checkers ([d22_free_b]: known finding D22 excluded). *)
From Coq Require Import List Arith Bool String NArith.
From KV Require Model.Prims Model.Netlist Model.SimOps Model.NetlistSem Gen.SimTables.
From KV Require Import Model.Circuit Model.CircuitInv Model.CircuitView Model.CircuitSem Model.CircuitCorr.
Import ListNotations.
Local Open Scope list_scope.

(** ** (1) substitute up to the clean-up *)
Definition impl_ins (impl : circ) : list nat := filter (fun n => List.length (ins_of impl n) =? 0) (io_ids impl).
Definition impl_outs (impl : circ) : list nat := filter (fun n => 0 <? List.length (ins_of impl n)) (io_ids impl).

Definition substitute_pre (c : circ) (node : nat) (impl : circ) : option (circ * list nat * list (nat * nat)) :=
  match all_somes (io impl) with
  | None => None
  | Some ios =>
      let impl_in_nodes := filter (fun n => List.length (ins_of impl n) =? 0) ios in
      let impl_out_lines := map (fun n => nth 0 (ins_of impl n) None)
                                (filter (fun n => 0 <? List.length (ins_of impl n)) ios) in
      let desig :=
        match impl_out_lines with
        | [] => Some None
        | None :: _ => None
        | Some l0 :: _ => match l_drv (lst impl l0) with
                          | Some d => option_map Some (find_designated (S (nnext impl)) impl d)
                          | None => None end
        end in
      match desig with
      | None => None
      | Some desig =>
          let node_in_lines := pad (ins_of c node) (List.length impl_in_nodes) in
          let node_out_lines := pad (outs_of c node) (List.length impl_out_lines) in
          if negb ((List.length node_in_lines =? List.length impl_in_nodes) &&
                   (List.length node_out_lines =? List.length impl_out_lines)) then None
          else
            let iname := name_of c node in
            let s0 := match desig with
                      | Some dc =>
                          Some (upd_node c node (fun x => nset_outs (nset_ins (nset_kind x (kind_of impl dc)) []) []),
                                [(dc, node)])
                      | None => option_map (fun c' => (c', [])) (node_remove c node)
                      end in
            match s0 with
            | None => None
            | Some st0 =>
                match fold_opt (subst_add_nodes impl iname desig) (nodes impl) st0 with
                | None => None
                | Some (c1, m) =>
                    match fold_opt (subst_add_line impl m) (lines impl) c1 with
                    | None => None
                    | Some c2 =>
                        match fold_opt (subst_conn_in impl m) (zip impl_in_nodes node_in_lines) c2 with
                        | None => None
                        | Some c3 =>
                            match fold_opt (subst_conn_out true impl m) (zip impl_out_lines node_out_lines) (c3, []) with
                            | None => None
                            | Some (c4, dl) => Some (c4, dl, m)
                            end
                        end
                    end
                end
            end
      end
  end.
Definition cleanup (dl : list nat) (c4 : circ) : option circ :=
  fold_opt (fun c' d => remove_dangling (dangling_fuel c') c' d) dl c4.

(** ** (2) where the pins of the result come from *)
Fixpoint index_of (x : nat) (l : list nat) : option nat :=
  match l with [] => None | y :: r => if Nat.eqb x y then Some 0 else option_map S (index_of x r) end.

(* the host line at instance input pin / output pin number k of the port [x] *)
Definition host_in (c : circ) (u : nat) (impl : circ) (x : nat) : option nat :=
  match index_of x (impl_ins impl) with Some k => nth k (ins_of c u) None | None => None end.
Definition host_out (c : circ) (u : nat) (impl : circ) (x : nat) : option nat :=
  match index_of x (impl_outs impl) with Some k => nth k (outs_of c u) None | None => None end.

(* ports of the implementation that get a fork in the host: an output that is read inside, an input with no / several readers *)
Definition port_fork_b (impl : circ) (x : nat) : bool :=
  ((0 <? List.length (outs_of impl x)) && (0 <? List.length (ins_of impl x))) ||
  ((List.length (ins_of impl x) =? 0) && negb (List.length (outs_of impl x) =? 1)).

Definition exp_in (c : circ) (u : nat) (impl : circ) (m : list (nat * nat)) (c4 : circ) (x p : nat) : option nat :=
  match in_at impl x p with
  | Some l => match l_drv (lst impl l) with
              | Some d => match mget d m with
                          | Some d' => out_at c4 d' (l_dpin (lst impl l))          (* the copy of l *)
                          | None => host_in c u impl d                             (* d: input port with this single reader *)
                          end
              | None => None
              end
  | None => if in_ios impl x && (List.length (ins_of impl x) =? 0) && (p =? 0)
            then host_in c u impl x                                                (* the fork of an input port *)
            else None
  end.
Definition exp_out (c : circ) (u : nat) (impl : circ) (m : list (nat * nat)) (c4 : circ) (x p : nat) : option nat :=
  match out_at impl x p with
  | Some l => match l_rdr (lst impl l) with
              | Some r => match mget r m with
                          | Some r' => in_at c4 r' (l_rpin (lst impl l))           (* the copy of l *)
                          | None => if l_rpin (lst impl l) =? 0 then host_out c u impl r else None   (* r: pure output port *)
                          end
              | None => None
              end
  | None => if in_ios impl x && (0 <? List.length (ins_of impl x)) && (0 <? List.length (outs_of impl x)) &&
               (p =? List.length (outs_of impl x))
            then host_out c u impl x                                               (* the fork of an output port read inside *)
            else None
  end.

Record SubstGlue (c : circ) (u : nat) (impl : circ) (m : list (nat * nat)) (c4 : circ) : Prop := mkSG {
  sg_io : io c4 = io c;
  sg_inj : forall x x' y, mget x m = Some y -> mget x' m = Some y -> x = x';
  sg_rng : forall x y, mget x m = Some y -> In x (nodes impl) /\ In y (nodes c4) /\ (y = u \/ nnext c <= y);
  sg_dom : forall x, In x (nodes impl) -> mget x m = None -> in_ios impl x = true /\ port_fork_b impl x = false;
  sg_nodes : forall y, In y (nodes c4) <-> ((In y (nodes c) /\ y <> u) \/ exists x, mget x m = Some y);
  sg_host : forall y, In y (nodes c) -> y <> u ->
            kind_of c4 y = kind_of c y /\ name_of c4 y = name_of c y /\ ins_of c4 y = ins_of c y /\ outs_of c4 y = outs_of c y;
  sg_kind : forall x y, mget x m = Some y -> kind_of c4 y = if in_ios impl x then FORK else kind_of impl x;
  sg_name : forall x y, mget x m = Some y -> y <> u -> name_of c4 y = tilde (name_of c u) (name_of impl x);
  sg_uname : name_of c4 u = name_of c u;
  sg_ins : forall x y p, mget x m = Some y -> in_at c4 y p = exp_in c u impl m c4 x p;
  sg_outs : forall x y p, mget x m = Some y -> out_at c4 y p = exp_out c u impl m c4 x p;
  sg_copied : forall l d r d' r', In l (lines impl) -> l_drv (lst impl l) = Some d -> l_rdr (lst impl l) = Some r ->
              mget d m = Some d' -> mget r m = Some r' ->
              exists z, lnext c <= z /\ out_at c4 d' (l_dpin (lst impl l)) = Some z /\ in_at c4 r' (l_rpin (lst impl l)) = Some z;
  sg_lines : forall z, In z (lines c) -> In z (lines c4);
  (* facts about the implementation and the map alone that a successful call implies *)
  sg_outdrv : forall o, In o (impl_outs impl) -> in_at impl o 0 <> None;
  sg_pure : forall l r, In l (lines impl) -> l_rdr (lst impl l) = Some r -> mget r m = None -> l_rpin (lst impl l) = 0;
  sg_nofeed : forall l d r, In l (lines impl) -> l_drv (lst impl l) = Some d -> l_rdr (lst impl l) = Some r ->
              mget d m = None -> mget r m <> None
}.

(** executable version *)
Definition olist_eqb (a b : list (option nat)) : bool := leqb (oeqb Nat.eqb) a b.
Definition glue_pins_b (c : circ) (u : nat) (impl : circ) (m : list (nat * nat)) (c4 : circ) (x y : nat) : bool :=
  let bi := S (Nat.max (List.length (ins_of c4 y)) (List.length (ins_of impl x))) in
  let bo := S (Nat.max (List.length (outs_of c4 y)) (List.length (outs_of impl x))) in
  forallb (fun p => oeq (in_at c4 y p) (exp_in c u impl m c4 x p)) (seq 0 bi) &&
  forallb (fun p => oeq (out_at c4 y p) (exp_out c u impl m c4 x p)) (seq 0 bo).
Definition glue_copied_b (c : circ) (impl : circ) (m : list (nat * nat)) (c4 : circ) (l : nat) : bool :=
  match l_drv (lst impl l), l_rdr (lst impl l) with
  | Some d, Some r =>
      match mget d m, mget r m with
      | Some d', Some r' =>
          match out_at c4 d' (l_dpin (lst impl l)) with
          | Some z => Nat.leb (lnext c) z && oeq (in_at c4 r' (l_rpin (lst impl l))) (Some z)
          | None => false
          end
      | Some _, None => Nat.eqb (l_rpin (lst impl l)) 0
      | None, Some _ => true
      | None, None => false
      end
  | _, _ => true
  end.
Definition subst_glue_b (c : circ) (u : nat) (impl : circ) (m : list (nat * nat)) (c4 : circ) : bool :=
  olist_eqb (io c4) (io c) &&
  nodupb (map fst m) && nodupb (map snd m) &&
  forallb (fun xy => mem (fst xy) (nodes impl) && mem (snd xy) (nodes c4) &&
                     (Nat.eqb (snd xy) u || Nat.leb (nnext c) (snd xy))) m &&
  forallb (fun x => match mget x m with Some _ => true | None => in_ios impl x && negb (port_fork_b impl x) end) (nodes impl) &&
  forallb (fun y => (mem y (nodes c) && negb (Nat.eqb y u)) || mem y (map snd m)) (nodes c4) &&
  forallb (fun y => Nat.eqb y u || (mem y (nodes c4) &&
                    String.eqb (kind_of c4 y) (kind_of c y) && String.eqb (name_of c4 y) (name_of c y) &&
                    olist_eqb (ins_of c4 y) (ins_of c y) && olist_eqb (outs_of c4 y) (outs_of c y))) (nodes c) &&
  forallb (fun xy => String.eqb (kind_of c4 (snd xy)) (if in_ios impl (fst xy) then FORK else kind_of impl (fst xy)) &&
                     (Nat.eqb (snd xy) u || String.eqb (name_of c4 (snd xy)) (tilde (name_of c u) (name_of impl (fst xy)))) &&
                     glue_pins_b c u impl m c4 (fst xy) (snd xy)) m &&
  String.eqb (name_of c4 u) (name_of c u) &&
  forallb (glue_copied_b c impl m c4) (lines impl) &&
  forallb (fun z => mem z (lines c4)) (lines c) &&
  forallb (fun o => negb (is_none (in_at impl o 0))) (impl_outs impl).

(** ** (3) the instance read as "the implementation's function of its input pins" *)
Section InstSem.
  Context {V : Type} (sem : N -> V -> V -> V -> V -> V) (zero : V).

  (* the stimulus of the implementation inside the host: input port number k carries the value at instance pin k
     (unconnected: zero); a state element of the implementation carries the stimulus of its copy in the result *)
  Definition inst_stim (c : circ) (u : nat) (impl : circ) (m : list (nat * nat)) (stim : nat -> V) (v : nat -> V) : nat -> V :=
    fun x => match index_of x (impl_ins impl) with
             | Some k => NetlistSem.pinv zero v (ins_of c u) k
             | None => match mget x m with Some y => stim y | None => zero end
             end.

  (* [v] satisfies the equations of all host nodes but the instance, and some solution [w] of the implementation under
     [inst_stim] delivers, at output port number k, the value of the host line at instance output pin k *)
  Definition inst_sol (c : circ) (u : nat) (impl : circ) (m : list (nat * nat)) (stim : nat -> V) (v : nat -> V) : Prop :=
    (forall n, In n (nodes c) -> n <> u -> cnode_ok sem zero c stim v n) /\
    exists w, csol sem zero impl (inst_stim c u impl m stim v) w /\
              forall k o ll, nth_error (impl_outs impl) k = Some o -> nth k (outs_of c u) None = Some ll ->
                             v ll = obs zero impl w o 0.
End InstSem.

(** ** (4) hypotheses *)
(* known finding D22 excluded: no input port with exactly one reader sits on pin 2 or 3 of that reader while the instance pin
   is unconnected (the reader would be scheduled as the lower-arity gate).  Trivially true when all input pins are connected. *)
Definition d22_free_b (c : circ) (u : nat) (impl : circ) : bool :=
  forallb_i (fun k d => negb (is_none (nth k (ins_of c u) None)) ||
                        match outs_of impl d with
                        | [Some l] => Nat.ltb (l_rpin (lst impl l)) 2
                        | _ => true
                        end) 0 (impl_ins impl).
Definition all_ins_connected_b (c : circ) (u : nat) (impl : circ) : bool :=
  forallb (fun k => negb (is_none (nth k (ins_of c u) None))) (seq 0 (List.length (impl_ins impl))).
Definition all_outs_connected_b (c : circ) (u : nat) (impl : circ) : bool :=
  forallb (fun k => negb (is_none (nth k (outs_of c u) None))) (seq 0 (List.length (impl_outs impl))).

(** ** correspondence: a case = host and implementation as tables, the instance, the implementation's result *)
Definition view_nl_ok (c : circ) (v : cview) : bool :=
  leqb nrow_eqb (map (node_row c) (nodes c)) (v_nodes v) &&
  leqb lrow_eqb (map (line_row c) (lines c)) (v_lines v) &&
  leqb (oeqb Nat.eqb) (map (option_map (fun n => n_index (nst c n))) (io c)) (v_io v).

(* 0 = everything holds; otherwise the number of the first failing item:
   1 substitute_pre / substitute disagree or raise, 2 result differs from the implementation's, 3 a hypothesis of the theorem
   fails (invariants, shape), 4 the glue relation fails, 5 connectivity / D22 flags differ from the generator's *)
Definition subst_case (c : circ) (u : nat) (impl : circ) (v : cview) (all_in all_out d22free : bool) : nat :=
  match substitute_pre c u impl, substitute c u impl with
  | Some (c4, dl, m), Some c' =>
      if negb (match cleanup dl c4 with Some c'' => view_nl_ok c'' v | None => false end && view_nl_ok c' v) then 2
      else if negb (cinv_b c && io_ok_b c && mem u (nodes c) && negb (is_fork (kind_of c u)) && negb (io_mem c u) &&
                    cinv_b impl && io_ok_b impl && subst_shape_b impl && cinv_b c4 && io_ok_b c4) then 3
      else if negb (subst_glue_b c u impl m c4) then 4
      else if negb (Bool.eqb (all_ins_connected_b c u impl) all_in && Bool.eqb (all_outs_connected_b c u impl) all_out &&
                    Bool.eqb (d22_free_b c u impl) d22free && (negb all_out || match dl with [] => true | _ => false end)) then 5
      else 0
  | _, _ => 1
  end.
Inductive scases := SN | SC (x : nat) (r : scases).
Fixpoint of_scases l := match l with SN => [] | SC x r => x :: of_scases r end.
Fixpoint failing_scases (i : nat) (l : list nat) : list (nat * nat) :=
  match l with [] => [] | O :: r => failing_scases (S i) r | k :: r => (i, k) :: failing_scases (S i) r end.
