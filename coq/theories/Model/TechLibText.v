(** TEXT level of the cell-library definitions: a transcription of TechLib.__init__ (techlib.py:66-88).

      for c_str in re.split(r';\s+', lib_src):
          c_str = re.sub(r'^\s+', '', c_str)
          name_len = c_str.find(' ')
          if name_len <= 0: continue
          c = bench.parse(c_str[name_len:]);  c.name = c_str[:name_len];  c.eliminate_1to1_forks()
          pins: for n in c.io_nodes: input iff len(n.ins) == 0, numbered separately in io order
          parts = [s[1:-1].split(',') if s[0] == '{' else [s] for s in re.split(r'({[^}]+})', c.name) if len(s) > 0]
          for name in [''.join(item) for item in product( *parts)]: self.cells[name] = (c, pin_dict)

    Domain: code points < 256.  Python's \s on str is Unicode white space: below 256 these are 9-13, 28-31, 32, 133, 160.
    [None] = the constructor raises (lark error, duplicate cell name assertion of Node()).  Until the fix of D38
    (circuit.py eliminate_1to1_forks: `if len(n.ins) < 1 or n.ins[0] is None: continue`) it also raised IndexError for an undriven
    internal signal read by exactly one gate ([elim_ok], kept below for reference); now that fork is left alone and the gate
    keeps reading the signal of that name. *)
From Coq Require Import List NArith Bool Arith String Ascii.
From KV Require Import Model.VerilogElab Model.BenchText Model.TechCell.
Import ListNotations.
Local Open Scope list_scope.

Definition is_py_space (c : ascii) : bool :=
  match N_of_ascii c with
  | 9%N | 10%N | 11%N | 12%N | 13%N | 28%N | 29%N | 30%N | 31%N | 32%N | 133%N | 160%N => true
  | _ => false
  end.
Definition is_char (n : N) (c : ascii) : bool := N.eqb (N_of_ascii c) n.
Definition str_empty (s : string) : bool := match s with EmptyString => true | _ => false end.

Fixpoint drop_ws (s : string) : string :=
  match s with
  | EmptyString => EmptyString
  | String c r => if is_py_space c then drop_ws r else s
  end.
Definition starts_ws (s : string) : bool := match s with String c _ => is_py_space c | EmptyString => false end.
Definition map_head {A} (f : A -> A) (l : list A) : list A := match l with x :: r => f x :: r | [] => [] end.

(* re.split(r';\s+', s): a ';' followed by white space ends a piece; the white space run belongs to the delimiter
   (it is the leading white space of the first piece of the remainder).  A ';' not followed by white space is text. *)
Fixpoint re_split_semi (s : string) : list string :=
  match s with
  | EmptyString => [EmptyString]
  | String c r =>
      let ps := re_split_semi r in
      if is_char 59 c && starts_ws r then EmptyString :: map_head drop_ws ps
      else match ps with p :: q => String c p :: q | [] => [String c EmptyString] end
  end.

(* k = s.find(' ') -> (s[:k], s[k:]) *)
Fixpoint find_space (s : string) : option (string * string) :=
  match s with
  | EmptyString => None
  | String c r =>
      if is_char 32 c then Some (EmptyString, s)
      else match find_space r with Some (a, b) => Some (String c a, b) | None => None end
  end.

Definition split_cells (src : string) : list (string * string) :=
  flat_map (fun piece =>
    match find_space (drop_ws piece) with
    | Some (n, b) => if str_empty n then [] else [(n, b)]
    | None => []
    end) (re_split_semi src).

(** ** brace products *)
Definition snoc (s : string) (c : ascii) : string := (s ++ String c EmptyString)%string.

(* re.split(r'({[^}]+})', s): [text, group, text, group, .., text].  [acc] is the text since the last group; [br] is
   [Some body] while a '{' is open.  '{' matches only with a non-empty body up to the next '}'; "{}" and a '{' without
   any later '}' are text. *)
Fixpoint split_braces (s : string) (acc : string) (br : option string) : list string :=
  match s with
  | EmptyString => match br with None => [acc] | Some b => [(acc ++ String "{" b)%string] end
  | String c r =>
      match br with
      | None => if is_char 123 c then split_braces r acc (Some EmptyString) else split_braces r (snoc acc c) None
      | Some b =>
          if is_char 125 c then
            match b with
            | EmptyString => split_braces r (acc ++ "{}")%string None
            | _ => acc :: (String "{" b ++ "}")%string :: split_braces r EmptyString None
            end
          else split_braces r acc (Some (snoc b c))
      end
  end.

(* str.split(',') *)
Fixpoint split_comma (s : string) : list string :=
  match s with
  | EmptyString => [EmptyString]
  | String c r =>
      if is_char 44 c then EmptyString :: split_comma r
      else match split_comma r with p :: q => String c p :: q | [] => [String c EmptyString] end
  end.
Fixpoint drop_last (s : string) : string :=
  match s with
  | EmptyString => EmptyString
  | String c EmptyString => EmptyString
  | String c r => String c (drop_last r)
  end.
(* s[1:-1].split(',') if s[0] == '{' else [s]   (applied to EVERY non-empty piece, also to text that begins with '{') *)
Definition seg_alts (s : string) : list string :=
  match s with
  | String c r => if is_char 123 c then split_comma (drop_last r) else [s]
  | EmptyString => [s]
  end.
Definition name_parts (pat : string) : list (list string) :=
  map seg_alts (filter (fun s => negb (str_empty s)) (split_braces pat EmptyString None)).

(* itertools.product( *parts): the rightmost part varies fastest *)
Fixpoint product {A} (ps : list (list A)) : list (list A) :=
  match ps with
  | [] => [[]]
  | p :: r => flat_map (fun x => map (cons x) (product r)) p
  end.
Definition sconcat (l : list string) : string := fold_right append EmptyString l.
Definition expand_names (pat : string) : list string := map sconcat (product (name_parts pat)).

(** predicates of the theorems about expand_names (Proofs/TechLibTextProofs.v) *)
(* joining is injective on the tuples of the product *)
Definition decodable (ps : list (list string)) : Prop :=
  forall t1 t2, In t1 (product ps) -> In t2 (product ps) -> sconcat t1 = sconcat t2 -> t1 = t2.
(* no alternative of a part is a proper prefix of another alternative of the same part *)
Definition prefix_free (p : list string) : Prop :=
  forall x y u v, In x p -> In y p -> (x ++ u)%string = (y ++ v)%string -> x = y.
Fixpoint prefix_free_but_last (ps : list (list string)) : Prop :=
  match ps with
  | [] => True
  | [_] => True
  | p :: r => prefix_free p /\ prefix_free_but_last r
  end.

(** ** one cell: bench.parse, eliminate_1to1_forks (never raises on an elaborated bench text since the fix of D38), pin table *)
Definition nil_b {A} (l : list A) : bool := match l with [] => true | _ => false end.
(* BEFORE the fix of D38 eliminate_1to1_forks read n.ins[0] of every fork outside io_nodes that has exactly one reader and raised
   IndexError when [elim_ok] is false; no longer consulted by [cell_of_text] *)
Definition elim_ok (c : bcirc) : bool :=
  forallb (fun ip => let '(i, n) := ip in
     negb (is_fork n && negb (existsb (Nat.eqb i) (bc_io c)) && Nat.eqb (List.length (bn_outs n)) 1 && nil_b (bn_ins n)))
    (combine (seq 0 (List.length (bc_nodes c))) (bc_nodes c)).
Definition io_pins (c : bcirc) (outputs : bool) : list string :=
  flat_map (fun i => let n := nth i (bc_nodes c) dnode in
                     if Bool.eqb (negb (nil_b (bn_ins n))) outputs then [bn_name n] else []) (bc_io c).
Definition gates_of (l : list bstmt) : list (string * string * list string) :=
  flat_map (fun s => match s with BAssign z k a => [(z, k, a)] | BInterface _ => [] end) l.

(* the statements in text order; the bench grammar does not distinguish the two interface keywords (both extend io_nodes), the
   translator records which one was written: an interface statement counts as output(...) iff it is non-empty and all its
   names are driven (true of every statement of the five libraries; otherwise the computed comparison below fails closed) *)
Definition tstmts_of (outs : list string) (l : list bstmt) : list tstmt :=
  map (fun s => match s with
                | BAssign z k a => TGate z k a
                | BInterface names =>
                    if negb (nil_b names) && forallb (fun n => existsb (String.eqb n) outs) names then TOut names else TIn names
                end) l.

Definition cell_of_text (pat body : string) : option tcell :=
  match parse_bench body with
  | None => None
  | Some stmts =>
      match elab_bench stmts with
      | None => None
      | Some c =>
          Some {| t_pattern := pat; t_names := expand_names pat; t_ins := io_pins c false; t_outs := io_pins c true;
                  t_gates := gates_of stmts; t_stmts := tstmts_of (io_pins c true) stmts |}
      end
  end.

Fixpoint all_some {A} (l : list (option A)) : option (list A) :=
  match l with
  | [] => Some []
  | None :: _ => None
  | Some x :: r => match all_some r with Some xs => Some (x :: xs) | None => None end
  end.
Definition tcells_of_cells (l : list (string * string)) : option (list tcell) :=
  all_some (map (fun pb => cell_of_text (fst pb) (snd pb)) l).
Definition tcells_of_text (src : string) : option (list tcell) := tcells_of_cells (split_cells src).

(** ** comparison with translated libraries and with TechLib.cells (harness/bench_text.py) *)
Definition slist_eqb := eqb_list String.eqb.
Definition gate_eqb (a b : string * string * list string) : bool :=
  String.eqb (fst (fst a)) (fst (fst b)) && String.eqb (snd (fst a)) (snd (fst b)) && slist_eqb (snd a) (snd b).
Definition tcell_eqb (a b : tcell) : bool :=
  String.eqb (t_pattern a) (t_pattern b) && slist_eqb (t_names a) (t_names b) && slist_eqb (t_ins a) (t_ins b) &&
  slist_eqb (t_outs a) (t_outs b) && eqb_list gate_eqb (t_gates a) (t_gates b).
Definition lib_eqb (a : option (list tcell)) (b : list tcell) : bool :=
  match a with Some l => eqb_list tcell_eqb l b | None => false end.

(* self.cells as a Python dict: key order = first insertion, value = last assignment *)
Fixpoint dict_set {V} (d : list (string * V)) (k : string) (v : V) : list (string * V) :=
  match d with
  | [] => [(k, v)]
  | (k', v') :: r => if String.eqb k' k then (k', v) :: r else (k', v') :: dict_set r k v
  end.
Definition cells_dict (l : list tcell) : list (string * tcell) :=
  fold_left (fun d c => fold_left (fun d n => dict_set d n c) (t_names c) d) l [].
(* what the harness reads off TechLib.cells per key: circuit name, io names without / with driver in io order, the cells
   (name, kind, driver names per pin) of the implementation circuit in its node order (a permutation of the gates) *)
Definition tl_entry := (string * string * list string * list string * list (string * string * list string))%type.
Definition entry_ok (kc : string * tcell) (e : tl_entry) : bool :=
  let '(name, pat, ins, outs, gates) := e in
  let c := snd kc in
  String.eqb (fst kc) name && String.eqb (t_pattern c) pat && slist_eqb (t_ins c) ins && slist_eqb (t_outs c) outs &&
  Nat.eqb (List.length (t_gates c)) (List.length gates) &&
  forallb (fun g => match find_gate gates (fst (fst g)) with
                    | Some (k, a) => String.eqb k (snd (fst g)) && slist_eqb a (snd g)
                    | None => false end) (t_gates c).
Fixpoint forall2b {A B} (f : A -> B -> bool) (a : list A) (b : list B) : bool :=
  match a, b with [], [] => true | x :: a', y :: b' => f x y && forall2b f a' b' | _, _ => false end.
Definition techlib_case (src : string) (got : option (list tl_entry)) : bool :=
  match tcells_of_text src, got with
  | None, None => true
  | Some l, Some es => forall2b entry_ok (cells_dict l) es
  | _, _ => false
  end.
