(** Vocabulary of Gen/WaveDriversSrc.v (written by translate/gen_wave_drivers.py from the DRIVER code of wave_sim.py: the GPU
    kernels wave_assign_gpu / ppo_to_ppi_gpu / wave_eval_gpu / the launch prefix and write-back of wave_capture_gpu, the CPU loop
    nest level_eval_cpu, and -- pinned as exact syntax trees -- the vectorised numpy statements of WaveSim.s_to_c / s_ppo_to_ppi /
    c_to_s).  Definitions only; TRUSTED: this file fixes what the emitted primitives mean.

    One kernel INSTANCE (thread (x, y) of a launch, or one iteration (op_idx, sim) of the CPU loop nest) is a function on a
    [lane]: the columns  c[:, l], s[:, :, l], abuf[:, l], simctl_int[:, l]  of the simulator's arrays for the instance's own lane
    l.  The translator rejects every array access whose last index is not the kernel's lane variable, so no instance can read or
    write another column (lane independence by construction).

    Python / numpy facts assumed here: an index i on an axis of length n addresses element i (0 <= i < n) or n + i (-n <= i < 0) and
    raises IndexError otherwise (the pure-Python mock; numba without bounds check: undefined) -- an out-of-range read yields the
    stated default and an out-of-range write is dropped, i.e. such executions are OUTSIDE the abstraction; floats are the
    extended-integer [time] of Model/Time.v (exact on the integer grid); abuf is an array of (unbounded) integers: int32
    wrap-around and float weights are not modelled. *)
From Coq Require Import List ZArith NArith Bool Arith.
From KV Require Import Model.Time Model.WaveEval Model.WaveSrcPrelude.
Import ListNotations.
Local Open Scope list_scope.
Local Open Scope Z_scope.

Record lane := mk_lane {
  l_c : list time;            (* c[:, l] *)
  l_s : list (list time);     (* s[k, :, l] for k = 0..10 *)
  l_abuf : list Z;            (* abuf[:, l] *)
  l_ctl0 : Z;                 (* simctl_int[0, l] *)
  l_mode : Z                  (* simctl_int[1, l] *)
}.

(** numpy index i on an axis of length len *)
Definition pyidx (len : nat) (i : Z) : option nat :=
  if 0 <=? i then (if i <? Z.of_nat len then Some (Z.to_nat i) else None)
  else if 0 <=? i + Z.of_nat len then Some (Z.to_nat (i + Z.of_nat len)) else None.

(** l[i] for an int array (c_locs: default -1, c_caps / op rows: default 0) *)
Definition zrd (d : Z) (l : list Z) (i : Z) : Z :=
  match pyidx (List.length l) i with Some j => nth j l d | None => d end.
(** ops[i]: a row *)
Definition rowrd (ops : list (list Z)) (i : Z) : list Z :=
  match pyidx (List.length ops) i with Some j => nth j ops [] | None => [] end.

(** c[i, lane] *)
Definition c_rd (L : lane) (i : Z) : time :=
  match pyidx (List.length (l_c L)) i with Some j => nth j (l_c L) MaxInf | None => MaxInf end.
Definition set_c (L : lane) (c : list time) : lane := mk_lane c (l_s L) (l_abuf L) (l_ctl0 L) (l_mode L).
Definition set_s (L : lane) (s : list (list time)) : lane := mk_lane (l_c L) s (l_abuf L) (l_ctl0 L) (l_mode L).
Definition set_abuf (L : lane) (a : list Z) : lane := mk_lane (l_c L) (l_s L) a (l_ctl0 L) (l_mode L).
Definition c_wr (L : lane) (i : Z) (v : time) : lane :=
  match pyidx (List.length (l_c L)) i with Some j => set_c L (wset (l_c L) j v) | None => L end.

(** s[k, y, lane] (k a literal row number) *)
Definition s_rd (L : lane) (k : nat) (y : Z) : time :=
  let row := nth k (l_s L) [] in
  match pyidx (List.length row) y with Some j => nth j row (Fin 0) | None => Fin 0 end.
Definition s_wr (L : lane) (k : nat) (y : Z) (v : time) : lane :=
  let row := nth k (l_s L) [] in
  match pyidx (List.length row) y with Some j => set_s L (upd_nth (l_s L) k (wset row j v)) | None => L end.

(** abuf[i, lane] += d   and   cuda.atomic.add(abuf, (i, lane), d)  (MockCuda.atomic.add is `array[idx] += val`) *)
Fixpoint zadd_at (l : list Z) (i : nat) (d : Z) : list Z :=
  match l, i with [], _ => [] | x :: r, O => (x + d) :: r | x :: r, S i' => x :: zadd_at r i' d end.
Definition ab_add (L : lane) (i : Z) (d : Z) : lane :=
  match pyidx (List.length (l_abuf L)) i with Some j => set_abuf L (zadd_at (l_abuf L) j d) | None => L end.

(** float32 values of s read as numbers: `v >= 0.5` (GPU kernel) and `v != 0` (CPU statement) *)
Definition tge_half (t : time) : bool := match t with Fin z => 1 <=? z | MinInf => false | _ => true end.
Definition tne0 (t : time) : bool := negb (teqb t (Fin 0)).
(** int / bool stored into the float array s *)
Definition f_of_z (z : Z) : time := Fin z.
Definition f_of_bool (b : bool) : time := Fin (b2z b).

(** the slice c[loc : loc + cap, lane] (loc >= 0; numpy truncates a slice at the end of the axis) *)
Definition regionZ (c : list time) (loc cap : Z) : list time :=
  if loc <? 0 then [] else firstn (Z.to_nat cap) (skipn (Z.to_nat loc) c).
Fixpoint overwrite (m : list time) (vs : list time) : list time :=
  match vs, m with [], _ => m | _, [] => [] | v :: vr, _ :: mr => v :: overwrite mr vr end.
Fixpoint write_region (m : list time) (loc : nat) (vs : list time) : list time :=
  match loc, m with O, _ => overwrite m vs | S l, x :: r => x :: write_region r l vs | S _, [] => [] end.

(** the call  _wave_eval(op, cbuf, c_locs, c_caps, sim, delays, simctl_int[:, sim], seed)  seen from the caller (memory
    abstraction of Model/WaveSrcPrelude.v: the callee works on the REGIONS of op[1] (output) and op[2..5] (operands) in the
    lane's column, every region read as it is at the call; a negative output location leaves the abstraction: None).
    kern lut ws ds zreg = the translated kernel (Gen/WaveEvalSrc.v) on these regions with the rows ds of the SELECTED delay
    dataset: new output region and the returned pair (nrise, nfall); None = the kernel's loop bound was exceeded.
    sel z_idx = the selected dataset (one 2x2 table per line index). *)
Definition call_wave_eval (kern : Z -> list (list time) -> list dtab -> list time -> option (list time * (Z * Z)))
           (sel : Z -> list dtab) (op : list Z) (c_locs c_caps : list Z) (c : list time) : option (list time * (Z * Z)) :=
  let fld k := nth k op 0 in
  let zl := zrd (-1) c_locs (fld 1%nat) in
  if zl <? 0 then None else
  let opd k := regionZ c (zrd (-1) c_locs (fld k)) (zrd 0 c_caps (fld k)) in
  let dsel := sel (fld 1%nat) in
  match kern (fld 0%nat) [opd 2%nat; opd 3%nat; opd 4%nat; opd 5%nat]
             (map (fun k => nth (Z.to_nat (fld k)) dsel dzero) [2%nat; 3%nat; 4%nat; 5%nat])
             (regionZ c zl (zrd 0 c_caps (fld 1%nat))) with
  | None => None
  | Some (z, r) => Some (write_region c (Z.to_nat zl) z, r)
  end.

(** the eight values a capture kernel returns / stores, as the floats that reach s[3..10] *)
Definition cap8 := (bool * time * time * Z * Z * Z * Z * Z)%type.
Definition cap8_get (r : cap8) (k : nat) : time :=
  let '(r3, r4, r5, r6, r7, r8, r9, r10) := r in
  match k with
  | 0%nat => f_of_bool r3 | 1%nat => r4 | 2%nat => r5 | 3%nat => f_of_z r6 | 4%nat => f_of_z r7
  | 5%nat => f_of_z r8 | 6%nat => f_of_z r9 | _ => f_of_z r10
  end.

(* ------------------------------------------------------------------------------------------------------------------ *)
(** * Per-element meaning of the VECTORISED numpy statements of the CPU methods (their syntax trees are pinned by the translator;
      the definitions below are what those exact statements do to ONE lane -- trusted numpy semantics: fancy indexing with an
      index array reads / writes the listed positions in order, a later duplicate position wins; every right-hand side is
      evaluated completely before the statement stores). *)

(** sim.py (SimOps.__init__), pinned:  pi_s_locs = flatnonzero(c_locs[ppi_offset + arange(n_io)] >= 0), ppio_s_locs = arange(n_io, s_len),
    ppi_s_locs = ppio_s_locs[c_locs[ppi_offset + ppio_s_locs] >= 0], pippi_s_locs = concatenate([pi_s_locs, ppi_s_locs]),
    pippi_c_locs = concatenate([c_locs[ppi_offset + pi_s_locs], c_locs[ppi_offset + ppi_s_locs]]); the same with ppo_offset. *)
Definition zseq (a n : nat) : list Z := map Z.of_nat (seq a n).
Definition slot_s_locs (c_locs : list Z) (offset : Z) (n_io s_len : nat) : list Z :=
  filter (fun y => 0 <=? zrd (-1) c_locs (offset + y)) (zseq 0 n_io) ++
  filter (fun y => 0 <=? zrd (-1) c_locs (offset + y)) (zseq n_io (s_len - n_io)).
Definition ppio_s_locs (n_io s_len : nat) : list Z := zseq n_io (s_len - n_io).

(** WaveSim.s_to_c, pinned:
      sins = self.s[:, self.pippi_s_locs]
      cond = (sins[2] != 0) + 2*(sins[0] != 0)
      self.c[self.pippi_c_locs]   = np.choose(cond, [TMAX, sins[1], TMIN, TMIN])
      self.c[self.pippi_c_locs+1] = np.choose(cond, [TMAX, TMAX, sins[1], TMAX])
      self.c[self.pippi_c_locs+2] = TMAX
    three passes over the positions, one per slot of the input waveforms *)
Definition cpu_cond (L : lane) (y : Z) : Z := b2z (tne0 (s_rd L 2 y)) + 2 * b2z (tne0 (s_rd L 0 y)).
Definition choose4 (cond : Z) (a b c d : time) : time :=
  if cond =? 0 then a else if cond =? 1 then b else if cond =? 2 then c else d.
Definition s_to_c_cpu (c_locs : list Z) (ppi_offset : Z) (n_io s_len : nat) (L : lane) : lane :=
  let ys := slot_s_locs c_locs ppi_offset n_io s_len in
  let loc y := zrd (-1) c_locs (ppi_offset + y) in
  let L1 := fold_left (fun L' y => c_wr L' (loc y) (choose4 (cpu_cond L y) MaxInf (s_rd L 1 y) MinInf MinInf)) ys L in
  let L2 := fold_left (fun L' y => c_wr L' (loc y + 1) (choose4 (cpu_cond L y) MaxInf MaxInf (s_rd L 1 y) MaxInf)) ys L1 in
  fold_left (fun L' y => c_wr L' (loc y + 2) MaxInf) ys L2.

(** WaveSim.s_ppo_to_ppi, pinned:
      locs = self.ppio_s_locs[(self.c_locs[self.ppi_offset+self.ppio_s_locs] >= 0) & (self.c_locs[self.ppo_offset+self.ppio_s_locs] >= 0)]
      self.s[0, locs] = self.s[2, locs]
      self.s[1, locs] = time
      self.s[2, locs] = self.s[8, locs] *)
Definition ppo_to_ppi_locs (c_locs : list Z) (ppi_offset ppo_offset : Z) (n_io s_len : nat) : list Z :=
  filter (fun y => (0 <=? zrd (-1) c_locs (ppi_offset + y)) && (0 <=? zrd (-1) c_locs (ppo_offset + y))) (ppio_s_locs n_io s_len).
Definition s_ppo_to_ppi_cpu (c_locs : list Z) (ppi_offset ppo_offset : Z) (n_io s_len : nat) (t : time) (L : lane) : lane :=
  let ys := ppo_to_ppi_locs c_locs ppi_offset ppo_offset n_io s_len in
  let L1 := fold_left (fun L' y => s_wr L' 0 y (s_rd L 2 y)) ys L in
  let L2 := fold_left (fun L' y => s_wr L' 1 y t) ys L1 in
  fold_left (fun L' y => s_wr L' 2 y (s_rd L2 8 y)) ys L2.

(** WaveSim.c_to_s, pinned:
      for s_loc, c_loc, c_len in zip(self.poppo_s_locs, self.c_locs[self.ppo_offset+self.poppo_s_locs], self.c_caps[self.ppo_offset+self.poppo_s_locs]):
          for vector in range(self.sims):
              self.s[3:, s_loc, vector] = wave_capture_cpu(self.c, c_loc, c_len, vector, time=time, sd=sd, seed=seed)
    one iteration (s_loc, vector): the eight returned values go to s[3..10, s_loc, vector]; cap = the translated
    wave_capture_cpu on the slice c[c_loc : c_loc + c_len, vector] (sd = 0) *)
Definition s_wr8 (L : lane) (y : Z) (r : cap8) : lane :=
  fold_left (fun L' k => s_wr L' (3 + k) y (cap8_get r k)) (seq 0 8) L.
Definition c_to_s_cpu_inst (cap : time -> list time -> cap8) (c_locs c_caps : list Z) (ppo_offset : Z) (tcap : time)
           (s_loc : Z) (L : lane) : lane :=
  s_wr8 L s_loc (cap tcap (regionZ (l_c L) (zrd (-1) c_locs (ppo_offset + s_loc)) (zrd 0 c_caps (ppo_offset + s_loc)))).

(* ------------------------------------------------------------------------------------------------------------------ *)
(** * Running instances on the whole simulator state = one [lane] per simulation.  An instance (l, y) acts on lane l only. *)
Definition run_insts {A} (f : nat -> nat -> A -> A) (ts : list (nat * nat)) (st : list A) : list A :=
  fold_left (fun st' (p : nat * nat) =>
               match nth_error st' (fst p) with Some a => upd_nth st' (fst p) (f (fst p) (snd p) a) | None => st' end) ts st.
(** the CPU loop nest  `for y in ys: for l in range(X): body(l, y)` *)
Definition cpu_order (ys : list nat) (X : nat) : list (nat * nat) := flat_map (fun y => map (fun l => (l, y)) (seq 0 X)) ys.
