(** Correspondence helpers for Model/Circuit.v: the canonical (index based) view of a circuit that the harness
    also computes from the live Python objects, circuits given as tables (implementations for substitute),
    and the step-by-step comparison of a whole edit history. *)
From Coq Require Import List Arith Bool String Ascii NArith.
From KV Require Import Model.Circuit Model.CircuitInv.
Import ListNotations.
Local Open Scope list_scope.

Fixpoint leqb {A B} (eqb : A -> B -> bool) (a : list A) (b : list B) : bool :=
  match a, b with
  | [], [] => true
  | x :: a', y :: b' => eqb x y && leqb eqb a' b'
  | _, _ => false
  end.
Definition oeqb {A} (eqb : A -> A -> bool) (a b : option A) : bool :=
  match a, b with Some x, Some y => eqb x y | None, None => true | _, _ => false end.

(* node row: name, kind, index, ins, outs (entries: index attribute of the referenced line object) *)
(* (monomorphic constructors: generated case files are large, tuples would make their elaboration slow) *)
Inductive onat := No | So (n : nat).
Definition onat_of (o : option nat) : onat := match o with Some n => So n | None => No end.
Definition of_onat (o : onat) : option nat := match o with So n => Some n | No => None end.
Inductive onats := ON | OC (x : onat) (r : onats).
Fixpoint of_onats (l : onats) : list (option nat) := match l with ON => [] | OC x r => of_onat x :: of_onats r end.
Inductive nrow := NR (name kind : string) (index : nat) (ins outs : onats).
(* line row: index, driver index, driver pin, reader index, reader pin *)
Inductive lrow := LR (index : nat) (d : onat) (dp : nat) (r : onat) (rp : nat).
Inductive kv := KV (k : string) (v : nat).
Inductive nrows := NRN | NRC (x : nrow) (r : nrows).
Inductive lrows := LRN | LRC (x : lrow) (r : lrows).
Inductive kvs := KVN | KVC (x : kv) (r : kvs).
Inductive nats := NN | NC (x : nat) (r : nats).
Fixpoint of_nrows l := match l with NRN => [] | NRC x r => x :: of_nrows r end.
Fixpoint of_lrows l := match l with LRN => [] | LRC x r => x :: of_lrows r end.
Fixpoint of_kvs l := match l with KVN => [] | KVC (KV k v) r => (k, v) :: of_kvs r end.
Fixpoint of_nats l := match l with NN => [] | NC x r => x :: of_nats r end.
(* stats: node cell fork io line dff latch comb seq, and the per-kind counters *)
Record cview := mkV { v_nodes_ : nrows; v_lines_ : lrows; v_io_ : onats;
                      v_cells_ : kvs; v_forks_ : kvs; v_stats_ : nats; v_kinds_ : kvs }.
Definition v_nodes v := of_nrows (v_nodes_ v).
Definition v_lines v := of_lrows (v_lines_ v).
Definition v_io v := of_onats (v_io_ v).
Definition v_cells v := of_kvs (v_cells_ v).
Definition v_forks v := of_kvs (v_forks_ v).
Definition v_stats v := (of_nats (v_stats_ v), of_kvs (v_kinds_ v)).

Definition pins_view (c : circ) (l : list (option nat)) : list (option nat) :=
  map (option_map (fun x => l_index (lst c x))) l.
Definition nrowT := (string * string * nat * list (option nat) * list (option nat))%type.
Definition lrowT := (nat * option nat * nat * option nat * nat)%type.
Definition node_row (c : circ) (n : nat) : nrowT :=
  let r := nst c n in (n_name r, n_kind r, n_index r, pins_view c (n_ins r), pins_view c (n_outs r)).
Definition line_row (c : circ) (l : nat) : lrowT :=
  let r := lst c l in
  (l_index r, option_map (fun d => n_index (nst c d)) (l_drv r), l_dpin r,
   option_map (fun d => n_index (nst c d)) (l_rdr r), l_rpin r).
Definition dict_view (c : circ) (d : list (string * nat)) : list (string * nat) :=
  map (fun kv => (fst kv, n_index (nst c (snd kv)))) d.
Definition stats_list (c : circ) : list nat :=
  let s := stats c in [s_node s; s_cell s; s_fork s; s_io s; s_line s; s_dff s; s_latch s; s_comb s; s_seq s].

Definition nrow_eqb (a : nrowT) (b : nrow) : bool :=
  let '(n1, k1, i1, a1, o1) := a in let '(NR n2 k2 i2 a2 o2) := b in
  String.eqb n1 n2 && String.eqb k1 k2 && Nat.eqb i1 i2 && leqb (oeqb Nat.eqb) a1 (of_onats a2) && leqb (oeqb Nat.eqb) o1 (of_onats o2).
Definition lrow_eqb (a : lrowT) (b : lrow) : bool :=
  let '(i1, d1, p1, r1, q1) := a in let '(LR i2 d2 p2 r2 q2) := b in
  Nat.eqb i1 i2 && oeqb Nat.eqb d1 (of_onat d2) && Nat.eqb p1 p2 && oeqb Nat.eqb r1 (of_onat r2) && Nat.eqb q1 q2.
Definition kv_eqb (a b : string * nat) : bool := String.eqb (fst a) (fst b) && Nat.eqb (snd a) (snd b).

(* expected per-kind counters: every listed kind has that count and the counts add up to the number of cells *)
Definition kinds_ok (c : circ) (ks : list (string * nat)) : bool :=
  forallb (fun kv => Nat.eqb (stats_kind c (fst kv)) (snd kv)) ks &&
  Nat.eqb (fold_right (fun kv a => snd kv + a) 0 ks) (List.length (cells c)).

Definition view_ok (c : circ) (v : cview) : bool :=
  leqb nrow_eqb (map (node_row c) (nodes c)) (v_nodes v) &&
  leqb lrow_eqb (map (line_row c) (lines c)) (v_lines v) &&
  leqb (oeqb Nat.eqb) (map (option_map (fun n => n_index (nst c n))) (io c)) (v_io v) &&
  leqb kv_eqb (dict_view c (cells c)) (v_cells v) &&
  leqb kv_eqb (dict_view c (forks c)) (v_forks v) &&
  leqb Nat.eqb (stats_list c) (fst (v_stats v)) && kinds_ok c (snd (v_stats v)).

(* for debugging a mismatch: what the model holds *)
Definition view_of (c : circ) :=
  (map (node_row c) (nodes c), map (line_row c) (lines c), map (option_map (fun n => n_index (nst c n))) (io c),
   dict_view c (cells c), dict_view c (forks c), stats_list c).

(** a circuit given as tables (ids = indices): implementations handed to substitute *)
Definition circ_of_tables (ns0 : nrows) (ls0 : lrows) (ios0 : onats) : circ :=
  let ns := of_nrows ns0 in let ls := of_lrows ls0 in let ios := of_onats ios0 in
  let nrec i := match nth_error ns i with
                | Some (NR nm kd _ a o) => mkN nm kd i (of_onats a) (of_onats o) true
                | None => dead_node end in
  let lrec i := match nth_error ls i with
                | Some (LR _ d dp r rp) => mkL i (of_onat d) dp (of_onat r) rp true
                | None => dead_line end in
  let ids := seq 0 (List.length ns) in
  let named (f : bool) := flat_map (fun i => let r := nrec i in
                                     if Bool.eqb (is_fork (n_kind r)) f then [(n_name r, i)] else []) ids in
  mkC nrec (List.length ns) lrec (List.length ls) ids (seq 0 (List.length ls)) ios (named false) (named true).

(** one step of a history: the operation, whether the generator claims the precondition holds (then [pre] must
    evaluate to true and the model state must satisfy [cinv_b] and [io_ok_b] afterwards), and the implementation's state
    afterwards ([None]: the implementation raised; the history ends there). *)
Inductive hstep := HS (o : op) (clean : bool) (v : cview) | HX (o : op).   (* HX: the implementation raised *)
Inductive hsteps := HN | HC (x : hstep) (r : hsteps).
Fixpoint of_hsteps l := match l with HN => [] | HC x r => x :: of_hsteps r end.
Definition hs_op (s : hstep) := match s with HS o _ _ => o | HX o => o end.

Fixpoint hist_fail (c : circ) (steps : list hstep) (k : nat) : option nat :=
  match steps with
  | [] => None
  | HS o clean v :: r =>
      if clean && negb (pre c o) then Some k
      else match step c o with
           | Some c' => if view_ok c' v && (negb clean || (cinv_b c' && io_ok_b c')) then hist_fail c' r (S k) else Some k
           | None => Some k
           end
  | HX o :: _ => match step c o with None => None | Some _ => Some k end
  end.
Definition hist_case (steps : hsteps) : option nat := hist_fail empty (of_hsteps steps) 0.
Inductive cases := CN | CC (x : option nat) (r : cases).
Fixpoint of_cases l := match l with CN => [] | CC x r => x :: of_cases r end.

Fixpoint failing_cases (i : nat) (l : list (option nat)) : list (nat * nat) :=
  match l with
  | [] => []
  | None :: r => failing_cases (S i) r
  | Some k :: r => (i, k) :: failing_cases (S i) r
  end.

(* debugging: the model's view after k steps *)
Fixpoint state_after (c : circ) (steps : list hstep) (k : nat) : option circ :=
  match k, steps with
  | O, _ => Some c
  | S k', s :: r => match step c (hs_op s) with Some c' => state_after c' r k' | None => None end
  | S _, [] => Some c
  end.
