(** wave_sim._wave_eval (wave_sim.py:155-264) transcribed: merging up to four operand waveforms
    through a LUT with pulse filtering and capacity overflow. *)
From Coq Require Import List ZArith NArith Bool Arith.
From KV Require Import Model.Time.
Import ListNotations.
Local Open Scope list_scope.

(** delays[line, input polarity (cursor parity), output value]: a 2x2 table per operand line *)
Record dtab := { d00 : Z; d01 : Z; d10 : Z; d11 : Z }.
Definition dzero := {| d00 := 0; d01 := 0; d10 := 0; d11 := 0 |}.
Definition dget (d : dtab) (i j : bool) : Z :=
  match i, j with false, false => d00 d | false, true => d01 d | true, false => d10 d | true, true => d11 d end.

Definition wget (w : list time) (i : nat) : time := nth i w MaxInf.
Fixpoint wset (w : list time) (i : nat) (v : time) : list time :=
  match w, i with [], _ => [] | _ :: r, O => v :: r | x :: r, S i' => x :: wset r i' v end.

Record wst := {
  cur4 : list nat;          (* a_cur .. d_cur *)
  inputs : N;               (* toggled operand bits *)
  zarr : list time;         (* the output region cbuf[z_mem : z_mem+z_cap], updated in place *)
  zcur : nat;
  zval : bool;
  prev : time;
  ovf : nat
}.

Definition pending (ws : list (list time)) (ds : list dtab) (cur : list nat) (zv : bool) : list time :=
  map (fun k => let c := nth k cur 0 in tadd (wget (nth k ws []) c) (dget (nth k ds dzero) (Nat.odd c) zv)) [0; 1; 2; 3].
Definition min4 (l : list time) : time := fold_left tmin l MaxOvl.
Definition max4 (l : list time) : time := fold_left tmax l MinInf.

Fixpoint first_eq (l : list time) (t : time) (i : nat) : nat :=
  match l with
  | [] => 3
  | x :: r => if teqb x t then i else first_eq r t (S i)
  end.
Fixpoint incr_nth (l : list nat) (i : nat) : list nat :=
  match l, i with [], _ => [] | x :: r, O => S x :: r | x :: r, S i' => x :: incr_nth r i' end.

Definition step (lut : N) (ws : list (list time)) (ds : list dtab) (zcap : nat) (st : wst) : wst :=
  let pend := pending ws ds (cur4 st) (zval st) in
  let current := min4 pend in
  (* the first operand (a, b, c, else d) whose pending time equals current_t *)
  let k := first_eq (firstn 3 pend) current 0 in
  let cur' := incr_nth (cur4 st) k in
  let ck := nth k cur' 0 in
  let inputs' := N.lxor (inputs st) (N.shiftl 1 (N.of_nat k)) in
  let dk := nth k ds dzero in
  let thresh := dget dk (Nat.odd ck) (zval st) in
  let next_t := tadd (wget (nth k ws []) ck) (dget dk (negb (Nat.odd ck)) (negb (zval st))) in
  if negb (Bool.eqb (Nat.odd (zcur st)) (N.testbit lut inputs')) then
    let '(z', zc', pv', ov') :=
      if Nat.eqb (zcur st) 0 || tltb next_t current || gap_gt current (prev st) thresh then
        if Nat.ltb (zcur st) (zcap - 1)
        then (wset (zarr st) (zcur st) current, S (zcur st), current, ovf st)
        else (zarr st, zcur st - 1, wget (zarr st) (zcur st - 1), S (ovf st))
      else (zarr st, zcur st - 1, (if Nat.ltb 0 (zcur st - 1) then wget (zarr st) (zcur st - 2) else MinInf), ovf st) in
    {| cur4 := cur'; inputs := inputs'; zarr := z'; zcur := zc'; zval := negb (zval st); prev := pv'; ovf := ov' |}
  else
    {| cur4 := cur'; inputs := inputs'; zarr := zarr st; zcur := zcur st; zval := zval st; prev := prev st; ovf := ovf st |}.

Fixpoint loop (fuel : nat) (lut : N) ws ds zcap (st : wst) : option wst :=
  if is_end (min4 (pending ws ds (cur4 st) (zval st))) then Some st
  else match fuel with
       | O => None
       | S f => loop f lut ws ds zcap (step lut ws ds zcap st)
       end.

Record wres := { r_z : list time; r_rise : nat; r_fall : nat; r_ovf : nat }.

(** zreg: current content of the output region (length z_cap) *)
Definition wave_eval (lut : N) (ws : list (list time)) (ds : list dtab) (zreg : list time) : option wres :=
  let zcap := List.length zreg in
  let z1 := N.odd lut in
  let st0 := {| cur4 := [0; 0; 0; 0]; inputs := 0%N; zarr := if z1 then wset zreg 0 MinInf else zreg;
                zcur := if z1 then 1 else 0; zval := z1; prev := MinInf; ovf := 0 |} in
  let fuel := S (fold_left (fun n w => n + List.length w) ws 0) in
  match loop fuel lut ws ds zcap st0 with
  | None => None
  | Some st =>
      let pend := pending ws ds (cur4 st) (zval st) in
      let term := if Nat.ltb 0 (ovf st) then MaxOvl else max4 pend in
      let z := wset (zarr st) (zcur st) term in
      let first_min := match wget z 0 with MinInf => 1 | _ => 0 end in
      Some {| r_z := z; r_rise := Nat.div (zcur st + 1) 2 - first_min; r_fall := Nat.div (zcur st) 2; r_ovf := ovf st |}
  end.

(** the waveform proper: entries up to and including the terminator *)
Fixpoint upto_end (w : list time) : list time :=
  match w with [] => [] | t :: r => if is_end t then [t] else t :: upto_end r end.

(** wave_capture_cpu with sd = 0: (init, eat, lst, final, val, ovl) *)
Record cap_acc := { k_eat : time; k_lst : time; k_fin : bool; k_val : bool; k_ovl : bool }.
Fixpoint capture_loop (w : list time) (tcap : time) (a : cap_acc) : cap_acc :=
  match w with
  | [] => a
  | t :: r =>
      if is_end t then {| k_eat := k_eat a; k_lst := k_lst a; k_fin := k_fin a; k_val := k_val a;
                          k_ovl := match t with MaxOvl => true | _ => false end |}
      else
        let a1 := {| k_eat := k_eat a; k_lst := k_lst a; k_fin := negb (k_fin a);
                     k_val := if tltb t tcap then negb (k_val a) else k_val a; k_ovl := k_ovl a |} in
        match t with
        | MinInf => capture_loop r tcap a1
        | _ => capture_loop r tcap {| k_eat := tmin (k_eat a1) t; k_lst := tmax (k_lst a1) t; k_fin := k_fin a1;
                                      k_val := k_val a1; k_ovl := k_ovl a1 |}
        end
  end.
Definition capture (w : list time) (tcap : time) : bool * cap_acc :=
  (match wget w 0 with MinInf => true | _ => false end,
   capture_loop w tcap {| k_eat := MaxInf; k_lst := MinInf; k_fin := false; k_val := false; k_ovl := false |}).
