(** Invariant and vocabulary for sim.Heap (C08).  Definitions only. *)
From Coq Require Import List NArith Bool Arith Sorted.
From KV Require Import Model.Heap.
Import ListNotations.
Local Open Scope N_scope.

(** the chunks tile [start, stop): consecutive, non-empty *)
Fixpoint tiles (start : N) (ch : list (N * N)) (stop : N) : Prop :=
  match ch with
  | [] => start = stop
  | (s, sz) :: r => s = start /\ 0 < sz /\ tiles (s + sz) r stop
  end.

Definition is_chunk (h : heap) (loc : N) : Prop := In loc (map fst (chunks h)).
(** a live (allocated, not released) chunk *)
Definition live (h : heap) (loc : N) : Prop := is_chunk h loc /\ ~ In loc (released h).

Definition HInv (h : heap) : Prop :=
  tiles 0 (chunks h) (cur h) /\
  StronglySorted N.lt (released h) /\
  (forall l, In l (released h) -> is_chunk h l) /\
  (* free chunks are coalesced: no free chunk is followed by a free chunk, none ends the managed range *)
  (forall l sz, In (l, sz) (chunks h) -> In l (released h) -> ~ In (l + sz) (released h) /\ l + sz <> cur h) /\
  cur h <= mx h.

(** histories with the running maximum of the managed size *)
Fixpoint hrun_max (ops : list hop) (h : heap) (m : N) : option (heap * N) :=
  match ops with
  | [] => Some (h, m)
  | HAlloc s :: r => let h' := snd (alloc h s) in hrun_max r h' (N.max m (cur h'))
  | HFree l :: r => match free h l with Some h' => hrun_max r h' (N.max m (cur h')) | None => None end
  end.

(** well-formed use: positive sizes, only live chunks are freed *)
Fixpoint well_used (ops : list hop) (h : heap) : Prop :=
  match ops with
  | [] => True
  | HAlloc s :: r => 0 < s /\ well_used r (snd (alloc h s))
  | HFree l :: r => live h l /\ match free h l with Some h' => well_used r h' | None => False end
  end.
