(** TEXT level of the ISCAS89 bench format: an executable transcription of what
    `Lark(bench.GRAMMAR, parser="lalr")` (bench.py:35-54, lark 0.12, contextual lexer) accepts and of the
    statement sequence BenchTransformer is called with.

      start: (statement)*                      statement: input | output | assignment
      input: ("INPUT" | "input") parameters    output: ("OUTPUT" | "output") parameters
      assignment: NAME "=" NAME parameters     parameters: "(" [ NAME ( "," NAME )* ] ")"
      NAME: /[-_a-z0-9]+/i
      %ignore ( /\r?\n/ | "#" /[^\n]*/ | /[\t\f ]/ )+

    How lark lexes this grammar (determined by running the real parser, harness/bench_text.py keeps the probes):
    * NAME is a greedy regular expression: a word is a MAXIMAL run of [-_a-zA-Z0-9].  The four keyword strings
      match NAME completely, so lark removes them from the scanner and re-types a NAME token whose WHOLE text is
      exactly "INPUT" / "input" / "OUTPUT" / "output" (case sensitive: `Input` stays a NAME) -- but only in a parser
      state that accepts the keyword, i.e. at the beginning of a statement (contextual lexer).  Hence
      `input(input)`, `a=input(b)`, `a=AND(output)` are accepted, `input=AND(a,b)`, `Input(a)`, `INPUTa(b)` raise.
    * ignored: "\n", "\r\n" (a lone "\r" raises), "#" up to but excluding the next "\n" (or the end of the
      text), tab, form feed, space.  Vertical tab, ";", "." ... raise.
    * `INPUT()` and `z = K()` are accepted (empty parameter list); `INPUT(a,)` raises.
    Domain of the model: texts whose code points are < 256 (one Coq [ascii] per code point).  Outside it
    Python's re.IGNORECASE makes U+0130, U+0131, U+017F and U+212A NAME characters; not modelled.

    [None] = lark raises (UnexpectedCharacters / UnexpectedToken). *)
From Coq Require Import List NArith Bool String Ascii.
From KV Require Import Model.VerilogElab.
Import ListNotations.
Local Open Scope list_scope.

Inductive btok := TWord (w : string) | TLpar | TRpar | TComma | TEq.

(** ** lexer *)
Inductive cclass := CName | CPunct (t : btok) | CSpace | CNl | CCr | CHash | COther.

Definition is_name_char (c : ascii) : bool :=
  let n := N_of_ascii c in
  ((48 <=? n) && (n <=? 57) || (65 <=? n) && (n <=? 90) || (97 <=? n) && (n <=? 122) || (n =? 45) || (n =? 95))%N.

Definition classify (c : ascii) : cclass :=
  if is_name_char c then CName else
  match N_of_ascii c with
  | 40%N => CPunct TLpar
  | 41%N => CPunct TRpar
  | 44%N => CPunct TComma
  | 61%N => CPunct TEq
  | 9%N | 12%N | 32%N => CSpace
  | 10%N => CNl
  | 13%N => CCr
  | 35%N => CHash
  | _ => COther
  end.

(* lexer modes: between tokens / inside a word (text so far) / inside a comment / after "\r" *)
Inductive lmode := MIdle | MWord (w : string) | MComment | MCr.

Definition ocons (t : btok) (o : option (list btok)) : option (list btok) :=
  match o with Some l => Some (t :: l) | None => None end.
Definition flush (m : lmode) (o : option (list btok)) : option (list btok) :=
  match m with MWord w => ocons (TWord w) o | _ => o end.
Definition push (m : lmode) (c : ascii) : string :=
  match m with MWord w => (w ++ String c EmptyString)%string | _ => String c EmptyString end.

Fixpoint lex_go (m : lmode) (s : string) : option (list btok) :=
  match s with
  | EmptyString => match m with MCr => None | _ => flush m (Some []) end
  | String c r =>
      match m with
      | MComment => match classify c with CNl => lex_go MIdle r | _ => lex_go MComment r end
      | MCr => match classify c with CNl => lex_go MIdle r | _ => None end
      | _ =>
          match classify c with
          | CName => lex_go (MWord (push m c)) r
          | CPunct t => flush m (ocons t (lex_go MIdle r))
          | CSpace | CNl => flush m (lex_go MIdle r)
          | CHash => flush m (lex_go MComment r)
          | CCr => flush m (lex_go MCr r)
          | COther => None
          end
      end
  end.
Definition lex (s : string) : option (list btok) := lex_go MIdle s.

(** ** parser (the LALR automaton of the grammar is deterministic with one token of look-ahead; the only
    context dependence is keyword vs NAME at the beginning of a statement) *)
Definition is_kw (w : string) : bool :=
  (String.eqb w "INPUT" || String.eqb w "input" || String.eqb w "OUTPUT" || String.eqb w "output")%string.

(* after a NAME inside the parentheses: ( "," NAME )* ")" *)
Fixpoint parse_more (ts : list btok) : option (list string * list btok) :=
  match ts with
  | TRpar :: r => Some ([], r)
  | TComma :: TWord n :: r =>
      match parse_more r with Some (l, r') => Some (n :: l, r') | None => None end
  | _ => None
  end.
Definition parse_params (ts : list btok) : option (list string * list btok) :=
  match ts with
  | TLpar :: TRpar :: r => Some ([], r)
  | TLpar :: TWord n :: r =>
      match parse_more r with Some (l, r') => Some (n :: l, r') | None => None end
  | _ => None
  end.
Definition parse_stmt (ts : list btok) : option (bstmt * list btok) :=
  match ts with
  | TWord w :: r =>
      if is_kw w then
        match parse_params r with Some (l, r') => Some (BInterface l, r') | None => None end
      else
        match r with
        | TEq :: TWord k :: r2 =>
            match parse_params r2 with Some (l, r') => Some (BAssign w k l, r') | None => None end
        | _ => None
        end
  | _ => None
  end.
(* fuel: every statement consumes at least three tokens, so the number of tokens suffices *)
Fixpoint parse_stmts (fuel : nat) (ts : list btok) : option (list bstmt) :=
  match ts with
  | [] => Some []
  | _ =>
      match fuel with
      | O => None
      | S f =>
          match parse_stmt ts with
          | Some (s, r) => match parse_stmts f r with Some l => Some (s :: l) | None => None end
          | None => None
          end
      end
  end.
Definition parse_toks (ts : list btok) : option (list bstmt) := parse_stmts (List.length ts) ts.

Definition parse_bench (s : string) : option (list bstmt) :=
  match lex s with Some ts => parse_toks ts | None => None end.

(* bench.parse up to the circuit: text -> statements -> BenchTransformer (Model/VerilogElab.v) *)
Definition bench_of_text (s : string) : option bcirc :=
  match parse_bench s with Some l => elab_bench l | None => None end.

(** ** printer and the general token-stream rendering *)
Definition nl : string := String (ascii_of_N 10) EmptyString.
Fixpoint join_comma (l : list string) : string :=
  match l with
  | [] => EmptyString
  | [x] => x
  | x :: r => (x ++ "," ++ join_comma r)%string
  end.
Definition print_stmt (s : bstmt) : string :=
  match s with
  | BInterface ns => ("INPUT(" ++ join_comma ns ++ ")" ++ nl)%string
  | BAssign z k a => (z ++ " = " ++ k ++ "(" ++ join_comma a ++ ")" ++ nl)%string
  end.
Fixpoint print_bench (l : list bstmt) : string :=
  match l with [] => EmptyString | s :: r => (print_stmt s ++ print_bench r)%string end.

(* the token stream of a statement list (BInterface does not record which keyword was written: "INPUT") *)
Fixpoint toks_names (l : list string) : list btok :=
  match l with
  | [] => []
  | [x] => [TWord x]
  | x :: r => TWord x :: TComma :: toks_names r
  end.
Definition toks_params (l : list string) : list btok := TLpar :: toks_names l ++ [TRpar].
Definition toks_stmt (s : bstmt) : list btok :=
  match s with
  | BInterface ns => TWord "INPUT" :: toks_params ns
  | BAssign z k a => TWord z :: TEq :: TWord k :: toks_params a
  end.
Definition toks_stmts (l : list bstmt) : list btok := flat_map toks_stmt l.

(* the token groups of one statement as the parser accepts them: any of the four keywords; an assigned name that is not
   (exactly) a keyword *)
Inductive stmt_toks : bstmt -> list btok -> Prop :=
| ST_io kw ns : is_kw kw = true -> stmt_toks (BInterface ns) (TWord kw :: toks_params ns)
| ST_as z k a : is_kw z = false -> stmt_toks (BAssign z k a) (TWord z :: TEq :: TWord k :: toks_params a).

(* well-formed NAME token; statements all of whose names are NAME tokens and whose assigned name is not a keyword
   (the text `input = AND(a,b)` raises) *)
Fixpoint all_name_chars (s : string) : bool :=
  match s with EmptyString => true | String c r => is_name_char c && all_name_chars r end.
Definition wf_name (s : string) : bool :=
  match s with EmptyString => false | _ => all_name_chars s end.
Definition wf_stmt (s : bstmt) : bool :=
  match s with
  | BInterface ns => forallb wf_name ns
  | BAssign z k a => wf_name z && negb (is_kw z) && wf_name k && forallb wf_name a
  end.

(* ignored text *)
Inductive ign := IgSpace | IgTab | IgFf | IgNl | IgCrNl | IgComment (body : string).
Fixpoint no_newline (s : string) : bool :=
  match s with EmptyString => true | String c r => negb (N.eqb (N_of_ascii c) 10) && no_newline r end.
Definition ign_ok (i : ign) : bool := match i with IgComment b => no_newline b | _ => true end.
Definition ign_text (i : ign) : string :=
  match i with
  | IgSpace => " "
  | IgTab => String (ascii_of_N 9) EmptyString
  | IgFf => String (ascii_of_N 12) EmptyString
  | IgNl => nl
  | IgCrNl => String (ascii_of_N 13) nl
  | IgComment b => (String "#" b ++ nl)%string
  end.
Fixpoint sep_text (l : list ign) : string :=
  match l with [] => EmptyString | i :: r => (ign_text i ++ sep_text r)%string end.

Definition tok_text (t : btok) : string :=
  match t with TWord w => w | TLpar => "(" | TRpar => ")" | TComma => "," | TEq => "=" end.
Definition tok_ok (t : btok) : bool := match t with TWord w => wf_name w | _ => true end.
Definition is_word (t : btok) : bool := match t with TWord _ => true | _ => false end.

(* tokens, each followed by its separator *)
Fixpoint render_toks (l : list (btok * list ign)) : string :=
  match l with [] => EmptyString | (t, s) :: r => (tok_text t ++ sep_text s ++ render_toks r)%string end.
(* leading ignored text, the tokens, optionally a final comment without newline *)
Definition tail_text (t : option string) : string :=
  match t with Some b => String "#" b | None => EmptyString end.
Definition render (s0 : list ign) (l : list (btok * list ign)) (t : option string) : string :=
  (sep_text s0 ++ render_toks l ++ tail_text t)%string.

(* two adjacent words need a non-empty separator *)
Fixpoint glue_ok (l : list (btok * list ign)) : bool :=
  match l with
  | [] => true
  | (t, s) :: r =>
      match r with
      | (t', _) :: _ => negb (is_word t && is_word t' && match s with [] => true | _ => false end)
      | [] => true
      end && glue_ok r
  end.
Definition seps_ok (s0 : list ign) (l : list (btok * list ign)) (t : option string) : bool :=
  forallb ign_ok s0 && forallb (fun p => forallb ign_ok (snd p)) l &&
  match t with Some b => no_newline b | None => true end.

(* s is a way of writing the token stream ts *)
Definition rendering (s : string) (ts : list btok) : Prop :=
  exists s0 l t, s = render s0 l t /\ map fst l = ts /\
    forallb (fun p => tok_ok (fst p)) l = true /\ seps_ok s0 l t = true /\ glue_ok l = true.

(** ** correspondence cases (harness/bench_text.py): the statement sequence the real transformer saw *)
Definition bstmt_eqb (a b : bstmt) : bool :=
  match a, b with
  | BInterface x, BInterface y => eqb_list String.eqb x y
  | BAssign z k x, BAssign z' k' y => String.eqb z z' && String.eqb k k' && eqb_list String.eqb x y
  | _, _ => false
  end.
Definition btext_case (text : string) (got : option (list bstmt)) : bool :=
  eqb_opt (eqb_list bstmt_eqb) (parse_bench text) got.
(* printer case: the real parser reads print_bench l back as l *)
Definition bprint_case (l : list bstmt) (text : string) : bool := String.eqb (print_bench l) text.
(* full pipeline: bench.parse(text) as a whole (every node, line, pin and the io list; None = it raises) *)
Definition btext_circ_case (text : string) (got : option bench_view) : bool :=
  match bench_of_text text, got with
  | None, None => true
  | Some c, Some v => view_eqb (view_of c) v && pins_ok c
  | _, _ => false
  end.
