(** C09 vocabulary: the consistency invariant of a circuit graph (Prop [CInv] and executable [cinv_b]) and the
    "well-formed use" precondition [pre] of every public edit.

    [CCoreX X c] is the invariant relative to a list [X] of nodes that were removed from the circuit while
    lines still refer to them (Node.remove documents that state; remove_dangling_nodes, eliminate_1to1_forks
    and substitute pass through it).  [CInv c] is [CCoreX [] c] plus gap-free fork outputs. *)
From Coq Require Import List Arith Bool String.
From KV Require Import Model.Circuit.
Import ListNotations.
Local Open Scope list_scope.

Definition NX (X : list nat) (c : circ) (n : nat) : Prop := In n (nodes c) \/ In n X.

Record CCoreX (X : list nat) (c : circ) : Prop := mkCC {
  (* ids are allocated *)
  cc_nb : forall n, NX X c n -> n < nnext c;
  cc_lb : forall l, In l (lines c) -> l < lnext c;
  (* position = index, listed objects are alive *)
  cc_nidx : forall i n, nth_error (nodes c) i = Some n -> n_alive (nst c n) = true /\ n_index (nst c n) = i;
  cc_lidx : forall i l, nth_error (lines c) i = Some l -> l_alive (lst c l) = true /\ l_index (lst c l) = i;
  cc_xdead : forall x, In x X -> n_alive (nst c x) = false;
  (* name lookups: forks / cells hold exactly the listed nodes of that flavour under their names *)
  cc_forks_nd : NoDup (map fst (forks c));
  cc_forks : forall s n, In (s, n) (forks c) <-> (In n (nodes c) /\ is_fork (kind_of c n) = true /\ name_of c n = s);
  cc_cells_nd : NoDup (map fst (cells c));
  cc_cells : forall s n, In (s, n) (cells c) <-> (In n (nodes c) /\ is_fork (kind_of c n) = false /\ name_of c n = s);
  (* every line is referenced from the driver pin and the reader pin it records ... *)
  cc_line : forall l, In l (lines c) ->
            exists d r, l_drv (lst c l) = Some d /\ l_rdr (lst c l) = Some r /\ NX X c d /\ NX X c r /\
                        out_at c d (l_dpin (lst c l)) = Some l /\ in_at c r (l_rpin (lst c l)) = Some l;
  (* ... and from nowhere else; no pin refers to a removed line *)
  cc_outs : forall n p l, NX X c n -> out_at c n p = Some l ->
            In l (lines c) /\ l_drv (lst c l) = Some n /\ l_dpin (lst c l) = p;
  cc_ins : forall n p l, NX X c n -> in_at c n p = Some l ->
            In l (lines c) /\ l_rdr (lst c l) = Some n /\ l_rpin (lst c l) = p
}.

Definition ForkDenseX (X : list nat) (c : circ) : Prop :=
  forall n, NX X c n -> is_fork (kind_of c n) = true ->
  forall p, p < List.length (outs_of c n) -> out_at c n p <> None.

Definition CInv (c : circ) : Prop := CCoreX [] c /\ ForkDenseX [] c.

(* every io_nodes entry is a listed node (no gaps, no removed ports) *)
Definition IoLive (c : circ) : Prop := forall e, In e (io c) -> exists n, e = Some n /\ In n (nodes c).

(** ** executable version *)
Definition mem (n : nat) (l : list nat) : bool := existsb (Nat.eqb n) l.
Definition is_none {A} (o : option A) : bool := match o with None => true | Some _ => false end.
Definition all_none {A} (l : list (option A)) : bool := forallb is_none l.
Definition oeq (a b : option nat) : bool :=
  match a, b with Some x, Some y => Nat.eqb x y | None, None => true | _, _ => false end.
Fixpoint forallb_i {A} (f : nat -> A -> bool) (i : nat) (l : list A) : bool :=
  match l with [] => true | x :: r => f i x && forallb_i f (S i) r end.
Fixpoint nodup_keys (d : list (string * nat)) : bool :=
  match d with [] => true | (k, _) :: r => is_none (dget k r) && nodup_keys r end.

Definition dict_ok_b (c : circ) (d : list (string * nat)) (f : bool) : bool :=
  nodup_keys d &&
  forallb (fun kv => mem (snd kv) (nodes c) && Bool.eqb (is_fork (kind_of c (snd kv))) f &&
                     String.eqb (name_of c (snd kv)) (fst kv)) d &&
  forallb (fun n => if Bool.eqb (is_fork (kind_of c n)) f
                    then existsb (fun kv => String.eqb (fst kv) (name_of c n) && Nat.eqb (snd kv) n) d else true) (nodes c).
Definition line_ok_b (c : circ) (l : nat) : bool :=
  let L := lst c l in
  match l_drv L, l_rdr L with
  | Some d, Some r => mem d (nodes c) && mem r (nodes c) && oeq (out_at c d (l_dpin L)) (Some l) && oeq (in_at c r (l_rpin L)) (Some l)
  | _, _ => false
  end.
Definition pins_ok_b (c : circ) (n : nat) : bool :=
  forallb_i (fun p e => match e with None => true
                        | Some l => mem l (lines c) && oeq (l_drv (lst c l)) (Some n) && Nat.eqb (l_dpin (lst c l)) p end) 0 (outs_of c n) &&
  forallb_i (fun p e => match e with None => true
                        | Some l => mem l (lines c) && oeq (l_rdr (lst c l)) (Some n) && Nat.eqb (l_rpin (lst c l)) p end) 0 (ins_of c n).
Definition fork_dense_b (c : circ) (n : nat) : bool :=
  if is_fork (kind_of c n) then forallb (fun e => negb (is_none e)) (outs_of c n) else true.

Definition cinv_b (c : circ) : bool :=
  forallb_i (fun i n => Nat.ltb n (nnext c) && n_alive (nst c n) && Nat.eqb (n_index (nst c n)) i) 0 (nodes c) &&
  forallb_i (fun i l => Nat.ltb l (lnext c) && l_alive (lst c l) && Nat.eqb (l_index (lst c l)) i) 0 (lines c) &&
  dict_ok_b c (forks c) true && dict_ok_b c (cells c) false &&
  forallb (line_ok_b c) (lines c) && forallb (pins_ok_b c) (nodes c) && forallb (fork_dense_b c) (nodes c).

(** ** well-formed use *)
Definition io_ok_b (c : circ) : bool :=
  forallb (fun e => match e with Some n => mem n (nodes c) | None => false end) (io c).
(* a 1:1 fork outside the interface that HAS a driver at input pin 0 (the forks the loop removes) has no other input connection.
   Forks without driver (ins = [] or ins[0] = None: stub forks of unconnected instance inputs after substitute / resolve_tlib_cells)
   are inside well-formed use since the fix of D38: the loop leaves them alone. *)
Definition elim_ok_b (c : circ) : bool :=
  forallb (fun n => in_ios c n || negb (Nat.eqb (List.length (outs_of c n)) 1) ||
                    match ins_of c n with Some _ :: r => all_none r | _ => true end) (map snd (forks c)).
(* substitute: the instance is a listed cell, the implementation is a consistent circuit whose interface nodes are
   listed, and the asserts / dictionary lookups of the code succeed (pin counts fit, generated names are fresh,
   every connected instance pin finds its node). *)
(* shape of an implementation (decided on the implementation alone): no port is listed twice; ports are forks (as produced by
   the bench parser: `input(A) output(Y)` declare forks); the designated cell -- the first non-fork driver behind the first
   output, whose kind the instance node takes over -- is not itself a port; the driver of a line into a pure output port (a port
   that is not read inside the implementation) is not a fork. *)
Fixpoint nodupb (l : list nat) : bool := match l with [] => true | x :: r => negb (mem x r) && nodupb r end.
Definition io_forks_b (impl : circ) : bool :=
  forallb (fun e => match e with Some n => is_fork (kind_of impl n) | None => false end) (io impl).
Definition impl_desig (impl : circ) : option (option nat) :=
  match all_somes (io impl) with
  | None => None
  | Some ios =>
      match map (fun n => nth 0 (ins_of impl n) None) (filter (fun n => 0 <? List.length (ins_of impl n)) ios) with
      | [] => Some None
      | None :: _ => None
      | Some l0 :: _ => match l_drv (lst impl l0) with
                        | Some d => option_map Some (find_designated (S (nnext impl)) impl d)
                        | None => None end
      end
  end.
Definition out_drivers_b (impl : circ) : bool :=
  forallb (fun l => match l_rdr (lst impl l), l_drv (lst impl l) with
                    | Some r, Some d => negb (in_ios impl r && (List.length (outs_of impl r) =? 0) && is_fork (kind_of impl d))
                    | _, _ => true end) (lines impl).
Definition subst_shape_b (impl : circ) : bool :=
  nodupb (somes (io impl)) && io_forks_b impl &&
  match impl_desig impl with Some (Some dc) => negb (in_ios impl dc) | _ => true end &&
  out_drivers_b impl.

Definition subst_pre_b (c : circ) (n : nat) (impl : circ) : bool :=
  mem n (nodes c) && negb (is_fork (kind_of c n)) && negb (io_mem c n) && cinv_b impl && io_ok_b impl && subst_shape_b impl &&
  match substitute c n impl with Some _ => true | None => false end.
(* resolve_tlib_cells: every library implementation is consistent, and every LIVE instance of a library kind that the loop over
   the node snapshot visits satisfies, in the state in which it is visited, the conditions of substitute that concern the instance
   and the call: it is a cell, it is not a port, the implementation has the shape [subst_shape_b], the call does not raise.
   (That a live snapshot node is still listed is not assumed: it follows, Proofs/CircuitResolve.v.  Instances that an earlier
   clean-up removed are skipped by the code and need no condition.) *)
Definition subst_visit_b (c : circ) (n : nat) (impl : circ) : bool :=
  negb (is_fork (kind_of c n)) && negb (io_mem c n) && subst_shape_b impl &&
  match substitute c n impl with Some _ => true | None => false end.
Fixpoint resolve_pre_from (t : list (string * circ)) (ns : list nat) (c : circ) : bool :=
  match ns with
  | [] => true
  | n :: r => if n_alive (nst c n) then
                match tlib_get (kind_of c n) t with
                | None => resolve_pre_from t r c
                | Some impl => subst_visit_b c n impl &&
                               match substitute c n impl with Some c' => resolve_pre_from t r c' | None => false end
                end
              else resolve_pre_from t r c
  end.
Definition resolve_pre_b (c : circ) (t : list (string * circ)) : bool :=
  forallb (fun kv => cinv_b (snd kv) && io_ok_b (snd kv)) t &&
  match resolve_tlib c t with Some _ => true | None => false end &&
  resolve_pre_from t (nodes c) c.

Definition pre (c : circ) (o : op) : bool :=
  match o with
  | AddNode name kind => is_none (if is_fork kind then dget name (forks c) else dget name (cells c))
  | AddLine d dp r rp =>
      mem d (nodes c) && mem r (nodes c) &&
      match dp with
      | None => true
      | Some p => is_none (out_at c d p) &&
                  (if is_fork (kind_of c d) then Nat.eqb p (List.length (outs_of c d)) else true)
      end &&
      match rp with None => true | Some p => is_none (in_at c r p) end
  | RemoveLine l => mem l (lines c)
  | RemoveNode n => mem n (nodes c) && all_none (ins_of c n) && all_none (outs_of c n) && negb (io_mem c n)
  | SetIO pos n => Nat.leb pos (List.length (io c)) && mem n (nodes c)
  | GetOrAddFork _ => true
  | RemoveDangling n => mem n (nodes c)
  | Eliminate1to1 => elim_ok_b c
  | Substitute n impl => subst_pre_b c n impl
  | ResolveTlib t => resolve_pre_b c t
  | Copy | PickleRoundTrip => io_ok_b c
  end.

(* every prefix state satisfies the precondition of the next operation *)
Fixpoint hist_pre (c : circ) (ops : list op) : bool :=
  match ops with
  | [] => true
  | o :: r => pre c o && match step c o with Some c' => hist_pre c' r | None => true end
  end.
