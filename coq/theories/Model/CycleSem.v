(** LogicSim.cycle (logic_sim.py:289-299) at line level, and the synchronous semantics of a netlist it is compared with.
    One cycle = s_to_c; c_prop; c_to_s; s_ppo_to_ppi:
      - propagation: the scheduler's op list executed from the assigned values s[0] ([line_prop]);
      - c_to_s: position p of s[1] takes the value of the line at input pin 0 of s_node p; positions whose s_node has no
        such line keep their entry ([capture]);
      - s_ppo_to_ppi (2-/4-valued): EVERY position that is not a port -- flip-flops and latches alike, "all state elements
        are clocked all the time" -- takes its s[1] entry; ports keep their assignment ([transfer]).
    Specification side ([iter_sem]): the same iteration with "the op list's result" replaced by "a solution of the per-node
    equations" (Model/NetlistSem.v).  Definitions only; theorems in Proofs/CycleProofs.v. *)
From Coq Require Import List NArith ZArith Bool Arith String.
From KV Require Import Model.Prims Model.Netlist Model.Heap Model.SimOps Model.AllocCheck Model.NetlistSem Model.Corr Gen.SimTables.
Import ListNotations.
Local Open Scope list_scope.

(** the line captured for s_node position p: input pin 0 of the node, if connected *)
Definition snode_in (c : netlist) (p : nat) : option nat :=
  if Nat.ltb p (List.length (s_nodes c)) then
    match n_ins (get_node c (nth p (s_nodes c) 0)) with Some l0 :: _ => Some l0 | _ => None end
  else None.

Section Cycle.
  Context {V : Type} (sem : N -> V -> V -> V -> V -> V) (zero : V).
  Variable c : netlist.

  Definition stim_of (s0 : list V) : nat -> V := fun p => nth p s0 zero.
  Definition capture (v : nat -> V) (s1 : list V) : list V :=
    map (fun p => match snode_in c p with Some l0 => v l0 | None => nth p s1 zero end) (seq 0 (List.length (s_nodes c))).
  Definition transfer (s0 s1 : list V) : list V :=
    map (fun p => if Nat.leb (List.length (c_io c)) p then nth p s1 zero else nth p s0 zero) (seq 0 (List.length (s_nodes c))).

  (** scheduler side *)
  Definition line_prop (s0 : list V) : nat -> V :=
    iexec sem (fun x => x) (build_ops c false) (init_env zero c (stim_of s0)).
  Definition line_cycle (st : list V * list V) : list V * list V :=
    let s1' := capture (line_prop (fst st)) (snd st) in (transfer (fst st) s1', s1').
  Fixpoint line_cycles (k : nat) (st : list V * list V) : list V * list V :=
    match k with O => st | S k' => line_cycles k' (line_cycle st) end.

  (** the same with forks stripped, read through the stems *)
  Definition line_prop_strip (stems : list Z) (s0 : list V) : nat -> V :=
    let e := iexec sem (stemmed stems) (build_ops c true) (init_env zero c (stim_of s0)) in
    fun l => e (stemmed stems l).
  Definition line_cycle_strip stems (st : list V * list V) : list V * list V :=
    let s1' := capture (line_prop_strip stems (fst st)) (snd st) in (transfer (fst st) s1', s1').
  Fixpoint line_cycles_strip stems (k : nat) (st : list V * list V) : list V * list V :=
    match k with O => st | S k' => line_cycles_strip stems k' (line_cycle_strip stems st) end.

  (** specification side: k synchronous steps of the netlist; each step takes A valuation satisfying every node's equation
      under the current assignment *)
  Inductive iter_sem : nat -> list V -> list V -> list V -> list V -> Prop :=
  | iter_sem_O s0 s1 : iter_sem 0 s0 s1 s0 s1
  | iter_sem_S k s0 s1 v a b :
      solution sem zero c (stim_of s0) v ->
      iter_sem k (transfer s0 (capture v s1)) (capture v s1) a b ->
      iter_sem (S k) s0 s1 a b.
End Cycle.

(** correspondence entry point (2-valued, one lane): s[0] and s[1] after k calls of cycle(), for any options *)
Definition line_case2 (c : netlist) (strip : bool) (k : nat) (s0 s1 : list bool) (exp : list bool * list bool) : bool :=
  let nl := List.length (c_lines c) in
  let r := if strip then
             match build_stems c true (nl + 3 + 2 * List.length (s_nodes c)) with
             | Some stems => Some (line_cycles_strip sem_lut false c stems k (s0, s1))
             | None => None
             end
           else Some (line_cycles sem_lut false c k (s0, s1)) in
  opt_eqb (pair_eqb (list_eqb Bool.eqb) (list_eqb Bool.eqb)) r (Some exp).
