(** Correspondence cases for the array layer (C12 wrappers, C15 any-rank conversions): (input, what numpy / kyupy
    produced) compared with Model/NdArray.v and Model/MvWrappers.v.  Rendered by harness/nd_corr.py. *)
From Coq Require Import List Arith Bool.
From KV Require Import Model.Encodings Model.EncodingsCorr Model.Corr Model.NdArray Model.MvWrappers Model.MvTransition.
Import ListNotations.
Local Open Scope list_scope.

Definition sh_eqb (a b : shape) : bool := EncodingsCorr.list_eqb Nat.eqb a b.
Definition nd_eqb (a b : nd) : bool := sh_eqb (nd_shape a) (nd_shape b) && EncodingsCorr.list_eqb Nat.eqb (nd_data a) (nd_data b).
Definition ond_eqb (a b : option nd) : bool := EncodingsCorr.opt_eqb nd_eqb a b.
Definition A := NdA.
(** the content np.empty happens to deliver is not observable in a correct result: the model is run with two contents *)
Definition junk1 (k : nat) : nat := 238.
Definition junk2 (k : nat) : nat := k mod 7.

Inductive nd_case :=
| KBroadcast2 (s t : shape) (r : option shape)
| KBroadcast3 (s t u : shape) (r : option shape)
| KRavel (sh : shape) (idx : list nat) (k : nat)          (* np.ravel_multi_index / np.unravel_index *)
| KOr2 (a b : nd) (r : option nd)                         (* a | b *)
| KOrOut (a b : nd) (w : option nd) (out : nd) (r : option nd)   (* np.bitwise_or(a, b, out=out, where=w) *)
| KPutmask (out mask : nd) (v : nat) (r : option nd)
| KMvNot (x : nd) (out : option nd) (r : option nd)
| KMvBin (op : mvop) (x1 x2 : nd) (out : option nd) (r : option nd)
| KMvTransition (x1 x2 : nd) (out : option nd) (r : option nd)
| KSwap (x : nd) (r : option nd)
| KPackLast (x : nd) (r : option nd)
| KPackAxis2 (x : nd) (r : option nd)
| KUnpackLast (x : nd) (r : option nd)
| KUnpackNew (nb : nat) (x : nd) (r : nd)
| KPackU8 (x : nd) (r : option nd)
| KMvToBp (x : nd) (r : option nd)
| KBpToMv (x : nd) (r : option nd)
| KMvarray (a : list pv) (r : option nd)
| KBparray (a : list pv) (r : option nd).

Definition nd_case_ok (c : nd_case) : bool :=
  match c with
  | KBroadcast2 s t r => EncodingsCorr.opt_eqb sh_eqb (broadcast2 s t) r
  | KBroadcast3 s t u r => EncodingsCorr.opt_eqb sh_eqb (broadcast3 s t u) r
  | KRavel sh idx k => (ravel sh idx =? k) && sh_eqb (unravel sh k) idx
  | KOr2 a b r => ond_eqb (ufunc2 Nat.lor a b) r
  | KOrOut a b w out r => ond_eqb (ufunc2_out Nat.lor a b w out) r
  | KPutmask out mask v r => ond_eqb (putmask out mask v) r
  | KMvNot x out r => ond_eqb (mvw_not junk1 x out) r && ond_eqb (mvw_not junk2 x out) r
  | KMvBin op x1 x2 out r => ond_eqb (mvw_bin false op junk1 x1 x2 out) r && ond_eqb (mvw_bin false op junk2 x1 x2 out) r
  | KMvTransition x1 x2 out r => ond_eqb (mvw_transition junk1 x1 x2 out) r && ond_eqb (mvw_transition junk2 x1 x2 out) r
  | KSwap x r => ond_eqb (swap_last2 x) r
  | KPackLast x r => ond_eqb (packbits_last x) r
  | KPackAxis2 x r => ond_eqb (packbits_axis2 x) r
  | KUnpackLast x r => ond_eqb (unpackbits_last x) r
  | KUnpackNew nb x r => nd_eqb (unpack_new_axis nb x) r
  | KPackU8 x r => ond_eqb (packbits_u8_last x) r
  | KMvToBp x r => ond_eqb (mv_to_bp x) r
  | KBpToMv x r => ond_eqb (bp_to_mv x) r
  | KMvarray a r => ond_eqb (mvarray_nd a) r
  | KBparray a r => ond_eqb (bparray_nd a) r
  end.
Definition nd_failing (l : list nd_case) : list nat := failing (map nd_case_ok l).
