(** Vocabulary of the translated source of sim.SimOps.__init__ (Gen/SimOpsSrc.v, written by translate/gen_simops.py).
    Definitions only.  What the Python expressions of the scheduler mean over the netlist type of Model/Netlist.v:

    circuit                      the netlist [c]; a Node object is its position in [c_nodes c] (sort node = nat), a Line object is its
                                 position in [c_lines c] = its [.index] (Circuit keeps lines[i].index = i; Line.__index__ returns it)
    n.ins / n.outs               [n_ins (get_node c n)] / [n_outs ...] : list (option nat); a pin holds a Line or None
    x.index, a[x] for a pin x    [py_index x] : None (AttributeError / TypeError) when the pin is None
    l[k]                         [py_lget k l] : None = IndexError; negative indices leave the modelled domain ([py_z2nat])
    len(circuit.lines)           [List.length (c_lines c)]
    circuit.s_nodes              [s_nodes c]      (model of the property Circuit.s_nodes, Model/Netlist.v)
    circuit.topological_order()  [topo_order c]   (the existing model of Circuit.topological_order, tied by the C17 correspondence;
                                 it is NOT translated here)
    circuit.forks.values()       [py_forks c]: the nodes of kind '__fork__' (Node.__init__ registers exactly these), in index order
    dict((n, i) for i, n in enumerate(L))   the list L itself; d[n] = LAST position of n ([py_enumdict_get]), n in d = membership
    numpy int arrays             lists of nat (levels, indices: values that are never negative), Z (stems, ref_count, c_locs: -1 occurs),
                                 N (capacities, LUT codes); int32 wrap-around is not modelled
    rows of self.ops             records [oprow] (nine columns); op[k] for a literal k is the projection
    set() of locations           duplicate-free ascending list; `for loc in free_set` runs in ascending order (Python's order is
                                 unspecified: the allocator theorem C06 release_order_irrelevant is what makes the choice harmless)
    Heap()                       the translated class (Gen/HeapSrc.v): [hinit_src], [alloc_src], [free_src]
    every operation that can raise is option-valued and bound with [bind] in Python's evaluation order; None = raised / left the domain *)
From Coq Require Import List NArith ZArith Bool Arith String.
From KV Require Import Model.Prims Model.Netlist Model.Heap Model.HeapSrcLib Model.SimOps Gen.SimTables.
Import ListNotations.
Local Open Scope list_scope.

Definition bind {A B} (x : option A) (f : A -> option B) : option B :=
  match x with Some a => f a | None => None end.

(** for x in l: body  -- the body returns the new values of the variables that live across iterations and whether it left by `break` *)
Fixpoint py_for {A S} (body : A -> S -> option (S * bool)) (l : list A) (s : S) : option S :=
  match l with
  | [] => Some s
  | x :: r => match body x s with
              | None => None
              | Some (s', true) => Some s'
              | Some (s', false) => py_for body r s'
              end
  end.

(** while c: body  -- step returns (state, true) after an executed body, (state, false) when the test failed; None = raised or out of fuel *)
Fixpoint py_while {S} (fuel : nat) (step : S -> option (S * bool)) (s : S) : option S :=
  match fuel with
  | O => None
  | S f => match step s with
           | None => None
           | Some (s', true) => py_while f step s'
           | Some (s', false) => Some s'
           end
  end.

Definition arow := (Z * Z * Z)%type.
Record oprow := mk_row { r_lut : N; r_out : nat; r_i0 : nat; r_i1 : nat; r_i2 : nat; r_i3 : nat; r_a0 : Z; r_a1 : Z; r_a2 : Z }.
(** (sp, o, i0, i1, i2, i3, *a_ctrl[k]) *)
Definition mk_row9 (l : N) (o a b cc d : nat) (r : arow) : oprow :=
  mk_row l o a b cc d (fst (fst r)) (snd (fst r)) (snd r).
Definition sop_of_row (r : oprow) : sop :=
  {| s_lut := r_lut r; s_out := r_out r; s_i0 := r_i0 r; s_i1 := r_i1 r; s_i2 := r_i2 r; s_i3 := r_i3 r |}.
Definition row_of_sop (actrl : list arow) (o : sop) : oprow :=
  mk_row9 (s_lut o) (s_out o) (s_i0 o) (s_i1 o) (s_i2 o) (s_i3 o) (nth (s_out o) actrl (0, 0, 0)%Z).

Definition py_index (p : option nat) : option nat := p.
Definition py_unopt {A} (o : option A) : option A := o.
Definition py_is_none {A} (o : option A) : bool := match o with None => true | Some _ => false end.
Definition py_z2nat (z : Z) : option nat := if (z <? 0)%Z then None else Some (Z.to_nat z).
Definition py_z2N (z : Z) : option N := if (z <? 0)%Z then None else Some (Z.to_N z).

Definition py_enumdict_get (n : nat) (l : list nat) : option nat := last_pos n l 0 None.
Definition py_enumdict_mem (n : nat) (l : list nat) : bool := existsb (Nat.eqb n) l.
Definition py_forks (c : netlist) : list nat := find_idx (fun nd => String.eqb (n_kind nd) "__fork__") (c_nodes c) 0.
Definition py_enumerate {A} (l : list A) : list (nat * A) := combine (seq 0 (List.length l)) l.
(** l[a:b] for 0 <= a, b (Python clamps) *)
Definition py_slice {A} (a b : nat) (l : list A) : list A := firstn (b - a) (skipn a l).
Definition prims0 (p : N * N * N) : N := fst (fst p).
Definition prims1 (p : N * N * N) : N := snd (fst p).
Definition prims2 (p : N * N * N) : N := snd p.
Definition py_set_add (x : Z) (l : list Z) : list Z := set_add x l.
Definition lut_const (name : string) : N := lutv name.

(** the pinned (not translated) normalisation of the a_ctrl argument, sim.py: None -> rows (-1, 0, 0); shorter than lines+3 -> padded *)
Definition a_ctrl_norm (given : option (list arow)) (n : nat) : list arow :=
  match given with
  | None => repeat (-1, 0, 0)%Z n
  | Some a => a ++ repeat (-1, 0, 0)%Z (n - List.length a)
  end.
