(** Specification vocabulary for C20 (definitions only): what "a '*' inherits the previous value",
    "the via sits at the current location" and "grouped per layer in file order" mean, written
    independently of the loop structure of the code (Model/DefRoute.v). *)
From Coq Require Import List ZArith Bool String Arith.
From KV Require Import Model.DefRoute.
Import ListNotations.
Local Open Scope list_scope.

(** Wildcard resolution, structurally: every point is completed from the previous *resolved* point; vias are skipped. *)
Fixpoint resolve_spec (prev : pt) (es : list elem) : list pt :=
  match es with
  | [] => []
  | EVia _ _ :: r => resolve_spec prev r
  | EPt x y ext :: r => let q := resolve1 prev x y ext in q :: resolve_spec q r
  end.

(** The same, declaratively and per coordinate: position [k] of a column [os] of written values
    ([None] = '*') that starts after the value [d] carries [v] iff [v] is the nearest explicitly written
    value at or before [k] -- or [d] when everything up to [k] is '*'. *)
Definition inherits (d : Z) (os : list (option Z)) (k : nat) (v : Z) : Prop :=
  (exists j, j <= k /\ nth_error os j = Some (Some v) /\ forall i, j < i <= k -> nth_error os i = Some None)
  \/ (v = d /\ forall i, i <= k -> nth_error os i = Some None).

(** the points of a routing statement as written (vias dropped) and their three columns *)
Fixpoint pts_of (es : list elem) : list (option Z * option Z * option Z) :=
  match es with
  | [] => []
  | EVia _ _ :: r => pts_of r
  | EPt x y ext :: r => (x, y, ext) :: pts_of r
  end.
Definition col_x (es : list elem) : list (option Z) := map (fun p => fst (fst p)) (pts_of es).
Definition col_y (es : list elem) : list (option Z) := map (fun p => snd (fst p)) (pts_of es).
Definition col_ext (es : list elem) : list (option Z) := map snd (pts_of es).

(** All via placements of a routing statement in file order, tagged with the via name.  [loc] = current location. *)
Fixpoint via_walk (loc : Z * Z) (es : list elem) : list (string * vplace) :=
  match es with
  | [] => []
  | EPt x y _ :: r => via_walk (or_else x (fst loc), or_else y (snd loc)) r
  | EVia nm p :: r => map (pair nm) (place loc p) ++ via_walk loc r
  end.
Definition wire_via_walk (w : wire) : list (string * vplace) := via_walk (pxy (w_first w)) (w_rest w).

(** keys of a grouping in order of first occurrence *)
Fixpoint first_occ (l : list string) : list string :=
  match l with
  | [] => []
  | k :: r => k :: filter (fun k' => negb (String.eqb k' k)) (first_occ r)
  end.
(** the entries filed under key [k], in the order given *)
Definition under {A} (k : string) (kvs : list (string * A)) : list A :=
  map snd (filter (fun kv => String.eqb k (fst kv)) kvs).

(** a wire contributes a segment iff it has at least two points *)
Definition has_segment (w : wire) : bool := match wire_points w with [] => false | _ => true end.
