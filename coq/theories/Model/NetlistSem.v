(** Gate-by-gate semantics of a netlist, stated per node and independent of any schedule: a valuation of
    the lines is a SOLUTION if every node's output lines carry the value its kind prescribes.  This is the
    specification side of C01 ("the value obtained by evaluating the netlist gate by gate").  Generic in the
    value domain V and the interpretation [sem] of an opcode (LUT constant). *)
From Coq Require Import List NArith ZArith Bool Arith String.
From KV Require Import Model.Prims Model.Netlist Model.Heap Model.SimOps Model.AllocCheck Gen.SimTables.
Import ListNotations.
Local Open Scope list_scope.

Section Sem.
  Context {V : Type} (sem : N -> V -> V -> V -> V -> V) (zero : V).
  Variable c : netlist.
  (** stimulus: value assigned to s_node position p (ports and state elements) *)
  Variable stim : nat -> V.
  (** a valuation of the lines *)
  Variable v : nat -> V.

  Definition pinv (l : list (option nat)) (k : nat) : V := match pin l k with Some x => v x | None => zero end.

  Definition is_fork (nd : node) : bool := String.eqb (lower (n_kind nd)) "__fork__".
  (** a port fork that is driven from inside the circuit is a wire, not an interface node (sim.py after fix 619a9aa) *)
  Definition port_wire (nd : node) : bool := String.eqb (n_kind nd) "__fork__" && is_some (pin (n_ins nd) 0).
  Definition iface_pos (n : nat) : option nat :=
    if port_wire (get_node c n) then None else last_pos n (s_nodes c) 0 None.

  (** what node n demands of the valuation *)
  Definition node_ok (n : nat) : Prop :=
    let nd := get_node c n in
    match iface_pos n with
    | Some p =>
        (forall o, pin (n_outs nd) 0 = Some o -> v o = sem (lutv "BUF1") (stim p) zero zero zero) /\
        (if is_dff nd
         then forall o, pin (n_outs nd) 1 = Some o -> v o = sem (lutv "INV1") (stim p) zero zero zero
         else forall k o, 0 < k -> pin (n_outs nd) k = Some o -> v o = sem (lutv "BUF1") (stim p) zero zero zero)
    | None =>
        if is_fork nd then
          forall k o, pin (n_outs nd) k = Some o ->
            v o = sem (lutv "BUF1") (pinv (n_ins nd) 0) (pinv (n_ins nd) 1) (pinv (n_ins nd) 2) (pinv (n_ins nd) 3)
        else
          match select_lut kind_prefixes (n_kind nd)
                           (negb (is_some (pin (n_ins nd) 2))) (negb (is_some (pin (n_ins nd) 3))) with
          | Some sp => forall o, pin (n_outs nd) 0 = Some o ->
                         v o = sem sp (pinv (n_ins nd) 0) (pinv (n_ins nd) 1) (pinv (n_ins nd) 2) (pinv (n_ins nd) 3)
          | None => True
          end
    end.
  Definition solution : Prop := forall n, n < List.length (c_nodes c) -> node_ok n.
End Sem.

(** the environment SimOps' op list starts from: PPI slot p holds the stimulus of s_node p, the zero slot holds zero *)
Definition init_env {V} (zero : V) (c : netlist) (stim : nat -> V) : ienv :=
  let nl := List.length (c_lines c) in
  fun idx => if Nat.leb (nl + 3) idx then stim (idx - (nl + 3)) else zero.

(** executable version for Boolean checks on concrete circuits *)
Section Check.
  Context {V : Type} (veqb : V -> V -> bool) (sem : N -> V -> V -> V -> V -> V) (zero : V).
  Definition node_ok_b (c : netlist) (stim v : nat -> V) (n : nat) : bool :=
    let nd := get_node c n in
    let pv l k := match pin l k with Some x => v x | None => zero end in
    let outs_k := combine (seq 0 (List.length (n_outs nd))) (n_outs nd) in
    match iface_pos c n with
    | Some p =>
        forallb (fun ko => match ko with
                           | (_, None) => true
                           | (k, Some o) =>
                               if Nat.eqb k 0 then veqb (v o) (sem (lutv "BUF1") (stim p) zero zero zero)
                               else if is_dff nd then (if Nat.eqb k 1 then veqb (v o) (sem (lutv "INV1") (stim p) zero zero zero) else true)
                               else veqb (v o) (sem (lutv "BUF1") (stim p) zero zero zero)
                           end) outs_k
    | None =>
        let args f := f (pv (n_ins nd) 0) (pv (n_ins nd) 1) (pv (n_ins nd) 2) (pv (n_ins nd) 3) in
        if is_fork nd then
          forallb (fun ko => match snd ko with None => true | Some o => veqb (v o) (args (sem (lutv "BUF1"))) end) outs_k
        else
          match select_lut kind_prefixes (n_kind nd) (negb (is_some (pin (n_ins nd) 2))) (negb (is_some (pin (n_ins nd) 3))) with
          | Some sp => match pin (n_outs nd) 0 with Some o => veqb (v o) (args (sem sp)) | None => true end
          | None => true
          end
    end.
  Definition solution_b (c : netlist) (stim v : nat -> V) : bool :=
    forallb (node_ok_b c stim v) (seq 0 (List.length (c_nodes c))).
End Check.

(** 2-valued instance: opcode = LUT constant, four operand bits address the row *)
Definition sem_lut (l : N) (a b cc d : bool) : bool := lut_bit l a b cc d.
Definition sol2_case (c : netlist) (stim : list bool) : bool :=
  let st p := nth p stim false in
  solution_b Bool.eqb sem_lut false c st (iexec sem_lut (fun x => x) (build_ops c false) (init_env false c st)).
