(** Meaning of the primitive expression forms that translate/gen_wave_eval.py emits when it translates the timing kernels of
    wave_sim.py (_wave_eval, wave_capture_cpu, wave_capture_gpu, ...) statement by statement into Gen/WaveEvalSrc.v.
    Python ints are Z, float32 times are [Model/Time.v time] (the integer grid with the three sentinels), delays are Z.
    Memory abstraction (the one of Model/WaveEval.v): the kernel sees the waveform memory of one lane as a list of REGIONS,
    region 0 = cbuf[c_locs[op[1]] : +c_caps[op[1]], sim] (the output), region k = the region of operand op[1+k]; a read
    beyond the end of a region yields TMAX, a write beyond it is dropped.  Definitions only. *)
From Coq Require Import List ZArith NArith Bool Arith.
From KV Require Import Model.Time Model.WaveEval.
Import ListNotations.
Local Open Scope list_scope.
Local Open Scope Z_scope.

Definition b2z (b : bool) : Z := if b then 1 else 0.

Fixpoint upd_nth {A} (l : list A) (i : nat) (v : A) : list A :=
  match l, i with [], _ => [] | _ :: r, O => v :: r | x :: r, S i' => x :: upd_nth r i' v end.

(** cbuf[X_mem + off, sim] with X_mem = c_locs[op[1+h]]; negative offsets leave the abstraction (read as TMAX, write dropped) *)
Definition rd (m : list (list time)) (h : nat) (off : Z) : time :=
  if off <? 0 then MaxInf else wget (nth h m []) (Z.to_nat off).
Definition wr (m : list (list time)) (h : nat) (off : Z) (v : time) : list (list time) :=
  if off <? 0 then m else upd_nth m h (wset (nth h m []) (Z.to_nat off) v).
(** c_caps[op[1+h]] *)
Definition cap_of (m : list (list time)) (h : nat) : Z := Z.of_nat (List.length (nth h m [])).
(** delays[op[1+h], p, v] of the selected dataset (h >= 1: the operands; the translator rejects h = 0) *)
Definition dly (ds : list dtab) (h : nat) (p v : Z) : Z := dget (nth (pred h) ds dzero) (negb (p =? 0)) (negb (v =? 0)).

(** Python's min / max of four floats: the first extremal argument wins *)
Definition pymin4 (a b c d : time) : time := tmin (tmin (tmin a b) c) d.
Definition pymax4 (a b c d : time) : time := tmax (tmax (tmax a b) c) d.

(** float comparisons the kernels use besides tltb / teqb *)
Definition tgeb (a b : time) : bool := negb (tltb a b).      (* a >= b *)
Definition tgtb (a b : time) : bool := tltb b a.             (* a > b *)

(** range(n) *)
Definition zrange (n : Z) : list Z := map Z.of_nat (seq 0 (Z.to_nat n)).
