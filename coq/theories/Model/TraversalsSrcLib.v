(** Vocabulary of the translated source of the traversal generators of circuit.py (Gen/TraversalsSrc.v, written by
    translate/gen_traversals.py): Circuit.s_nodes, topological_order, topological_order_with_level, topological_line_order,
    reversed_topological_order, fanin.  Definitions only.  What the Python expressions mean over the netlist type of Model/Netlist.v:

    self                         the netlist [c]; a Node object is its position in [c_nodes c] (sort node = nat; Node.__index__ returns it),
                                 a Line object is its position in [c_lines c]; a pin of n.ins / n.outs holds a Line or None ([option nat])
    self.nodes                   [t_nodes c] = 0 .. len-1 (Circuit keeps nodes[i].index = i);  list(self.io_nodes) = [c_io c]
    n.kind / n.ins / n.outs      [n_kind (get_node c n)] / [n_ins ...] / [n_outs ...]
    x.reader / x.driver / x.index for a pin x     [t_index x] : None (AttributeError) when the pin is None, then [l_rdr] / [l_drv] of the line
    'dff' in n.kind.lower()      [is_dff (get_node c n)]   ('latch': [is_latch]) -- the vocabulary of Model/Netlist.v
    a generator                  the list of its yields in order: `yield e` appends to the accumulator [out_];  `for x in self.g():` runs over the
                                 whole list g returned (faithful because the translated functions assign only their own locals: the
                                 translator rejects every store into self / a node / a line, so producer and consumer share no mutable state)
    deque                        a list: popleft = head ([t_popleft], None = IndexError on an empty deque), append = ++ [x]
    [0] * n / [False] * n        [repeat]; l[i] = [t_lget] (None = IndexError), l[i] = v = [t_lset]; indices are never negative (nat)
    np.zeros(n, dtype=np.uintK)  [repeat 0 n] : list nat whose elements wrap modulo 2^K under + ([t_uadd K]: numpy scalar arithmetic wraps)
    np.zeros(n, dtype=np.intK)   list Z, elements wrap into [-2^(K-1), 2^(K-1)) ([t_iadd K], [t_isub K]); storing a Python int outside the
                                 range raises OverflowError ([t_lset_i]: None)
    a[[i, j, ...]]               [t_take] (fancy index: the list of the selected elements; None = IndexError);  .max() = [t_max_Z] (None = ValueError
                                 on an empty selection)
    all(g) / sum(g) over booleans   [forallb] / number of true elements; list comprehensions = [map] / [filter] ([t_mapM] when the element can raise)
    while                        [t_while] with explicit fuel: None when the fuel runs out (the loop may not have terminated)
    every operation that can raise is option-valued and bound with [tbind] in Python's evaluation order; None = raised / left the domain *)
From Coq Require Import List NArith ZArith Bool Arith String.
From KV Require Import Model.Prims Model.Netlist.
Import ListNotations.
Local Open Scope list_scope.

Definition tbind {A B} (x : option A) (f : A -> option B) : option B :=
  match x with Some a => f a | None => None end.

(** for x in l: body -- the body returns the new values of the variables that live across iterations and whether it left by `break` *)
Fixpoint t_for {A S} (body : A -> S -> option (S * bool)) (l : list A) (s : S) : option S :=
  match l with
  | [] => Some s
  | x :: r => match body x s with
              | None => None
              | Some (s', true) => Some s'
              | Some (s', false) => t_for body r s'
              end
  end.

(** while c: body -- step returns (state, true) after an executed body, (state, false) when the test failed; None = raised or out of fuel *)
Fixpoint t_while {S} (fuel : nat) (step : S -> option (S * bool)) (s : S) : option S :=
  match fuel with
  | O => None
  | S f => match step s with
           | None => None
           | Some (s', true) => t_while f step s'
           | Some (s', false) => Some s'
           end
  end.

Definition t_index (p : option nat) : option nat := p.
Definition t_is_none {A} (o : option A) : bool := match o with None => true | Some _ => false end.
Definition t_nodes (c : netlist) : list nat := seq 0 (List.length (c_nodes c)).

Definition t_lget {A} (i : nat) (l : list A) : option A := nth_error l i.
Fixpoint t_set {A} (i : nat) (v : A) (l : list A) {struct l} : list A :=
  match l, i with
  | [], _ => []
  | _ :: r, O => v :: r
  | x :: r, S i' => x :: t_set i' v r
  end.
Definition t_lset {A} (i : nat) (v : A) (l : list A) : option (list A) :=
  if Nat.ltb i (List.length l) then Some (t_set i v l) else None.
Definition t_popleft {A} (q : list A) : option (A * list A) :=
  match q with [] => None | x :: r => Some (x, r) end.

(** numpy scalars of a fixed width: the value after wrap-around (computed in N / Z: 2^32 is never built in unary) *)
Definition t_uwrap (bits : N) (x : nat) : nat := N.to_nat (N.modulo (N.of_nat x) (N.pow 2 bits)).
Definition t_uadd (bits : N) (a b : nat) : nat := t_uwrap bits (a + b).
Definition t_iwrap (bits : N) (z : Z) : Z :=
  let half := Z.pow 2 (Z.of_N bits - 1) in ((z + half) mod (2 * half) - half)%Z.
Definition t_iadd (bits : N) (a b : Z) : Z := t_iwrap bits (a + b).
Definition t_isub (bits : N) (a b : Z) : Z := t_iwrap bits (a - b).
Definition t_irange (bits : N) (z : Z) : bool :=
  let half := Z.pow 2 (Z.of_N bits - 1) in Z.leb (- half) z && Z.ltb z half.
(** a[i] = v for a Python int v and a signed numpy array *)
Definition t_lset_i (bits : N) (i : nat) (v : Z) (l : list Z) : option (list Z) :=
  if t_irange bits v then t_lset i v l else None.

Fixpoint t_mapM {A B} (f : A -> option B) (l : list A) : option (list B) :=
  match l with
  | [] => Some []
  | x :: r => match f x with
              | None => None
              | Some y => match t_mapM f r with None => None | Some ys => Some (y :: ys) end
              end
  end.
Definition t_take {A} (idx : list nat) (l : list A) : option (list A) := t_mapM (fun i => t_lget i l) idx.
Definition t_max_Z (l : list Z) : option Z :=
  match l with [] => None | x :: r => Some (fold_left Z.max r x) end.
Definition t_count {A} (f : A -> bool) (l : list A) : nat := List.length (filter f l).

(** side conditions of the source = model theorems (Proofs/TraversalsSrcProofs.v) that come from the numpy dtypes the source declares:
    topological_order counts the seen input lines of a node in a uint32 array, topological_order_with_level stores levels in an int32 array *)
Definition u32_ok (c : netlist) : Prop :=
  forall m, m < List.length (c_nodes c) -> (N.of_nat (connected (n_ins (get_node c m))) < 2 ^ 32)%N.
Definition i32_ok (c : netlist) : Prop := (Z.of_nat (List.length (c_nodes c)) < 2147483648)%Z.
(** a (node, level) pair of the hand model (levels in nat) as the source yields it (Python int 0 or numpy int32) *)
Definition conv (p : nat * nat) : nat * Z := (fst p, Z.of_nat (snd p)).
