(** Gate-by-gate semantics of a netlist for value domains in which the meaning of a gate depends on the OP
    (opcode, output index, operand indices) and not only on the opcode: the timing simulator reads the delay table of
    every operand LINE and the capacity of the output index.  Same shape as Model/NetlistSem.v ([node_ok], [solution])
    and Model/AllocCheck.v ([istep], [iexec]); with [gsem o := sem (s_lut o)] they coincide.  Definitions only. *)
From Coq Require Import List NArith ZArith Bool Arith String.
From KV Require Import Model.Prims Model.Netlist Model.Heap Model.SimOps Model.AllocCheck Model.NetlistSem Gen.SimTables.
Import ListNotations.
Local Open Scope list_scope.

Definition mksop (l : N) (o a b cc d : nat) : sop :=
  {| s_lut := l; s_out := o; s_i0 := a; s_i1 := b; s_i2 := cc; s_i3 := d |}.

Section GExec.
  Context {V : Type} (gsem : sop -> V -> V -> V -> V -> V).
  (** operand k is READ through the alias map (the stem of a stripped fan-out branch); the op itself -- and with it the
      index of the operand line as written in the op table -- is handed to [gsem] unchanged *)
  Definition gstep (al : nat -> nat) (e : nat -> V) (o : sop) : nat -> V :=
    fun j => if Nat.eqb j (s_out o)
             then gsem o (e (al (s_i0 o))) (e (al (s_i1 o))) (e (al (s_i2 o))) (e (al (s_i3 o)))
             else e j.
  Definition gexec (al : nat -> nat) (ops : list sop) (e : nat -> V) : nat -> V := fold_left (gstep al) ops e.
End GExec.

Section GSem.
  Context {V : Type} (gsem : sop -> V -> V -> V -> V -> V) (zero : V).
  Variable c : netlist.
  Variable stim : nat -> V.
  (** [strip = true]: a (non-interface) fork is a plain wire, its outputs carry the value of its input pin 0;
      [strip = false]: a fork is a BUF1 gate like any other *)
  Variable strip : bool.
  Variable v : nat -> V.

  Definition gnode_ok (n : nat) : Prop :=
    let nd := get_node c n in
    let nl := List.length (c_lines c) in
    let pv k := pinv zero v (n_ins nd) k in
    let ix k := pin_or (n_ins nd) k nl in
    match iface_pos c n with
    | Some p =>
        let inp := nl + 3 + p in
        (forall o, pin (n_outs nd) 0 = Some o -> v o = gsem (mksop (lutv "BUF1") o inp nl nl nl) (stim p) zero zero zero) /\
        (if is_dff nd
         then forall o, pin (n_outs nd) 1 = Some o -> v o = gsem (mksop (lutv "INV1") o inp nl nl nl) (stim p) zero zero zero
         else forall k o, 0 < k -> pin (n_outs nd) k = Some o ->
                v o = gsem (mksop (lutv "BUF1") o inp nl nl nl) (stim p) zero zero zero)
    | None =>
        if is_fork nd then
          forall k o, pin (n_outs nd) k = Some o ->
            v o = if strip then pv 0
                  else gsem (mksop (lutv "BUF1") o (ix 0) (ix 1) (ix 2) (ix 3)) (pv 0) (pv 1) (pv 2) (pv 3)
        else
          match select_lut kind_prefixes (n_kind nd)
                           (negb (is_some (pin (n_ins nd) 2))) (negb (is_some (pin (n_ins nd) 3))) with
          | Some sp => forall o, pin (n_outs nd) 0 = Some o ->
                         v o = gsem (mksop sp o (ix 0) (ix 1) (ix 2) (ix 3)) (pv 0) (pv 1) (pv 2) (pv 3)
          | None => True
          end
    end.
  Definition gsolution : Prop := forall n, n < List.length (c_nodes c) -> gnode_ok n.
End GSem.
