#!/bin/bash
# tools/test_mutant_copy.sh <worktree dir> <prop> [<prop>...]
# like test_mutant.sh <dir>, but runs in a private copy of /verif (regenerated Gen files and .vo files depend on the repository under
# test), so it can run while other checks use /verif.  Logs stay in /tmp/mtlog_<name>/ ; the copy is removed.
wt=$1; shift
name=$(basename $wt); v=/tmp/mt_$name; L=/tmp/mtlog_$name
rm -rf $v $L; mkdir -p $L; cp -r /verif $v
for p in "$@"; do
  (cd $v && KYUPY_REPO=$wt VERIF_SEED=${VERIF_SEED:-0} ./check $p > $L/$p.log 2>&1)
  nv=$(grep -c "^VIOLATION" $L/$p.log); nf=$(grep "^VIOLATION" $L/$p.log | grep -vc "no-failing-input-found")
  echo "== $name $p: violations=$nv with-failing-input=$nf | $(grep -v '^#' $L/$p.log | tail -n 1 | cut -c1-160)"
done
rm -rf $v
