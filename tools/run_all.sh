#!/bin/bash
# runs every claimed check (quick by default) and reports; usage: tools/run_all.sh [quick|thorough] [jobs]
cd "$(dirname "$0")/.."
tier=${1:-quick}; jobs=${2:-4}
ids=$(python3 -c "import json; print(' '.join(c['property_id'] for c in json.load(open('MANIFEST.json'))['checks']))")
L=${KV_LOGDIR:-/tmp/kv_runall}; mkdir -p $L
echo $ids | tr ' ' '\n' | xargs -P $jobs -I{} sh -c "./check {} --tier $tier > $L/{}.log 2>&1; echo {} rc=\$? \$(tail -1 $L/{}.log)"
