#!/usr/bin/env python3
"""tools/integrate.py <work dir> <base commit> <relative path>...
Brings files written by a builder sub-agent (working in a private copy of /verif taken at <base commit>) into /verif:
new file -> copied; unchanged here since base -> copied; changed on both sides -> 3-way merge (git merge-file), conflicts reported."""
import os, subprocess, sys, shutil, tempfile

work, base = sys.argv[1], sys.argv[2]
for rel in sys.argv[3:]:
    src, dst = os.path.join(work, rel), os.path.join('/verif', rel)
    if not os.path.exists(src):
        print('MISSING in work copy:', rel); continue
    p = subprocess.run(['git', '-C', '/verif', 'show', f'{base}:{rel}'], capture_output=True)
    if not os.path.exists(dst) or p.returncode != 0:
        os.makedirs(os.path.dirname(dst), exist_ok=True)
        if os.path.exists(dst) and open(dst, 'rb').read() != open(src, 'rb').read():
            print('BOTH NEW, differ (kept /verif, work copy at', src, '):', rel); continue
        shutil.copy(src, dst); print('new      ', rel); continue
    basetxt = p.stdout
    if open(dst, 'rb').read() == basetxt:
        shutil.copy(src, dst); print('copied   ', rel); continue
    if open(src, 'rb').read() == basetxt:
        print('untouched', rel); continue
    with tempfile.NamedTemporaryFile(delete=False) as f:
        f.write(basetxt)
    r = subprocess.run(['git', 'merge-file', '-L', 'verif', '-L', 'base', '-L', 'agent', dst, f.name, src])
    os.unlink(f.name)
    print('merged   ' if r.returncode == 0 else f'CONFLICT ({r.returncode})', rel)
