#!/bin/bash
# tools/keep_mutant.sh <worktree dir> <seed id> "<caught by (free text)>"
# verifies the mutant's claims in its own worktree (tests pass with the change; demo fails with / passes without), stores it under
# /verif/seeded/<seed id>/ and removes the worktree.
wt=$1; id=$2; caught=$3
cd $wt || exit 2
export PYTHONPATH=$wt/src
t=$(timeout 900 /venv/bin/python -m pytest -q -p no:cacheprovider --timeout=900 2>&1 | tail -1)
/venv/bin/python -W ignore out/demo.py > /tmp/demo_with_$id.txt 2>&1; rc_with=$?
git diff -- src > /tmp/keep_$id.diff; git apply -R /tmp/keep_$id.diff
/venv/bin/python -W ignore out/demo.py > /tmp/demo_without_$id.txt 2>&1; rc_without=$?
git apply /tmp/keep_$id.diff; rm -f /tmp/keep_$id.diff
echo "tests: $t | demo with change rc=$rc_with | without rc=$rc_without"
mkdir -p /verif/seeded/$id
cp out/patch.diff out/demo.py /verif/seeded/$id/
/venv/bin/python - <<PY
import json
m=json.load(open('$wt/out/meta.json'))
m['verified'] = {'tests_with_change': '''$t''', 'demo_rc_with_change': $rc_with, 'demo_rc_without_change': $rc_without,
                 'how': 'pytest and demo.py run in a scratch git worktree of /repo with and without the patch (tools/keep_mutant.sh)'}
m['checks_run'] = '''$caught'''
json.dump(m, open('/verif/seeded/$id/meta.json','w'), indent=1)
PY
cd /; git -C /repo worktree remove --force $wt && echo removed $wt
