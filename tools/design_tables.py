"""Regenerates section 0 of DESIGN.md from /tmp/sec0.md-style template (tools/sec0_template.md), known_findings.json,
seeded/*/meta.json and the STATUS table below.  python3 tools/design_tables.py"""
import glob
import json
import os
import re

V = '/verif'
STATUS = [
 # id, theorems (what is proved for all inputs), tie, what is NOT a theorem
 ('C01', "LUTs = primitive functions; both 2-valued dispatch copies = LUT per lane; primitive selection; opcode injectivity; lane lifting; **build_ops_solution** (for every wf, comb.-acyclic netlist and stimulus the op list SimOps builds, executed gate by gate in any value domain, satisfies every node's equation), solution_unique; **end to end for all four c_reuse x strip_forks combinations** down to the compared model: logicsim_model_correct / sim_case2_correct (the list-memory model that is compared with the real LogicSim captures the unique gate-by-gate solution at every data line); **k cycles**: cycles_are_iter_sem, cycles_model_correct (memory carried over between cycles), cycle_next_state, cycles_no_data_line", 'T (SimTables, LogicSimDispatch) + C (SimOps.build, LogicSim s_to_c/c_prop/c_to_s/cycle: ops, levels, c_locs, s[0], s[1] after k cycles; line-level line_cycles per lane) + per-case evaluation of solution_b, certificates, hyps_all_b; targeted zero-slot-liveness circuits', 'circuits outside gates_known / forks_ok (output-less gates, unknown kinds): per-case certificate only'),
 ('C02', '4-/8-valued dispatch (plain and callback) = documented operator composition on all 8^4/4^4 tuples; X-soundness, init/final projection, Boolean restriction per primitive and for every op list and stimulus (logical relation); gate_by_gate, end_to_end_default and logicsim_model_correct (compared model sim_case8 = capture of the unique multi-valued solution, all options)', 'T + C (LogicSim m=4/8 end to end) + single-gate exhaustive sweep (every kind x all operand tuples)', '-'),
 ('C03', 'per gate evaluation (any LUT/operands/delays>=0/capacity>=4): termination, final value by parity (also under overflow), initial value, well-formedness; **circuit level**: for any op list every signal starts/ends at the Boolean evaluation of initial/final values; **flat memory**: flat_refines (c_prop on the flat waveform memory = line-level wexec / wacc under the region certificate), regions_check_sound; **memory level, all four option combinations** (round 3): build_regions_all (the region certificate holds for every build() result: derived from the allocator invariant), wavesim_model_alias / _nostrip / **wavesim_model_correct** (the compared model wsim_case is total and captures the unstripped line-level waveform at every data line; strip_forks under zero fork-input delay + monotone stems), wavesim_model_settles, wglue_hyps_check_sound', 'C (whole waveform memory, abuf, s[3..10] per lane; line-level wexec vs every tracked region; strip_forks in 30% of the cases; prediction of wavesim_model_correct vs s[3..10] / abuf inside the proved domain) + used-simulator rounds', 'abuf under strip_forks only through the alias run; float rounding off the integer grid'),
 ('C04', 'per gate: emit-is-sum, shift and scale equivariance (any k>0), strict monotonicity for polarity-free delays; **circuit level** for any op list: STA window, circuit_shift / circuit_scale (no side condition) with rerun forms, circuit_mono', 'C + line-level C + STA/shift/scale/monotonicity/emit-sum oracle + single-gate stress', '-'),
 ('C05', 'hazard soundness of the 8-valued algebra per primitive; no_change_no_edge per gate; **circuit level**: logic8_predicts_wave for any op list', 'T + C (both simulators) + small-circuit stress + directed pulse-gate stream; memory level: wavesim_model_predicted (all option combinations)', '-'),
 ('C06', 'memory level, all netlists, any value domain: options_irrelevant_spec / options_irrelevant / c_reuse_irrelevant / end_to_end_reuse (every c_reuse x strip_forks combination delivers the unstripped line-level value at every observed slot), c_reuse_same_interface; strip_forks_irrelevant (line level) also over k cycles; **timing level**: buf_zero_delay_identity (+ overflow case, + refuted for non-monotone input), wave_strip_forks_irrelevant (monotone stems) and _polfree, wave_strip_nonmonotone_refuted (= D26), dataset_selection[_lanes]; **wavesim_options_irrelevant** (memory level: any two option combinations give the compared timing model the same captures); launcher covers each in-range instance exactly once; lane independence; release order irrelevant', 'differential execution over all option/lane/code-path pairs incl. repeated propagation, dataset modes, 33..65 lanes over two cycles; line-level wexec_alias / wexec_sel vs real memory; Model/Launch.v vs the real MockCuda thread sequence; known finding D26', 'CPU vs GPU kernel bodies (differential); more lanes / lane permutation / sims=k at timing level (differential; the model is per lane)'),
 ('C07', 'levels_valid (greedy levelisation of every SSA-topological op list is an independent partition); build_ops_ssa, build_ops_ssa_strip, build_levels_valid[_strip], build_sched_cert (every build() result under any option), build_stems_defined, stems_are_chain_heads; perm_level_sound (any order inside levels, same signals); threads once', 'C (SimOps) + certificates per case + permuted-schedule / permuted-thread execution + launcher correspondence', 'sub-kernel interleavings'),
 ('C08', 'allocator: invariant for all histories, alloc_fresh, free_live, live_disjoint, high_water, free_commute; map: map_check_sound, **build_passes_certificate[_reuse,_all]** (all wf acyclic netlists of known primitives, all capacity vectors, all four option combinations), build_total[_reuse,_all], side conditions necessary / checkable, non-vacuity witnesses (three signals sharing a location)', 'C (Heap after every step; SimOps) + certificates per case + liveness oracle + hyps_all_b per generated circuit', '-'),
 ('C09', 'CInv for the empty circuit and preserved by ALL TWELVE public operations incl. **substitute** and **resolve_tlib_cells** (weak invariant through the five phases; loop skips removed instances as the code does since 11c77ac); lifted to all histories (history_inv_all); io entries stay live; canon(copy)=canon; stats; cinv_b sound; necessity witnesses for the four shape preconditions on implementations; refutation witnesses for the two pre-fix defects', 'C (full canonical state after every step of random/wild/instance/witness histories) + independent invariant oracle with shrinking', 'implementation circuits violating the shape preconditions (API misuse); stats with dunder-named kinds'),
 ('C10', "view_wf / history_view_wf; copy_view / pickle_view and copy_solution / pickle_solution; csol <-> solution; **eliminate_function**; eliminate_s_names[_perm]; **eliminate_state_order_refuted** (= D29); eliminate_order_kept; **library clause** (C10Lib): for every cell definition of the five libraries resolve keeps consistency, io, names and computes the implementation's / datasheet function on ALL rows -- all pins connected, each single pin unconnected, no output connected; exceptions = D15/D21/D22, each excepted instance refuted", 'C (view / s_names / s_nodes after every history step; implementation circuits and resolved hosts of all 263 definitions vs real TechLib / resolve_tlib_cells) + differential truth tables; known findings D15, D21, D22, D29', 'semantic theorem for substitute on arbitrary (non-library) implementations'),
 ('C11', "range/part-select names, sized constants, concat, port positions / io order; **bench from TEXT** (lexer+parser = lark's language, round trip, language characterisation, wiring from text); **Verilog module passes 0-2**: module_consistent, module_ports, module_pin_in/_out/_pins_only, module_assign, module_outputs, module_branchforks[_sets] (+ name-clash witness = D33), library pin tables injective", 'C (transformer helpers; what `module` receives vs model on generated / probe / wild modules; bench text vs lark incl. malformed) + generator-owned netlists in both formats incl. star-run comments', 'Verilog lark grammar; elaborated circuit -> function for Verilog (oracle + C10 + C01)'),
 ('C12', 'every bp8/bp4/mv operator k=1..4 = documented algebra; formats agree; Boolean restriction and De Morgan (any arity on {0,1}, k<=4 on eight values); lane lifting; unary operators traced IN PLACE (unary_inplace); **array layer** (round 3): index/offset bijection, numpy broadcasting rule + exact failure condition, broadcast_index, wrapper_elementwise / _exact / _out / _not / _not_out / _junk_irrelevant (mv_not/and/or/xor on arrays of ANY shape, with and without out=), transition_exact / _elementwise / _out, elem_algebra (element functions = traced kernels), wrapper_broadcast_refuted (= D35, old code)', 'T (LogicOps, incl. in-place traces) + exhaustive C + C of the array model against numpy on random shapes (rank 0..5, length-0/1 axes, either operand stretched, incompatible shapes, out= right / wrong / positional)', 'dtypes other than uint8; kernels with more than two operands at array level; out= overlapping an operand (outside the property reading); numpy primitive semantics (assumptions validated by correspondence)'),
 ('C13', 'returned counts = edges of the stored waveform; overflow-mark rule; no overflow => exact; capture_summary; prefix lemma; **circuit level**: wacc_running / wacc_final[_ssa] (accumulated activity = weighted edge sums), acc_once_check_sound, ovf_reach[_clean], circuit_capture; flat_capture; **memory level, all options**: wavesim_model_capture, wavesim_model_activity', 'C + line-level C (wacc vs abuf) + recount oracle with generator-owned a_ctrl (waveform read through the observed LINE, output slot must be its exact alias) + unlimited-capacity oracle + strip_forks in 30% of the cases + used-simulator rounds', 'capture with sd > 0'),
 ('C14', '**text level**: parse_cfile (every rendering of a file is parsed to its names and entries), parse/print round trip, ignored text and skipped items irrelevant, entry_kept[_any] (every written delay entry reaches the DelayFile under its instance); cells_none_lost (+ refuted for the pinned code), iopath/interconnect slot characterisation, edge qualifiers, empty triples, dataset axis; name_whitespace_ends_name (the repaired lexer: every \\s character ends a name)', 'C (lark raw tree vs parse_sdf on generated / mutated / malformed / probe texts; lexer probe; DelayFile contents, both arrays incl. exceptions) + ground-truth arrays', 'lark itself (behaviour on this grammar transcribed); float() beyond k/8 decimals'),
 ('C15', 'bp round trips (any shape), axis convention, render/parse tables (regenerated), pack/unpack for all dtypes, popcount; **any rank** (Model/NdArray.v): roundtrip_any_rank / _rank1 / _get, axis_convention_any_rank / _rank1, swapaxes_index, conv_low_rank', 'T (LogicTables) + C (numpy primitives; any-rank conversions on ranks 0..5 incl. length-0 axes, 0..9 planes) + oracle', 'numpy primitive semantics (assumptions validated by correspondence)'),
 ('C16', 'callback trace = op outputs in order; identity; upstream untouched; override = driven signal; callback dispatch copies = plain; **model_callback_correct** (the compared memory-level model with callback refines the op-list callback semantics for every build() result), model_override / identity / trace, sim_case8_cb_correct', 'T + C (call sequence + results) + cut-circuit oracle over option combinations', '-'),
 ('C17', 'Kahn: nodup, sources first, drivers first, complete (unconnected pins), levels, line order, reverse = mirror; **fan-in**: fanin_order, nodup, sound, complete_comb, exact_comb, unfold / comb_node / seq_node; prefix lookup lists integer keys in numeric order; wf_netlist_b/acyclic_b/acyclic_rev_b sound', 'C (exact sequences; _locs results) + graph/ground-truth oracles', 'regular-expression generality of _locs'),
 ('C18', '**text level**: exact accepted language (text_language, converse included), ignored blocks skipped iff balanced, layout / ignored statements irrelevant, parse/print round trip, chains / groups / calls as written; scan load/unload position with inversion parity, pi/po groups, interface = s_nodes, loc transition, per-pattern columns -- restated from TEXT; refutations for the pinned code', 'C (stil.parse vs parse_stil on generated / mutated / malformed / probe texts; patterns, maps, tests, responses, tests_loc) + ground truth', 'lark itself; the logic simulation inside tests_loc is an input of the model'),
 ('C19', 'pins once, names unique/expand, datasheet function of every family cell on all rows (regenerated libraries); **text_matches_translation** (Coq transcription of TechLib.__init__ on the five library strings = translated cell lists), expand_names = itertools product in order, exact distinctness condition (+ collision witness)', 'T (library strings emitted verbatim; TechLibs) + exhaustive C against TechLib.cells + TechLib(text) on generated library texts', 'family spec is trusted'),
 ('C20', '**text level** (text read as its word list, every writing of a well-formed tree parses to it, round trip); **callbacks** (every COMPONENTS / PINS / VIAS / NETS / SPECIALNETS statement exactly once in statement order, last wins on repeated names; rows / tracks / units in order; header / DIEAREA; points, nets, wires as written); wildcard resolution (structural + nearest-value iff), via location, via arrays (members iff, count, order, NoDup), per-layer/per-type listings, ROUTED accumulation, ROW arithmetic; composition def_of_text', "C (per callback, per file, text vs lark incl. rejected texts, lark's scanner tables; listings, points, vias) + ground truth of generated DEF texts", "lark's LALR table construction; code points >= 256"),
]


def status_table():
    rows = ['| id | proved for all inputs (Coq) | tie to the code | not a theorem |', '|---|---|---|---|']
    for r in STATUS:
        rows.append('| ' + ' | '.join(r) + ' |')
    return '\n'.join(rows)


def fix_tables():
    k = json.load(open(f'{V}/known_findings.json'))
    seen = {}
    for e in k:
        if e['status'] == 'fixed':
            seen.setdefault(e['commit'], []).append(e)
    rows = ['| commit | properties | what failed |', '|---|---|---|']
    for cm, es in seen.items():
        what = re.sub(r'^fixed: property=\S+ \S+ ', '', es[0]['what'])
        rows.append(f"| {cm} | {', '.join(sorted(set(e['property'] for e in es)))} | {what} |")
    known = ['| id | property | keys | what |', '|---|---|---|---|']
    for e in k:
        if e['status'] == 'known':
            known.append(f"| {e['id']} | {e['property']} | `{'`, `'.join(e['keys'])}` | {e['what']} |")
    return '\n'.join(rows), '\n'.join(known)


def seeded_table():
    rows = ['| seeded change | property | what it changes / needs | result |', '|---|---|---|---|']
    for d in sorted(glob.glob(f'{V}/seeded/*/meta.json')):
        m = json.load(open(d))
        sid = os.path.basename(os.path.dirname(d))
        rows.append(f"| {sid} | {m.get('property')} | {m.get('summary', '')[:260]} **Needs:** {m.get('needs', '')[:220]} | {m.get('checks_run', '')} |")
    return '\n'.join(rows)


def main():
    t = open(f'{V}/tools/sec0_template.md').read()
    fx, kn = fix_tables()
    t = t.replace('STATUS_TABLE', status_table()).replace('FIX_TABLE', fx).replace('KNOWN_TABLE', kn).replace('SEEDED_TABLE', seeded_table())
    d = open(f'{V}/DESIGN.md').read()
    a = d.index('## 0. As built') if '## 0. As built' in d else d.index('## 1. The code base')
    b = d.index('## 1. The code base')
    d = d[:a] + t.rstrip() + '\n\n---------------------------------------------------------------------------------------------------\n\n' + d[b:]
    open(f'{V}/DESIGN.md', 'w').write(d)
    print('DESIGN.md section 0 regenerated')


if __name__ == '__main__':
    main()
