"""prints the prompt for an isolated mutant-writing sub-agent: python3 tools/mutant_prompt.py C08 [variant]"""
import json, sys
pid = sys.argv[1]
variant = sys.argv[2] if len(sys.argv) > 2 else 'a'
p = next(json.loads(l) for l in open('/verif/properties.jsonl') if json.loads(l)['id'] == pid)
wt = f'/tmp/mut_{pid}{variant}'
import glob, os
prev = []
for d in sorted(glob.glob(f'/verif/seeded/{pid}*')):
    try:
        prev.append(json.load(open(d + '/meta.json'))['summary'][:260].replace('\n', ' '))
    except Exception:
        pass
prev_txt = ('\nIdeas ALREADY USED by earlier changes for this property (do NOT repeat these or close variants; pick another mechanism / code site):\n'
            + '\n'.join('  - ' + x + ' ...' for x in prev) + '\n') if prev and variant != 'a' else ''
FLAVOURS = {'e': '* For THIS change prefer one of: state carried from one API call to the next (an object used twice, a cache, a default argument), an interaction of '
                 'two features / options that each work alone, two cooperating edits in different functions or files that each look fine alone, or an input at the edge of the '
                 'documented domain (empty / single element / maximum arity / index 0 / repeated names).\n'}
FLAVOURS['f'] = ('* For THIS change: do NOT edit SimOps.__init__ or Heap in sim.py and not the _wave_eval kernel (earlier changes concentrated there) unless the property is anchored '
                 'nowhere else; prefer the OTHER anchored files and functions.  Prefer: an optional / rarely used parameter of a public function, a documented behaviour from a docstring, '
                 'a default value, an interaction of two public calls, or a helper that several public functions share.\n')
FLAVOURS['g'] = ('* For THIS change: do NOT edit SimOps.__init__ or Heap in sim.py and not the _wave_eval kernel unless the property is anchored nowhere else.  Prefer one of: a numeric '
                 'edge (dtype width / overflow, negative numbers, zero, very large fan-out or bus width), aliasing of numpy arrays / views (a result that shares memory with an input or with '
                 'internal state), a mutable default argument or class-level attribute shared between instances, reliance on dict / set iteration order, string handling of names '
                 '(case, escapes, brackets, leading digits), or an early return / exception path that leaves an object half-updated.\n')
FLAVOURS['h'] = ('* For THIS change: do NOT edit SimOps.__init__ or Heap in sim.py and not the _wave_eval kernel unless the property is anchored nowhere else.  Prefer one of: the boundary '
                 'between two modules (a value produced by one anchored file and consumed by another: pin tables, name conventions, array layouts, index offsets), a loop that handles the '
                 'FIRST or LAST element differently, a condition that is right for the common case of ONE item but wrong for zero or several (one clock, one scan chain, one output, one '
                 'dataset, one CELL block), sorting / ordering / de-duplication of results, or a size computed by rounding (cdiv, multiples of 8 / 32, padding).\n')
FLAVOURS['i'] = ('* For THIS change: think of a REALISTIC industrial flow rather than a toy input -- the change should be invisible on small tidy inputs and bite on what real designs '
                 'bring: many items (hundreds of cells / nets / patterns / chains, arrays beyond 64 KiB, indices with several digits), realistic names (hierarchical with dots or '
                 'slashes, escaped identifiers, bus bits, names that differ only in case or by a suffix, names that are prefixes of other names), items appearing in an unusual but '
                 'legal ORDER or POSITION (declarations late, ports in the middle of the node list, the same item referenced twice), or real library cells with unusual pin sets.\n')
flavour = FLAVOURS.get(variant, '')
print(f"""You are testing how good a (hidden) verification harness is. Your job: write ONE realistic, subtle change to the Python library
s-holst/kyupy that BREAKS the semantic property below while the library still imports and its existing test suite still passes.
You must NOT look at anything under /verif (it is off limits) — work only from the property text and the source code.

Setup (do this first): `git -C /repo worktree add --detach {wt} HEAD` and work ONLY inside {wt} (never edit /repo itself, never commit).
Run things with `cd {wt} && PYTHONPATH={wt}/src /venv/bin/python ...` (Python 3.12, numpy 2, lark; no numba: the pure-Python mocks of
numba/cuda in src/kyupy/__init__.py are what runs).  The test suite: `cd {wt} && PYTHONPATH={wt}/src /venv/bin/python -m pytest -q -p no:cacheprovider --timeout=900`
(takes about a minute; all 31 tests must still pass with your change).

PROPERTY {p['id']} — {p['title']}
{p['statement']}
Quantifier: {p['quantifier']['text']}
Anchored in: {', '.join(p['anchors']['files'])}

Requirements for the change:
* It must look like something a maintainer could plausibly commit (a refactoring slip, an off-by-one, a wrong index/polarity, a dropped
  special case, two sites that each look fine alone) — not sabotage with obvious markers; no new imports of random/time; at most ~10 changed lines.
* It must need something SPECIFIC to manifest: a particular multi-step sequence, an unusual but legal input, a particular option
  combination, a particular size/arity/alignment — not something that any ordinary use exposes at once (the existing tests must keep passing).
* It must genuinely violate the property as stated (not merely change an error message or performance).
{prev_txt}{flavour}{'* Prefer a DIFFERENT part of the anchored code than the most obvious one (e.g. not the first function you see); be creative.' if variant != 'a' else ''}

Deliverables, all under {wt}/out/ (create the directory):
1. `patch.diff` — output of `git -C {wt} diff` (only files under src/kyupy).
2. `demo.py` — a small stand-alone program (uses only kyupy + numpy) that exits 0 on the ORIGINAL code and exits 1 (printing what is wrong)
   with your change applied; run it both ways to confirm (inside your worktree: `git diff > out/p.diff; git apply -R out/p.diff; ...; git apply out/p.diff` -- never `git stash`, which is shared between worktrees), with PYTHONPATH={wt}/src.
3. `meta.json` — {{"property": "{p['id']}", "summary": "...", "needs": "what specific input/sequence/option it needs in order to manifest",
   "files": [...], "tests_pass": true}}.
Final answer: the summary, what it needs to manifest, and confirmation that (a) the 31 tests pass with the change, (b) demo.py fails with
it and passes without it.  Leave the worktree in place with the change applied.""")
