#!/bin/bash
# tools/test_mutant.sh <patch.diff | worktree dir> <prop> [<prop>...]
# worktree dir: runs the checks with KYUPY_REPO=<dir> (nothing in /repo changes: safe while other jobs read /repo).
# patch file : applies the patch to /repo, runs the checks, reverts.
src=$1; shift
if [ -d "$src" ]; then
  for p in "$@"; do
    out=$(cd /verif && KYUPY_REPO=$src ./check $p 2>&1 | grep -v "^#" | tail -3 | cut -c1-220)
    echo "== $p: $out"
  done
  git -C /verif checkout -- evidence   # a run against a seeded change must not leave its evidence behind
  exit 0
fi
git -C /repo status --short | grep -q . && { echo "/repo not clean"; exit 2; }
git -C /repo apply "$src" || { echo "patch does not apply"; exit 2; }
for p in "$@"; do
  out=$(cd /verif && ./check $p 2>&1 | grep -v "^#" | tail -3 | cut -c1-220)
  echo "== $p: $out"
done
git -C /repo checkout -- .
git -C /repo status --short
git -C /verif checkout -- evidence   # a run against a seeded change must not leave its evidence behind
