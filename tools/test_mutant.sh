#!/bin/bash
# tools/test_mutant.sh <patch.diff> <prop> [<prop>...] : applies the patch to /repo, runs the checks, reverts.
patch=$1; shift
git -C /repo status --short | grep -q . && { echo "/repo not clean"; exit 2; }
git -C /repo apply "$patch" || { echo "patch does not apply"; exit 2; }
for p in "$@"; do
  out=$(cd /verif && ./check $p 2>&1 | grep -v "^#" | tail -3 | cut -c1-220)
  echo "== $p: $out"
done
git -C /repo checkout -- .
git -C /repo status --short
