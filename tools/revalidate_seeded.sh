#!/bin/bash
# tools/revalidate_seeded.sh [jobs] : re-applies every seeded change to a scratch worktree of /repo's HEAD and runs the check of its
# property against it (KYUPY_REPO; /repo itself is untouched).  Each job works in its own copy of /verif (the regenerated Gen files and
# the .vo files depend on the repository under test, so runs against different repositories must not share a build directory).
# Prints one line per seeded change; exit 1 if any is missed.
cd "$(dirname "$0")/.."
jobs=${1:-4}
out=/tmp/kv_reval; rm -rf $out; mkdir -p $out
ls seeded > $out/all.txt
split -n r/$jobs -d $out/all.txt $out/part_
worker() {
  part=$1; k=$(basename $part); v=/tmp/reval_$k
  rm -rf $v; cp -r /verif $v
  for id in $(cat $part); do
    prop=${id:0:3}; wt=/tmp/seed_$id
    git -C /repo worktree remove --force $wt >/dev/null 2>&1; rm -rf $wt
    git -C /repo worktree add --detach $wt HEAD >/dev/null 2>&1 || { echo "$id worktree-failed"; continue; }
    if ! git -C $wt apply /verif/seeded/$id/patch.diff 2>/dev/null && ! git -C $wt apply --3way /verif/seeded/$id/patch.diff >/dev/null 2>&1; then
      echo "$id patch-does-not-apply"; git -C /repo worktree remove --force $wt; continue
    fi
    log=$(cd $v && KYUPY_REPO=$wt ./check $prop 2>&1); res=$(echo "$log" | grep -c "^VIOLATION")
    nf=$(echo "$log" | grep "^VIOLATION" | grep -vc "no-failing-input-found")
    echo "$id violations=$res with-failing-input=$nf"
    git -C /repo worktree remove --force $wt >/dev/null 2>&1
  done
  rm -rf $v
}
export -f worker
ls $out/part_* | xargs -P $jobs -I{} bash -c 'worker {}' | tee $out/result.txt
grep -q "violations=0\|does-not-apply\|failed" $out/result.txt && exit 1 || exit 0
